(* Props/C35.v — property C35: GDB remote-serial-protocol framing and acknowledgement are reliable.
   Only statements, [exact] of a lemma from Proofs/, and Print Assumptions.

   Model.Rsp is the hand model of /repo/ppci/binutils/dbg/gdb/rsp.py (tie H, correspondence in
   tools/props/c35.py).  [orig] = the code at ppci 1a712d0, [fixed] = the code with
   fixes/C35-decoder-nak.diff, C35-unescape-terminator.diff, C35-retry-off-by-one.diff applied.
   The *_refuted theorems are witnesses against [orig]; every positive theorem is stated for all
   configurations that contain the fix(es) it depends on, hence in particular for [fixed].
   Second round (section "receiver survival ..." below): [fixed] additionally contains
   fixes/C35-ack-queue-full.diff (full_fix), C35-stale-ack.diff (stale_fix),
   C35-decoder-non-ascii.diff (dec_fix), C35-checksum-digits.diff (hex_fix); [fixed3] is the code
   with the first three fixes only; the *_refuted theorems of that section show on a configuration
   with exactly one of these fixes missing that the hypothesis is necessary. *)
From PV Require Import Lib.Py Spec.RspSpec Model.Rsp Proofs.C35_frame Proofs.C35_lts Proofs.C35_live.
From PV Require Import Model.RspRegs Proofs.C35_regs.
Open Scope Z_scope.

(* --- framing ----------------------------------------------------------------------------- *)

(* the sender emits exactly the packet the protocol prescribes, and it is a well-formed packet *)
Theorem c35_pack_is_frame : forall payload,
  rsp_pack payload = frame payload /\ is_frame_of (frame payload) payload.
Proof. intros p. split; [apply rsp_pack_frame|apply frame_is_frame]. Qed.
Print Assumptions c35_pack_is_frame.

(* every ASCII payload, every chunking of the byte stream: the receiver stays silent until the
   last byte, then delivers exactly one message, the original payload (escapes undone), answers
   '+', and the decoder is back at its idle state *)
Theorem c35_frame_roundtrip : forall cf payload chunks,
  esc_fix cf = true ->
  forallb is_ascii_b payload = true ->
  concat chunks = rsp_pack payload ->
  feed_chunks cf DIdle chunks =
  (DIdle, repeat RNone (length (rsp_pack payload) - 1) ++ [RDeliver payload]).
Proof. exact frame_roundtrip. Qed.
Print Assumptions c35_frame_roundtrip.

(* the same for any conforming peer (e.g. lower-case check digits) *)
Theorem c35_good_frame_delivered : forall cf w payload,
  esc_fix cf = true -> is_frame_of w payload -> forallb is_ascii_b w = true ->
  rx_feed cf DIdle w = (DIdle, repeat RNone (length w - 1) ++ [RDeliver payload]).
Proof. exact good_frame_delivered. Qed.
Print Assumptions c35_good_frame_delivered.

(* unfixed code: payload "a'" — the packet never ends, nothing is delivered, no reply *)
Theorem c35_frame_roundtrip_refuted : exists payload,
  forallb is_ascii_b payload = true /\
  rx_feed orig DIdle (rsp_pack payload) =
    (DPkt (rsp_pack payload), repeat RNone (length (rsp_pack payload))).
Proof. exists [97; 39]. exact orig_quote_never_ends. Qed.
Print Assumptions c35_frame_roundtrip_refuted.

(* unfixed code: payload "a}b$" is delivered still escaped *)
Theorem c35_unescape_refuted : exists payload delivered,
  forallb is_ascii_b payload = true /\
  snd (rx_feed orig DIdle (rsp_pack payload)) =
    repeat RNone (length (rsp_pack payload) - 1) ++ [RDeliver delivered] /\
  delivered <> payload.
Proof.
  exists [97; 125; 98; 36], [97; 125; 93; 98; 125; 4].
  split; [apply orig_no_unescape|]. split; [apply orig_no_unescape|discriminate].
Qed.
Print Assumptions c35_unescape_refuted.

(* --- checksum ---------------------------------------------------------------------------- *)

Theorem c35_bad_checksum_nacked : forall cf w,
  esc_fix cf = true -> is_bad_checksum_frame w -> forallb is_ascii_b w = true ->
  rx_feed cf DIdle w = (DIdle, repeat RNone (length w - 1) ++ [RNak]).
Proof. exact bad_checksum_nacked. Qed.
Print Assumptions c35_bad_checksum_nacked.

Theorem c35_unparsable_checksum_nacked : forall cf body h1 h2,
  esc_fix cf = true -> ~ In 35 body ->
  forallb is_ascii_b (36 :: body ++ [35; h1; h2]) = true ->
  int16_2 h1 h2 = None ->
  rx_feed cf DIdle (36 :: body ++ [35; h1; h2]) = (DIdle, repeat RNone (length body + 3) ++ [RNak]).
Proof. exact unparsable_checksum_nacked. Qed.
Print Assumptions c35_unparsable_checksum_nacked.

(* --- acknowledgement / retransmission ---------------------------------------------------- *)

(* a '-' from the peer while sendpkt waits and has budget left: exactly one retransmission *)
Theorem c35_nak_retransmits : forall cf s wire r f,
  nak_fix cf = true -> retry_fix cf = true ->
  snd_ s = SWait wire r f -> 0 < r ->
  dec s = DIdle -> q s = None -> blk s = None -> dead s = false ->
  let s' := run cf s [LRecv 45; LGet] in
  out s' = out s ++ wire /\ snd_ s' = SWait wire (r - 1) false /\
  sent s' = S (sent s) /\ q s' = None /\ results s' = results s.
Proof. exact nak_retransmits. Qed.
Print Assumptions c35_nak_retransmits.

(* unfixed code: the '-' is skipped by the decoder; nothing is retransmitted, sendpkt can only
   time out *)
Theorem c35_nak_retransmits_refuted :
  let s := run orig init [LSend [115] 10] in
  let s' := run orig s [LRecv 45] in
  snd_ s = SWait (rsp_pack [115]) 10 true /\
  q s' = None /\ out s' = out s /\ step orig s' LGet = None /\
  results (run orig s' [LGet; LTimeout]) = [TimedOut].
Proof. exact orig_nak_dropped. Qed.
Print Assumptions c35_nak_retransmits_refuted.

(* sendpkt is the sender of the spec: for every sequence of acknowledgements *)
Theorem c35_sendpkt_is_sender_spec : forall cf acks r f,
  retry_fix cf = true -> 0 <= r ->
  (outcome_flag (fst (acks_run cf r f acks)), snd (acks_run cf r f acks)) =
  sender_spec (Z.to_nat r) acks.
Proof. intros cf acks r f H. now apply acks_run_spec. Qed.
Print Assumptions c35_sendpkt_is_sender_spec.

(* retry budget: at most 1 + retries transmissions, an ACK after k <= retries NAKs succeeds *)
Theorem c35_retry_budget : forall cf r f,
  retry_fix cf = true -> 0 <= r ->
  (forall acks, (snd (acks_run cf r f acks) <= S (Z.to_nat r))%nat) /\
  (forall k, (k <= Z.to_nat r)%nat ->
     acks_run cf r f (repeat 45 k ++ [43]) = (Some Acked, S k)).
Proof.
  intros cf r f Hf Hr. split; [intros acks; now apply retry_budget|].
  intros k Hk. now apply ack_within_budget.
Qed.
Print Assumptions c35_retry_budget.

(* ... and over every schedule of the LTS (acks, naks, junk, timeouts in any order) *)
Theorem c35_retry_budget_all_schedules : forall cf payload r tr,
  retry_fix cf = true -> 0 <= r -> no_send tr = true ->
  Z.of_nat (sent (run cf init (LSend payload r :: tr))) <= 1 + r.
Proof. exact budget_all_schedules. Qed.
Print Assumptions c35_retry_budget_all_schedules.

(* unfixed code: retries=1, NAK then ACK: the spec says acknowledged, sendpkt raises *)
Theorem c35_retry_budget_refuted :
  acks_run orig 1 true [45; 43] = (Some RetryFail, 2%nat) /\
  sender_spec 1 [45; 43] = (Some true, 2%nat).
Proof. exact orig_last_retry_raises. Qed.
Print Assumptions c35_retry_budget_refuted.

(* --- no loss, no duplication: every trace of the LTS ---------------------------------------- *)

(* inductive invariant: whatever the schedule, the receiver side of the state is a function of
   the bytes consumed so far *)
Theorem c35_rx_invariant : forall cf tr, rx_inv cf (run cf init tr).
Proof. intros cf tr. apply rx_inv_run, rx_inv_init. Qed.
Print Assumptions c35_rx_invariant.

(* for every schedule: once the receiver has consumed the packets / acks / junk the peer sent
   (and possibly a proper prefix of the next packet), exactly the payloads of those packets have
   been delivered, in order, once each, and one '+' was written per packet *)
Theorem c35_no_loss_no_dup : forall cf tr items pre,
  nak_fix cf = true -> esc_fix cf = true ->
  Forall item_ok items ->
  (pre = [] \/ exists p suf, forallb is_ascii_b p = true /\ rsp_pack p = pre ++ suf /\ suf <> []) ->
  rxlog (run cf init tr) = stream items ++ pre ->
  dlv (run cf init tr) = payloads items /\ rxout (run cf init tr) = expected_replies items.
Proof. exact no_loss_no_dup. Qed.
Print Assumptions c35_no_loss_no_dup.

(* --- receiver survival, stray acks, strict check digits, all byte values --------------------- *)

(* every schedule, every byte value (bytes are unconstrained integers here): the receiver thread is
   never terminated by an exception and never blocks in _ack_queue.put *)
Theorem c35_receiver_never_dies : forall cf tr,
  dec_fix cf = true -> full_fix cf = true ->
  dead (run cf init tr) = false /\ blk (run cf init tr) = None.
Proof. exact receiver_never_dies. Qed.
Print Assumptions c35_receiver_never_dies.

(* necessity: a byte >= 0x80 inside a packet kills the ascii-decoding receiver *)
Theorem c35_receiver_dies_non_ascii_refuted :
  dead (run fixed_but_dec init [LRecv 36; LRecv 97; LRecv 128; LRecv 35; LRecv 69; LRecv 49]) = true.
Proof. exact dies_without_dec_fix. Qed.
Print Assumptions c35_receiver_dies_non_ascii_refuted.

(* necessity: two acknowledgements with no sendpkt consuming them: queue.Full ends the thread *)
Theorem c35_receiver_dies_queue_full_refuted :
  dead (run fixed_but_full init [LRecv 43; LRecv 43; LPutTimeout]) = true.
Proof. exact dies_without_full_fix. Qed.
Print Assumptions c35_receiver_dies_queue_full_refuted.

(* whatever arrives while no send is pending, under any schedule, the next sendpkt starts with an
   empty acknowledgement queue and cannot complete before an acknowledgement arrives *)
Theorem c35_stray_ack_harmless : forall cf s tr p r,
  stale_fix cf = true -> snd_ s = SIdle -> no_send tr = true ->
  forallb is_ascii_b p = true ->
  let s2 := run cf (run cf s tr) [LSend p r] in
  q s2 = None /\ blk s2 = None /\ snd_ s2 = SWait (rsp_pack p) r true /\
  sent s2 = S (sent s) /\ results s2 = results s /\ step cf s2 LGet = None.
Proof. exact stray_ack_harmless. Qed.
Print Assumptions c35_stray_ack_harmless.

(* necessity: a '+' received before the send acknowledges a packet the peer never acknowledged *)
Theorem c35_stray_ack_refuted :
  let s := run fixed_but_stale init [LRecv 43; LSend [115] 10; LGet] in
  results s = [Acked] /\ rxlog s = [43] /\ sent s = 1%nat.
Proof. exact stale_ack_wrong_waiter_without_fix. Qed.
Print Assumptions c35_stray_ack_refuted.

(* a delivered packet had two hexadecimal check digits whose value is the checksum *)
Theorem c35_checksum_digits_strict : forall cf body h1 h2 p,
  esc_fix cf = true -> hex_fix cf = true ->
  decodepkt cf (36 :: body ++ [35; h1; h2]) = RDeliver p ->
  exists a b, hexval h1 = Some a /\ hexval h2 = Some b /\ 16 * a + b = checksum body /\
              unescape body = Some p.
Proof. exact checksum_digits_strict. Qed.
Print Assumptions c35_checksum_digits_strict.

(* necessity: "$\x05# 5" is delivered by int(" 5", 16) = 5 *)
Theorem c35_checksum_digits_refuted :
  snd (rx_feed fixed_but_hex DIdle [36; 5; 35; 32; 53]) = repeat RNone 4 ++ [RDeliver [5]] /\
  hexval 32 = None.
Proof. exact lenient_digits_without_hex_fix. Qed.
Print Assumptions c35_checksum_digits_refuted.

(* any packet-shaped byte string that is not a well-formed packet of some payload is answered '-' *)
Theorem c35_non_frame_nacked : forall cf body h1 h2,
  esc_fix cf = true -> hex_fix cf = true -> ~ In 35 body ->
  dec_fix cf || forallb is_ascii_b (36 :: body ++ [35; h1; h2]) = true ->
  (forall p, ~ is_frame_of (36 :: body ++ [35; h1; h2]) p) ->
  rx_feed cf DIdle (36 :: body ++ [35; h1; h2]) =
  (DIdle, repeat RNone (length body + 3) ++ [RNak]).
Proof. exact non_frame_nacked. Qed.
Print Assumptions c35_non_frame_nacked.

(* framing for arbitrary byte values (no ASCII hypothesis) once the decoder decodes latin-1 *)
Theorem c35_frame_roundtrip_bytes : forall cf payload chunks,
  esc_fix cf = true -> dec_fix cf = true ->
  concat chunks = rsp_pack payload ->
  feed_chunks cf DIdle chunks =
  (DIdle, repeat RNone (length (rsp_pack payload) - 1) ++ [RDeliver payload]).
Proof. exact frame_roundtrip_bytes. Qed.
Print Assumptions c35_frame_roundtrip_bytes.

Theorem c35_good_frame_delivered_bytes : forall cf w payload,
  esc_fix cf = true -> is_frame_of w payload -> dec_fix cf || forallb is_ascii_b w = true ->
  rx_feed cf DIdle w = (DIdle, repeat RNone (length w - 1) ++ [RDeliver payload]).
Proof. exact good_frame_delivered_gen. Qed.
Print Assumptions c35_good_frame_delivered_bytes.

Theorem c35_bad_checksum_nacked_bytes : forall cf w,
  esc_fix cf = true -> is_bad_checksum_frame w -> dec_fix cf || forallb is_ascii_b w = true ->
  rx_feed cf DIdle w = (DIdle, repeat RNone (length w - 1) ++ [RNak]).
Proof. exact bad_checksum_nacked_gen. Qed.
Print Assumptions c35_bad_checksum_nacked_bytes.

Theorem c35_no_loss_no_dup_bytes : forall cf tr items pre,
  nak_fix cf = true -> esc_fix cf = true -> dec_fix cf = true ->
  Forall item_ok_bytes items ->
  (pre = [] \/ exists p suf, rsp_pack p = pre ++ suf /\ suf <> []) ->
  rxlog (run cf init tr) = stream items ++ pre ->
  dlv (run cf init tr) = payloads items /\ rxout (run cf init tr) = expected_replies items.
Proof. exact no_loss_no_dup_bytes. Qed.
Print Assumptions c35_no_loss_no_dup_bytes.

(* retries <= 0: a single transmission, no retransmission; before the fix retries = 0 meant
   unbounded retransmission *)
Theorem c35_retry_nonpositive : forall cf r f acks,
  retry_fix cf = true -> r <= 0 -> (snd (acks_run cf r f acks) <= 1)%nat.
Proof. exact retry_nonpositive. Qed.
Print Assumptions c35_retry_nonpositive.

Theorem c35_retries_zero_unbounded_refuted : forall n,
  acks_run orig 0 true (repeat 45 (S n)) = (None, S (S n)).
Proof. exact orig_retries_zero_unbounded. Qed.
Print Assumptions c35_retries_zero_unbounded_refuted.

(* --- register and memory payloads of the client (Model.RspRegs = client.py) ------------------- *)

(* write_mem sends two hex digits per byte and read_mem decodes exactly that text back, for every
   byte string (binascii.b2a_hex / a2b_hex as used by GdbClient.write_mem / read_mem) *)
Theorem c35_mem_hex_roundtrip : forall data, Forall (fun b => 0 <= b < 256) data ->
  read_mem_reply (write_mem_data data) = Ok data /\
  length (write_mem_data data) = (2 * length data)%nat.
Proof. exact mem_roundtrip. Qed.
Print Assumptions c35_mem_hex_roundtrip.

(* whatever set_registers sends ("G " + hex block), a little-endian target that answers 'g' with
   that block makes _get_general_registers return the same values: for every register list
   (any number of 8/16/32/64-bit registers) and all values *)
Theorem c35_registers_roundtrip : forall regs vals cmd,
  length vals = length regs -> set_registers_cmd regs vals = Ok cmd ->
  firstn 2 cmd = [71; 32] /\ get_general_registers false regs (skipn 2 cmd) = Ok vals.
Proof. exact registers_roundtrip. Qed.
Print Assumptions c35_registers_roundtrip.

(* the hypothesis of c35_registers_roundtrip is met by all values that fit their registers, and the
   block has the size the registers add up to *)
Theorem c35_set_registers_defined : forall regs vals,
  length vals = length regs ->
  Forall2 (fun bs v => std_size (bs / 8) = true /\ 0 <= v < 2 ^ (8 * (bs / 8))) regs vals ->
  exists d, regs_block regs vals = Ok d /\
            Z.of_nat (length d) = fold_right (fun bs a => bs / 8 + a) 0 regs.
Proof. exact regs_block_defined. Qed.
Print Assumptions c35_set_registers_defined.

(* --- non-vacuity ----------------------------------------------------------------------------- *)
Example c35_nonvacuous :
  feed_chunks fixed DIdle [[36; 97]; [125; 93; 98; 125]; []; [4; 35; 49]; [69]] =
    (DIdle, repeat RNone 9 ++ [RDeliver [97; 125; 98; 36]]) /\
  concat [[36; 97]; [125; 93; 98; 125]; []; [4; 35; 49]; [69]] = rsp_pack [97; 125; 98; 36] /\
  (let s := run fixed init [LSend [115] 1; LRecv 45; LGet; LRecv 36; LRecv 79; LRecv 75; LRecv 35;
                            LRecv 57; LRecv 97; LRecv 43; LGet] in
   results s = [Acked] /\ sent s = 2%nat /\ dlv s = [[79; 75]] /\ rxout s = [43]) /\
  is_bad_checksum_frame [36; 97; 35; 54; 50] /\
  Forall item_ok [IFrame [79; 75]; IAck; INak; IJunk 0] /\
  (let s := run fixed init [LRecv 43; LRecv 45; LRecv 36; LRecv 200; LRecv 35; LRecv 67; LRecv 56;
                            LSend [115] 1; LGet; LRecv 43; LGet] in
   dead s = false /\ dlv s = [[200]] /\ results s = [Acked] /\ sent s = 1%nat).
Proof.
  split; [vm_compute; reflexivity|]. split; [vm_compute; reflexivity|].
  split; [vm_compute; repeat split|]. split.
  - exists [97], 54, 50, 6, 2. repeat split; try reflexivity.
    + intros [H|[]]; discriminate.
    + vm_compute. discriminate.
  - split; [repeat constructor; discriminate|]. vm_compute. repeat split.
Qed.

Example c35_regs_nonvacuous :
  set_registers_cmd [32; 8; 16; 64] [305419896; 255; 513; 1] =
    Ok [71; 32; 55; 56; 53; 54; 51; 52; 49; 50; 102; 102; 48; 49; 48; 50;
        48; 49; 48; 48; 48; 48; 48; 48; 48; 48; 48; 48; 48; 48; 48; 48] /\
  get_general_registers false [32; 8; 16; 64]
    [55; 56; 53; 54; 51; 52; 49; 50; 70; 70; 48; 49; 48; 50;
     48; 49; 48; 48; 48; 48; 48; 48; 48; 48; 48; 48; 48; 48; 48; 48] = Ok [305419896; 255; 513; 1] /\
  read_mem_reply (write_mem_data [0; 127; 128; 255]) = Ok [0; 127; 128; 255].
Proof. vm_compute. repeat split. Qed.
