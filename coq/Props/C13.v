(* Props/C13.v — property C13: linker relaxation preserves program behaviour.
   Statements only; proofs in Proofs/C13_*.v.  Model: Model/Relax.v (do_relaxations, _apply_relaxation_holes)
   on top of Model/Reloc.v (can_shrink, do_shrink, apply); Spec: Spec/RelocSpec.v (jal / c.j / c.jal). *)
From PV Require Import Lib.Py Spec.RelocSpec Gen.bitfun Model.Reloc Model.Relax
  Proofs.C11_final Proofs.C13_relax Proofs.C13_final Proofs.C13_compose Proofs.C13_holes.
Open Scope Z_scope.

(* byte deletion (reverse order, as the code does it) realises new_off o = o - (sizes of the holes that start
   before o) on every byte outside the holes, for sorted pairwise disjoint holes inside the section *)
Theorem c13_holes_shift_consistent : forall holes lo data,
  0 <= lo -> holes_ok lo holes -> holes_end lo holes <= len data ->
  exists d', punch data holes = Ok d' /\ len d' = len data - sum_holes holes /\
    (forall o, 0 <= o < len data -> ~ in_hole o holes -> nthd d' (new_off holes o) = nthd data o).
Proof. exact punch_spec. Qed.
Print Assumptions c13_holes_shift_consistent.

(* every symbol of a section and every relocation moves to new_off of its old offset *)
Theorem c13_symbols_shift_consistent : forall hm y sn, y_sec y = Some sn ->
  y_val (shift_symbol hm y) = new_off (hm sn) (y_val y) /\ y_sec (shift_symbol hm y) = Some sn /\
  y_id (shift_symbol hm y) = y_id y.
Proof. exact shift_symbol_spec. Qed.
Print Assumptions c13_symbols_shift_consistent.

Theorem c13_relocs_shift_consistent : forall hm r,
  r_off (shift_reloc hm r) = new_off (hm (r_sec r)) (r_off r) /\ r_sec (shift_reloc hm r) = r_sec r /\
  r_sym (shift_reloc hm r) = r_sym r /\ r_kind (shift_reloc hm r) = r_kind r.
Proof. exact shift_reloc_spec. Qed.
Print Assumptions c13_relocs_shift_consistent.

(* the instruction that followed a hole lands exactly where the hole started *)
Theorem c13_hole_closes : forall lo ho hs r, holes_ok lo ((ho, hs) :: r) -> 0 < hs ->
  new_off ((ho, hs) :: r) (ho + hs) = ho.
Proof. exact new_off_hole_end. Qed.
Print Assumptions c13_hole_closes.

(* per image: a section moves down by the total hole size of the sections placed before it in that image *)
Theorem c13_sections_shift_consistent : forall hm names delta pre n post,
  names = pre ++ n :: post -> ~ In n pre -> ~ In n post ->
  lookup_delta (shift_image_secs hm names delta) n = delta + sum_changes hm pre.
Proof. exact shift_image_secs_spec. Qed.
Print Assumptions c13_sections_shift_consistent.

(* a shrunk jump, relocated by its replacement relocation at the shifted addresses, is a c.j / c.jal that
   goes exactly to the (shifted) symbol address *)
Theorem c13_targets_preserved : forall k A S P data S' P', is_relaxable k -> bytes_ok 4 data ->
  S mod 2 = 0 -> P mod 2 = 0 -> S' mod 2 = 0 -> P' mod 2 = 0 -> fits_signed 12 (S' - P') ->
  exists d2 d3, do_shrink k S P data = Ok (d2, RvcBcImm11) /\ apply RvcBcImm11 A S' d2 P' = Ok d3 /\
    bytes_ok 2 d3 /\ rvc_j_target (le_word d3) P' = S' /\
    (if rkind_beq k RvcCBImm11 then is_cj (le_word d3) else is_cjal (le_word d3)) = true.
Proof. exact shrunk_keeps_target. Qed.
Print Assumptions c13_targets_preserved.

(* c.j / c.jal are equivalent to j / jal ra for the same relative target *)
Theorem c13_shrunk_equiv : forall k (w32 w16 P P' : Z), is_relaxable k -> rv_rd w32 = shrunk_link_reg k ->
  rv_jal_target w32 P - P = rvc_j_target w16 P' - P' ->
  let j32 := sem_jal w32 P in
  let j16 := (if rkind_beq k RvcCBImm11 then sem_cj w16 P' else sem_cjal w16 P') in
  jump_equiv 4 2 P P' j32 j16 (fun t t' => t - P = t' - P').
Proof. exact shrunk_equiv. Qed.
Print Assumptions c13_shrunk_equiv.

(* ... but do_shrink never looks at rd: jal x5 within +-2 KiB becomes c.jal, which links ra *)
Theorem c13_jal_rd_refuted :
  exists data d2 S P, is_jal (le_word data) = true /\ rv_rd (le_word data) = 5 /\
    can_shrink RvcCBlImm11 S P = Ok true /\ do_shrink RvcCBlImm11 S P data = Ok (d2, RvcBcImm11) /\
    is_cjal (le_word d2) = true /\
    ~ (let '(JumpSem _ r32 _) := sem_jal (le_word data) P in
       let '(JumpSem _ r16 _) := sem_cjal (le_word d2) P in r32 = r16).
Proof. exact jal_rd_refuted. Qed.
Print Assumptions c13_jal_rd_refuted.

(* section addresses are shifted without re-aligning *)
Theorem c13_alignment_refuted :
  exists secs syms rels images secs' syms' rels',
    Forall (fun s => s_addr s mod 4 = 0) secs /\
    do_relaxations secs syms rels images = Ok (secs', syms', rels') /\
    exists s, In s secs' /\ s_addr s mod 4 <> 0.
Proof. exact alignment_refuted. Qed.
Print Assumptions c13_alignment_refuted.

(* ---- end-to-end composition, per jump site (restated from "for every object": the fold over all relocations of
   an arbitrary object is validated by correspondence; this is the composition of byte patching, hole punching,
   offset shifting and relocation for ONE site, for arbitrary holes of its section).
   The hypothesis [fits_signed ..] on the post-relaxation distance is explicit: it is exactly what fails when a
   jump into another memory image gets farther (known finding cross_image_distance_grows). *)
Theorem c13_relax_link_site_shrunk : forall k A S P old4 d2 holes data d' b addr' S',
  is_relaxable k -> bytes_ok 4 old4 -> S mod 2 = 0 -> P mod 2 = 0 ->
  do_shrink k S P old4 = Ok (d2, RvcBcImm11) ->
  sliceZ data b (b + 2) = d2 ->
  holes_ok 0 holes -> holes_pos holes -> holes_end 0 holes <= len data ->
  0 <= b -> b + 2 <= len data -> (forall o, b <= o < b + 2 -> ~ in_hole o holes) ->
  punch data holes = Ok d' ->
  let b' := new_off holes b in
  let P' := addr' + b' in
  S' mod 2 = 0 -> P' mod 2 = 0 ->
  fits_signed 12 (S' - P') ->
  exists d3, apply RvcBcImm11 A S' (sliceZ d' b' (b' + 2)) P' = Ok d3 /\ bytes_ok 2 d3 /\
    rvc_j_target (le_word d3) P' = S' /\
    (if rkind_beq k RvcCBImm11 then is_cj (le_word d3) else is_cjal (le_word d3)) = true.
Proof. exact relax_link_site_shrunk. Qed.
Print Assumptions c13_relax_link_site_shrunk.

Theorem c13_relax_link_site_kept : forall k A holes data d' b addr' S',
  is_jtype k -> bytes_ok 4 (sliceZ data b (b + 4)) ->
  holes_ok 0 holes -> holes_pos holes -> holes_end 0 holes <= len data ->
  0 <= b -> b + 4 <= len data -> (forall o, b <= o < b + 4 -> ~ in_hole o holes) ->
  punch data holes = Ok d' ->
  let b' := new_off holes b in
  let P' := addr' + b' in
  S' mod 2 = 0 -> P' mod 2 = 0 -> fits_signed 21 (S' - P') ->
  exists d3, apply k A S' (sliceZ d' b' (b' + 4)) P' = Ok d3 /\ bytes_ok 4 d3 /\
    rv_jal_target (le_word d3) P' = S' /\
    bits (le_word d3) 0 12 = bits (le_word (sliceZ data b (b + 4))) 0 12.
Proof. exact relax_link_site_kept. Qed.
Print Assumptions c13_relax_link_site_kept.

(* ---- wave 5: the hole lists do_relaxations builds satisfy the premises of the theorems above.  For ANY object on
   which the candidate loop of do_relaxations (scan_relocs: can_shrink, do_shrink, the three asserts, byte patching)
   succeeds: if the relocations of section [sec] sit at non-negative offsets at least 4 bytes apart (distinct 32-bit
   instruction sites; [apart (offs_of sec rels)]), then holes_map[sec] after sorted() is sorted, pairwise disjoint and
   made of positive holes — whatever the order of the relocation list and whichever subset is shrunk *)
Theorem c13_holes_of_relaxation_ok : forall secs syms rels secs' lst sec,
  scan_relocs secs syms rels = Ok (secs', lst) -> apart (offs_of sec rels) ->
  holes_ok 0 (holes_of lst sec) /\ holes_pos (holes_of lst sec).
Proof. exact holes_of_ok. Qed.
Print Assumptions c13_holes_of_relaxation_ok.

(* ... and every hole is exactly the second halfword of a relocation site of that section *)
Theorem c13_holes_are_site_halves : forall secs syms rels secs' lst sec h,
  scan_relocs secs syms rels = Ok (secs', lst) -> In h (holes_of lst sec) ->
  exists r, In r rels /\ r_sec r = sec /\ h = (r_off r + 2, 2).
Proof. exact holes_of_sites. Qed.
Print Assumptions c13_holes_are_site_halves.

Example c13_holes_nonvacuous :
  let secs := [mkSec 1 0 [111; 0; 0; 0; 19; 0; 0; 0; 111; 0; 0; 0; 19; 0; 0; 0]] in
  let syms := [mkSym 1 false (Some 1) 4] in
  let rels := [mkRel RvcCBImm11 1 1 8 0; mkRel RvcCBImm11 1 1 0 0] in
  (apart (offs_of 1 rels) /\
   exists secs' lst, scan_relocs secs syms rels = Ok (secs', lst) /\ holes_of lst 1 = [(2, 2); (10, 2)])%type.
Proof. exact holes_of_nonvacuous. Qed.

Example c13_nonvacuous :
  holes_ok 0 [(2, 2); (10, 2)] /\ punch [1; 2; 3; 4; 5; 6; 7; 8; 9; 10; 11; 12] [(2, 2); (10, 2)] = Ok [1; 2; 5; 6; 7; 8; 9; 10] /\
  new_off [(2, 2); (10, 2)] 12 = 8.
Proof. vm_compute. repeat split; discriminate. Qed.
