(* Props/C24.v — property C24: the IR -> Python backend executes IR semantics exactly.
   Only statements, [exact] of a lemma from Proofs/C24_ir2py.v, and Print Assumptions.
   Runtime helpers (correct, idiv, irem, ishl, ishr) and the load/store table are Gen.ir2py_runtime,
   regenerated on every run from the text EMITTED by /repo/ppci/lang/python/ir2py.py; the statement
   generators are Model.Ir2Py (hand model, text and value correspondence on every run).
   All arithmetic theorems hold for every width bits t > 0 and every in-range operand. *)
From PV Require Import Lib.Py Spec.IRSemArith Gen.ir2py_runtime Model.Ir2Py Proofs.C24_ir2py.
From PV Require Spec.IRSyntax Spec.IRSem.
From PV Require Import Model.Ir2PyFunc Proofs.C24_func Model.Ir2PyRot Proofs.C24_rot Model.Ir2PyMod Proofs.C24_mod.
From PV Require Import Model.Ir2PyRt Proofs.C24_rt.
From Coq Require Import String.
Open Scope Z_scope.

(* + - * / % | & ^ << >> : the two emitted statements compute the IR result whenever it is defined *)
Theorem c24_binop_exact : forall op t a b v,
  0 < bits t -> op <> Rol /\ op <> Ror -> in_range t a -> in_range t b ->
  sem_binop op t a b = Some v -> py_binop op t a b = Ok v.
Proof. exact binop_exact. Qed.
Print Assumptions c24_binop_exact.

(* results stay in range, so "operands in range" is an invariant of emitted code *)
Theorem c24_binop_in_range : forall op t a b v,
  0 < bits t -> in_range t a -> in_range t b -> sem_binop op t a b = Some v -> in_range t v.
Proof. exact binop_in_range. Qed.
Print Assumptions c24_binop_in_range.

(* sanity of the specification's wrap: the unique in-range value congruent modulo 2^bits *)
Theorem c24_wrap_characterised : forall t v, 0 < bits t ->
  in_range t (wrap t v) /\ (exists k, wrap t v = v + k * 2 ^ bits t) /\ (in_range t v -> wrap t v = v).
Proof. intros t v H. split; [now apply wrap_in_range|]. split; [now apply wrap_congr|]. now apply wrap_id. Qed.
Print Assumptions c24_wrap_characterised.

(* known finding: rol / ror are IR binops but the emitted text "a rol b" is not Python *)
Theorem c24_binop_rol_refuted :
  exists t a b v, in_range t a /\ in_range t b /\ sem_binop Rol t a b = Some v /\
                  py_binop Rol t a b = Internal (OtherI 1).
Proof. exact binop_rol_refuted. Qed.
Print Assumptions c24_binop_rol_refuted.

(* the repaired lowering (fixes/C24-rol-ror.diff: r = rt.irol(a, b, bits); r = rt.correct(...)) is exact *)
Theorem c24_binop_rot_exact : forall op t a b v,
  0 < bits t -> (op = Rol \/ op = Ror) -> in_range t a -> in_range t b ->
  sem_binop op t a b = Some v -> py_rot op t a b = Ok v.
Proof. exact rot_exact. Qed.
Print Assumptions c24_binop_rot_exact.

Theorem c24_unop_exact : forall op t a, 0 < bits t -> py_unop op t a = Ok (sem_unop op t a).
Proof. exact unop_exact. Qed.
Print Assumptions c24_unop_exact.

Theorem c24_cmp_exact : forall c a b, py_cmp c a b = sem_cmp c a b.
Proof. exact cmp_exact. Qed.
Print Assumptions c24_cmp_exact.

(* integer -> integer casts (either variant of gen_cast) *)
Theorem c24_cast_int_exact : forall cv dst a, 0 < bits dst -> py_cast_int cv dst a = Ok (sem_cast_int dst a).
Proof. exact cast_int_exact. Qed.
Print Assumptions c24_cast_int_exact.

(* float -> integer: /repo emits int(round(x)), which rounds half-to-even instead of truncating *)
Theorem c24_cast_float_to_int_refuted :
  exists dst x v, 0 < bits dst /\ sem_cast_float dst x = Some v /\
                  exists w, py_cast_float CastRound dst x = Ok w /\ w <> v.
Proof. exact cast_float_round_refuted. Qed.
Print Assumptions c24_cast_float_to_int_refuted.

(* the repaired generator (fixes/C24-cast-trunc.diff: int(x)) is exact *)
Theorem c24_cast_float_to_int_exact : forall dst x v, 0 < bits dst ->
  sem_cast_float dst x = Some v -> py_cast_float CastTrunc dst x = Ok v.
Proof. exact cast_float_trunc_exact. Qed.
Print Assumptions c24_cast_float_to_int_exact.

(* phis: the tuple assignment emitted for ONE edge is the simultaneous phi semantics (swaps included) *)
Theorem c24_phi_parallel : forall (V : Type) (target : list (nat * nat)) (en : @env V),
  NoDup (map fst target) -> (forall p, In p target -> lookup en (snd p) <> None) ->
  exists en', fill_phis_edge target en = Ok en' /\ forall x, lookup en' x = sem_phi_edge target en x.
Proof. exact phi_edge_parallel. Qed.
Print Assumptions c24_phi_parallel.

(* /repo's fill_phis assigns the phis of ALL successors at the end of the block ... *)
Theorem c24_phi_all_successors_behaviour : forall (V : Type) (succs : list (list (nat * nat))) (en : @env V),
  NoDup (map fst (List.concat succs)) -> (forall p, In p (List.concat succs) -> lookup en (snd p) <> None) ->
  exists en', fill_phis_all succs en = Ok en' /\
              forall x, lookup en' x = sem_phi_edge (List.concat succs) en x.
Proof. exact phi_all_behaviour. Qed.
Print Assumptions c24_phi_all_successors_behaviour.

(* ... which is not the semantics of the edge taken: a phi of the other successor that is still
   live is overwritten (loop whose header phi is used after the exit from the latch) *)
Theorem c24_phi_taken_edge_refuted :
  exists (succs : list (list (nat * nat))) taken (en : @env Z) x,
    In taken succs /\ NoDup (map fst (List.concat succs)) /\
    exists en', fill_phis_all succs en = Ok en' /\ lookup en' x <> sem_phi_edge taken en x.
Proof. exact phi_all_refuted. Qed.
Print Assumptions c24_phi_taken_edge_refuted.

(* load / store of every IR integer type through the emitted helpers: little-endian two's complement,
   store-then-load returns the value, nothing outside [a, a + size) changes *)
Theorem c24_loadstore_exact : forall t mem a v,
  In t ir_int_types -> 0 <= a -> a + bits t / 8 <= len mem -> in_range t v ->
  exists mem', store (ity_name t) mem a v = Ok mem' /\ len mem' = len mem /\
    read_mem mem' a (bits t / 8) = Ok (sem_store t v) /\
    load (ity_name t) mem' a = Ok v /\
    firstn (Z.to_nat a) mem' = firstn (Z.to_nat a) mem /\
    skipn (Z.to_nat (a + bits t / 8)) mem' = skipn (Z.to_nat (a + bits t / 8)) mem.
Proof. exact loadstore_exact. Qed.
Print Assumptions c24_loadstore_exact.

Theorem c24_load_exact : forall t mem a,
  In t ir_int_types -> 0 <= a -> a + bits t / 8 <= len mem -> Forall (fun b => 0 <= b < 256) mem ->
  load (ity_name t) mem a = Ok (sem_load t (sliceZ mem a (a + bits t / 8))).
Proof. exact load_exact. Qed.
Print Assumptions c24_load_exact.

(* flagged: ptr values live in memory as 4-byte signed integers *)
Theorem c24_ptr_is_4_byte_signed :
  ls_row "ptr" = Some ("i", 4, "i")%string /\ forall mem, store "ptr" mem 0 (2 ^ 31) = Internal StructError.
Proof. split; [exact ptr_is_i32 | exact ptr_store_high_address_fails]. Qed.
Print Assumptions c24_ptr_is_4_byte_signed.

(* ---- whole functions: the emitted `while True:` block dispatcher simulates the IR semantics.
   Model.Ir2PyFunc.compile_func = generate_function for the integer / branch / phi / return fragment
   (i8..u64 constants in range, + - * / % | & ^ << >>, unary - ~, int->int casts, phis, jump, cjump,
   return; printed text compared with the real emitted text for generated CFGs on every run);
   run_pfunc = the CPython meaning of that text.  For every well-formed module, every function of the
   fragment and all integer arguments in range: whenever the reference semantics Spec.IRSem.run_function
   terminates with a value (no undefined behaviour), the emitted Python function returns that value, for
   every sufficiently large bound on the number of loop iterations.  Unbounded over functions, CFG shapes,
   loops and fuel; for both ways of releasing the stack at return (st: /repo's rt.free(<static>) and the
   repaired stack mark).  Calls, memory, alloc, floats, ptr, rol/ror, Undefined are outside the fragment
   (compile_func = None). *)
Theorem c24_block_switch_simulates : forall st c m fname f pf zs s fuel v s',
  IRSyntax.wf_modul m = true -> IRSyntax.find_func m fname = Some f -> compile_func_s st f = Some pf ->
  Forall2 (fun z p => exists it, ity_of (snd p) = Some it /\ in_range it z) zs (IRSyntax.f_params f) ->
  IRSem.run_function c m fname (map IRSem.Vint zs) s fuel = IRSem.ODone (Some (IRSem.Vint v), s') ->
  exists F, forall F', (F <= F')%nat -> run_pfunc F' pf zs = Ok v.
Proof. exact block_switch_simulates_wf. Qed.
Print Assumptions c24_block_switch_simulates.

(* the same with the computable side condition names_okb instead of wf_modul *)
Theorem c24_block_switch_simulates_names : forall st c m fname f pf zs s fuel v s',
  IRSyntax.find_func m fname = Some f -> compile_func_s st f = Some pf -> names_okb f = true ->
  Forall2 (fun z p => exists it, ity_of (snd p) = Some it /\ in_range it z) zs (IRSyntax.f_params f) ->
  IRSem.run_function c m fname (map IRSem.Vint zs) s fuel = IRSem.ODone (Some (IRSem.Vint v), s') ->
  exists F, forall F', (F <= F')%nat -> run_pfunc F' pf zs = Ok v.
Proof. exact block_switch_simulates. Qed.
Print Assumptions c24_block_switch_simulates_names.

(* non-vacuous: a loop that swaps two phis n times (a, b = b, a), 5 iterations *)
Definition c24_swap_modul : IRSyntax.modul :=
  IRSyntax.mk_modul "ex" [] []
  [IRSyntax.mk_func "swap" IRSyntax.BGlobal (Some IRSyntax.I32) [("n"%string, IRSyntax.I32)]
   [IRSyntax.mk_block 1 "entry" [IRSyntax.IConst 1 "k3" IRSyntax.I32 (IRSyntax.CInt 1);
                                 IRSyntax.IConst 2 "k4" IRSyntax.I32 (IRSyntax.CInt 2);
                                 IRSyntax.IConst 3 "k5" IRSyntax.I32 (IRSyntax.CInt 0); IRSyntax.IJump 2];
    IRSyntax.mk_block 2 "hdr" [IRSyntax.IPhi 4 "a" IRSyntax.I32 [(1%positive, IRSyntax.Loc 1); (3%positive, IRSyntax.Loc 5)];
                               IRSyntax.IPhi 5 "b" IRSyntax.I32 [(1%positive, IRSyntax.Loc 2); (3%positive, IRSyntax.Loc 4)];
                               IRSyntax.IPhi 6 "i" IRSyntax.I32 [(1%positive, IRSyntax.Loc 3); (3%positive, IRSyntax.Loc 8)];
                               IRSyntax.ICJump (IRSyntax.Loc 6) IRSyntax.Clt (IRSyntax.Param 0) 3 4];
    IRSyntax.mk_block 3 "body" [IRSyntax.IConst 7 "k1" IRSyntax.I32 (IRSyntax.CInt 1);
                                IRSyntax.IBinop 8 "i2" IRSyntax.I32 IRSyntax.Add (IRSyntax.Loc 6) (IRSyntax.Loc 7);
                                IRSyntax.IJump 2];
    IRSyntax.mk_block 4 "ex" [IRSyntax.IBinop 9 "r" IRSyntax.I32 IRSyntax.Sub (IRSyntax.Loc 4) (IRSyntax.Loc 5);
                              IRSyntax.IConst 10 "k2" IRSyntax.I32 (IRSyntax.CInt 10);
                              IRSyntax.IBinop 11 "r2" IRSyntax.I32 IRSyntax.Mul (IRSyntax.Loc 9) (IRSyntax.Loc 10);
                              IRSyntax.IBinop 12 "r3" IRSyntax.I32 IRSyntax.Add (IRSyntax.Loc 11) (IRSyntax.Loc 4);
                              IRSyntax.IReturn (IRSyntax.Loc 12)]]]%string.
Example c24_block_switch_nonvacuous :
  IRSyntax.wf_modul c24_swap_modul = true /\
  exists f pf s', IRSyntax.find_func c24_swap_modul "swap" = Some f /\ compile_func f = Some pf /\
    IRSem.run_function IRSem.default_cfg c24_swap_modul "swap" (map IRSem.Vint [5]) (IRSem.init_st IRSem.default_cfg c24_swap_modul) 30
      = IRSem.ODone (Some (IRSem.Vint 12), s') /\
    run_pfunc 30 pf [5] = Ok 12.
Proof. split; [vm_compute; reflexivity|]. do 3 eexists. repeat split; vm_compute; reflexivity. Qed.

(* ---- whole MODULES with calls.  Model.Ir2PyMod.compile_modul = ir2py for modules whose functions are in
   the integer / branch / phi / return fragment PLUS calls of functions of the same module and of external
   functions / procedures (x = callee(a, b); x = rt.externals['name'](a, b)); the printed text of every
   function is compared with the emitted text on generated modules on every run.  run_mod = the CPython
   meaning; ONE fuel bounds the call depth and the loop iterations of every activation.  External callables
   are an oracle parameter; Spec.IRSem fixes the result of an external function to 0, so the theorem is
   stated for oracles that return 0, and the trace of external calls (name, arguments) is part of the
   result on both sides.  For every well-formed module of the fragment, every function and all in-range
   integer arguments: if the reference semantics returns a value, the emitted Python returns the same
   value AND has made the same external calls in the same order, for every sufficiently large fuel.
   EXCLUDED (compile_modul = None), precisely: float constants/arithmetic/casts, ptr-typed values, memory
   (Alloc, AddressOf, Load, Store, CopyBlob, LiteralData, global variables: the runtime's address space
   differs from Spec.IRSem's, a simulation needs a memory injection; the byte-level behaviour of the
   load_/store_ helpers is c24_loadstore_exact), Undefined, module Procedures / Exit, indirect calls,
   out-of-range constants, rol/ror inside functions. *)
Theorem c24_module_simulates : forall oracle c m fs fname f zs s fuel x s',
  (forall n a, oracle n a = 0) ->
  IRSyntax.wf_modul m = true -> compile_modul m = Some fs -> IRSyntax.find_func m fname = Some f ->
  args_ok zs (map snd (IRSyntax.f_params f)) ->
  IRSem.run_function c m fname (map IRSem.Vint zs) s fuel = IRSem.ODone (Some x, s') ->
  exists v, x = IRSem.Vint v /\
    exists K, forall k, (K <= k)%nat ->
      run_mod oracle fs k fname (map PInt zs) (tr_of (IRSem.s_tr s)) = Ok (PInt v, tr_of (IRSem.s_tr s')).
Proof. exact module_simulates. Qed.
Print Assumptions c24_module_simulates.

Example c24_module_simulates_nonvacuous :
  IRSyntax.wf_modul c24_call_modul = true /\
  exists fs s', compile_modul c24_call_modul = Some fs /\
    IRSem.run_function IRSem.default_cfg c24_call_modul "useext" (map IRSem.Vint [4])
      (IRSem.init_st IRSem.default_cfg c24_call_modul) 40 = IRSem.ODone (Some (IRSem.Vint 172), s') /\
    tr_of (IRSem.s_tr s') = [("getk"%string, [4])] /\
    run_mod_int (fun _ _ => 0) fs 40 "useext" [4] = Ok (172, [("getk"%string, [4])]).
Proof. exact module_simulates_nonvacuous. Qed.

(* ---- the runtime OBJECT (Model.Ir2PyRt: heap and stack bytearrays, get_memory dispatch at HEAP_START =
   Gen.ir2py_runtime.heap_start, alloca, free; scripts run on the real emitted IrPy on every run).
   Stack discipline, for every runtime state whose stack stays below HEAP_START: alloca n returns
   (len stack, n); a store of any IR integer type anywhere inside the new block succeeds, the load at the same
   address returns the value, the heap and the older stack bytes are untouched, and free n restores exactly
   the state before the alloca. *)
Theorem c24_rt_alloca_store_load_free : forall r n t o v,
  0 <= n -> len (stack r) + n <= heap_start ->
  In t ir_int_types -> 0 <= o -> o + bits t / 8 <= n -> in_range t v ->
  exists r1 r2,
    alloca r n = Ok (r1, (len (stack r), n)) /\
    rt_store (ity_name t) r1 (len (stack r) + o) v = Ok r2 /\
    rt_load (ity_name t) r2 (len (stack r) + o) = Ok v /\
    heap r2 = heap r /\ len (stack r2) = len (stack r) + n /\
    firstn (List.length (stack r)) (stack r2) = stack r /\
    free r2 n = Ok r.
Proof. exact alloca_store_load_free. Qed.
Print Assumptions c24_rt_alloca_store_load_free.

(* addresses >= HEAP_START go to the heap: store-then-load exact, the stack and every other heap byte unchanged *)
Theorem c24_rt_heap_store_load : forall r t a v,
  In t ir_int_types -> 0 <= a -> a + bits t / 8 <= len (heap r) -> in_range t v ->
  exists r', rt_store (ity_name t) r (heap_start + a) v = Ok r' /\ stack r' = stack r /\
    len (heap r') = len (heap r) /\ rt_load (ity_name t) r' (heap_start + a) = Ok v /\
    firstn (Z.to_nat a) (heap r') = firstn (Z.to_nat a) (heap r) /\
    skipn (Z.to_nat (a + bits t / 8)) (heap r') = skipn (Z.to_nat (a + bits t / 8)) (heap r).
Proof. exact heap_store_load. Qed.
Print Assumptions c24_rt_heap_store_load.

Example c24_rt_nonvacuous :
  run_ops (mk_rt [9; 9; 9; 9] [7]) [OAlloca 4; OStore "i16" 2 (-2); OLoad "u8" 2; OStore "u16" (heap_start + 1) 258;
                                    OLoad "i32" heap_start; OFree 4; OTop] []
  = Ok ([1; 4; 254; 151061001; heap_start + 4], [9; 2; 1; 9], [7]).
Proof. vm_compute. reflexivity. Qed.

(* hypotheses are inhabited: i8 100 * 3 wraps to 44; -7 / 2 = -3; -7 % 2 = -1; -128 >> 7 = -1 *)
Example c24_nonvacuous :
  in_range i8 100 /\ in_range i8 3 /\ sem_binop Mul i8 100 3 = Some 44 /\ py_binop Mul i8 100 3 = Ok 44 /\
  py_binop Div i8 (-7) 2 = Ok (-3) /\ py_binop Rem i8 (-7) 2 = Ok (-1) /\ py_binop Shr i8 (-128) 7 = Ok (-1) /\
  py_cast_float CastTrunc i32 (FFinite 11 4) = Ok 2 /\
  load "u16" [1; 2; 3] 1 = Ok 770.
Proof. vm_compute. repeat split; intros; discriminate. Qed.
