(* Props/C14.v — property C14: object files and archives survive save and load.
   Only statements, [exact] of a lemma from Proofs/, and Print Assumptions.
   The theorems are about the hand model Model/ObjectFile.v (tie H; correspondence with
   ppci/binutils/objectfile.py, archive.py, utils/binary_txt.py, common.make_num is re-checked on
   every run by tools/props/c14.py) and the exported architecture table Gen/objarch.v.
   First part: objects without debug info; second part (c14_debug_*, c14_roundtrip_full, ...):
   debug information (Model/DebugInfo.v, Model/ObjectFileFull.v, class table Gen/dbgclasses.v).
   The JSON text layer (json.dump / json.load) is trusted to be the identity on [json]. *)
From PV Require Import Lib.Py Lib.Json Gen.objarch Gen.dbgclasses Model.ObjectFile Model.DebugInfo
  Model.ObjectFileFull Proofs.C14_objfile Proofs.C14_debug Proofs.C14_full Proofs.C14_classes.
From Coq Require Import String.
Open Scope string_scope.
Open Scope Z_scope.

(* section data: hex text (one string, or 30-byte chunks when longer than 30 bytes) decodes to
   the same bytes, for every byte list of any length *)
Theorem c14_asc_roundtrip : forall bs, all_byte bs = true -> asc2bin (bin2asc bs) = Ok bs.
Proof. exact asc2bin_bin2asc. Qed.
Print Assumptions c14_asc_roundtrip.

(* hex() text of any integer (negative ones too) is read back by make_num *)
Theorem c14_num_roundtrip : forall z, make_num (py_hex z) = Ok z.
Proof. exact make_num_py_hex. Qed.
Print Assumptions c14_num_roundtrip.

(* full record equality: sections (name, address, alignment, data), symbols (id, name, binding,
   value incl. undefined, section, typ, size), relocations (incl. negative addends), images
   (name, address, section list), architecture and entry_symbol_id *)
Theorem c14_roundtrip : forall o, wf_obj o -> deserialize (serialize o) = Ok o.
Proof. exact deserialize_serialize. Qed.
Print Assumptions c14_roundtrip.

Theorem c14_archive_roundtrip : forall objs,
  Forall wf_obj objs -> archive_load (archive_save objs) = Ok objs.
Proof. exact archive_roundtrip. Qed.
Print Assumptions c14_archive_roundtrip.

(* no two different well-formed objects share a serialized form *)
Theorem c14_serialize_injective : forall o1 o2,
  wf_obj o1 -> wf_obj o2 -> serialize o1 = serialize o2 -> o1 = o2.
Proof. exact serialize_injective. Qed.
Print Assumptions c14_serialize_injective.

(* whatever is computed from the object records (linking in particular) gives the same result
   on the reloaded objects *)
Theorem c14_link_identical : forall (A : Type) (link : list objectfile -> A) objs objs',
  Forall wf_obj objs -> archive_load (archive_save objs) = Ok objs' -> link objs' = link objs.
Proof. exact @reload_indistinguishable. Qed.
Print Assumptions c14_link_identical.

(* wf_obj is decidable (it is a boolean) and inhabited by an object with 70 bytes of data (three
   chunks), a negative address, a 70-bit symbol value, an absolute and an undefined symbol, a
   negative addend, an image of two sections and an entry symbol *)
Definition c14_example : objectfile :=
  mkObj "arm:thumb"
    [mkSection "code" (-4) 16 (rangeZ 0 70); mkSection "data" 256 4 [1; 2; 255]]
    [mkSymbol 3 "a" "local" (Some (-5)) None None None;
     mkSymbol 4 "main" "global" (Some 1180591620717411303424) (Some "code") (Some "func") (Some 12);
     mkSymbol 5 "a" "local" (Some 0) (Some "data") (Some "object") (Some 0);
     mkSymbol 6 "ext" "global" None None (Some "object") (Some 0)]
    [mkReloc "abs32" 6 "code" 0 (-12)]
    [mkImage "flash" 256 ["code"; "data"]]
    (Some 4).
Example c14_nonvacuous :
  wf_objb c14_example = true /\ deserialize (serialize c14_example) = Ok c14_example
  /\ archive_load (archive_save [c14_example; c14_example]) = Ok [c14_example; c14_example].
Proof. vm_compute. repeat split. Qed.

(* ------------------------------------------------------------------ debug information *)

(* debuginfo.serialize / deserialize (repaired loader): every DebugInfo whose referenced types
   are registered comes back identical — locations, functions (begin / end / parameters / local
   variables with stack slots incl. size), the type graph (base with encoding, struct with fields,
   array, pointer; arbitrary cycles and registration orders; ids assigned in first-use order),
   global variables *)
Theorem c14_debug_roundtrip : forall d, wf_dbg d -> dbg_deserialize (dbg_serialize d) = Ok d.
Proof. exact dbg_roundtrip. Qed.
Print Assumptions c14_debug_roundtrip.

(* the loader before fixes/C14-debug-recursive-pointer.diff: a well-formed DebugInfo that saves
   but cannot be loaded (pointer type registered before the struct whose field uses it); the
   repaired loader reads it back *)
Theorem c14_debug_pointer_first_refuted :
  exists d, wf_dbg d /\ dbg_deserialize_v1 (dbg_serialize d) = Internal KeyError
            /\ dbg_deserialize (dbg_serialize d) = Ok d.
Proof. exists ptr_first. exact ptr_first_fails. Qed.
Print Assumptions c14_debug_pointer_first_refuted.

(* ... and the unrepaired loader is correct outside that region: whenever its lazy type
   construction goes through (decidable: v1_loadable) the debug info comes back identical, and
   whatever it loads, the repaired loader loads identically *)
Theorem c14_debug_roundtrip_v1 : forall d,
  wf_dbg d -> v1_loadable d = true -> dbg_deserialize_v1 (dbg_serialize d) = Ok d.
Proof. exact dbg_roundtrip_v1. Qed.
Print Assumptions c14_debug_roundtrip_v1.

Theorem c14_debug_v1_refines : forall x d, dbg_deserialize_v1 x = Ok d -> dbg_deserialize x = Ok d.
Proof. exact v1_refines. Qed.
Print Assumptions c14_debug_v1_refines.

(* every debug type / address / record class of debuginfo.py (introspected on every run) has a
   constructor in the model, and conversely: a new class without serializer breaks this file *)
Theorem c14_debug_classes_covered :
  (forall c, In c dbg_type_classes -> exists t, dtype_class t = c)
  /\ (forall c, In c dbg_addr_classes -> exists a, daddr_class a = c)
  /\ (forall c, In c dbg_record_classes -> In c record_classes).
Proof. exact classes_covered. Qed.
Print Assumptions c14_debug_classes_covered.

Theorem c14_debug_classes_exact :
  (forall t, In (dtype_class t) dbg_type_classes)
  /\ (forall a, In (daddr_class a) dbg_addr_classes)
  /\ (forall c, In c record_classes -> In c dbg_record_classes).
Proof. exact classes_exact. Qed.
Print Assumptions c14_debug_classes_exact.

(* objects WITH debug info: full record equality *)
Theorem c14_roundtrip_full : forall x, wf_full x -> deserialize_full (serialize_full x) = Ok x.
Proof. exact full_roundtrip. Qed.
Print Assumptions c14_roundtrip_full.

Theorem c14_roundtrip_full_v1 : forall x,
  wf_full x -> (forall d, of_debug x = Some d -> v1_loadable d = true) ->
  deserialize_full_v1 (serialize_full x) = Ok x.
Proof. exact full_roundtrip_v1. Qed.
Print Assumptions c14_roundtrip_full_v1.

Theorem c14_archive_roundtrip_full : forall objs,
  Forall wf_full objs -> archive_load_full (archive_save_full objs) = Ok objs.
Proof. exact archive_full_roundtrip. Qed.
Print Assumptions c14_archive_roundtrip_full.

Theorem c14_serialize_full_injective : forall x y,
  wf_full x -> wf_full y -> serialize_full x = serialize_full y -> x = y.
Proof. exact full_serialize_injective. Qed.
Print Assumptions c14_serialize_full_injective.

(* the full serializer extends the one of the first part *)
Theorem c14_serialize_full_none : forall o, serialize_full (mkFull o None) = serialize o.
Proof. exact serialize_full_none. Qed.
Print Assumptions c14_serialize_full_none.

(* inhabited: every record kind, a struct <-> pointer cycle, forward references (ids differ from
   positions), stack slot of size 4, encoding 8 *)
Definition c14_debug_example : debuginfo :=
  let l := mkLoc (Some "f.c") 3 4 5 in
  mkDbg [mkDLoc l (AFixed 3); mkDLoc (mkLoc None 1 1 1) AUnknown]
        [mkFunc "f" l 0 [mkParam "a" 0; mkParam "p" 2] (AFixed 1) (AFixed 2)
                [mkVar "l" 4 l (AFprel (-8) 4)]]
        [TBase "int" 4 1; TStruct [mkField "c" 3 0; mkField "next" 2 4]; TPointer 1;
         TArray 4 7; TBase "void*" 8 8]
        [mkVar "g" 3 l (AFixed 1); mkVar "u" 2 (mkLoc None 1 1 1) AUnknown].
Example c14_debug_nonvacuous :
  wf_dbgb c14_debug_example = true /\ v1_loadable c14_debug_example = true
  /\ type_ids c14_debug_example = [0; 1; 3; 2; 4]%nat
  /\ deserialize_full (serialize_full (mkFull c14_example (Some c14_debug_example)))
     = Ok (mkFull c14_example (Some c14_debug_example)).
Proof. vm_compute. repeat split. Qed.
