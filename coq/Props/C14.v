(* Props/C14.v — property C14: object files and archives survive save and load.
   Only statements, [exact] of a lemma from Proofs/, and Print Assumptions.
   The theorems are about the hand model Model/ObjectFile.v (tie H; correspondence with
   ppci/binutils/objectfile.py, archive.py, utils/binary_txt.py, common.make_num is re-checked on
   every run by tools/props/c14.py) and the exported architecture table Gen/objarch.v.
   Scope: objects WITHOUT debug info (debug info is covered by validation only, see c14.py);
   the JSON text layer (json.dump / json.load) is trusted to be the identity on [json]. *)
From PV Require Import Lib.Py Lib.Json Gen.objarch Model.ObjectFile Proofs.C14_objfile.
From Coq Require Import String.
Open Scope string_scope.
Open Scope Z_scope.

(* section data: hex text (one string, or 30-byte chunks when longer than 30 bytes) decodes to
   the same bytes, for every byte list of any length *)
Theorem c14_asc_roundtrip : forall bs, all_byte bs = true -> asc2bin (bin2asc bs) = Ok bs.
Proof. exact asc2bin_bin2asc. Qed.
Print Assumptions c14_asc_roundtrip.

(* hex() text of any integer (negative ones too) is read back by make_num *)
Theorem c14_num_roundtrip : forall z, make_num (py_hex z) = Ok z.
Proof. exact make_num_py_hex. Qed.
Print Assumptions c14_num_roundtrip.

(* full record equality: sections (name, address, alignment, data), symbols (id, name, binding,
   value incl. undefined, section, typ, size), relocations (incl. negative addends), images
   (name, address, section list), architecture and entry_symbol_id *)
Theorem c14_roundtrip : forall o, wf_obj o -> deserialize (serialize o) = Ok o.
Proof. exact deserialize_serialize. Qed.
Print Assumptions c14_roundtrip.

Theorem c14_archive_roundtrip : forall objs,
  Forall wf_obj objs -> archive_load (archive_save objs) = Ok objs.
Proof. exact archive_roundtrip. Qed.
Print Assumptions c14_archive_roundtrip.

(* no two different well-formed objects share a serialized form *)
Theorem c14_serialize_injective : forall o1 o2,
  wf_obj o1 -> wf_obj o2 -> serialize o1 = serialize o2 -> o1 = o2.
Proof. exact serialize_injective. Qed.
Print Assumptions c14_serialize_injective.

(* whatever is computed from the object records (linking in particular) gives the same result
   on the reloaded objects *)
Theorem c14_link_identical : forall (A : Type) (link : list objectfile -> A) objs objs',
  Forall wf_obj objs -> archive_load (archive_save objs) = Ok objs' -> link objs' = link objs.
Proof. exact @reload_indistinguishable. Qed.
Print Assumptions c14_link_identical.

(* wf_obj is decidable (it is a boolean) and inhabited by an object with 70 bytes of data (three
   chunks), a negative address, a 70-bit symbol value, an absolute and an undefined symbol, a
   negative addend, an image of two sections and an entry symbol *)
Definition c14_example : objectfile :=
  mkObj "arm:thumb"
    [mkSection "code" (-4) 16 (rangeZ 0 70); mkSection "data" 256 4 [1; 2; 255]]
    [mkSymbol 3 "a" "local" (Some (-5)) None None None;
     mkSymbol 4 "main" "global" (Some 1180591620717411303424) (Some "code") (Some "func") (Some 12);
     mkSymbol 5 "a" "local" (Some 0) (Some "data") (Some "object") (Some 0);
     mkSymbol 6 "ext" "global" None None (Some "object") (Some 0)]
    [mkReloc "abs32" 6 "code" 0 (-12)]
    [mkImage "flash" 256 ["code"; "data"]]
    (Some 4).
Example c14_nonvacuous :
  wf_objb c14_example = true /\ deserialize (serialize c14_example) = Ok c14_example
  /\ archive_load (archive_save [c14_example; c14_example]) = Ok [c14_example; c14_example].
Proof. vm_compute. repeat split. Qed.
