(* Props/C25_thorough.v — thorough tier only: Lengauer-Tarjan model on all loop-free 5-node graphs. *)
From PV Require Import Lib.Py.
From PV Require Import Spec.CfgSpec Model.DomRef Model.DomTree Model.LengauerTarjan.
From PV Require Import Proofs.C25_lt Proofs.C25_lt5.
Close Scope Z_scope.
Open Scope nat_scope.

(* all_noloop5 = every choice of 5 successor sets (sorted sublists of 0..4 not containing the node
   itself): 16^5 graphs, entry 0 *)
Theorem c25_lt_bounded5 : forall g,
  In g (product [noloop_rows 5 0; noloop_rows 5 1; noloop_rows 5 2; noloop_rows 5 3; noloop_rows 5 4]) ->
  lt_idom g (preds_of g) 0 = (if lt_domain g 0 then Ok (idom_list g 0) else Internal KeyError) /\
  lt_idom (map (@rev nat) g) (map (@rev nat) (preds_of g)) 0 =
    (if lt_domain g 0 then Ok (idom_list g 0) else Internal KeyError).
Proof. exact lt_bounded5. Qed.
Print Assumptions c25_lt_bounded5.
