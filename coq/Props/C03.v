(* Props/C03.v — property C03: optimisation passes keep the IR well-formed and never crash.
   Only statements, [exact] of lemmas from Proofs/, and Print Assumptions.
   Spec = Spec/IRWf.v (independent, path-based dominance of Spec/CfgSpec.v).
   (1) the executable checker run on every real pass output is sound w.r.t. the spec
       (translation validation: the passes themselves are not modelled here, see C02);
   (2) hand model of the ppci verifier: what acceptance guarantees, and what it does not;
   (3) hand model of the def-use / predecessor bookkeeping mutators of ppci/ir.py: refutations for
       the code as found, preservation for the repaired code on an exhaustive bounded family. *)
From PV Require Import Lib.Py Spec.IRSyntax Spec.CfgSpec Spec.IRWf.
From PV Require Import Model.IRWfCheck Model.Verify Model.IRStore.
From PV Require Import Proofs.C03_wf Proofs.C03_verify Proofs.C03_store Proofs.C03_store_inv Proofs.C03_refs_inv Proofs.C03_complete.
From Coq Require Import String.
Open Scope nat_scope.
Open Scope string_scope.
Open Scope list_scope.

(* ---- (1) verified validator *)
Theorem c03_wf_checker_sound : forall m f, wf_function_b m f = true -> wf_function m f.
Proof. exact wf_function_b_sound. Qed.
Print Assumptions c03_wf_checker_sound.

Theorem c03_wf_module_checker_sound : forall m, wf_modul_b m = true -> wf_module m.
Proof. exact wf_modul_b_sound. Qed.
Print Assumptions c03_wf_module_checker_sound.

(* ---- (2) the verifier *)
Theorem c03_verifier_sound : forall vx m f st,
  verify_function vx m f st = Ok tt -> uses_cover f st -> wf_function_except_gaps m f.
Proof. exact verifier_sound. Qed.
Print Assumptions c03_verifier_sound.

(* wf_function_except_gaps is the specification with exactly the gap clauses weakened *)
Theorem c03_except_gaps_relaxes_wf : forall m f, wf_function m f -> wf_function_except_gaps m f.
Proof. exact wf_function_relax. Qed.
Print Assumptions c03_except_gaps_relaxes_wf.

(* accepted although a phi has an input from a block that is not a predecessor *)
Theorem c03_verifier_extra_phi_input_refuted :
  exists m f st, verify_function v_as_found m f st = Ok tt /\ uses_cover f st /\ ~ wf_phi_preds f.
Proof. exists (mod_of w1), w1, w1_st. exact w1_accepted_not_wf. Qed.
Print Assumptions c03_verifier_extra_phi_input_refuted.

(* accepted although a value is used before its definition: dominance is checked on the stored
   uses, which nothing compares with the operands *)
Theorem c03_verifier_trusts_stored_uses_refuted :
  exists m f st, verify_function v_as_found m f st = Ok tt /\ ~ wf_dom f.
Proof. exists (mod_of w2), w2, w2_st. exact w2_accepted_not_wf. Qed.
Print Assumptions c03_verifier_trusts_stored_uses_refuted.

(* accepted although a value carried by two phi inputs does not dominate the second input block *)
Theorem c03_verifier_phi_repeated_value_refuted :
  exists m f st, verify_function v_as_found m f st = Ok tt /\ uses_cover f st /\ ~ wf_dom_phi f.
Proof. exists (mod_of w4), w4, w4_st. exact w4_accepted_not_wf. Qed.
Print Assumptions c03_verifier_phi_repeated_value_refuted.

(* accepted although the operand type of a unary operation differs from its result type *)
Theorem c03_verifier_unop_type_refuted :
  exists m f st, verify_function v_as_found m f st = Ok tt /\ uses_cover f st /\ ~ wf_types m f.
Proof. exists (mod_of w3), w3, w3_st. exact w3_accepted_not_wf. Qed.
Print Assumptions c03_verifier_unop_type_refuted.

(* ---- (2b) the verifier with the four repairs fixes/C03-verifier-*.diff (configuration v_all_fixed):
   no hypothesis about the bookkeeping is needed any more, and the gap clauses become guarantees *)
Theorem c03_verifier_fixed_sound : forall m f st,
  verify_function v_all_fixed m f st = Ok tt ->
  wf_function_except_gaps m f /\ uses_cover f st /\ wf_phi_preds_exact f /\ wf_dom_phi f /\
  wf_unop_typed f.
Proof. exact verifier_fixed_sound. Qed.
Print Assumptions c03_verifier_fixed_sound.

Theorem c03_verifier_fixed_rejects_gap_witnesses :
  verify_function v_all_fixed (mod_of w1) w1 w1_st <> Ok tt /\
  verify_function v_all_fixed (mod_of w2) w2 w2_st <> Ok tt /\
  verify_function v_all_fixed (mod_of w3) w3 w3_st <> Ok tt /\
  verify_function v_all_fixed (mod_of w4) w4 w4_st <> Ok tt /\
  verify_function v_all_fixed (mod_of w0) w0 w0_st = Ok tt.
Proof. exact witnesses_rejected. Qed.
Print Assumptions c03_verifier_fixed_rejects_gap_witnesses.

(* ---- (2c) completeness on the phi-free fragment: what the verified checker accepts, the verifier
   accepts (no false alarm), for every repair configuration, with the bookkeeping derived from the
   instructions.  Excluded: functions containing phi instructions. *)
Theorem c03_verifier_complete_partial : forall vx m f,
  wf_function_b m f = true -> phi_free f = true -> verify_function vx m f (st_of f) = Ok tt.
Proof. exact verifier_complete_phi_free. Qed.
Print Assumptions c03_verifier_complete_partial.

(* checker accepts => verifier accepts => (repaired verifier + representation invariants) well-formed *)
Theorem c03_verifier_iff_wf_partial : forall m f,
  phi_free f = true ->
  (wf_function_b m f = true -> forall vx, verify_function vx m f (st_of f) = Ok tt) /\
  (repr_ok m f -> verify_function v_all_fixed m f (st_of f) = Ok tt -> wf_function m f).
Proof. exact verifier_iff_wf_partial. Qed.
Print Assumptions c03_verifier_iff_wf_partial.

Example c03_complete_nonvacuous : wf_function_b (mod_of w5) w5 = true /\ phi_free w5 = true.
Proof. exact w5_ok. Qed.

(* ---- (3) bookkeeping mutators, code as found *)
Theorem c03_replace_use_refuted :
  after as_found [(10, SPlain [("a", 0); ("b", 0)])] (OReplaceUse 10 0 1) is_keyerror = true
  /\ after as_found [(10, SPlain [("a", 0); ("b", 0)])] (OReplaceBy 0 1) is_keyerror = true.
Proof. exact (conj replace_use_refuted replace_by_refuted). Qed.
Print Assumptions c03_replace_use_refuted.

Theorem c03_call_replace_use_refuted :
  after as_found [(10, SCall 0 [1; 1])] (OReplaceUse 10 1 2) ok_inconsistent = true
  /\ after as_found [(10, SCall 0 [0])] (OReplaceUse 10 0 1) is_keyerror = true.
Proof. exact (conj call_replace_use_refuted call_replace_use_callee_refuted). Qed.
Print Assumptions c03_call_replace_use_refuted.

Theorem c03_phi_replace_use_refuted :
  after as_found [(10, SPhi [(1, 0); (2, 0)])] (OReplaceUse 10 0 1) is_keyerror = true.
Proof. exact phi_replace_use_refuted. Qed.
Print Assumptions c03_phi_replace_use_refuted.

Theorem c03_phi_incoming_refuted :
  after as_found [(10, SPhi [(1, 0); (2, 0)])] (ODelIncoming 10 1) ok_inconsistent = true
  /\ after as_found [(10, SPhi [(1, 0); (2, 0)])] (OSetIncoming 10 1 1) ok_inconsistent = true
  /\ after as_found [(10, SPhi [(1, 0); (2, 0)])] (OReplaceIncoming 0 1 [2]) is_keyerror = true.
Proof.
  exact (conj phi_del_incoming_refuted (conj phi_set_incoming_refuted replace_incoming_refuted)).
Qed.
Print Assumptions c03_phi_incoming_refuted.

Theorem c03_jump_delete_refuted :
  after as_found [(10, SJump [("a", 0); ("b", 1)] [("lab_yes", 1); ("lab_no", 1)])]
        (ODetachDelete 10) is_keyerror = true
  /\ after as_found [(10, SJump [("a", 0); ("b", 1)] [("lab_yes", 1); ("lab_no", 2)])]
           (ODetachDelete 10) ok_inconsistent = true.
Proof. exact (conj jump_delete_refuted jump_delete_stale_refuted). Qed.
Print Assumptions c03_jump_delete_refuted.

(* the attribute setter and remove_from_block on jumps: refuted in every configuration without
   their repairs fixes/C03-value-use-setter.diff / C03-jump-remove-from-block.diff *)
Theorem c03_set_var_refuted : forall a b c d e g,
  after (mk_fixes a b c d e false g) [(10, SPlain [("a", 0); ("b", 0)])] (OSetVar 10 "a" 1)
        ok_inconsistent = true.
Proof. exact set_var_refuted. Qed.
Print Assumptions c03_set_var_refuted.

Theorem c03_remove_from_block_jump_refuted : forall a b c d e f,
  after (mk_fixes a b c d e f false) [(10, SJump [] [("target", 1)])] (ORemoveFromBlock 10)
        ok_inconsistent = true.
Proof. exact remove_from_block_jump_refuted. Qed.
Print Assumptions c03_remove_from_block_jump_refuted.

(* ---- (3) repaired code: every mutator maps consistent states to consistent states, for the
   family contexts x shapes x ops of Proofs/C03_store.v (3 x 188 x 88 = 49632 scenarios, incl. the setter and remove_from_block on jumps) *)
Theorem c03_mutators_preserve_bookkeeping_bounded : all_cases_ok all_fixed = true.
Proof. exact mutators_preserve_bookkeeping_bounded. Qed.
Print Assumptions c03_mutators_preserve_bookkeeping_bounded.

Theorem c03_replace_by_total_bounded :
  forallb (fun ctx => forallb (fun sp => forallb (case_total all_fixed ctx sp) ops) shapes)
          contexts = true.
Proof. exact replace_by_total_bounded. Qed.
Print Assumptions c03_replace_by_total_bounded.

(* ---- (3b) repaired code, UNBOUNDED: the def-use invariant INV (stored uses = operands, stored used_by =
   derived users, for every instruction object) is preserved by replace_use of every kind incl.
   repeated operands, by Value.replace_by, Phi.set_incoming and Phi.del_incoming, for all states *)
Theorem c03_replace_use_preserves_def_use : forall s i old new s',
  INV s -> replace_use all_fixed s i old new = Ok s' -> INV s'.
Proof. exact replace_use_INV. Qed.
Print Assumptions c03_replace_use_preserves_def_use.

Theorem c03_replace_by_preserves_def_use : forall s v new s',
  INV s -> replace_by all_fixed s v new = Ok s' -> INV s'.
Proof. exact replace_by_INV. Qed.
Print Assumptions c03_replace_by_preserves_def_use.

Theorem c03_set_incoming_preserves_def_use : forall s i b v s' x,
  INV s -> get_i s i = Ok x -> i_kind x = KPhi ->
  set_incoming all_fixed s i b v = Ok s' -> INV s'.
Proof. exact set_incoming_INV. Qed.
Print Assumptions c03_set_incoming_preserves_def_use.

Theorem c03_del_incoming_preserves_def_use : forall s i b s' x,
  INV s -> get_i s i = Ok x -> i_kind x = KPhi ->
  del_incoming all_fixed s i b = Ok s' -> INV s'.
Proof. exact del_incoming_INV. Qed.
Print Assumptions c03_del_incoming_preserves_def_use.

(* ---- (3c) repaired code, UNBOUNDED: Block.references = derived referring jumps (REFS) is preserved by
   every operation of the scenario language — set_target_block, change_target, delete,
   remove_from_block, remove_instruction+delete, and all def-use mutators — for all states and
   arguments, hence by every operation sequence *)
Theorem c03_block_refs_inv : forall os s s',
  REFS s -> run_ops all_fixed s os = Ok s' -> REFS s'.
Proof. exact block_refs_inv. Qed.
Print Assumptions c03_block_refs_inv.

Theorem c03_block_refs_inv_step : forall s o s',
  REFS s -> run_op all_fixed s o = Ok s' -> REFS s'.
Proof. exact run_op_REFS. Qed.
Print Assumptions c03_block_refs_inv_step.

Example c03_refs_nonvacuous : REFS empty_store.
Proof. exact REFS_empty. Qed.

Example c03_inv_nonvacuous : INV empty_store.
Proof. exact INV_empty. Qed.

Example c03_nonvacuous :
  verify_function v_as_found (mod_of w0) w0 w0_st = Ok tt /\ wf_function_b (mod_of w0) w0 = true.
Proof. exact w0_ok. Qed.
