(* Props/C36.v -- property C36 (PARTIAL): the Python front-end computes what CPython computes.
   Only statements, [exact] of a lemma from Proofs/, and Print Assumptions.

   What has a theorem: the lowering of integer expressions (gen_expr/gen_binop with the exported
   binop_map and the exported instruction sequence for integer //), of conditions (gen_cond /
   gen_compare / gen_bool_op, short-circuit), and the block skeleton gen_for builds for
   `for v in range(a, b)` with an abstract body.  [lowcfg_cur], [for_variant_cur],
   [for_loopvar_cur] are regenerated from the current source on every run (Gen/Tab_py2ir.v);
   [lowcfg_orig], [VOrig], [LVPhi] describe the source as found (commit 4864216).
   IR meaning = Spec/IRSem.v (eval_binop / eval_cond on i64); CPython meaning =
   Spec/PyExprSpec.v ([eval64 env e = Some v]: CPython evaluates e to v without raising and every
   intermediate value fits in a signed 64-bit word).
   Statements (assignment, if/while, variables in stack slots, calls, early return) have no
   theorem; they are validated by differential execution in tools/props/c36.py. *)
From PV Require Import Lib.Py Spec.IRSyntax Spec.IRSem Spec.PyExprSpec Model.Py2Ir
  Proofs.C36_py2ir Proofs.C36_current Gen.Tab_py2ir
  Spec.PyStmtSpec Model.StmtCode Model.Py2IrStmt Proofs.C36_stmt.
Open Scope Z_scope.

(* ---- expressions: current source, every expression the front-end accepts, all operands ---- *)
Theorem c36_expr_exact : forall e env v t,
  eval64 env e = Some v -> lower lowcfg_cur e = Some t -> eval_tree env t = ODone v.
Proof. exact expr_exact_cur. Qed.
Print Assumptions c36_expr_exact.

(* [pexpr] includes true division a / b ([PTrueDiv]); CPython's result is a float, so it never
   has an integer value ([eval64] = None) and c36_expr_exact above quantifies over it without an
   exclusion.  Once gen_binop diagnoses `/` on int operands (flag probed from the source on
   every run) the lowering rejects it instead of emitting the integer IR division: *)
Theorem c36_int_truediv_rejected : forall k a b,
  lc_int_truediv_rejected k = true -> lower k (PBin PTrueDiv a b) = None.
Proof. exact truediv_rejected. Qed.
Print Assumptions c36_int_truediv_rejected.

(* the exported instruction sequence for integer a // b computes floor division *)
Theorem c36_floordiv_seq_exact : forall x y,
  in64 x = true -> in64 y = true -> y <> 0 -> in64 (x / y) = true ->
  run_prog floordiv_prog x y [] = ODone (x / y).
Proof. exact fd_exact_cur. Qed.
Print Assumptions c36_floordiv_seq_exact.

(* ---- source as found: FloorDiv -> truncating "/" ---- *)
Theorem c36_expr_exact_refuted :
  exists e env v t, eval64 env e = Some v /\ lower lowcfg_orig e = Some t /\
                    eval_tree env t <> ODone v.
Proof. exact expr_exact_orig_refuted. Qed.
Print Assumptions c36_expr_exact_refuted.

Theorem c36_expr_exact_outside : forall e env v t,
  trunc_is_floor env e -> eval64 env e = Some v -> lower lowcfg_orig e = Some t ->
  eval_tree env t = ODone v.
Proof. exact expr_exact_orig_outside. Qed.
Print Assumptions c36_expr_exact_outside.

(* ---- conditions: comparisons and n-ary and/or chains (BoolOp with a list of operands, as
   CPython parses `a and b and c`), arbitrarily nested, short-circuit ---- *)
Theorem c36_cond_exact : forall c env bv t,
  evalc64 env c = Some bv -> lower_cond lowcfg_cur c CYes CNo = Some t ->
  eval_ctree env t = ODone bv.
Proof. exact cond_exact_cur. Qed.
Print Assumptions c36_cond_exact.

(* n-ary chains (ast.BoolOp values = pre ++ a :: post): once an operand decides, the operands
   after it are neither evaluated nor able to change the outcome *)
Theorem c36_and_skips : forall pre a post env t,
  Forall (fun c => evalc64 env c = Some true) pre -> evalc64 env a = Some false ->
  lower_cond lowcfg_cur (PBoolOp true (pre ++ a :: post)) CYes CNo = Some t ->
  eval_ctree env t = ODone false.
Proof. exact and_skips_cur. Qed.
Print Assumptions c36_and_skips.

Theorem c36_or_skips : forall pre a post env t,
  Forall (fun c => evalc64 env c = Some false) pre -> evalc64 env a = Some true ->
  lower_cond lowcfg_cur (PBoolOp false (pre ++ a :: post)) CYes CNo = Some t ->
  eval_ctree env t = ODone true.
Proof. exact or_skips_cur. Qed.
Print Assumptions c36_or_skips.

(* ---- for v in range(init, n): the skeleton of the current source, every abstract body
   (fall through / continue / break per iteration, ending in any block): iterations, their order,
   and the value of the loop variable afterwards are CPython's ---- *)
Theorem c36_for_range : forall straight body init n fuel,
  in64 init = true -> n < 2 ^ 63 -> (Z.to_nat (n - init) < fuel)%nat ->
  run_for_loop (gen_for for_variant_cur straight) for_loopvar_cur body init n fuel
  = FDone (py_for body init n) (py_for_var_after body init n).
Proof. exact for_cur. Qed.
Print Assumptions c36_for_range.

(* source as found: right iterations for straight-line bodies without continue ... *)
Theorem c36_for_range_orig_straight : forall body init n fuel,
  (forall i, body i <> Cont) ->
  in64 init = true -> n < 2 ^ 63 -> (Z.to_nat (n - init) < fuel)%nat ->
  exists a, run_for_loop (gen_for VOrig true) LVPhi body init n fuel = FDone (py_for body init n) a.
Proof. exact for_orig_straight. Qed.
Print Assumptions c36_for_range_orig_straight.

(* ... stuck (phi without input for the edge) on continue and on bodies with nested control
   flow, wrong loop-variable value after the loop *)
Theorem c36_for_continue_refuted :
  run_for_loop (gen_for VOrig true) LVPhi (fun _ => Cont) 0 3 10 = FStuck [0] /\
  py_for (fun _ => Cont) 0 3 = [0; 1; 2].
Proof. exact for_orig_continue_refuted. Qed.
Print Assumptions c36_for_continue_refuted.

Theorem c36_for_nested_refuted :
  run_for_loop (gen_for VOrig false) LVPhi (fun _ => Fall) 0 3 10 = FStuck [0] /\
  py_for (fun _ => Fall) 0 3 = [0; 1; 2].
Proof. exact for_orig_nested_refuted. Qed.
Print Assumptions c36_for_nested_refuted.

Theorem c36_for_var_after_refuted :
  run_for_loop (gen_for VOrig true) LVPhi (fun _ => Fall) 0 5 10 = FDone [0; 1; 2; 3; 4] (Some 5) /\
  py_for_var_after (fun _ => Fall) 0 5 = Some 4.
Proof. exact for_orig_var_after_refuted. Qed.
Print Assumptions c36_for_var_after_refuted.

(* ---- statements: whole function bodies of the subset (assignment, augmented assignment,
   if/elif/else, while, for-range, break, continue, return, pass, tuple assignment
   x1, ..., xn = e1, ..., en with simultaneous evaluation).  [pcompile] (Model/Py2IrStmt.v)
   models gen_statement's CFG construction; the CFG is represented unfolded along its forward
   edges (Model/StmtCode.v: join blocks duplicated, back edges and loop heads explicit, the
   for-loop phi and bound as registers, locals as stack slots); [pruns] executes it with
   IRSem's arithmetic (eval_binop / eval_cond through eval_tree) -- NOT with IRSem.run_function
   on numbered blocks and byte memory: that last step (block numbering, Alloc/Load/Store through
   memory, phi via predecessor lookup, delete_unreachable) is validated by structural comparison
   of the model's code with the decompiled python_to_ir output and by differential execution.
   [pexec] = CPython's big-step semantics within 64 bits (relational; a derivation exists only
   for terminating, exception-free, overflow-free executions). ---- *)
(* [fenv] = the functions of the module (calls x = f(e1..en) run the callee's body on fresh
   variables; recursion allowed); [ft] = the function table of the emitted code, holding the
   compiled bodies *)
Theorem c36_stmt_exact : forall ft fenv,
  (forall f nloc body, fenv f = Some (nloc, body) ->
     exists c, pcompile lowcfg_cur 0 body KStuck KStuck KStuck = Some c /\ ft f = Some (nloc, c)) ->
  forall s env out, pexec fenv s env out ->
  forall d kn kb kc c ls rg v, pcompile lowcfg_cur d s kn kb kc = Some c -> length ls = d ->
    top_ok d kn -> top_ok d kb -> top_ok d kc ->
    after ft d ls rg v kn kb kc out -> pruns ft ls env rg c v.
Proof. intros ft fenv H. exact (stmt_sim_all ft fenv lowcfg_cur sound_cur fd_exact_cur H). Qed.
Print Assumptions c36_stmt_exact.

(* a function body that CPython runs to `return v` compiles to code that returns v *)
Theorem c36_body_exact : forall ft fenv body env v c rg,
  (forall f nloc b, fenv f = Some (nloc, b) ->
     exists cf, pcompile lowcfg_cur 0 b KStuck KStuck KStuck = Some cf /\ ft f = Some (nloc, cf)) ->
  pexec fenv body env (PRet v) -> pcompile lowcfg_cur 0 body KStuck KStuck KStuck = Some c ->
  pruns ft [] env rg c v.
Proof. intros. eapply body_exact; eauto using sound_cur, fd_exact_cur. Qed.
Print Assumptions c36_body_exact.

(* a whole module: functions [funs] (definition order) calling each other, also recursively; if
   CPython runs function [main] on [args] to `return v`, the compiled module does too.  External
   (imported) functions are not modelled: no statement about the sequence of external calls. *)
Theorem c36_module_exact : forall funs cs main nloc body args v rg,
  compile_funs lowcfg_cur funs = Some cs -> nth_error funs main = Some (nloc, body) ->
  pexec (nth_error funs) body (args ++ repeat 0 nloc) (PRet v) ->
  exists c, nth_error cs main = Some (nloc, c) /\
            pruns (nth_error cs) [] (args ++ repeat 0 nloc) rg c v.
Proof. intros. eapply module_exact; eauto using sound_cur, fd_exact_cur. Qed.
Print Assumptions c36_module_exact.

(* the statement model is the one of the current source's gen_for *)
Theorem c36_stmt_model_variant : for_variant_cur = VIncBlock /\ for_loopvar_cur = LVSlot.
Proof. split; reflexivity. Qed.
Print Assumptions c36_stmt_model_variant.

(* the statement theorems are not vacuous: CPython runs this body (s = 0; for i in range(0, a):
   if i == 1: continue; s = s + i; return s // 2) from a = 3 to `return 1`, and it compiles *)
Example c36_stmt_nonvacuous :
  pexec (fun _ => None) ex36_body [3; 7; 9] (PRet 1) /\
  exists c, pcompile lowcfg_cur 0 ex36_body KStuck KStuck KStuck = Some c.
Proof. split; [exact ex36_run|]. eexists. vm_compute. reflexivity. Qed.

(* ... and a module: f0(a) = return a * 2; f1(a, x) = x = f0(a + 1); return x -- f1(4) returns 10 *)
Example c36_module_nonvacuous :
  pexec (nth_error ex36_funs) (snd ex36_main) ([4] ++ repeat 0 1%nat) (PRet 10) /\
  exists cs, compile_funs lowcfg_cur ex36_funs = Some cs.
Proof. split; [exact ex36_module_run|]. eexists. vm_compute. reflexivity. Qed.

(* hypotheses are inhabited: (x0 - 7) // x1 with x0 = 0, x1 = 2 lowers and evaluates to -4;
   a loop with continue at 1 and break at 3 visits 0 1 2 3 and leaves 3 in the variable *)
Example c36_nonvacuous :
  let e := PBin PFloorDiv (PBin PSub (PVar 0) (PConst 7)) (PVar 1) in
  eval64 [0; 2] e = Some (-4) /\
  (exists t, lower lowcfg_cur e = Some t /\ eval_tree [0; 2] t = ODone (-4)) /\
  evalc64 [0; 2] (PBoolOp true [PCmp PLt (PVar 0) (PVar 1); PCmp PLt (PVar 1) (PVar 0);
                                 PCmp PEq (PBin PFloorDiv (PVar 1) (PVar 0)) (PConst 0)])
    = Some false /\
  run_for_loop (gen_for for_variant_cur false) for_loopvar_cur
    (fun i => if i =? 1 then Cont else if i =? 3 then Brk else Fall) 0 6 10 = FDone [0; 1; 2; 3] (Some 3).
Proof.
  cbv zeta. split; [vm_compute; reflexivity|]. split; [eexists; split; [reflexivity|vm_compute; reflexivity]|].
  split; vm_compute; reflexivity.
Qed.
