(* C29 — code generation succeeds for supported IR on mature targets.  PARTIAL (LEVEL = other):
   proved core = cover completeness of the tree grammar each target's instruction selector uses, for the
   language of selection trees irdag/dagsplit can build (Spec/IRTrees.v), outside the known uncovered
   operators and leaf-value restrictions of Spec/C29Known.v.  Register allocation, pattern emit methods,
   assembling and object output are only searched (tools/props/c29.py). *)
From Coq Require Import String List.
From PV Require Import Spec.BurgCoverSpec Spec.IRTrees Spec.C29Known Model.BurgCover Model.C29Synth Proofs.C29_cover
  Proofs.C29_x86_64 Proofs.C29_arm Proofs.C29_thumb Proofs.C29_riscv Proofs.C29_riscv_rvc Proofs.C29_refuted
  Gen.Tab_burg_x86_64 Gen.Tab_burg_arm Gen.Tab_burg_thumb Gen.Tab_burg_riscv Gen.Tab_burg_riscv_rvc.
Import ListNotations.
Local Open Scope string_scope.

(* the labeller model only derives non-terminals that have a cover (a tiling by rule applications) *)
Theorem c29_label_sound : forall rules t nt, In nt (label rules t) -> covers rules t nt.
Proof. exact label_sound. Qed.
Print Assumptions c29_label_sound.

(* generic: the boolean closure check implies that every tree of the language derives the goal *)
Theorem c29_closure_complete : forall rules G root goal,
  closure_ok rules G root goal = true -> forall t, in_lang G root t -> covers rules t goal.
Proof. exact closure_ok_complete. Qed.
Print Assumptions c29_closure_complete.

(* the boolean membership test used to cross-check observed trees is sound for the language *)
Theorem c29_in_langb_sound : forall G t s, in_langb G t s = true -> in_lang G s t.
Proof. exact in_langb_sound. Qed.
Print Assumptions c29_in_langb_sound.

(* per target: every statement tree of the language has a cover deriving "stm" from the usable rules *)
Theorem c29_cover_complete_x86_64 : forall t,
  in_lang (irtrees desc_x86_64 excl_x86_64) "S" t -> covers (usable assume_x86_64 rules_x86_64) t "stm".
Proof. exact cover_complete_x86_64. Qed.
Print Assumptions c29_cover_complete_x86_64.

Theorem c29_cover_complete_arm : forall t,
  in_lang (irtrees desc_arm excl_arm) "S" t -> covers (usable assume_arm rules_arm) t "stm".
Proof. exact cover_complete_arm. Qed.
Print Assumptions c29_cover_complete_arm.

Theorem c29_cover_complete_thumb : forall t,
  in_lang (irtrees desc_thumb excl_thumb) "S" t -> covers (usable assume_thumb rules_thumb) t "stm".
Proof. exact cover_complete_thumb. Qed.
Print Assumptions c29_cover_complete_thumb.

Theorem c29_cover_complete_riscv : forall t,
  in_lang (irtrees desc_riscv excl_riscv) "S" t -> covers (usable assume_riscv rules_riscv) t "stm".
Proof. exact cover_complete_riscv. Qed.
Print Assumptions c29_cover_complete_riscv.

Theorem c29_cover_complete_riscv_rvc : forall t,
  in_lang (irtrees desc_riscv_rvc excl_riscv_rvc) "S" t -> covers (usable assume_riscv_rvc rules_riscv_rvc) t "stm".
Proof. exact cover_complete_riscv_rvc. Qed.
Print Assumptions c29_cover_complete_riscv_rvc.

(* the full language (no exclusions) is NOT covered: a tree of the language the labeller rejects *)
Theorem c29_full_language_refuted_x86_64 : exists t, unselected (usable assume_x86_64 rules_x86_64) desc_x86_64 t.
Proof. exact (ex_intro _ _ refuted_x86_64). Qed.
Print Assumptions c29_full_language_refuted_x86_64.
Theorem c29_full_language_refuted_arm : exists t, unselected (usable assume_arm rules_arm) desc_arm t.
Proof. exact (ex_intro _ _ refuted_arm). Qed.
Print Assumptions c29_full_language_refuted_arm.
Theorem c29_full_language_refuted_thumb : exists t, unselected (usable assume_thumb rules_thumb) desc_thumb t.
Proof. exact (ex_intro _ _ refuted_thumb). Qed.
Print Assumptions c29_full_language_refuted_thumb.
Theorem c29_full_language_refuted_riscv : exists t, unselected (usable assume_riscv rules_riscv) desc_riscv t.
Proof. exact (ex_intro _ _ refuted_riscv). Qed.
Print Assumptions c29_full_language_refuted_riscv.
Theorem c29_full_language_refuted_riscv_rvc : exists t, unselected (usable assume_riscv_rvc rules_riscv_rvc) desc_riscv_rvc t.
Proof. exact (ex_intro _ _ refuted_riscv_rvc). Qed.
Print Assumptions c29_full_language_refuted_riscv_rvc.

(* synthesized rules (UND<ty>, CALL, ASM): the register class each template really produces (observed by
   executing it) is the class the target maps the type to, and the rule's non-terminal names that class *)
Theorem c29_synth_rules_classes_x86_64 :
  synth_bad desc_x86_64 clsnt_x86_64 synth_x86_64 = [] /\ synth_complete desc_x86_64 synth_x86_64 = true.
Proof. exact synth_classes_x86_64. Qed.
Print Assumptions c29_synth_rules_classes_x86_64.
Theorem c29_synth_rules_classes_arm :
  synth_bad desc_arm clsnt_arm synth_arm = [] /\ synth_complete desc_arm synth_arm = true.
Proof. exact synth_classes_arm. Qed.
Print Assumptions c29_synth_rules_classes_arm.
Theorem c29_synth_rules_classes_thumb :
  synth_bad desc_thumb clsnt_thumb synth_thumb = [] /\ synth_complete desc_thumb synth_thumb = true.
Proof. exact synth_classes_thumb. Qed.
Print Assumptions c29_synth_rules_classes_thumb.
Theorem c29_synth_rules_classes_riscv :
  synth_bad desc_riscv clsnt_riscv synth_riscv = [] /\ synth_complete desc_riscv synth_riscv = true.
Proof. exact synth_classes_riscv. Qed.
Print Assumptions c29_synth_rules_classes_riscv.
Theorem c29_synth_rules_classes_riscv_rvc :
  synth_bad desc_riscv_rvc clsnt_riscv_rvc synth_riscv_rvc = [] /\ synth_complete desc_riscv_rvc synth_riscv_rvc = true.
Proof. exact synth_classes_riscv_rvc. Qed.
Print Assumptions c29_synth_rules_classes_riscv_rvc.

Example c29_nonvacuous :
  in_langb (irtrees desc_arm excl_arm) t_ok "S" = true /\ selects (usable assume_arm rules_arm) t_ok = true.
Proof. exact nonvacuous_arm. Qed.
