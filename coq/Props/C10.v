(* Props/C10.v — property C10: out-of-range operands are rejected, never silently truncated.
   Only statements, [exact] of a lemma from Proofs/, and Print Assumptions.
   Gen.bitfun: wrap_negative / inrange regenerated from /repo/ppci/utils/bitfun.py (tie T);
   Gen.token_fields (GT): Token.__getitem__/__setitem__, the bit_range/bit_concat closures and BitView.__setitem__,
   regenerated on every run from ppci/arch/token.py and ppci/utils/bitfun.py by the flattening pre-pass + py2coq (tie T);
   Model.TokenField: the readable model on which the field theorems are stated; the c10_tie_* theorems prove it EQUAL
   to the regenerated definitions, so an edit of token.py changes GT and breaks those proofs;
   Gen.Tab_fields: every token field of every architecture, exported from the current source (tie I).
   The full-strength property is REFUTED for the current code (known finding, DESIGN §6 item 23):
   the `_refuted` theorems carry the witnesses, the other theorems state exactly what the code accepts and
   the positive parts that do hold. *)
From PV Require Import Lib.Py Spec.FieldSpec Gen.bitfun Model.TokenField Gen.Tab_fields Proofs.C10_fields.
From PV Require Gen.token_fields.
From PV Require Import Proofs.C10_tie Proofs.C10_concat Proofs.C10_bitview Proofs.C10_setbit.
Module GT := PV.Gen.token_fields.
From Coq Require Import String.
Open Scope Z_scope.

(* ---- wrap_negative, inrange *)
Theorem c10_wrap_negative_accepts : forall value bits, 1 <= bits ->
  ((exists t, wrap_negative value bits = Ok t) <-> - 2 ^ (bits - 1) <= value < 2 ^ bits).
Proof. exact wrap_negative_accepts. Qed.
Print Assumptions c10_wrap_negative_accepts.

Theorem c10_wrap_negative_value : forall value bits, 1 <= bits -> - 2 ^ (bits - 1) <= value < 2 ^ bits ->
  wrap_negative value bits = Ok (value mod 2 ^ bits).
Proof. exact wrap_negative_ok. Qed.
Print Assumptions c10_wrap_negative_value.

Theorem c10_wrap_negative_rejects : forall value bits, 1 <= bits ->
  ~ (- 2 ^ (bits - 1) <= value < 2 ^ bits) -> wrap_negative value bits = Diag 1.
Proof. exact wrap_negative_rejects. Qed.
Print Assumptions c10_wrap_negative_rejects.

(* accepted although outside the signed range: 200 in 8 bits reads back as -56 *)
Theorem c10_wrap_negative_signed_refuted :
  exists w v t, wrap_negative v w = Ok t /\ ~ fits true w v /\ decode_signed w t <> v.
Proof. exact wrap_negative_signed_refuted. Qed.
Print Assumptions c10_wrap_negative_signed_refuted.

(* riscv beq 4100 bytes ahead: the halved offset passes the 12-bit check and reads back as -4092 *)
Theorem c10_wrap_negative_beq_4100_refuted :
  wrap_negative (4100 / 2) 12 = Ok 2050 /\ decode_signed 12 2050 * 2 = -4092.
Proof. exact wrap_negative_beq_4100. Qed.
Print Assumptions c10_wrap_negative_beq_4100_refuted.

Theorem c10_inrange_exact : forall value bits, 1 <= bits ->
  inrange value bits = Ok (fitsb true bits value).
Proof. exact inrange_exact. Qed.
Print Assumptions c10_inrange_exact.

(* ---- Token.__setitem__ on a slice [b, e): accepts exactly [-2^w, 2^w) (including -2^w, stored as 0) *)
Theorem c10_setitem_accepts : forall size bv b e v, 0 <= b -> 0 < e - b ->
  ((exists t, tok_setitem size bv b e v = Ok t) <-> - 2 ^ (e - b) <= v < 2 ^ (e - b)).
Proof. intros size bv b e v Hb Hw. exact (setitem_accepts size bv b e Hb Hw v). Qed.
Print Assumptions c10_setitem_accepts.

(* ---- bit_range fields *)
(* what is accepted does not depend on the declared signedness *)
Theorem c10_field_accepts : forall size bv b e s v, 0 <= b -> b < e ->
  ((exists t, field_set size bv (FRange (Part b e s)) v = Ok t) <-> - 2 ^ (e - b) <= v < 2 ^ (e - b)).
Proof. exact range_field_accepts. Qed.
Print Assumptions c10_field_accepts.

(* positive, all widths: a value in the declared range is stored exactly and nothing else is touched *)
Theorem c10_field_exact_in_range : forall size bv b e s v,
  0 <= b -> b < e -> e <= size -> fits s (e - b) v ->
  exists bv' t, field_set size bv (FRange (Part b e s)) v = Ok bv' /\
    field_get bv' (FRange (Part b e s)) = Ok t /\ decode s (e - b) t = v /\
    (forall i, 0 <= i < size -> ~ (b <= i < e) -> Z.testbit bv' i = Z.testbit bv i).
Proof. exact range_field_exact. Qed.
Print Assumptions c10_field_exact_in_range.

(* positive, all widths: outside [-2^w, 2^w) the write always raises (ValueError above, AssertionError below) *)
Theorem c10_field_rejects_outside_envelope : forall size bv b e s v,
  0 <= b -> b < e -> ~ (- 2 ^ (e - b) <= v < 2 ^ (e - b)) ->
  field_set size bv (FRange (Part b e s)) v = Diag 1 \/
  field_set size bv (FRange (Part b e s)) v = Internal AssertionError.
Proof. exact range_field_rejects. Qed.
Print Assumptions c10_field_rejects_outside_envelope.

(* full strength "not fits -> rejected" is false: RiscvIToken.imm (unsigned, bits 20..32) accepts -1 *)
Theorem c10_field_rejects_refuted :
  exists size bv f v bv', ~ fits (fsigned f) (fwidth f) v /\ field_set size bv f v = Ok bv'.
Proof. exact field_rejects_refuted. Qed.
Print Assumptions c10_field_rejects_refuted.

(* full strength "accepted -> decodes to the operand" is false: signed 8-bit field accepts 200, reads -56 *)
Theorem c10_field_exact_refuted :
  exists size bv f v bv' t, field_set size bv f v = Ok bv' /\ field_get bv' f = Ok t /\
    decode (fsigned f) (fwidth f) t <> v.
Proof. exact field_exact_refuted. Qed.
Print Assumptions c10_field_exact_refuted.

(* ---- bit_concat fields: no range check at all *)
Theorem c10_concat_never_rejects : forall size ps, Forall part_wf ps -> forall bv v,
  exists bv', concat_set size bv ps v = Ok bv'.
Proof. exact concat_never_rejects. Qed.
Print Assumptions c10_concat_never_rejects.

(* RiscvSToken.imm (12 bits) accepts 5000 and stores 904 *)
Theorem c10_concat_truncates_refuted :
  exists size bv f v bv' t, ~ fits (fsigned f) (fwidth f) v /\ field_set size bv f v = Ok bv' /\
    field_get bv' f = Ok t /\ decode (fsigned f) (fwidth f) t <> v.
Proof. exact concat_truncates_refuted. Qed.
Print Assumptions c10_concat_truncates_refuted.

(* ---- the exported table of real fields *)
(* every field lies inside its token; the parts of a bit_concat are pairwise disjoint *)
Theorem c10_table_wellformed : forall r, In r fields_table ->
  field_wfb (row_size r) (row_field r) = true.
Proof. exact table_wellformed_all. Qed.
Print Assumptions c10_table_wellformed.

(* bounded (values): every real field stores the in-range boundary values exactly *)
Theorem c10_table_boundary_exact_bounded :
  forallb (fun r => forallb (exact_on (row_size r) (row_field r))
                            (in_range_vals (row_field r) (bvals (fwidth (row_field r))))) fields_table = true.
Proof. exact table_boundary_exact. Qed.
Print Assumptions c10_table_boundary_exact_bounded.

(* bounded (table, width <= 16, zero token): every real bit_concat field stores EVERY in-range value exactly *)
Theorem c10_table_concat_exact_bounded : forall r v,
  In r fields_table -> is_concat (row_field r) = true -> fwidth (row_field r) <= 16 ->
  fits (fsigned (row_field r)) (fwidth (row_field r)) v ->
  roundtrip (row_size r) (row_field r) v = Some v.
Proof. exact concat_exact_table. Qed.
Print Assumptions c10_table_concat_exact_bounded.

(* the laxness occurs in real classes of the current source *)
Theorem c10_table_unsigned_accepts_negative_refuted : exists r, In r fields_table /\
  (let f := row_field r in
   is_range f && negb (fsigned f) && accepts (row_size r) f (-1) && accepts (row_size r) f (- 2 ^ fwidth f)) = true.
Proof. exact (exists_row _ table_unsigned_accepts_negative). Qed.
Print Assumptions c10_table_unsigned_accepts_negative_refuted.

Theorem c10_table_signed_accepts_large_positive_refuted : exists r, In r fields_table /\
  (let f := row_field r in
   is_range f && fsigned f && negb (fitsb true (fwidth f) (2 ^ fwidth f - 1)) &&
   match roundtrip (row_size r) f (2 ^ fwidth f - 1) with Some x => x =? -1 | None => false end) = true.
Proof. exact (exists_row _ table_signed_accepts_large_positive). Qed.
Print Assumptions c10_table_signed_accepts_large_positive_refuted.

Theorem c10_table_concat_truncates_refuted : exists r, In r fields_table /\
  (let f := row_field r in
   is_concat f && negb (fsigned f) &&
   match roundtrip (row_size r) f (2 ^ fwidth f + 1) with Some x => x =? 1 | None => false end) = true.
Proof. exact (exists_row _ table_concat_truncates). Qed.
Print Assumptions c10_table_concat_truncates_refuted.

(* ---- tie T: the regenerated definitions are equal to the model used above *)
Theorem c10_tie_tok_getitem : forall bv start stop, GT.tok_getitem bv start stop = tok_getitem bv start stop.
Proof. exact tie_getitem. Qed.
Print Assumptions c10_tie_tok_getitem.

Theorem c10_tie_tok_setitem : forall size bv start stop v, 0 <= size ->
  GT.tok_setitem size bv start stop v = tok_setitem size bv start stop v.
Proof. exact tie_setitem. Qed.
Print Assumptions c10_tie_tok_setitem.

(* bit_range closures *)
Theorem c10_tie_range : forall size bv b e s v, 0 <= size ->
  GT.range_set size bv b e v = field_set size bv (FRange (Part b e s)) v /\
  GT.range_get bv b e = field_get bv (FRange (Part b e s)).
Proof. intros. split; [now apply tie_range_set|apply tie_range_get]. Qed.
Print Assumptions c10_tie_range.

(* bit_concat closures (partials given as the parallel lists of their b and e) *)
Theorem c10_tie_concat : forall size bv ps v, 0 <= size -> Forall pwf ps ->
  GT.concat_set size bv (map pb ps) (map pe ps) v = field_set size bv (FConcat ps) v /\
  GT.concat_get bv (map pb ps) (map pe ps) = field_get bv (FConcat ps).
Proof. intros. split; [now apply tie_concat_set|now apply tie_concat_get]. Qed.
Print Assumptions c10_tie_concat.

(* headline statement directly on the regenerated Token.__setitem__ *)
Theorem c10_gen_setitem_accepts : forall size bv b e v, 0 <= size -> 0 <= b -> 0 < e - b ->
  ((exists t, GT.tok_setitem size bv b e v = Ok t) <-> - 2 ^ (e - b) <= v < 2 ^ (e - b)).
Proof. intros size bv b e v Hs Hb Hw. rewrite tie_setitem by assumption. exact (setitem_accepts size bv b e Hb Hw v). Qed.
Print Assumptions c10_gen_setitem_accepts.

(* ---- bit_concat fields, unbounded: any list of parts lying inside the token and pairwise disjoint, any token
   state, any width: an in-range value is read back exactly and no bit outside the parts changes *)
Theorem c10_concat_exact_in_range : forall size bv ps v,
  field_wfb size (FConcat ps) = true -> ps <> [] ->
  fits (fsigned (FConcat ps)) (fwidth (FConcat ps)) v ->
  exists bv' t, field_set size bv (FConcat ps) v = Ok bv' /\ field_get bv' (FConcat ps) = Ok t /\
    decode (fsigned (FConcat ps)) (fwidth (FConcat ps)) t = v /\
    (forall i, 0 <= i < size -> (forall p, In p ps -> ~ in_part p i) -> Z.testbit bv' i = Z.testbit bv i).
Proof. exact concat_field_exact. Qed.
Print Assumptions c10_concat_exact_in_range.

(* ... and therefore for every bit_concat field of the exported table (supersedes the _bounded theorem above) *)
Theorem c10_table_concat_exact : forall r bv v ps,
  In r fields_table -> row_field r = FConcat ps -> ps <> [] ->
  fits (fsigned (FConcat ps)) (fwidth (FConcat ps)) v ->
  exists bv' t, field_set (row_size r) bv (FConcat ps) v = Ok bv' /\ field_get bv' (FConcat ps) = Ok t /\
    decode (fsigned (FConcat ps)) (fwidth (FConcat ps)) t = v /\
    (forall i, 0 <= i < row_size r -> (forall p, In p ps -> ~ in_part p i) -> Z.testbit bv' i = Z.testbit bv i).
Proof. exact table_concat_exact_all. Qed.
Print Assumptions c10_table_concat_exact.

(* ---- BitView.__setitem__ (regenerated): bits [start, stop) of the little-endian word data[begin : begin+length]
   (bit i of the word = bit (i mod 8) of byte begin + i / 8) become the bits of value (two's complement when value is
   negative), every other bit of every byte is unchanged, the length is unchanged; for every value < 2^(stop-start) *)
Theorem c10_bitview_writes_exactly : forall data begin length_ start stop value,
  0 <= begin -> 0 <= length_ -> begin + length_ <= len data -> bytes_ok data ->
  0 <= start -> start < stop -> stop <= length_ * 8 -> value < 2 ^ (stop - start) ->
  exists data', GT.bitview_setitem data begin length_ start stop value = Ok data' /\
    List.length data' = List.length data /\ bytes_ok data' /\
    forall k t, (k < List.length data)%nat -> 0 <= t < 8 ->
      Z.testbit (nth k data' 0) t =
      if (begin <=? Z.of_nat k) && (Z.of_nat k <? begin + length_) &&
         (start <=? 8 * (Z.of_nat k - begin) + t) && (8 * (Z.of_nat k - begin) + t <? stop)
      then Z.testbit value (8 * (Z.of_nat k - begin) + t - start)
      else Z.testbit (nth k data 0) t.
Proof. exact bitview_writes_exactly. Qed.
Print Assumptions c10_bitview_writes_exactly.

(* ---- wave 5: Token.__setitem__ with an int key (= Token.set_bit), regenerated as GT.tok_setbit.
   Exact effect for every token size, state, index and value: bit i becomes (value != 0), no other bit changes *)
Theorem c10_setbit_exact : forall size bv i v, 0 <= i < size ->
  exists bv', GT.tok_setbit size bv i v = Ok bv' /\
    forall j, 0 <= j -> Z.testbit bv' j = if j =? i then negb (v =? 0) else Z.testbit bv j.
Proof. exact setbit_exact. Qed.
Print Assumptions c10_setbit_exact.

(* an index outside the token is always an AssertionError *)
Theorem c10_setbit_rejects_bad_index : forall size bv i v, ~ (0 <= i < size) ->
  GT.tok_setbit size bv i v = Internal AssertionError.
Proof. exact setbit_rejects. Qed.
Print Assumptions c10_setbit_rejects_bad_index.

(* write then read the slice [i, i+1) with the regenerated __getitem__: an operand that fits one bit is read back exactly *)
Theorem c10_setbit_readback : forall size bv i v, 0 <= i < size ->
  exists bv', GT.tok_setbit size bv i v = Ok bv' /\
    GT.tok_getitem bv' i (i + 1) = Ok (if v =? 0 then 0 else 1) /\
    (fits false 1 v -> GT.tok_getitem bv' i (i + 1) = Ok v).
Proof. exact setbit_readback. Qed.
Print Assumptions c10_setbit_readback.

(* ... but the full-strength "does not fit -> rejected" fails on this branch for EVERY value outside {0, 1}:
   accepted and stored as 1 (bool(value)); in ppci only x86_64 RexToken-style `set_bit(6, 1)` uses it, with a constant 1 *)
Theorem c10_setbit_truncates_refuted : forall size bv i v, 0 <= i < size -> ~ fits false 1 v ->
  exists bv', GT.tok_setbit size bv i v = Ok bv' /\ GT.tok_getitem bv' i (i + 1) = Ok 1 /\ v <> 1.
Proof. exact setbit_truncates. Qed.
Print Assumptions c10_setbit_truncates_refuted.

(* non-vacuity: hypotheses are inhabited and the model computes the expected numbers *)
Example c10_nonvacuous :
  wrap_negative (-5) 8 = Ok 251 /\ wrap_negative 255 8 = Ok 255 /\ wrap_negative 256 8 = Diag 1 /\
  wrap_negative (-129) 8 = Diag 1 /\ inrange (-128) 8 = Ok true /\ inrange 128 8 = Ok false /\
  field_set 32 0 (FRange (Part 20 32 false)) 2047 = Ok 2146435072 /\
  field_set 32 0 (FRange (Part 20 32 false)) 4096 = Diag 1 /\
  field_set 32 0 (FRange (Part 20 32 false)) (-4096) = Ok 0 /\
  field_set 32 0 (FRange (Part 20 32 false)) (-4097) = Internal AssertionError /\
  roundtrip 8 (FRange (Part 0 8 true)) (-128) = Some (-128) /\
  roundtrip 32 (FConcat [Part 31 32 false; Part 7 8 false; Part 25 31 false; Part 8 12 false]) 0xABC = Some 0xABC /\
  (100 <? Z.of_nat (List.length fields_table)) = true /\
  GT.tok_setitem 32 0 20 32 (-1) = Ok 4293918720 /\ GT.concat_set 32 0 [25; 7] [32; 12] 0xABC = Ok 2852130304 /\
  GT.concat_get 2852130304 [25; 7] [32; 12] = Ok 0xABC /\
  GT.bitview_setitem [0xFF; 0xFF; 0xFF; 0xFF] 0 4 4 12 0x5A = Ok [0xAF; 0xF5; 0xFF; 0xFF] /\
  GT.bitview_setitem [0; 0; 0; 0] 0 4 4 12 256 = Internal AssertionError /\
  GT.tok_setbit 8 0 6 1 = Ok 64 /\ GT.tok_setbit 8 255 6 0 = Ok 191 /\ GT.tok_setbit 8 0 6 2 = Ok 64 /\
  GT.tok_setbit 8 0 8 1 = Internal AssertionError.
Proof. vm_compute. repeat split. Qed.
