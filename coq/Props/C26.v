(* Props/C26.v — the `#if` core of the C preprocessor (DESIGN §4 C26; macro expansion is not modelled).
   Spec: Spec/CIntSpec.v (pp_eval), Spec/CPPGrammar.v (g_parse). Model: Gen/ppif.v (OP_MAP regenerated from
   ppci/lang/c/preprocessor.py), Model/PPIf.v; Model/PPIfOrig.v = "/" and "%" before fixes/C26-if-division.diff. *)
From PV Require Import Lib.Py Spec.CIntSpec Spec.CPPGrammar Gen.ppif Model.PPIf Model.PPIfOrig Proofs.C26_ppif
                       Proofs.C26_eval Proofs.C26_parse.
From Coq Require Import String.
Open Scope Z_scope.

(* c26_if_eval (forall e v, pp_eval e = Some v -> eval_tree (tree_of e) = Ok v) is refuted twice: *)
(* (1) before the fix: -7/2 gave -4 and -7%2 gave 1 *)
Theorem c26_if_eval_refuted :
  pp_eval w_div = Some (-3) /\ eval_tree0 (tree_of w_div) = Ok (-4) /\
  pp_eval w_mod = Some (-1) /\ eval_tree0 (tree_of w_mod) = Ok 1.
Proof. exact refuted_division. Qed.
Print Assumptions c26_if_eval_refuted.

(* (2) still: no unsigned arithmetic (the `u` suffix is dropped by the parser): -1 < 0u, (2-3u) > 0.
   Recorded as a known finding. *)
Theorem c26_if_eval_unsigned_refuted :
  pp_eval w_lt_u = Some 0 /\ eval_tree (tree_of w_lt_u) = Ok 1 /\
  pp_eval w_sub_u = Some 1 /\ eval_tree (tree_of w_sub_u) = Ok 0.
Proof. exact refuted_unsigned. Qed.
Print Assumptions c26_if_eval_unsigned_refuted.

(* BOUNDED: every signed expression of depth <= 1 over [pool] (9 boundary values, all 18 binary and 4 unary
   operators, ?:) and the depth-2 expressions [depth2] (operands from pool2/pool3): the value ppci computes
   is the intmax_t value whenever that is defined *)
Theorem c26_if_eval_signed_bounded : forall e v,
  In e (lits pool ++ depth1 ++ depth2) -> pp_eval e = Some v -> eval_tree (tree_of e) = Ok v.
Proof.
  intros e v H. apply eval_agrees_sound.
  apply in_app_or in H as [H|H].
  - apply (proj1 (forallb_forall _ _) eval_signed_depth1). apply in_or_app. now left.
  - apply in_app_or in H as [H|H].
    + apply (proj1 (forallb_forall _ _) eval_signed_depth1). apply in_or_app. now right.
    + now apply (proj1 (forallb_forall _ _) eval_signed_depth2).
Qed.
Print Assumptions c26_if_eval_signed_bounded.

(* BOUNDED: for every sequence of at most 3 operators out of the 19 of OP_MAP (`?` written `? m :`) between
   distinct literals, the precedence-climbing parser builds the tree of the C grammar *)
Theorem c26_if_parse_precedence_bounded : forall os,
  In os seqs_upto3 ->
  exists e, g_parse 100 (seq_tokens [] os) = Some e /\
            parse_line 100 (map tok_of (seq_tokens [] os)) = Ok (tree_of e).
Proof.
  intros os H. apply parse_agrees_sound.
  exact (proj1 (forallb_forall _ _) parse_plain_bounded os H).
Qed.
Print Assumptions c26_if_parse_precedence_bounded.

(* same with unary operators before every operand (sequences of at most 2 operators) and with parentheses *)
Theorem c26_if_parse_unary_paren_bounded :
  (forall pre os, In pre [[GSym "-"]; [GSym "!"]; [GSym "~"]; [GSym "+"]; [GSym "-"; GSym "~"]]%string ->
     In os seqs_upto2 ->
     exists e, g_parse 100 (seq_tokens pre os) = Some e /\
               parse_line 100 (map tok_of (seq_tokens pre os)) = Ok (tree_of e)) /\
  (forall a b, In a bin_ops -> In b bin_ops ->
     (exists e, g_parse 100 (paren_l a b) = Some e /\ parse_line 100 (map tok_of (paren_l a b)) = Ok (tree_of e)) /\
     (exists e, g_parse 100 (paren_r a b) = Some e /\ parse_line 100 (map tok_of (paren_r a b)) = Ok (tree_of e))).
Proof.
  split.
  - intros pre os Hp Ho. apply parse_agrees_sound.
    pose proof (proj1 (forallb_forall _ _) parse_unary_bounded pre Hp) as H. cbv beta in H.
    exact (proj1 (forallb_forall _ _) H os Ho).
  - intros a b Ha Hb.
    pose proof (proj1 (forallb_forall _ _) parse_paren_bounded a Ha) as H. cbv beta in H.
    pose proof (proj1 (forallb_forall _ _) H b Hb) as H2. cbv beta in H2.
    apply andb_prop in H2 as [H3 H4]. split; now apply parse_agrees_sound.
Qed.
Print Assumptions c26_if_parse_unary_paren_bounded.

(* BOUNDED: nested conditionals in condition-, then- and else-position (chains of 3, `?:` is right associative)
   with every pair of binary operators around them: 5 templates x 18 x 18 operator pairs *)
Theorem c26_if_parse_ternary_nesting_bounded : forall a b ts,
  In a bin_ops -> In b bin_ops -> In ts (tern_templates a b) ->
  exists e, g_parse 100 ts = Some e /\ parse_line 100 (map tok_of ts) = Ok (tree_of e).
Proof.
  intros a b ts Ha Hb Ht. apply parse_agrees_sound.
  pose proof (proj1 (forallb_forall _ _) parse_ternary_bounded a Ha) as H. cbv beta in H.
  pose proof (proj1 (forallb_forall _ _) H b Hb) as H2. cbv beta in H2.
  exact (proj1 (forallb_forall _ _) H2 ts Ht).
Qed.
Print Assumptions c26_if_parse_ternary_nesting_bounded.

(* ================= unbounded theorems (supersede the *_bounded ones above, which are kept) ================= *)

(* every signed #if expression tree, of any depth: whenever C defines the value (pp_eval e = Some v: every
   intermediate result lies within intmax_t, no division by zero, shift counts in range), _eval_tree with the
   regenerated OP_MAP returns exactly v *)
Theorem c26_if_eval_signed : forall e v,
  signed_e e = true -> pp_eval e = Some v -> eval_tree (tree_of e) = Ok v.
Proof. exact if_eval_signed. Qed.
Print Assumptions c26_if_eval_signed.

(* precedence climbing is correct: for EVERY expression tree e, the token sequence the reference grammar
   generates for e with minimal parentheses is parsed to the tree of e (binary levels, left associativity,
   right-associative ?:, unary operators, parentheses), with any fuel >= need e *)
Theorem c26_if_parse_precedence : forall e f,
  (need e <= f)%nat -> parse_line f (map tok_of (g_unparse e)) = Ok (tree_of e).
Proof. intros e f H. now apply parse_unparse. Qed.
Print Assumptions c26_if_parse_precedence.

(* end to end for a signed #if line written with minimal parentheses *)
Theorem c26_if_line_signed : forall e v,
  signed_e e = true -> pp_eval e = Some v ->
  bind (parse_line (need e) (map tok_of (g_unparse e))) eval_tree = Ok v.
Proof.
  intros e v S E. rewrite (parse_unparse e (need e) (le_n _)). unfold bind. exact (if_eval_signed e v S E).
Qed.
Print Assumptions c26_if_line_signed.

(* BOUNDED validation of g_unparse itself: the reference grammar parser reads g_unparse e back as e (7 nested
   shapes x 18 x 18 operator pairs), and blevel is the operator's position in the grammar's level list *)
Theorem c26_if_unparse_grammar_bounded :
  forallb (fun o1 => forallb (fun o2 => forallb roundtrip (shapes o1 o2)) all_binops) all_binops = true /\
  (forall e, roundtrip e = true <->
             match g_parse 100 (g_unparse e) with Some e' => pexpr_eqb e e' = true | None => False end).
Proof.
  split; [exact unparse_roundtrip_bounded|]. intros e. unfold roundtrip.
  generalize (g_parse 100 (g_unparse e)). intros [e'|]; [tauto|split; [discriminate|tauto]].
Qed.
Print Assumptions c26_if_unparse_grammar_bounded.

(* signed overflow: C leaves `#if 9223372036854775807 + 1 < 0` undefined (pp_eval = None, so the theorems above
   demand nothing); ppci computes in unbounded integers and answers 0, a 64-bit wrap-around (gcc, with a warning)
   answers 1. Recorded as a finding, not as a violation. *)
Theorem c26_if_eval_overflow_unbounded :
  let e := PBin BLt (PBin BAdd (PLit false 9223372036854775807) (PLit false 1)) (PLit false 0) in
  pp_eval e = None /\ eval_tree (tree_of e) = Ok 0 /\
  CIntSpec.b2z (convert dm_pp TLLong (9223372036854775807 + 1) <? 0) = 1.
Proof. vm_compute. repeat split. Qed.
Print Assumptions c26_if_eval_overflow_unbounded.

Example c26_nonvacuous :
  In ["-"; "*"; "?"]%string seqs_upto3 /\
  In (PBin BDiv (PLit false (-7)) (PLit false 2)) (lits pool ++ depth1 ++ depth2) /\
  pp_eval (PBin BDiv (PLit false (-7)) (PLit false 2)) = Some (-3).
Proof.
  split; [|split].
  - unfold seqs_upto3. apply in_or_app; right. apply in_or_app; right. apply in_or_app; right.
    unfold seqs3. apply in_flat_map. exists "-"%string. split; [cbn; tauto|].
    apply in_map. unfold seqs2. apply in_flat_map. exists "*"%string. split; [cbn; tauto|].
    apply in_map with (f := fun b => ["*"%string; b]). cbn; tauto.
  - apply in_or_app; right. apply in_or_app; left. unfold depth1. apply in_or_app; left.
    unfold bins. apply in_flat_map. exists BDiv. split; [cbn; tauto|].
    apply in_flat_map. exists (PLit false (-7)). split; [cbn; tauto|].
    apply in_map with (f := fun b => PBin BDiv (PLit false (-7)) b). cbn; tauto.
  - vm_compute. reflexivity.
Qed.
