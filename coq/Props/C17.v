(* Props/C17.v — property C17 (PARTIAL): ELF output is read back faithfully by an independent reader.
   Only statements, [exact] of a lemma from Proofs/, and Print Assumptions.
   Reader = Spec/ElfSpec.v (written from the gABI, independent of ppci); writer = Model/ElfWriter.v (hand model
   of ppci/format/elf/writer.py, compared byte for byte with the real writer on every run) over the header
   layouts of Gen/Tab_elf.v (regenerated from ppci/format/elf/headers.py on every run).

   What is proved for ALL inputs (unbounded): the layers — field codec, every header structure, tables of
   structures located anywhere in a file, string table entries, the locals-before-globals rule with sh_info,
   RELA info words, image bytes seen through a PT_LOAD segment, and that every HeaderTypes instance used by
   write_elf follows the gABI layout (or is the big-endian one whose fields are packed in native order).
   What is proved on a finite family only (_bounded, 402 objects, vm_compute) and re-validated by evaluating the
   same Coq reader on the model bytes of every generated object of every run: the whole-file composition
   (offset bookkeeping of export_object): reader accepts, sections / symbols / relocations / segments / entry
   recovered.  MISSING for an unbounded whole-file theorem: the invariant proof through the writer state
   (w_buf offsets of write_images, write_sections, write_symbol_table, write_rela_table, write_string_table,
   write_section_headers and the final header overwrite).
   Not modelled: ET_DYN (.dynamic, PT_DYNAMIC), create_hash_table, DWARF sections. *)
From PV Require Import Lib.Py Gen.Tab_elf Model.ElfWriter Spec.ElfSpec.
From PV Require Import Proofs.C17_codec Proofs.C17_recover Proofs.C17_bounded Proofs.C17_file Proofs.C17_tables Proofs.C17_contents.
From Coq Require Import String.
Open Scope Z_scope.

(* ---- layer 1: one packed field decodes to its value (all format characters, both byte orders) ---- *)
Theorem c17_field_roundtrip : forall be c v bs,
  pack be c v = Ok bs -> fmt_info c <> None ->
  List.length bs = fsize (fty_of c) /\ fdec be (fty_of c) bs = v.
Proof. exact pack_fdec. Qed.
Print Assumptions c17_field_roundtrip.

(* ---- layer 2: every structure the writer serialises is decoded field for field by the gABI reader ---- *)
Theorem c17_section_header_roundtrip : forall ht, ht_ok ht -> forall h bs,
  serialize (ht_shdr ht) h = Ok bs ->
  List.length bs = lsize (shdr_layout (ht_bits ht =? 64)) /\
  mk_shdr (decode_fields (ht_big ht) (shdr_layout (ht_bits ht =? 64)) bs) = Some (shdr_of h).
Proof. exact shdr_roundtrip. Qed.
Print Assumptions c17_section_header_roundtrip.

Theorem c17_symbol_roundtrip : forall ht, ht_ok ht -> forall h bs,
  serialize (ht_sym ht) h = Ok bs ->
  List.length bs = lsize (sym_layout (ht_bits ht =? 64)) /\
  mk_sym (ht_bits ht =? 64) (decode_fields (ht_big ht) (sym_layout (ht_bits ht =? 64)) bs) = Some (sym_of h).
Proof. exact sym_roundtrip. Qed.
Print Assumptions c17_symbol_roundtrip.

Theorem c17_rela_roundtrip : forall ht, ht_ok ht -> forall h bs,
  serialize (ht_rela ht) h = Ok bs ->
  List.length bs = lsize (rela_layout (ht_bits ht =? 64)) /\
  mk_rela (ht_bits ht =? 64) (decode_fields (ht_big ht) (rela_layout (ht_bits ht =? 64)) bs)
  = Some (rela_of (ht_bits ht =? 64) h).
Proof. exact rela_roundtrip. Qed.
Print Assumptions c17_rela_roundtrip.

Theorem c17_program_header_roundtrip : forall ht, ht_ok ht -> forall h bs,
  serialize (ht_phdr ht) h = Ok bs ->
  List.length bs = lsize (phdr_layout (ht_bits ht =? 64)) /\
  mk_phdr (ht_bits ht =? 64) (decode_fields (ht_big ht) (phdr_layout (ht_bits ht =? 64)) bs) = Some (phdr_of h).
Proof. exact phdr_roundtrip. Qed.
Print Assumptions c17_program_header_roundtrip.

Theorem c17_elf_header_roundtrip : forall ht, ht_ok ht -> forall h bs,
  serialize (ht_ehdr ht) h = Ok bs ->
  List.length bs = lsize (ehdr_layout (ht_bits ht =? 64)) /\
  mk_ehdr (ht_bits ht =? 64) (ht_big ht) (decode_fields (ht_big ht) (ehdr_layout (ht_bits ht =? 64)) bs)
  = Some (ehdr_of (ht_bits ht =? 64) (ht_big ht) h).
Proof. exact ehdr_roundtrip. Qed.
Print Assumptions c17_elf_header_roundtrip.

(* RELA info word: symbol index and type are separated again (k = 32 for ELF64, 8 for ELF32) *)
Theorem c17_rela_info_split : forall k r_sym r_type, 0 <= k -> 0 <= r_type < 2 ^ k ->
  (Z.shiftl r_sym k + r_type) / 2 ^ k = r_sym /\ (Z.shiftl r_sym k + r_type) mod 2 ^ k = r_type.
Proof. exact rela_info_split. Qed.
Print Assumptions c17_rela_info_split.

(* ---- layer 3: a table of structures written contiguously anywhere in a file is read back entry by entry ---- *)
Theorem c17_table_read : forall be L bs chunks off,
  at_ bs off (List.concat chunks) -> Forall (fun c => List.length c = lsize L) chunks ->
  read_table be L bs off (zlen chunks) = Some (map (decode_fields be L) chunks).
Proof. intros be L bs chunks off. exact (read_table_at be L bs chunks off). Qed.
Print Assumptions c17_table_read.

(* ---- layer 4: string table: the offset get_string returns names the NUL-free text, now and after any
        later additions (StringTable invariant) ---- *)
Theorem c17_string_table : forall s txt i s',
  get_string s txt = Ok (i, s') -> names_inv s ->
  names_inv s' /\ strtab_at (w_strtab s') i txt /\
  (forall ext, nul_free txt = true -> strtab_get (w_strtab s' ++ ext) i = Some (str_bytes txt)).
Proof. exact string_table_layer. Qed.
Print Assumptions c17_string_table.

(* ---- layer 5: locals first, sh_info = index of the first global (any symbol list) ---- *)
Theorem c17_locals_first : forall (syms : list msymbol) (entries : list sym) (null : sym),
  st_info null = 0 ->
  map st_info entries = map model_info (filter (fun y => negb (my_global y)) syms ++ filter my_global syms) ->
  locals_first (len (filter (fun y => negb (my_global y)) syms) + 1) (null :: entries) = true.
Proof. exact locals_first_model. Qed.
Print Assumptions c17_locals_first.

(* ---- layer 6: segments: if the file holds Image.data at p_offset (what write_images writes), a loader sees,
        at every virtual address of every section of the image, that section's byte ---- *)
Theorem c17_segments_match_images_partial : forall bs (ph : phdr) (im : mimage) d sec i b,
  image_data im = Ok d -> at_ bs (p_offset ph) d -> p_vaddr ph = mi_addr im ->
  In sec (mi_secs im) -> nth_error (ms_data sec) i = Some b ->
  segment_byte bs ph (ms_addr sec + Z.of_nat i) = Some b.
Proof. exact segment_byte_of_image. Qed.
Print Assumptions c17_segments_match_images_partial.

(* ---- tie I: every HeaderTypes instance write_elf can pick follows the gABI layout in its announced byte
        order — or it is a big-endian one whose fields are not packed big-endian (defect, see refutation) ---- *)
Theorem c17_layouts_follow_gabi : forall name bits big x, In (name, (bits, big, x)) elf_arch_table ->
  exists ht, get_htypes bits big = Ok ht /\ (ht_ok ht \/ (big = true /\ ht_consistent ht = false)).
Proof. exact tab_arches_ok. Qed.
Print Assumptions c17_layouts_follow_gabi.

Theorem c17_native_order_bigendian_refuted :
  exists ht bs, ht_native_big = Ok ht /\ ht_consistent ht = false /\
                export_object ht 189 empty_obj et_rel = Ok bs /\ read bs = None.
Proof. exact native_big_rejected. Qed.
Print Assumptions c17_native_order_bigendian_refuted.

(* ---- whole files, UNBOUNDED (every object, relocatable and executable): the offset bookkeeping of
        export_object.  For every file the writer returns: every image has a program header record whose file
        range holds Image.data, every section of an image and every section written by write_sections (first
        of its name, not already numbered by an image) has a PROGBITS header record whose sh_offset range in the
        FINAL file (after the ELF/program header overwrite) holds exactly the section's bytes, with size, address,
        alignment and a name index into the writer's string table [st].  Proved through the invariant of
        Proofs/C17_file.v (file only grows, recorded ranges inside the file, lower bound of every recorded offset
        above the header area).  Still missing for the full reader statement: that the section/program header
        TABLES and [st] themselves sit at e_shoff / e_phoff / the .strtab offset (write_section_headers,
        write_string_table and symbol/RELA table contents) — those stay covered by the layer theorems plus the
        bounded theorem below. ---- *)
Theorem c17_file_layout : forall ht machine o et bs,
  export_object ht machine o et = Ok bs -> image_names_ok o ->
  exists st,
    (with_images o et = true -> forall im, In im (mo_images o) ->
       seg_in_file bs im /\ forall sec, In sec (mi_secs im) -> sec_in_file bs st sec)
    /\ (forall pre sec post, mo_sections o = pre ++ sec :: post ->
          (with_images o et = true -> ~ In (ms_name sec) (map ms_name (List.concat (map mi_secs (mo_images o))))) ->
          ~ In (ms_name sec) (map ms_name pre) -> sec_in_file bs st sec).
Proof. exact export_layout. Qed.
Print Assumptions c17_file_layout.

(* what a reader gets from such a header record: contents by slice, address, alignment, type, name *)
Theorem c17_sections_recovered_partial : forall bs st sec, sec_in_file bs st sec ->
  exists h, slice bs (hget h "sh_offset") (hget h "sh_size") = Some (ms_data sec)
            /\ hget h "sh_addr" = ms_addr sec /\ hget h "sh_addralign" = ms_align sec /\ hget h "sh_type" = 1
            /\ (nul_free (ms_name sec) = true ->
                forall ext, strtab_get (st ++ ext) (hget h "sh_name") = Some (str_bytes (ms_name sec))).
Proof. exact sec_in_file_slice. Qed.
Print Assumptions c17_sections_recovered_partial.

(* every virtual address inside a section of an image shows, through the image's PT_LOAD record, the image byte;
   p_offset is congruent to p_vaddr modulo the page size once write_images pads (segments_congruent) *)
Theorem c17_segments_match_images_in_file : forall bs im, seg_in_file bs im ->
  exists ph, p_type (phdr_of ph) = 1 /\ p_vaddr (phdr_of ph) = mi_addr im
    /\ p_filesz (phdr_of ph) = p_memsz (phdr_of ph)
    /\ (segments_congruent = true -> (p_offset (phdr_of ph) - p_vaddr (phdr_of ph)) mod page_size = 0)
    /\ forall sec i b, In sec (mi_secs im) -> nth_error (ms_data sec) i = Some b ->
          segment_byte bs (phdr_of ph) (ms_addr sec + Z.of_nat i) = Some b.
Proof. exact seg_in_file_bytes. Qed.
Print Assumptions c17_segments_match_images_in_file.

(* ---- tables of arbitrary length (wave 3).  (a) Any list of records serialised one after the other anywhere in
        any file is read back by the gABI reader as exactly the views of those records. ---- *)
Theorem c17_shdr_table_read : forall ht, ht_ok ht -> forall hs chunks bs off,
  sers (ht_shdr ht) hs chunks -> at_ bs off (List.concat chunks) ->
  exists raw, read_table (ht_big ht) (shdr_layout (ht_bits ht =? 64)) bs off (len hs) = Some raw
              /\ omap mk_shdr raw = Some (map shdr_of hs).
Proof. exact shdr_table_read. Qed.
Print Assumptions c17_shdr_table_read.

Theorem c17_symtab_read : forall ht, ht_ok ht -> forall es chunks bs off,
  sers (ht_sym ht) es chunks -> at_ bs off (List.concat chunks) ->
  exists raw, read_table (ht_big ht) (sym_layout (ht_bits ht =? 64)) bs off (len es) = Some raw
              /\ omap (mk_sym (ht_bits ht =? 64)) raw = Some (map sym_of es).
Proof. exact symtab_read. Qed.
Print Assumptions c17_symtab_read.

Theorem c17_rela_read : forall ht, ht_ok ht -> forall es chunks bs off,
  sers (ht_rela ht) es chunks -> at_ bs off (List.concat chunks) ->
  exists raw, read_table (ht_big ht) (rela_layout (ht_bits ht =? 64)) bs off (len es) = Some raw
              /\ omap (mk_rela (ht_bits ht =? 64)) raw = Some (map (rela_of (ht_bits ht =? 64)) es).
Proof. exact rela_read. Qed.
Print Assumptions c17_rela_read.

Theorem c17_phdr_read : forall ht, ht_ok ht -> forall es chunks bs off,
  sers (ht_phdr ht) es chunks -> at_ bs off (List.concat chunks) ->
  exists raw, read_table (ht_big ht) (phdr_layout (ht_bits ht =? 64)) bs off (len es) = Some raw
              /\ omap (mk_phdr (ht_bits ht =? 64)) raw = Some (map phdr_of es).
Proof. exact phdr_read. Qed.
Print Assumptions c17_phdr_read.

(* (b) the writer loops produce such serialised lists, appended to the file, and the records carry what the
       object prescribes: symbols (st_info = binding<<4|type, size, name in the string table, undefined -> 0/0,
       defined -> value + section address and the section's number), RELA entries (offset, addend,
       info = sym<<32|type resp. sym<<8|type with the symbol's table index and the arch's type),
       section headers (every field as recorded, sh_link patched to .strtab / .symtab). *)
Theorem c17_writer_symbols : forall ht o syms s nr s', write_symbols ht o s nr syms = Ok s' -> names_inv s ->
  exists es chunks, sers (ht_sym ht) es chunks /\ w_buf s' = w_buf s ++ List.concat chunks
    /\ Forall2 (symrel o (w_secnums s) (w_strtab s')) syms es
    /\ names_inv s' /\ ext (w_strtab s) (w_strtab s') /\ w_secnums s' = w_secnums s /\ w_shdrs s' = w_shdrs s.
Proof. exact write_symbols_sers. Qed.
Print Assumptions c17_writer_symbols.

Theorem c17_writer_relas : forall ht o rels s s', write_relas ht o s rels = Ok s' ->
  exists es chunks, sers (ht_rela ht) es chunks /\ w_buf s' = w_buf s ++ List.concat chunks
    /\ Forall2 (relrel ht o (w_symmap s)) rels es.
Proof. exact write_relas_sers. Qed.
Print Assumptions c17_writer_relas.

Theorem c17_writer_section_headers : forall ht hs s s', write_shdr_list ht s hs = Ok s' ->
  exists hs' chunks, Forall2 (fun h h' => patch (w_secnums s) h = Ok h') hs hs'
    /\ sers (ht_shdr ht) hs' chunks /\ w_buf s' = w_buf s ++ List.concat chunks
    /\ w_eh s' = w_eh s /\ w_secnums s' = w_secnums s /\ w_phdrs s' = w_phdrs s.
Proof. exact write_shdr_list_sers. Qed.
Print Assumptions c17_writer_section_headers.

Theorem c17_patch_fields : forall sn h h', patch sn h = Ok h' ->
  (forall k, k <> "sh_link"%string -> hget h' k = hget h k)
  /\ (hget h "sh_type" = 2 -> sget sn ".strtab"%string = Some (hget h' "sh_link"))
  /\ (hget h "sh_type" = 4 -> sget sn ".symtab"%string = Some (hget h' "sh_link"))
  /\ (hget h "sh_type" = 1 \/ hget h "sh_type" = 3 -> h' = h).
Proof. exact patch_fields. Qed.
Print Assumptions c17_patch_fields.

(* (c) WHOLE FILE, every object (relocatable and executable, any number of sections, symbols, relocations,
       images): the gABI reader decodes, from the bytes export_object returns, the ELF header record [eh] at
       offset 16 (e_type, e_machine, e_version, e_ehsize, e_shentsize as prescribed; e_shnum = number of recorded
       section headers + 1; e_phnum = number of program header records; e_shstrndx = the number of .strtab), the
       null section header followed by exactly the recorded section headers (all fields; sh_link patched) at
       e_shoff, and exactly the program header records right after the ELF header. *)
Theorem c17_whole_file_tables : forall ht machine o et bs,
  export_object ht machine o et = Ok bs -> image_names_ok o -> ht_ok ht ->
  exists eh hs hs' phs sn,
    (exists raw, read_struct (ht_big ht) (ehdr_layout (ht_bits ht =? 64)) bs 16 = Some raw
                 /\ mk_ehdr (ht_bits ht =? 64) (ht_big ht) raw = Some (ehdr_of (ht_bits ht =? 64) (ht_big ht) eh))
    /\ hget eh "e_type" = et /\ hget eh "e_machine" = machine /\ hget eh "e_version" = 1
    /\ hget eh "e_shnum" = len hs + 1
    /\ hget eh "e_shentsize" = Z.of_nat (lsize (shdr_layout (ht_bits ht =? 64)))
    /\ hget eh "e_ehsize" = 16 + Z.of_nat (lsize (ehdr_layout (ht_bits ht =? 64)))
    /\ hget eh "e_phnum" = len phs
    /\ sget sn ".strtab"%string = Some (hget eh "e_shstrndx")
    /\ Forall2 (fun h h' => patch sn h = Ok h') hs hs'
    /\ (exists raw0 raw,
          read_struct (ht_big ht) (shdr_layout (ht_bits ht =? 64)) bs (hget eh "e_shoff") = Some raw0
          /\ mk_shdr raw0 = Some (shdr_of [])
          /\ read_table (ht_big ht) (shdr_layout (ht_bits ht =? 64)) bs
               (hget eh "e_shoff" + Z.of_nat (lsize (shdr_layout (ht_bits ht =? 64)))) (len hs) = Some raw
          /\ omap mk_shdr raw = Some (map shdr_of hs'))
    /\ (exists rawp, read_table (ht_big ht) (phdr_layout (ht_bits ht =? 64)) bs
                       (16 + Z.of_nat (lsize (ehdr_layout (ht_bits ht =? 64)))) (len phs) = Some rawp
                     /\ omap (mk_phdr (ht_bits ht =? 64)) rawp = Some (map phdr_of phs)).
Proof. exact export_tables. Qed.
Print Assumptions c17_whole_file_tables.

(* ---- wave 4: WHOLE FILE, every object, tables AND contents.  Besides everything c17_whole_file_tables states,
        in the FINAL file: the .strtab header (in the recorded header list) designates exactly the string table [st];
        the .symtab header designates the null entry followed by exactly the serialised symbol records of the object's
        symbols in locals-first order (fields as prescribed, names in [st]); for relocatable files every
        .rela<section> header designates exactly the serialised RELA records of that section's relocations, in order,
        with sh_info = the section's number.  Each .rela table has its own recorded offset (rela_fact is per name). ---- *)
Theorem c17_whole_file_contents : forall ht machine o et bs,
  export_object ht machine o et = Ok bs -> image_names_ok o -> ht_ok ht ->
  exists eh hs hs' phs sn st,
    (exists raw, read_struct (ht_big ht) (ehdr_layout (ht_bits ht =? 64)) bs 16 = Some raw
                 /\ mk_ehdr (ht_bits ht =? 64) (ht_big ht) raw = Some (ehdr_of (ht_bits ht =? 64) (ht_big ht) eh))
    /\ hget eh "e_type" = et /\ hget eh "e_machine" = machine /\ hget eh "e_version" = 1
    /\ hget eh "e_shnum" = len hs + 1
    /\ hget eh "e_shentsize" = Z.of_nat (lsize (shdr_layout (ht_bits ht =? 64)))
    /\ hget eh "e_ehsize" = 16 + Z.of_nat (lsize (ehdr_layout (ht_bits ht =? 64)))
    /\ hget eh "e_phnum" = len phs
    /\ sget sn ".strtab"%string = Some (hget eh "e_shstrndx")
    /\ Forall2 (fun h h' => patch sn h = Ok h') hs hs'
    /\ (exists raw0 raw,
          read_struct (ht_big ht) (shdr_layout (ht_bits ht =? 64)) bs (hget eh "e_shoff") = Some raw0
          /\ mk_shdr raw0 = Some (shdr_of [])
          /\ read_table (ht_big ht) (shdr_layout (ht_bits ht =? 64)) bs
               (hget eh "e_shoff" + Z.of_nat (lsize (shdr_layout (ht_bits ht =? 64)))) (len hs) = Some raw
          /\ omap mk_shdr raw = Some (map shdr_of hs'))
    /\ (exists rawp, read_table (ht_big ht) (phdr_layout (ht_bits ht =? 64)) bs
                       (16 + Z.of_nat (lsize (ehdr_layout (ht_bits ht =? 64)))) (len phs) = Some rawp
                     /\ omap (mk_phdr (ht_bits ht =? 64)) rawp = Some (map phdr_of phs))
    /\ (exists hstr, In hstr hs /\ hget hstr "sh_type" = 3 /\ hget hstr "sh_size" = len st
                     /\ at_ bs (hget hstr "sh_offset") st)
    /\ (exists hsym sn2, In hsym hs /\ symtab_fact ht o sn2 bs st hsym)
    /\ (et = et_rel -> exists sm sn3, forall name, In name (sorted_names (map mr_section (mo_relocs o))) ->
           exists h, In h hs /\ rela_fact ht o sm sn3 bs name h).
Proof. exact export_whole. Qed.
Print Assumptions c17_whole_file_contents.

(* ... so the gABI reader, applied to the final file at the .symtab header, returns exactly the symbol records
   (any number), accepts the locals-first order with the recorded sh_info, and resolves every st_name in [st] *)
Theorem c17_symtab_in_file : forall ht, ht_ok ht -> forall o sn bs st h, symtab_fact ht o sn bs st h ->
  exists es raw,
    read_table (ht_big ht) (sym_layout (ht_bits ht =? 64)) bs
               (hget h "sh_offset" + hget h "sh_entsize") (len es) = Some raw
    /\ omap (mk_sym (ht_bits ht =? 64)) raw = Some (map sym_of es)
    /\ Forall2 (symrel o sn st) (ordered_symbols o) es
    /\ locals_first (hget h "sh_info") (sym_of [] :: map sym_of es) = true.
Proof. exact symtab_fact_read. Qed.
Print Assumptions c17_symtab_in_file.

Theorem c17_rela_in_file : forall ht, ht_ok ht -> forall o sm sn bs name h, rela_fact ht o sm sn bs name h ->
  exists es raw,
    read_table (ht_big ht) (rela_layout (ht_bits ht =? 64)) bs (hget h "sh_offset") (len es) = Some raw
    /\ omap (mk_rela (ht_bits ht =? 64)) raw = Some (map (rela_of (ht_bits ht =? 64)) es)
    /\ Forall2 (relrel ht o sm) (group o name) es /\ sget sn name = Some (hget h "sh_info").
Proof. exact rela_fact_read. Qed.
Print Assumptions c17_rela_in_file.

Theorem c17_strtab_in_file : forall o sn st y e, symrel o sn st y e -> nul_free (my_name y) = true ->
  strtab_get st (hget e "st_name") = Some (str_bytes (my_name y)).
Proof. exact symrel_name. Qed.
Print Assumptions c17_strtab_in_file.

(* ---- whole files, bounded: 82 relocatable + 320 executable objects (4 little-endian machines; 0-3 sections,
        0-5 symbols local/global/undefined, 0-4 relocations on x86_64, 0-2 images, two base addresses):
        the reader accepts the model's bytes and recovers header, sections (name, size, contents, address,
        alignment), symbols (name, binding, type, section, value, size; locals first; sh_info), relocations
        (offset, symbol, type, addend per section) and segments (image bytes), entry point ---- *)
Theorem c17_reader_accepts_and_recovers_bounded :
  forallb (fun ot => recovered_ok (fst ot) (snd ot)) family = true.
Proof. exact family_recovered. Qed.
Print Assumptions c17_reader_accepts_and_recovers_bounded.

(* the reader's acceptance checks are not vacuous: a wrong e_shstrndx or a wrong sh_info is rejected *)
Theorem c17_reader_checks_bite :
  exists bs p, write_elf sample_obj "relocatable" = Ok bs /\ read bs = Some p /\
    read (set_nth 62 1 bs) = None /\
    (exists off, e_shoff (f_ehdr p) = off /\ read (set_nth (Z.to_nat (off + 2 * 64 + 44)) 1 bs) = None).
Proof. exact reader_checks_bite. Qed.
Print Assumptions c17_reader_checks_bite.

Example c17_nonvacuous :
  recovered_ok sample_obj "relocatable" = true /\ len family = 402 /\
  (exists ht, get_htypes 64 false = Ok ht /\ ht_ok ht).
Proof. split; [vm_compute; reflexivity|]. split; [vm_compute; reflexivity|]. exact tab_le64_ok. Qed.
