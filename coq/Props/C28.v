(* Props/C28.v — front-ends fail only with diagnostics, never internal errors (DESIGN §4 C28). PARTIAL.
   The property itself is decided by search (tools/props/c28.py). These theorems cover the components that have
   Coq models: the C constant-expression evaluator + packing (C27: Gen/ceval.v, Model/CEval.v), case labels and
   enumerators (Model/CSwitchEnum.v), `#if` evaluation (C26: Gen/ppif.v, Model/PPIf.v), the constant folder (C38).
   [good r]  = r is Ok _ or Diag _ (never Internal, never OutOfFuel);
   [okish r] = Ok, Diag, or one of the two python exceptions ZeroDivisionError / ValueError(negative shift count).
   [eval_expr_f false] is the evaluator as found, [eval_expr_f true] with fixes/C28-const-division-by-zero.diff;
   [enum_model true] with fixes/C28-enum-range.diff. *)
From PV Require Import Lib.Py Spec.CIntSpec Gen.ceval Model.CEval Model.CSwitchEnum Proofs.C27_ceval Proofs.C28_front
  Gen.ppif Model.PPIf.
From PV Require Spec.IRArith Model.ConstFold Proofs.C38_constfold Props.C38.
From Coq Require Import String.
Open Scope Z_scope.

(* -- refuted as found: 1/0, 1%0, 1 << -1 in a constant expression are python exceptions -- *)
Theorem c28_ceval_no_internal_refuted :
  ops_known e_div0 = true /\ eval_expr x86_64 e_div0 = Internal ZeroDiv /\
  ops_known e_mod0 = true /\ eval_expr x86_64 e_mod0 = Internal ZeroDiv /\
  ops_known e_shl_neg = true /\ eval_expr x86_64 e_shl_neg = Internal ValueErrorI /\
  global_init x86_64 TInt e_div0 = Internal ZeroDiv.
Proof. exact ceval_refuted. Qed.
Print Assumptions c28_ceval_no_internal_refuted.

(* as found, on every tree of the grammar (all unary/binary operators, casts, ?:) those two are the ONLY
   python exceptions: no KeyError (missing operator), NotImplementedError, TypeError *)
Theorem c28_ceval_only_div_shift_partial : forall c, wf_ctx c -> forall e,
  ops_known e = true -> okish (eval_expr c e).
Proof. exact eval_okish. Qed.
Print Assumptions c28_ceval_only_div_shift_partial.

(* the model with [fixed = false] is the C27 model of the code as found *)
Theorem c28_ceval_model_as_found : forall c e, eval_expr_f false c e = eval_expr c e.
Proof. exact eval_f_false. Qed.
Print Assumptions c28_ceval_model_as_found.

(* with the guards: every constant expression of the grammar evaluates or is diagnosed *)
Theorem c28_ceval_no_internal : forall c, wf_ctx c -> forall e,
  ops_known e = true -> good (eval_expr_f true c e).
Proof. exact eval_fixed_good. Qed.
Print Assumptions c28_ceval_no_internal.

(* `T g = e;`: evaluation + struct.pack never raise when the initialiser carries its conversion to T
   (PARTIAL: CSemantics.coerce omits the cast when the expression already has type T) *)
Theorem c28_init_no_internal_partial : forall c, wf_ctx c -> forall t e,
  llong_size c = 8 -> ops_known e = true -> good (global_init_f true c t (CastE e t)).
Proof. exact init_fixed_good. Qed.
Print Assumptions c28_init_no_internal_partial.

(* with fixes/C28-pack-integer-conversion.diff CContext.pack converts to the type itself: it is total and yields
   the object representation of the converted value, for ANY value (out-of-range pointers, enumerators, chars) *)
Theorem c28_pack_no_internal : forall c, wf_ctx c -> forall t v, llong_size c = 8 ->
  pack_w c t v = Ok (bytes_of (little_endian c) (sizeof c t) (convert (dm_of c) t v)).
Proof. exact pack_w_ok. Qed.
Print Assumptions c28_pack_no_internal.

(* hence `T g = e;` needs no cast in the initialiser any more: evaluation (guarded) + packing never raise *)
Theorem c28_init_no_internal : forall c, wf_ctx c -> forall t e,
  llong_size c = 8 -> ops_known e = true -> good (global_init_w c t e).
Proof. exact init_wrap_good. Qed.
Print Assumptions c28_init_no_internal.

(* switch: label evaluation, duplicate / overlapping / inverted labels, duplicate default, code generation *)
Theorem c28_switch_no_internal : forall c, wf_ctx c -> forall ls,
  forallb label_known ls = true -> good (switch_model true c ls).
Proof. exact switch_fixed_good. Qed.
Print Assumptions c28_switch_no_internal.

Theorem c28_switch_no_internal_refuted :
  label_known (ECase e_div0) = true /\ switch_model false x86_64 [ECase e_div0] = Internal ZeroDiv /\
  switch_model true x86_64 [ECase e_div0] = Diag 1.
Proof. exact switch_refuted. Qed.
Print Assumptions c28_switch_no_internal_refuted.

(* enum: an enumerator beyond int reaches struct.pack (as found); with the range check it is a diagnostic *)
Theorem c28_enum_no_internal_refuted :
  enum_model false x86_64 [Some (NumLit 2147483647 TInt); None] = Internal StructError /\
  enum_model true x86_64 [Some (NumLit 2147483647 TInt); None] = Diag 21.
Proof. exact enum_refuted. Qed.
Print Assumptions c28_enum_no_internal_refuted.

Theorem c28_enum_no_internal : forall c, wf_ctx c -> forall ls, llong_size c = 8 ->
  forallb (fun o => match o with Some e => ops_known e | None => true end) ls = true ->
  good (enum_model true c ls).
Proof. exact enum_fixed_good. Qed.
Print Assumptions c28_enum_no_internal.

(* #if: as found, division by zero and negative shift counts are the only python exceptions of _eval_tree *)
Theorem c28_ppif_only_div_shift_partial : forall t, pp_known t = true -> okish (eval_tree t).
Proof. exact ppif_okish. Qed.
Print Assumptions c28_ppif_only_div_shift_partial.

Theorem c28_ppif_no_internal_refuted :
  pp_known (PTBin (PTNum 1) "/" (PTNum 0)) = true /\
  eval_tree (PTBin (PTNum 1) "/" (PTNum 0)) = Internal ZeroDiv /\
  eval_tree (PTBin (PTNum 1) "%" (PTNum 0)) = Internal ZeroDiv /\
  eval_tree (PTBin (PTNum 1) "<<" (PTUn "-" (PTNum 1))) = Internal ValueErrorI.
Proof. exact ppif_refuted. Qed.
Print Assumptions c28_ppif_no_internal_refuted.

(* constant folding (C38): the pass never raises, whatever the operation code and operands *)
Theorem c28_constfold_no_internal : forall z t a b, 1 <= IRArith.bits t ->
  exists r, ConstFold.on_instruction (C38_constfold.bin z (C38_constfold.typ_of t) a b) = Ok r.
Proof.
  intros z t a b H. destruct (C38.c38_fold_in_range z t a b H) as [E|[v [E _]]]; rewrite E; eauto.
Qed.
Print Assumptions c28_constfold_no_internal.

Example c28_nonvacuous :
  wf_ctx x86_64 /\ llong_size x86_64 = 8 /\
  ops_known (BinOp (NumLit 7 TInt) "/" (NumLit 2 TInt) TInt) = true /\
  eval_expr_f true x86_64 (BinOp (NumLit 7 TInt) "/" (NumLit 2 TInt) TInt) = Ok 3 /\
  forallb label_known [ECase (NumLit 1 TInt); ERange (NumLit 2 TInt) (NumLit 4 TInt); EDefault] = true /\
  switch_model true x86_64 [ECase (NumLit 1 TInt); ERange (NumLit 2 TInt) (NumLit 4 TInt); EDefault] = Ok 0 /\
  switch_model true x86_64 [ECase (NumLit 3 TInt); ERange (NumLit 2 TInt) (NumLit 4 TInt)] = Diag 13 /\
  enum_model true x86_64 [None; Some (NumLit 5 TInt); None] = Ok 0.
Proof. exact nonvacuous. Qed.
