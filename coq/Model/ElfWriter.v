(* Model/ElfWriter.v — hand model (tie H) of ppci/format/elf/writer.py (write_elf, ElfWriter.export_object
   and its write_* methods), ppci/format/elf/string.py (StringTable), the BaseHeader serialisation of
   ppci/format/header.py and Image.data of ppci/binutils/objectfile.py.  NO proofs here.
   The header field layouts, the arch table of write_elf, the enum constants, the page size and the
   x86_64 relocation-type table come from Gen/Tab_elf.v (regenerated from /repo on every run).

   File object: [w_buf] is the whole file so far, [tell] = its length (every seek forward of the writer is
   followed by a write, BytesIO zero-fills the gap; the final seek back to offset 16 overwrites the reserved
   ELF header and program header area).  Python dicts are association lists with the newest binding first.
   Not modelled: ET_DYN (write_dynamic_section), create_hash_table (dead code), debug info (never emitted). *)
From PV Require Import Lib.Py Gen.Tab_elf.
From Coq Require Import String Ascii.
Open Scope string_scope.
Open Scope list_scope.
Open Scope Z_scope.

(* ---- object file (ppci.binutils.objectfile) ---- *)
Record msection := { ms_name : string; ms_addr : Z; ms_align : Z; ms_data : list Z }.
Record msymbol := { my_id : Z; my_name : string; my_global : bool (* binding == "global" *);
                    my_value : option Z; my_section : option string; my_typ : string; my_size : Z }.
Record mreloc := { mr_typ : string; mr_symid : Z; mr_section : string; mr_offset : Z; mr_addend : Z }.
Record mimage := { mi_name : string; mi_addr : Z; mi_secs : list msection }.
Record mobj := { mo_arch : string; mo_sections : list msection; mo_symbols : list msymbol;
                 mo_relocs : list mreloc; mo_images : list mimage; mo_entry : option Z }.

(* ---- dict helpers ---- *)
Fixpoint sget {V} (d : list (string * V)) (k : string) : option V :=
  match d with [] => None | (k', v) :: r => if String.eqb k' k then Some v else sget r k end.
Fixpoint zget {V} (d : list (Z * V)) (k : Z) : option V :=
  match d with [] => None | (k', v) :: r => if k' =? k then Some v else zget r k end.
Definition key {A} (o : option A) : result A :=
  match o with Some a => Ok a | None => Internal KeyError end.

Definition zeros (n : Z) : list Z := repeat 0 (Z.to_nat n).

(* ---- struct packing (ppci.format.header.FormatField.encode) ---- *)
Definition fmt_info (c : string) : option (nat * bool) :=   (* size, signed *)
  if String.eqb c "B" then Some (1%nat, false) else if String.eqb c "b" then Some (1%nat, true)
  else if String.eqb c "H" then Some (2%nat, false) else if String.eqb c "h" then Some (2%nat, true)
  else if String.eqb c "I" then Some (4%nat, false) else if String.eqb c "i" then Some (4%nat, true)
  else if String.eqb c "Q" then Some (8%nat, false) else if String.eqb c "q" then Some (8%nat, true)
  else None.
Fixpoint le_bytes (n : nat) (v : Z) : list Z :=
  match n with O => [] | S n' => v mod 256 :: le_bytes n' (v / 256) end.
Definition pack (be : bool) (c : string) (v : Z) : result (list Z) :=
  match fmt_info c with
  | None => Internal StructError
  | Some (n, sg) =>
      let w := 8 * Z.of_nat n in
      let lo := if sg then - 2 ^ (w - 1) else 0 in
      let hi := if sg then 2 ^ (w - 1) else 2 ^ w in
      if (lo <=? v) && (v <? hi)
      then Ok (let l := le_bytes n v in if be then rev l else l)
      else Internal StructError
  end.

(* a header instance: attribute assignments, newest first; unset fields read 0 *)
Definition hdr := list (string * Z).
Definition hget (h : hdr) (k : string) : Z := match sget h k with Some v => v | None => 0 end.
Definition hset (h : hdr) (k : string) (v : Z) : hdr := (k, v) :: h.

Definition layout := list (string * string * bool).     (* field name, struct format char, big-endian as packed *)
Fixpoint serialize (L : layout) (h : hdr) : result (list Z) :=
  match L with
  | [] => Ok []
  | (n, c, be) :: r => x <- pack be c (hget h n) ;; xs <- serialize r h ;; Ok (x ++ xs)
  end.
Fixpoint layout_size (L : layout) : Z :=
  match L with
  | [] => 0
  | (_, c, _) :: r => (match fmt_info c with Some (n, _) => Z.of_nat n | None => 0 end) + layout_size r
  end.

(* HeaderTypes(bits, endianness) *)
Record htypes := { ht_bits : Z; ht_big : bool; ht_ehdr : layout; ht_shdr : layout; ht_phdr : layout;
                   ht_sym : layout; ht_rela : layout }.
Definition get_htypes (bits : Z) (big : bool) : result htypes :=
  match find (fun e => (fst (fst e) =? bits) && Bool.eqb (snd (fst e)) big) hdr_layout_table with
  | None => Internal KeyError
  | Some (_, t) =>
      eh <- key (sget t "ElfHeader") ;; sh <- key (sget t "SectionHeader") ;;
      ph <- key (sget t "ProgramHeader") ;; sy <- key (sget t "SymbolTableEntry") ;;
      rl <- key (sget t "RelocationTableEntry") ;;
      Ok {| ht_bits := bits; ht_big := big; ht_ehdr := eh; ht_shdr := sh; ht_phdr := ph; ht_sym := sy;
            ht_rela := rl |}
  end.

(* ---- writer state ---- *)
Record wst := { w_buf : list Z; w_shdrs : list hdr; w_secnums : list (string * Z);
                w_strtab : list Z; w_names : list (string * Z); w_phdrs : list hdr;
                w_symmap : list (Z * Z); w_eh : hdr }.
Definition tell (s : wst) : Z := len (w_buf s).
Definition wr (s : wst) (bs : list Z) : wst :=
  {| w_buf := w_buf s ++ bs; w_shdrs := w_shdrs s; w_secnums := w_secnums s; w_strtab := w_strtab s;
     w_names := w_names s; w_phdrs := w_phdrs s; w_symmap := w_symmap s; w_eh := w_eh s |}.
Definition set_eh (s : wst) (k : string) (v : Z) : wst :=
  {| w_buf := w_buf s; w_shdrs := w_shdrs s; w_secnums := w_secnums s; w_strtab := w_strtab s;
     w_names := w_names s; w_phdrs := w_phdrs s; w_symmap := w_symmap s; w_eh := hset (w_eh s) k v |}.
(* section_headers.append(h); optionally section_numbers[name] = len(section_headers) *)
Definition add_shdr (s : wst) (h : hdr) (reg : option string) : wst :=
  {| w_buf := w_buf s; w_shdrs := w_shdrs s ++ [h];
     w_secnums := match reg with Some n => (n, len (w_shdrs s) + 1) :: w_secnums s | None => w_secnums s end;
     w_strtab := w_strtab s; w_names := w_names s; w_phdrs := w_phdrs s; w_symmap := w_symmap s;
     w_eh := w_eh s |}.
Definition add_phdr (s : wst) (h : hdr) : wst :=
  {| w_buf := w_buf s; w_shdrs := w_shdrs s; w_secnums := w_secnums s; w_strtab := w_strtab s;
     w_names := w_names s; w_phdrs := w_phdrs s ++ [h]; w_symmap := w_symmap s; w_eh := w_eh s |}.
Definition add_symmap (s : wst) (id nr : Z) : wst :=
  {| w_buf := w_buf s; w_shdrs := w_shdrs s; w_secnums := w_secnums s; w_strtab := w_strtab s;
     w_names := w_names s; w_phdrs := w_phdrs s; w_symmap := (id, nr) :: w_symmap s; w_eh := w_eh s |}.

(* str.encode("ascii") *)
Fixpoint str_bytes (s : string) : list Z :=
  match s with EmptyString => [] | String a r => Z.of_N (N_of_ascii a) :: str_bytes r end.
Definition encode_ascii (s : string) : result (list Z) :=
  let b := str_bytes s in if forallb (fun x => x <? 128) b then Ok b else Internal (OtherI 2).

(* StringTable.get_name via ElfWriter.get_string *)
Definition get_string (s : wst) (txt : string) : result (Z * wst) :=
  match sget (w_names s) txt with
  | Some i => Ok (i, s)
  | None =>
      b <- encode_ascii txt ;;
      Ok (len (w_strtab s),
          {| w_buf := w_buf s; w_shdrs := w_shdrs s; w_secnums := w_secnums s;
             w_strtab := w_strtab s ++ b ++ [0]; w_names := (txt, len (w_strtab s)) :: w_names s;
             w_phdrs := w_phdrs s; w_symmap := w_symmap s; w_eh := w_eh s |})
  end.

Definition align_to (s : wst) (a : Z) : result wst :=
  if a =? 0 then Internal ZeroDiv else
  let padding := (a - tell s mod a) mod a in
  if padding <? 0 then Internal ValueErrorI else
  let s' := wr s (zeros padding) in
  if tell s' mod a =? 0 then Ok s' else Internal AssertionError.

(* ElfWriter.gen_section_header *)
Definition gen_section_header (s : wst) (sec : msection) (offset : Z) : result wst :=
  '(nm, s) <- get_string s (ms_name sec) ;;
  let flags := Z.lor shf_alloc (if String.eqb (ms_name sec) "data" then shf_write else shf_execinstr) in
  let h := [("sh_addralign", ms_align sec); ("sh_size", len (ms_data sec)); ("sh_offset", offset);
            ("sh_addr", ms_addr sec); ("sh_flags", flags); ("sh_type", sht_progbits); ("sh_name", nm)] in
  Ok (add_shdr s h (Some (ms_name sec))).

(* Image.data: sections in list order, gaps zero-filled, overlap -> ValueError *)
Fixpoint image_data_from (cur : Z) (secs : list msection) : result (list Z) :=
  match secs with
  | [] => Ok []
  | sec :: r =>
      if ms_addr sec <? cur then Diag 2 (* ValueError("sections overlap!!") *) else
      rest <- image_data_from (ms_addr sec + len (ms_data sec)) r ;;
      Ok (zeros (ms_addr sec - cur) ++ ms_data sec ++ rest)
  end.
Definition image_data (im : mimage) : result (list Z) := image_data_from (mi_addr im) (mi_secs im).

Fixpoint image_headers (s : wst) (im : mimage) (file_offset : Z) (secs : list msection) : result wst :=
  match secs with
  | [] => Ok s
  | sec :: r => s <- gen_section_header s sec (file_offset + (ms_addr sec - mi_addr im)) ;;
                image_headers s im file_offset r
  end.

Fixpoint write_image_list (s : wst) (ims : list mimage) : result wst :=
  match ims with
  | [] => Ok s
  | im :: r =>
      s <- align_to s page_size ;;
      (* after fixes/C17-segment-congruence.diff: p_offset congruent to p_vaddr modulo the page size *)
      let s := if segments_congruent then wr s (zeros (mi_addr im mod page_size)) else s in
      let file_offset := tell s in
      s <- image_headers s im file_offset (mi_secs im) ;;
      d <- image_data im ;;
      let s := wr s d in
      let size := len d in
      let ph := [("p_align", page_size); ("p_memsz", size); ("p_filesz", size); ("p_paddr", mi_addr im);
                 ("p_vaddr", mi_addr im); ("p_offset", file_offset);
                 ("p_flags", if String.eqb (mi_name im) "code" then 5 else 6); ("p_type", pt_load)] in
      write_image_list (add_phdr s ph) r
  end.

(* ElfWriter.write_images (e_type = ET_EXEC) *)
Definition write_images (ht : htypes) (o : mobj) (s : wst) : result wst :=
  let s := set_eh s "e_phoff" (tell s) in
  let s := set_eh s "e_phentsize" (layout_size (ht_phdr ht)) in
  let s := set_eh s "e_phnum" (len (mo_images o)) in
  let s := wr s (zeros (len (mo_images o) * layout_size (ht_phdr ht))) in
  write_image_list s (mo_images o).

(* ElfWriter.write_sections *)
Fixpoint write_sections (s : wst) (secs : list msection) : result wst :=
  match secs with
  | [] => Ok s
  | sec :: r =>
      match sget (w_secnums s) (ms_name sec) with
      | Some _ => write_sections s r
      | None =>
          s <- align_to s (ms_align sec) ;;
          let file_offset := tell s in
          let s := wr s (ms_data sec) in
          s <- gen_section_header s sec file_offset ;;
          write_sections s r
      end
  end.

(* obj.get_section(name) = section_map[name]: the last section added under that name *)
Definition obj_get_section (o : mobj) (name : string) : result msection :=
  key (find (fun sec => String.eqb (ms_name sec) name) (rev (mo_sections o))).
Definition symbols_by_id (o : mobj) (id : Z) : result msymbol :=
  key (find (fun y => my_id y =? id) (mo_symbols o)).

Definition st_type_of (typ : string) : Z :=
  if String.eqb typ "func" then stt_func else if String.eqb typ "object" then stt_object else stt_notype.

Fixpoint write_symbols (ht : htypes) (o : mobj) (s : wst) (nr : Z) (syms : list msymbol) : result wst :=
  match syms with
  | [] => Ok s
  | y :: r =>
      let s := add_symmap s (my_id y) nr in
      let st_bind := if my_global y then stb_global else stb_local in
      '(nm, s) <- get_string s (my_name y) ;;
      let info := Z.lor (Z.shiftl st_bind 4) (st_type_of (my_typ y)) in
      '(shndx, value) <- match my_value y with
                         | Some v =>
                             match my_section y, abs_symbol_shndx with
                             | None, Some shn_abs => Ok (shn_abs, v)   (* absolute symbol (after C17-absolute-symbols) *)
                             | _, _ =>
                                 secname <- key (my_section y) ;;
                                 n <- key (sget (w_secnums s) secname) ;;
                                 sec <- obj_get_section o secname ;;
                                 Ok (n, v + ms_addr sec)
                             end
                         | None => Ok (0, 0)
                         end ;;
      let e := [("st_size", my_size y); ("st_value", value); ("st_shndx", shndx); ("st_info", info);
                ("st_name", nm)] in
      b <- serialize (ht_sym ht) e ;;
      write_symbols ht o (wr s b) (nr + 1) r
  end.

(* ElfWriter.write_symbol_table *)
Definition write_symbol_table (ht : htypes) (o : mobj) (s : wst) : result wst :=
  let alignment := if ht_bits ht =? 64 then 8 else 4 in
  s <- align_to s alignment ;;
  let symtab_offset := tell s in
  let entsize := layout_size (ht_sym ht) in
  let symtab_size := entsize * (len (mo_symbols o) + 1) in
  let locals := filter (fun y => negb (my_global y)) (mo_symbols o) in
  let globals := filter my_global (mo_symbols o) in
  let s := wr s (zeros entsize) in
  s <- write_symbols ht o s 1 (locals ++ globals) ;;
  '(nm, s) <- get_string s ".symtab" ;;
  let h := [("sh_entsize", entsize); ("sh_addralign", alignment); ("sh_info", len locals + 1);
            ("sh_link", 0); ("sh_size", symtab_size); ("sh_offset", symtab_offset);
            ("sh_flags", shf_alloc); ("sh_type", sht_symtab); ("sh_name", nm)] in
  Ok (add_shdr s h (Some ".symtab")).

(* Architecture.get_reloc_type via ElfWriter.get_reloc_type; only x86_64 overrides the base method *)
Definition get_reloc_type (o : mobj) (rel : mreloc) : result Z :=
  y <- symbols_by_id o (mr_symid rel) ;;
  match sget reloc_impl_table (mo_arch o) with
  | Some true =>
      if String.eqb (mo_arch o) "x86_64" then
        if String.eqb (my_typ y) "func" && (match my_value y with None => true | Some _ => false end)
           && String.eqb (mr_typ rel) "rel32"
        then Ok r_x86_64_plt32
        else key (sget x86_64_reloc_map (mr_typ rel))
      else Internal (OtherI 1)          (* an override this model does not know *)
  | _ => Internal NotImplemented
  end.

(* sorted(reloc_groups): distinct section names in str order *)
Fixpoint insert_sorted (x : string) (l : list string) : list string :=
  match l with
  | [] => [x]
  | y :: r => match String.compare x y with
              | Eq => l
              | Lt => x :: l
              | Gt => y :: insert_sorted x r
              end
  end.
Definition sorted_names (l : list string) : list string := fold_right insert_sorted [] l.

Fixpoint write_relas (ht : htypes) (o : mobj) (s : wst) (rels : list mreloc) : result wst :=
  match rels with
  | [] => Ok s
  | rel :: r =>
      r_sym <- key (zget (w_symmap s) (mr_symid rel)) ;;
      r_type <- get_reloc_type o rel ;;
      let r_info := if ht_bits ht =? 64 then Z.shiftl r_sym 32 + r_type else Z.shiftl r_sym 8 + r_type in
      let e := [("r_addend", mr_addend rel); ("r_info", r_info); ("r_offset", mr_offset rel)] in
      b <- serialize (ht_rela ht) e ;;
      write_relas ht o (wr s b) r
  end.

Fixpoint write_rela_groups (ht : htypes) (o : mobj) (s : wst) (names : list string) : result wst :=
  match names with
  | [] => Ok s
  | name :: r =>
      let alignment := if ht_bits ht =? 64 then 8 else 4 in
      let entsize := layout_size (ht_rela ht) in
      let group := filter (fun rel => String.eqb (mr_section rel) name) (mo_relocs o) in
      s <- align_to s alignment ;;
      let rela_offset := tell s in
      s <- write_relas ht o s group ;;
      '(nm, s) <- get_string s (".rela" ++ name)%string ;;
      info <- key (sget (w_secnums s) name) ;;
      let h := [("sh_entsize", entsize); ("sh_addralign", alignment); ("sh_info", info); ("sh_link", 0);
                ("sh_size", entsize * len group); ("sh_offset", rela_offset); ("sh_flags", shf_info_link);
                ("sh_type", sht_rela); ("sh_name", nm)] in
      write_rela_groups ht o (add_shdr s h None) r
  end.

(* ElfWriter.write_rela_table *)
Definition write_rela_table (ht : htypes) (o : mobj) (s : wst) : result wst :=
  write_rela_groups ht o s (sorted_names (map mr_section (mo_relocs o))).

(* ElfWriter.write_string_table *)
Definition write_string_table (s : wst) : result wst :=
  s <- align_to s 1 ;;
  let strtab_offset := tell s in
  '(nm, s) <- get_string s ".strtab" ;;
  let size := len (w_strtab s) in
  let s := wr s (w_strtab s) in
  let h := [("sh_addralign", 1); ("sh_size", size); ("sh_offset", strtab_offset); ("sh_flags", shf_alloc);
            ("sh_type", sht_strtab); ("sh_name", nm)] in
  Ok (add_shdr s h (Some ".strtab")).

Fixpoint write_shdr_list (ht : htypes) (s : wst) (hs : list hdr) : result wst :=
  match hs with
  | [] => Ok s
  | h :: r =>
      h' <- (if hget h "sh_type" =? sht_symtab then
               n <- key (sget (w_secnums s) ".strtab") ;; Ok (hset h "sh_link" n)
             else if hget h "sh_type" =? sht_dynamic then
               n <- key (sget (w_secnums s) ".strtab") ;; Ok (hset h "sh_link" n)
             else if hget h "sh_type" =? sht_rela then
               n <- key (sget (w_secnums s) ".symtab") ;; Ok (hset h "sh_link" n)
             else Ok h) ;;
      b <- serialize (ht_shdr ht) h' ;;
      write_shdr_list ht (wr s b) r
  end.

(* ElfWriter.write_section_headers *)
Definition write_section_headers (ht : htypes) (s : wst) : result wst :=
  s <- align_to s 8 ;;
  let s := set_eh s "e_shoff" (tell s) in
  let s := set_eh s "e_shentsize" (layout_size (ht_shdr ht)) in
  let s := set_eh s "e_shnum" (len (w_shdrs s) + 1) in
  let s := wr s (zeros (layout_size (ht_shdr ht))) in
  write_shdr_list ht s (w_shdrs s).

(* ObjectFile.get_symbol_id_value *)
Definition get_symbol_id_value (o : mobj) (id : Z) : result Z :=
  y <- symbols_by_id o id ;;
  match my_value y with
  | None => Diag 1                      (* ValueError("Undefined reference ...") *)
  | Some v => match my_section y with
              | None => Ok v
              | Some secname => sec <- obj_get_section o secname ;; Ok (v + ms_addr sec)
              end
  end.

(* ElfWriter.write_elf_header: the serialised header *)
Definition elf_header_bytes (ht : htypes) (o : mobj) (machine e_type : Z) (s : wst) : result (list Z) :=
  let eh := hset (hset (hset (w_eh s) "e_type" e_type) "e_machine" machine) "e_version" 1 in
  eh <- (if e_type =? et_exec then
           match mo_entry o with
           | None => Ok (hset eh "e_entry" 0)
           | Some id => v <- get_symbol_id_value o id ;; Ok (hset eh "e_entry" v)
           end
         else Ok eh) ;;
  let eh := hset eh "e_flags" 0 in
  let eh := hset eh "e_ehsize" (e_ident_size + layout_size (ht_ehdr ht)) in
  n <- key (sget (w_secnums s) ".strtab") ;;
  let eh := hset eh "e_shstrndx" n in
  serialize (ht_ehdr ht) eh.

Fixpoint serialize_all (L : layout) (hs : list hdr) : result (list Z) :=
  match hs with
  | [] => Ok []
  | h :: r => b <- serialize L h ;; bs <- serialize_all L r ;; Ok (b ++ bs)
  end.

(* ElfWriter.write_identification *)
Definition ident_bytes (ht : htypes) : result (list Z) :=
  c <- (if ht_bits ht =? 32 then Ok 1 else if ht_bits ht =? 64 then Ok 2 else Internal KeyError) ;;
  Ok ([127; 69; 76; 70; c; (if ht_big ht then 2 else 1); 1; 0] ++ zeros 8).

(* writing [bs] at offset [off] <= len buf into the file *)
Definition overwrite (buf : list Z) (off : Z) (bs : list Z) : list Z :=
  firstn (Z.to_nat off) buf ++ bs ++ skipn (Z.to_nat (off + len bs)) buf.

(* ElfWriter.export_object for e_type in {ET_REL, ET_EXEC} *)
Definition export_object (ht : htypes) (machine : Z) (o : mobj) (e_type : Z) : result (list Z) :=
  if negb ((e_type =? et_rel) || (e_type =? et_exec)) then Internal (OtherI 3) (* ET_DYN: not modelled *) else
  id <- ident_bytes ht ;;
  let s := {| w_buf := id ++ zeros (layout_size (ht_ehdr ht)); w_shdrs := []; w_secnums := [];
              w_strtab := [0]; w_names := []; w_phdrs := []; w_symmap := []; w_eh := [] |} in
  s <- (if negb (len (mo_images o) =? 0) && (e_type =? et_exec) then write_images ht o s else Ok s) ;;
  s <- write_sections s (mo_sections o) ;;
  s <- write_symbol_table ht o s ;;
  s <- (if e_type =? et_rel then write_rela_table ht o s else Ok s) ;;
  s <- write_string_table s ;;
  s <- write_section_headers ht s ;;
  eb <- elf_header_bytes ht o machine e_type s ;;
  u <- (if hget (w_eh s) "e_phnum" =? len (w_phdrs s) then Ok tt else Internal AssertionError) ;;
  pb <- serialize_all (ht_phdr ht) (w_phdrs s) ;;
  Ok (overwrite (w_buf s) e_ident_size (eb ++ pb)).

(* ppci.format.elf.write_elf(obj, f, type) *)
Definition write_elf (o : mobj) (typ : string) : result (list Z) :=
  '(bits, big, _) <- key (sget elf_arch_table (mo_arch o)) ;;
  ht <- get_htypes bits big ;;
  e_type <- key (sget elf_type_table typ) ;;
  machine <- key (sget machine_table (mo_arch o)) ;;
  export_object ht machine o e_type.

(* ---- compact rendering for the correspondence: length + non-zero bytes with their offsets ---- *)
Fixpoint sparse_from (i : Z) (l : list Z) : list (Z * Z) :=
  match l with
  | [] => []
  | b :: r => if b =? 0 then sparse_from (i + 1) r else (i, b) :: sparse_from (i + 1) r
  end.
Definition sparse (r : result (list Z)) : result (Z * list (Z * Z)) :=
  b <- r ;; Ok (len b, sparse_from 0 b).
