(* Model/WasmTextDefs.v — C21 hand model (tie H) of the DEFINITION level of the text form for the
   kinds memory, table, global and func: TextWriter.write_{memory,table,global,func}_definition and
   WatParser.parse_{memory,table,global,func} restricted to what the writer emits for a module read
   from binary (integer ids are printed as comments and dropped by the lexer; numeric references;
   anonymous locals; no inline import/export/data/elem abbreviations). Definitions only.
   The parser's block_stack bookkeeping (assert at the end of a function) is not modelled. *)
From PV Require Import Lib.Py Model.WasmTypes Gen.Tab_wasm_opcodes Gen.Tab_wasm_text Model.WasmBin Model.WasmText.
From Coq Require Import String.
Local Open Scope string_scope.
Local Open Scope list_scope.
Open Scope Z_scope.

Definition print_limits (drop_zero : bool) (mn : Z) (mx : option Z) : list piece :=
  match mx with
  | Some m => [PW (dec mn); PW (dec m)]
  | None => if drop_zero && (mn =? 0) then [] else [PW (dec mn)]
  end.

Definition print_def (fs : fspell) (d : defn) : result (list piece) :=
  match d with
  | DMemory mn mx => Ok ([PL; PW "memory"] ++ print_limits false mn mx ++ [PR])
  | DTable k mn mx => Ok ([PL; PW "table"] ++ print_limits true mn mx ++ [PW k; PR])
  | DGlobal t m init =>
      body <- print_instrs fs init ;;
      Ok ([PL; PW "global"] ++ (if m then [PL; PW "mut"; PW t; PR] else [PW t]) ++ body ++ [PR])
  | DFunc r locals instructions =>
      body <- print_instrs fs instructions ;;
      Ok ([PL; PW "func"; PL; PW "type"; PW (dec (snd r)); PR] ++
          (match locals with [] => [] | _ => [PL; PW "local"] ++ map PW locals ++ [PR] end) ++
          body ++ [PR])
  | DType params results =>
      Ok ([PL; PW "type"; PL; PW "func"] ++
          (match params with [] => [] | _ => [PL; PW "param"] ++ map PW params ++ [PR] end) ++
          (match results with [] => [] | _ => [PL; PW "result"] ++ map PW results ++ [PR] end) ++
          [PR; PR])
  | DStart r => Ok [PL; PW "start"; PW (dec (snd r)); PR]
  | DElem tab offset refs =>
      if negb (snd tab =? 0) then Internal NotImplemented        (* "(table n)": not modelled *)
      else
        body <- print_instrs fs offset ;;
        Ok ([PL; PW "elem"; PL; PW "offset"] ++ body ++ [PR] ++ map (fun r => PW (dec (snd r))) refs ++ [PR])
  | _ => Internal NotImplemented
  end.

(* at_instruction *)
Definition in_opcodes (w : string) : bool :=
  match assoc String.eqb opcodes w with Some _ => true | None => false end.
Definition at_instruction (ts : list tok) : bool :=
  match ts with
  | TLpar :: TWord w :: _ => in_opcodes w
  | TWord w :: _ => in_opcodes w
  | _ => false
  end.

(* _load_instruction_list *)
Fixpoint parse_instr_list (fs : fspell) (fuel : nat) (ts : list tok) : result (list instr * list tok) :=
  match fuel with
  | O => OutOfFuel
  | S f =>
      if at_instruction ts then
        '(i, r) <- parse_instr fs ts ;; '(l, r') <- parse_instr_list fs f r ;; Ok (i :: l, r')
      else Ok ([], ts)
  end.

(* parse_limits *)
Definition parse_limits (ts : list tok) : (Z * option Z) * list tok :=
  match ts with
  | TInt mn :: TInt mx :: r => ((mn, Some mx), r)
  | TInt mn :: r => ((mn, None), r)
  | _ => ((0, None), ts)
  end.

(* anonymous (local t1 t2 ...) groups *)
Fixpoint parse_words (fuel : nat) (ts : list tok) : result (list string * list tok) :=
  match fuel with
  | O => OutOfFuel
  | S f =>
      match ts with
      | TRpar :: r => Ok ([], r)
      | TWord w :: r => if is_dollar w then Internal NotImplemented
                        else '(l, r') <- parse_words f r ;; Ok (w :: l, r')
      | _ => Internal NotImplemented
      end
  end.
Fixpoint parse_locals (fuel : nat) (ts : list tok) : result (list string * list tok) :=
  match fuel with
  | O => OutOfFuel
  | S f =>
      match ts with
      | TLpar :: TWord w :: r =>
          if String.eqb w "local" then
            '(l, r1) <- parse_words (S (List.length r)) r ;;
            '(l', r2) <- parse_locals f r1 ;; Ok (l ++ l', r2)
          else Ok ([], ts)
      | _ => Ok ([], ts)
      end
  end.

(* (kw w1 w2 ...)* : _parse_type_bound_value_list / _parse_result_list, anonymous entries *)
Fixpoint parse_groups (kw : string) (fuel : nat) (ts : list tok) : result (list string * list tok) :=
  match fuel with
  | O => OutOfFuel
  | S f =>
      match ts with
      | TLpar :: TWord w :: r =>
          if String.eqb w kw then
            '(l, r1) <- parse_words (S (List.length r)) r ;;
            '(l', r2) <- parse_groups kw f r1 ;; Ok (l ++ l', r2)
          else Ok ([], ts)
      | _ => Ok ([], ts)
      end
  end.

(* while self._at_ref(): refs.append(self._parse_ref("func")) — numeric references *)
Fixpoint parse_func_refs (ts : list tok) : list ref * list tok :=
  match ts with
  | TInt z :: r => let p := parse_func_refs r in (("func", z) :: fst p, snd p)
  | _ => ([], ts)
  end.

Definition expect_rpar {A} (x : A) (ts : list tok) : result (A * list tok) :=
  match ts with TRpar :: r => Ok (x, r) | _ => Diag 13 end.

Definition is_reftype (w : string) : bool := String.eqb w "funcref" || String.eqb w "externref".

Definition sig_follows (ts : list tok) : bool :=
  match ts with
  | TLpar :: TWord w :: _ => String.eqb w "param" || String.eqb w "result"
  | _ => false
  end.

(* one "(" kind ... ")" field of parse_module's loop *)
Definition parse_def (fs : fspell) (ts : list tok) : result (defn * list tok) :=
  match ts with
  | TLpar :: TWord kind :: r =>
      if String.eqb kind "memory" then
        match r with
        | TWord _ :: _ | TLpar :: _ => Internal NotImplemented      (* $id, inline export/import/data *)
        | _ => let '(lim, r1) := parse_limits r in expect_rpar (DMemory (fst lim) (snd lim)) r1
        end
      else if String.eqb kind "table" then
        match r with
        | TLpar :: _ => Internal NotImplemented
        | TWord w :: _ => if is_reftype w then Diag 14              (* embedded element segment expected *)
                          else Internal NotImplemented
        | _ =>
            let '(lim, r1) := parse_limits r in
            match r1 with
            | TWord k :: r2 => if is_reftype k then expect_rpar (DTable k (fst lim) (snd lim)) r2 else Diag 15
            | _ => Diag 15
            end
        end
      else if String.eqb kind "global" then
        '(tm, r1) <- match r with
                     | TLpar :: TWord w :: TWord t :: TRpar :: r' =>
                         if String.eqb w "mut" then Ok ((t, true), r') else Internal NotImplemented
                     | TWord t :: r' => if is_dollar t then Internal NotImplemented else Ok ((t, false), r')
                     | _ => Internal NotImplemented
                     end ;;
        '(init, r2) <- parse_instr_list fs (S (List.length r1)) r1 ;;
        expect_rpar (DGlobal (fst tm) (snd tm) init) r2
      else if String.eqb kind "func" then
        match r with
        | TLpar :: TWord w :: TInt ty :: TRpar :: r1 =>
            if String.eqb w "type" then
              if sig_follows r1 then Internal NotImplemented       (* trailing (param ..)/(result ..) *)
              else
                '(locals, r2) <- parse_locals (S (List.length r1)) r1 ;;
                '(body, r3) <- parse_instr_list fs (S (List.length r2)) r2 ;;
                expect_rpar (DFunc ("type", ty) locals body) r3
            else Internal NotImplemented
        | _ => Internal NotImplemented
        end
      else if String.eqb kind "type" then
        match r with
        | TLpar :: TWord w :: r1 =>
            if String.eqb w "func" then
              '(params, r2) <- parse_groups "param" (S (List.length r1)) r1 ;;
              '(results, r3) <- parse_groups "result" (S (List.length r2)) r2 ;;
              match r3 with
              | TRpar :: r4 => expect_rpar (DType params results) r4
              | _ => Diag 13
              end
            else Diag 17
        | _ => Internal NotImplemented
        end
      else if String.eqb kind "start" then
        match r with
        | TInt z :: r1 => expect_rpar (DStart ("func", z)) r1
        | _ => Internal NotImplemented
        end
      else if String.eqb kind "elem" then
        match r with
        | TLpar :: TWord w :: r1 =>
            if String.eqb w "offset" then
              '(offset, r2) <- parse_instr_list fs (S (List.length r1)) r1 ;;
              match r2 with
              | TRpar :: r3 =>
                  let p := parse_func_refs r3 in
                  match snd p with
                  | TRpar :: r4 => Ok (DElem ("table", 0) offset (fst p), r4)
                  | _ => Internal NotImplemented           (* func / funcref item lists *)
                  end
              | _ => Diag 13
              end
            else Internal NotImplemented
        | _ => Internal NotImplemented
        end
      else Internal NotImplemented
  | _ => Diag 16
  end.

(* ---- the (module ...) loop of parse_module; definitions in text order ---- *)
Fixpoint print_defs (fs : fspell) (l : list defn) : result (list piece) :=
  match l with
  | [] => Ok []
  | d :: r => a <- print_def fs d ;; b <- print_defs fs r ;; Ok (a ++ b)
  end.
Definition print_module (fs : fspell) (l : list defn) : result (list piece) :=
  b <- print_defs fs l ;; Ok ([PL; PW "module"] ++ b ++ [PR]).

Fixpoint parse_defs (fs : fspell) (fuel : nat) (ts : list tok) : result (list defn * list tok) :=
  match fuel with
  | O => OutOfFuel
  | S f =>
      match ts with
      | TLpar :: _ => '(d, r) <- parse_def fs ts ;; '(l, r') <- parse_defs fs f r ;; Ok (d :: l, r')
      | _ => Ok ([], ts)
      end
  end.
Definition parse_module_text (fs : fspell) (ts : list tok) : result (list defn) :=
  match ts with
  | TLpar :: TWord w :: r =>
      if String.eqb w "module" then
        match r with
        | TWord _ :: _ => Internal NotImplemented                    (* module $id *)
        | _ =>
            '(l, r1) <- parse_defs fs (S (List.length r)) r ;;
            match r1 with
            | [TRpar] => Ok l
            | _ => Diag 13
            end
        end
      else Internal NotImplemented
  | _ => Diag 16
  end.

(* ---- rendering for the correspondence case files ---- *)
From PV Require Import Lib.Val Model.WasmBinVal.
Definition text_def_print_val (fs : fspell) (d : defn) : val :=
  match print_def fs d with
  | Ok ps => VOk (VL (map tok_val (lex ps)))
  | Diag _ => VDiag | Internal _ => VInternal | OutOfFuel => VFuel
  end.
Definition text_def_parse_val (fs : fspell) (d : defn) : val :=
  match print_def fs d with
  | Ok ps => match parse_def fs (lex ps) with
             | Ok (d', []) => VOk (defn_val d')
             | _ => VInternal
             end
  | _ => VFuel
  end.

Definition text_module_print_val (fs : fspell) (l : list defn) : val :=
  match print_module fs l with
  | Ok ps => VOk (VL (map tok_val (lex ps)))
  | Diag _ => VDiag | Internal _ => VInternal | OutOfFuel => VFuel
  end.
Definition text_module_parse_val (fs : fspell) (l : list defn) : val :=
  match print_module fs l with
  | Ok ps => match parse_module_text fs (lex ps) with
             | Ok l' => VOk (VL (map defn_val l'))
             | _ => VInternal
             end
  | _ => VFuel
  end.
