(* Model/C30Sites.v — small hand models (tie H) of the places where a builtin `set` of id-hashed
   objects meets the generated code, each parametrised by the enumeration order of the set.
   No proofs here.  Objects (registers, blocks) are integers naming their identity.

   A builtin set is modelled by the duplicate-free list of its elements in some canonical order; the
   order in which CPython *enumerates* it (iteration, pop) is not determined by the program: it is a
   parameter [enum : list Z -> list Z] (a permutation of its argument) wherever the code enumerates,
   and theorems quantify over it.  Code that only tests membership does not take the parameter. *)
From PV Require Import Lib.Py Model.OrderedSet.
Open Scope Z_scope.

Definition set_add (x : Z) (s : list Z) : list Z := if mem x s then s else x :: s.

(* ------------------------------------------------------------------------------------------
   ppci/codegen/registerallocator.py  GraphColoringRegisterAllocator.assign_colors, loop body

       takenregs = set()
       for m in node.adjecent:
           if m.reg in self.alias:
               for r in self.alias[m.reg]: takenregs.add(r)
           else:
               takenregs.add(m.reg)
       ok_regs = self.cls_regs[node.reg_class] - takenregs        # OrderedSet - set
       if ok_regs: reg = ok_regs[0]; node.reg = reg
       else: spilled_nodes.append(node)

   adj : the registers m.reg of the neighbours in the order node.adjecent yields them; None (an
   uncoloured neighbour) is added to takenregs too but can never equal a register of the class, so
   it is skipped.  alias r = Some rs when `r in self.alias`. *)
Definition taken_step (alias : Z -> option (list Z)) (tk : list Z) (m : option Z) : list Z :=
  match m with
  | None => tk
  | Some r => match alias r with
              | Some rs => fold_left (fun t a => set_add a t) rs tk
              | None => set_add r tk
              end
  end.
Definition takenregs (alias : Z -> option (list Z)) (adj : list (option Z)) : list Z :=
  fold_left (taken_step alias) adj [].

Definition assign_color (cls_regs : oset) (alias : Z -> option (list Z)) (adj : list (option Z)) : option Z :=
  let ok_regs := os_sub cls_regs (takenregs alias adj) in
  if 0 <? os_len ok_regs then os_getitem ok_regs 0 else None.      (* None: the node is spilled *)

(* ------------------------------------------------------------------------------------------
   get_callee_saved of x86_64 / riscv / xtensa / msp430 / mips / or1k / microblaze arch.py

       saved_registers = []
       for reg in self.callee_save:                      # a tuple
           if frame.is_used(reg, self.info.alias):       # any(r in self.used_regs for r in alias[reg.get_real()])
               saved_registers.append(reg)

   used : frame.used_regs (builtin set) — membership only. *)
Definition is_used (used : list Z) (alias : Z -> list Z) (reg : Z) : bool :=
  existsb (fun r => mem r used) (alias reg).
Definition callee_saved (callee_save : list Z) (used : list Z) (alias : Z -> list Z) : list Z :=
  filter (is_used used alias) callee_save.

(* arm: get_callee_saved returns a builtin set, Push/Pop encode it as a bit mask
       def reg_list_to_mask(reg_list): mask = 0; for reg in reg_list: mask |= 1 << reg.num
   e : the enumeration of the set *)
Definition arm_saved_set (callee_save used : list Z) : list Z := filter (fun r => mem r used) callee_save.
Definition reg_list_to_mask (e : list Z) : Z := fold_left (fun mask num => Z.lor mask (Z.shiftl 1 num)) e 0.

(* ------------------------------------------------------------------------------------------
   ppci/opt/mem2reg.py  Mem2RegPromotor.place_phi_nodes  (as it is)

       block_backlog = set(defining_blocks); has_phi = set(); phis = []; idx = 0
       while block_backlog:
           defining_block = block_backlog.pop()
           for frontier_block in cfg_info.df[defining_block]:        # a builtin set of blocks
               if frontier_block not in has_phi:
                   has_phi.add(frontier_block); block_backlog.add(frontier_block)
                   phi = ir.Phi(f"phi_{name}_{idx}", phi_ty); idx += 1
                   phis.append(phi); frontier_block.insert_instruction(phi)
       return phis

   result: the list of (block, idx) in creation order = which block carries phi_<name>_<idx>. *)
Section PlacePhi.
  Variable enum : list Z -> list Z.
  Variable df : Z -> list Z.

  Definition phi_state := (list Z * list Z * Z * list (Z * Z))%type.   (* backlog, has_phi, idx, phis *)

  Definition frontier_step (st : phi_state) (fb : Z) : phi_state :=
    let '(bl, hp, idx, phis) := st in
    if mem fb hp then st else (set_add fb bl, set_add fb hp, idx + 1, phis ++ [(fb, idx)]).

  Fixpoint place_phi_loop (fuel : nat) (st : phi_state) : result (list (Z * Z)) :=
    let '(bl, hp, idx, phis) := st in
    match enum bl with
    | [] => Ok phis
    | b :: rest =>                                   (* set.pop(): the first element the runtime meets *)
        match fuel with
        | O => OutOfFuel
        | S f => place_phi_loop f (fold_left frontier_step (enum (df b)) (rest, hp, idx, phis))
        end
    end.
  Definition place_phi_nodes (fuel : nat) (defining : list Z) : result (list (Z * Z)) :=
    place_phi_loop fuel (defining, [], 0, []).

  (* the repaired function (fixes/C30-mem2reg-phi-order.diff): every enumeration of a set of blocks is
     sorted by the position of the block in function.blocks, the worklist is a list

       order = {b: i for i, b in enumerate(cfg_info.function.blocks)}
       block_backlog = sorted(defining_blocks, key=order.__getitem__)
       while block_backlog:
           defining_block = block_backlog.pop(0)
           for frontier_block in sorted(cfg_info.df[defining_block], key=order.__getitem__):
               if frontier_block not in has_phi:
                   has_phi.add(frontier_block); block_backlog.append(frontier_block); ... *)
  Variable ord : Z -> Z.

  Fixpoint insert_by (x : Z) (l : list Z) : list Z :=
    match l with
    | [] => [x]
    | y :: r => if ord x <=? ord y then x :: l else y :: insert_by x r
    end.
  Definition sort_by (l : list Z) : list Z := fold_right insert_by [] l.

  Definition frontier_step_fixed (st : phi_state) (fb : Z) : phi_state :=
    let '(bl, hp, idx, phis) := st in
    if mem fb hp then st else (bl ++ [fb], set_add fb hp, idx + 1, phis ++ [(fb, idx)]).

  Fixpoint place_phi_loop_fixed (fuel : nat) (st : phi_state) : result (list (Z * Z)) :=
    let '(bl, hp, idx, phis) := st in
    match bl with
    | [] => Ok phis
    | b :: rest =>
        match fuel with
        | O => OutOfFuel
        | S f => place_phi_loop_fixed f (fold_left frontier_step_fixed (sort_by (enum (df b))) (rest, hp, idx, phis))
        end
    end.
  Definition place_phi_nodes_fixed (fuel : nat) (defining : list Z) : result (list (Z * Z)) :=
    place_phi_loop_fixed fuel (sort_by (enum defining), [], 0, []).
End PlacePhi.

(* ------------------------------------------------------------------------------------------
   ppci/codegen/burg.py  BurgSystem.check_tree_defined (called by check() for every rule when an
   instruction selector is built)

       for name in tree.get_defined_names():          # a builtin set of str (hash depends on PYTHONHASHSEED)
           if name not in self.symbols:
               raise BurgError(f"{name} not defined")

   names: the enumeration of the set; the error carries the offending name (Diag name). *)
Fixpoint check_tree_defined (names symbols : list Z) : result unit :=
  match names with
  | [] => Ok tt
  | n :: r => if mem n symbols then check_tree_defined r symbols else Diag n
  end.

(* ------------------------------------------------------------------------------------------
   ppci/graph/relooper.py  StructureDetector.follows_loop  (wasm / python back ends)

       reachable_outside_loop = set()
       all_loop_nodes = [loop.header] + loop.rest        # loop.rest: list built by enumerating the set _reach[header]
       for node in all_loop_nodes:
           for s in node.successors:                      # builtin set of id-hashed nodes
               if s not in all_loop_nodes:
                   if not self.cfg.strictly_dominates(loop.header, s):
                       reachable_outside_loop.add(s)
       if reachable_outside_loop:
           if len(reachable_outside_loop) != 1: raise ValueError(...)
           return list(reachable_outside_loop)[0]
       (falls off the end: None)

   loop_nodes: all_loop_nodes in the order met; succ n: the enumeration of n.successors;
   sdom s = strictly_dominates(loop.header, s). *)
Definition follows_inner (loop_nodes : list Z) (sdom : Z -> bool) (acc : list Z) (s : Z) : list Z :=
  if mem s loop_nodes then acc else if sdom s then acc else set_add s acc.
Definition reachable_outside (succ : Z -> list Z) (loop_nodes : list Z) (sdom : Z -> bool) : list Z :=
  fold_left (fun acc node => fold_left (follows_inner loop_nodes sdom) (succ node) acc) loop_nodes [].
Definition follows_loop (succ : Z -> list Z) (loop_nodes : list Z) (sdom : Z -> bool) : result (option Z) :=
  match reachable_outside succ loop_nodes sdom with
  | [] => Ok None
  | [x] => Ok (Some x)
  | _ => Diag 0
  end.
