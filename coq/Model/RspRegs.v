(* Model/RspRegs.v — hand model (tie H) of the register / memory payload code of
   /repo/ppci/binutils/dbg/gdb/client.py (GdbDebugDriver): _pack_register, _unpack_register,
   set_registers (the data block and the "G " command text), _get_general_registers (reply ->
   register values), write_mem (hex text of the data) and read_mem (reply -> bytes), together
   with the two CPython functions they go through, binascii.b2a_hex / a2b_hex.  NO proofs here.

   str = list Z of code points, bytes = list Z.  A register is represented by its [bitsize]
   (the only attribute this code reads); arch.gdb_registers = list of bitsizes (>= 0, as for
   every ppci register class); [regvalues] = the list of values in the order of gdb_registers
   (a missing entry = KeyError); the result dict of _get_general_registers = the list of values
   in the order of gdb_registers.  [big] = (arch.info.endianness == Endianness.BIG).
   Every exception of this code is an undocumented one (KeyError, struct.error, binascii.Error,
   UnicodeEncodeError): [Internal].  The check module (tools/props/c35.py, stage
   correspondence 'regs') runs these definitions against the real GdbDebugDriver methods on every run. *)
From PV Require Import Lib.Py.
Open Scope Z_scope.

(* binascii.b2a_hex(data).decode("ascii"): two lower-case digits per byte *)
Definition hexdigit (n : Z) : Z := if n <? 10 then 48 + n else 87 + n.
Definition b2a_hex (data : list Z) : list Z :=
  flat_map (fun b => [hexdigit (b / 16); hexdigit (b mod 16)]) data.

(* binascii.a2b_hex(s.encode("ascii")): both cases accepted; odd length, a non-hex character or a
   non-ASCII character raise *)
Definition hexnib (c : Z) : option Z :=
  if (48 <=? c) && (c <=? 57) then Some (c - 48)
  else if (97 <=? c) && (c <=? 102) then Some (c - 87)
  else if (65 <=? c) && (c <=? 70) then Some (c - 55)
  else None.
Fixpoint a2b_hex (s : list Z) : result (list Z) :=
  match s with
  | [] => Ok []
  | [_] => Internal ValueErrorI
  | a :: b :: r =>
      match hexnib a, hexnib b with
      | Some x, Some y => rest <- a2b_hex r ;; Ok (16 * x + y :: rest)
      | _, _ => Internal ValueErrorI
      end
  end.

(* struct.pack("<B" / "<H" / "<I" / "<Q", v) and struct.unpack *)
Definition std_size (size : Z) : bool :=
  (size =? 1) || (size =? 2) || (size =? 4) || (size =? 8).
Fixpoint le_bytes (n : nat) (v : Z) : list Z :=
  match n with O => [] | S k => v mod 256 :: le_bytes k (v / 256) end.
Fixpoint le_value (l : list Z) : Z :=
  match l with [] => 0 | b :: r => b + 256 * le_value r end.

(* GdbDebugDriver._pack_register: fmts = {8: "<Q", 4: "<I", 2: "<H", 1: "<B"}, always little endian *)
Definition pack_register (bitsize v : Z) : result (list Z) :=
  let size := bitsize / 8 in
  if std_size size then
    if (0 <=? v) && (v <? 2 ^ (8 * size)) then Ok (le_bytes (Z.to_nat size) v)
    else Internal StructError
  else Internal KeyError.

(* GdbDebugDriver._unpack_register: wrong length -> logged, value 0; size 3 -> little endian by hand;
   otherwise struct.unpack with the byte order of the architecture *)
Definition unpack_register (big : bool) (bitsize : Z) (data : list Z) : result Z :=
  let size := bitsize / 8 in
  if Z.of_nat (length data) =? size then
    if size =? 3 then Ok (le_value data)
    else if std_size size then Ok (le_value (if big then rev data else data))
    else Internal KeyError
  else Ok 0.

(* GdbDebugDriver.set_registers: data[offset:offset+size] = reg_data with offset = len(data) appends *)
Fixpoint regs_block (regs vals : list Z) : result (list Z) :=
  match regs with
  | [] => Ok []
  | bs :: regs' =>
      match vals with
      | [] => Internal KeyError
      | v :: vals' =>
          d <- pack_register bs v ;; rest <- regs_block regs' vals' ;; Ok (d ++ rest)
      end
  end.
(* the command text handed to _send_command: f"G {data}" *)
Definition set_registers_cmd (regs vals : list Z) : result (list Z) :=
  d <- regs_block regs vals ;; Ok ([71; 32] ++ b2a_hex d).

(* GdbDebugDriver._get_general_registers: data[offset:offset+size] per register, offset += size *)
Fixpoint unpack_block (big : bool) (regs : list Z) (data : list Z) : result (list Z) :=
  match regs with
  | [] => Ok []
  | bs :: regs' =>
      let n := Z.to_nat (bs / 8) in
      v <- unpack_register big bs (firstn n data) ;;
      rest <- unpack_block big regs' (skipn n data) ;; Ok (v :: rest)
  end.
Definition get_general_registers (big : bool) (regs : list Z) (reply : list Z) : result (list Z) :=
  data <- a2b_hex reply ;; unpack_block big regs data.

(* GdbDebugDriver.write_mem: the text after ':' in f"M {address:x},{length:x}:{data}";
   GdbDebugDriver.read_mem: the reply of the 'm' command -> bytes *)
Definition write_mem_data (data : list Z) : list Z := b2a_hex data.
Definition read_mem_reply (reply : list Z) : result (list Z) := a2b_hex reply.
