(* C29 — executable model (tie H) of ppci's bottom-up tree labeller
   (ppci/codegen/instructionselector.py TreeSelector.burm_label / mark_tree, burg.py BurgSystem) and the
   closure check of a rule set against a regular tree language.  NO proofs here (Proofs/C29_cover.v).

   State of a tree node = the operator-rooted sub-patterns (of usable rules) that match at the node
   followed by [PNt n] for every non-terminal n the node derives (has_goal n).  It is a function of the
   node operator and the states of the children, which makes the set of reachable states of a regular tree
   language computable ([reach]); [closure_ok] re-checks that the computed table is closed under every
   production and that every state of the root sort contains the goal.

   Differences to the Python (all make the model derive FEWER non-terminals, i.e. are sound for
   "selection succeeds"): a rule with a `condition` is unusable unless it is of kind 2 or listed in the
   assumption list; pattern/tree arities must coincide (Python zips); costs are ignored. *)
From Coq Require Import String List Bool ZArith.
From PV Require Import Spec.BurgCoverSpec.
Import ListNotations.
Local Open Scope string_scope.
Local Open Scope list_scope.

Fixpoint pat_eqb (p q : pat) {struct p} : bool :=
  match p, q with
  | PNt a, PNt b => String.eqb a b
  | POp a ps, POp b qs =>
      if String.eqb a b then
        (fix go (ps : list pat) (qs : list pat) {struct ps} : bool :=
           match ps, qs with
           | [], [] => true
           | p' :: ps', q' :: qs' => if pat_eqb p' q' then go ps' qs' else false
           | _, _ => false
           end) ps qs
      else false
  | _, _ => false
  end.

Definition state := list pat.
Definition mem (p : pat) (s : state) : bool := existsb (pat_eqb p) s.
Definition smem (x : string) (l : list string) : bool := existsb (String.eqb x) l.

Fixpoint state_eqb (a b : state) : bool :=
  match a, b with
  | [], [] => true
  | x :: a', y :: b' => if pat_eqb x y then state_eqb a' b' else false
  | _, _ => false
  end.

(* ---- which rules may be used: unconditional, exhaustively-true condition, or assumed (nt, pattern) *)
Definition assumed (assume : list (string * pat)) (r : rule) : bool :=
  existsb (fun a => String.eqb (fst a) (r_nt r) && pat_eqb (snd a) (r_pat r)) assume.
Definition usable (assume : list (string * pat)) (rules : list rule) : list rule :=
  filter (fun r => Z.eqb (r_kind r) 0 || Z.eqb (r_kind r) 2 || assumed assume r) rules.

(* ---- per-operator precomputation *)
Fixpoint subpats (p : pat) : list pat :=
  match p with PNt _ => [] | POp _ ps => p :: flat_map subpats ps end.
Definition root_is (op : string) (p : pat) : bool :=
  match p with POp o _ => String.eqb o op | PNt _ => false end.
Definition dedup (l : list pat) : list pat :=
  fold_left (fun acc p => if mem p acc then acc else acc ++ [p]) l [].
Definition chains (rules : list rule) : list (string * string) :=
  flat_map (fun r => match r_pat r with PNt b => [(r_nt r, b)] | POp _ _ => [] end) rules.
Definition sdedup (l : list string) : list string :=
  fold_left (fun acc x => if smem x acc then acc else acc ++ [x]) l [].
Definition all_nts (rules : list rule) : list string := sdedup (map r_nt rules).

Record pre : Type := { pre_ops : list pat; pre_rules : list rule;
                       pre_close : list (string * list string);   (* nt -> nts reachable by chain rules *)
                       pre_nts : list string;
                       pre_cols : list (list pat) }.               (* child position -> patterns asked there *)

Fixpoint match_kids (ps : list pat) (kids : list state) : bool :=
  match ps, kids with
  | [], [] => true
  | p :: ps', k :: ks' => if mem p k then match_kids ps' ks' else false
  | _, _ => false
  end.
Definition match_op (kids : list state) (p : pat) : bool :=
  match p with POp _ ps => match_kids ps kids | PNt _ => false end.

(* mark_tree: closure under chain rules *)
Fixpoint chain_close (fuel : nat) (ch : list (string * string)) (acc : list string) : list string :=
  match fuel with
  | O => acc
  | S f =>
      let new := filter (fun c => smem (snd c) acc && negb (smem (fst c) acc)) ch in
      match new with
      | [] => acc
      | _ => chain_close f ch (map fst new ++ acc)
      end
  end.

Definition col (ops : list pat) (i : nat) : list pat :=
  dedup (flat_map (fun p => match p with
                            | POp _ ps => match nth_error ps i with Some q => [q] | None => [] end
                            | PNt _ => []
                            end) ops).
Definition max_arity (ops : list pat) : nat :=
  fold_left (fun n p => match p with POp _ ps => Nat.max n (length ps) | PNt _ => n end) ops O.

Definition mk_pre (rules : list rule) (op : string) : pre :=
  let ops := dedup (filter (root_is op) (flat_map (fun r => subpats (r_pat r)) rules)) in
  let ch := chains rules in
  let nts := all_nts rules in
  {| pre_ops := ops;
     pre_rules := filter (fun r => root_is op (r_pat r)) rules;
     pre_close := map (fun n => (n, chain_close (S (length ch)) ch [n])) nts;
     pre_nts := nts;
     pre_cols := map (col ops) (seq 0 (max_arity ops)) |}.

(* what a child state is asked about: only the patterns of its column *)
Definition restrict (c : list pat) (st : state) : state := filter (fun q => mem q st) c.
Fixpoint restrict_all (cols : list (list pat)) (kids : list state) : list state :=
  match kids with
  | [] => []
  | k :: ks => match cols with
               | c :: cs => restrict c k :: restrict_all cs ks
               | [] => [] :: restrict_all [] ks
               end
  end.

Fixpoint close_of (tab : list (string * list string)) (n : string) : list string :=
  match tab with
  | [] => []
  | (m, l) :: tab' => if String.eqb n m then l else close_of tab' n
  end.

(* state from the restricted child states *)
Definition astate_core (pr : pre) (rkids : list state) : state :=
  let ops := filter (match_op rkids) (pre_ops pr) in
  let base := map r_nt (filter (fun r => mem (r_pat r) ops) (pre_rules pr)) in
  let cl := flat_map (close_of (pre_close pr)) base in
  ops ++ map PNt (filter (fun n => smem n cl) (pre_nts pr)).
Definition astate_pre (pr : pre) (kids : list state) : state :=
  astate_core pr (restrict_all (pre_cols pr) kids).

Definition astate (rules : list rule) (op : string) : list state -> state :=
  let pr := mk_pre rules op in astate_pre pr.

(* burm_label *)
Fixpoint state_of (rules : list rule) (t : tree) : state :=
  match t with T op kids => astate rules op (map (state_of rules) kids) end.
Definition nts_of (s : state) : list string :=
  flat_map (fun p => match p with PNt n => [n] | POp _ _ => [] end) s.
Definition label (rules : list rule) (t : tree) : list string := nts_of (state_of rules t).
Definition selects (rules : list rule) (t : tree) : bool := mem (PNt "stm") (state_of rules t).

(* ---- regular tree language: boolean membership *)
Fixpoint in_langb (G : list prod) (t : tree) (s : string) {struct t} : bool :=
  match t with
  | T op kids =>
      existsb (fun p =>
        (* nested ifs, not &&: the VM evaluates both arguments of andb *)
        if String.eqb (p_sort p) s then
          if String.eqb (p_op p) op then
            (fix go (kids : list tree) (ss : list string) {struct kids} : bool :=
               match kids, ss with
               | [], [] => true
               | k :: ks, s' :: ss' => if in_langb G k s' then go ks ss' else false
               | _, _ => false
               end) kids (p_args p)
          else false
        else false) G
  end.

(* ---- reachable states per sort, each with a witness tree *)
Definition entry : Type := (state * tree)%type.
Definition rtab : Type := list (string * list entry).
Fixpoint rget (R : rtab) (s : string) : list entry :=
  match R with
  | [] => []
  | (s', l) :: R' => if String.eqb s s' then l else rget R' s
  end.
Definition state_in (st : state) (l : list entry) : bool := existsb (fun e => state_eqb st (fst e)) l.
Fixpoint radd (R : rtab) (s : string) (e : entry) : rtab :=
  match R with
  | [] => [(s, [e])]
  | (s', l) :: R' =>
      if String.eqb s s' then (s', if state_in (fst e) l then l else l ++ [e]) :: R'
      else (s', l) :: radd R' s e
  end.
Fixpoint tuples (ls : list (list entry)) : list (list entry) :=
  match ls with
  | [] => [[]]
  | l :: rest => let tr := tuples rest in flat_map (fun x => map (cons x) tr) l
  end.
(* candidates for the children of a production: per argument sort the distinct restricted states *)
Definition rentries (c : list pat) (l : list entry) : list entry :=
  fold_left (fun acc e => let r := restrict c (fst e) in
                          if state_in r acc then acc else acc ++ [(r, snd e)]) l [].
Fixpoint cands (cols : list (list pat)) (ls : list (list entry)) : list (list entry) :=
  match ls with
  | [] => []
  | l :: rest => match cols with
                 | c :: cs => rentries c l :: cands cs rest
                 | [] => rentries [] l :: cands [] rest
                 end
  end.
Definition step (rules : list rule) (G : list prod) (R : rtab) : rtab :=
  fold_left (fun R p =>
    let pr := mk_pre rules (p_op p) in
    fold_left (fun R tup => radd R (p_sort p) (astate_core pr (map fst tup), T (p_op p) (map snd tup)))
              (tuples (cands (pre_cols pr) (map (rget R) (p_args p)))) R) G R.
Definition rsize (R : rtab) : nat := fold_left (fun n sl => (n + length (snd sl))%nat) R O.
Fixpoint reach (rules : list rule) (G : list prod) (fuel : nat) (R : rtab) : rtab :=
  match fuel with
  | O => R
  | S f => let R' := step rules G R in
           if Nat.eqb (rsize R') (rsize R) then R else reach rules G f R'
  end.

Definition closed_prod (rules : list rule) (R : rtab) (p : prod) : bool :=
  let pr := mk_pre rules (p_op p) in
  let tgt := rget R (p_sort p) in
  forallb (fun tup => state_in (astate_core pr (map fst tup)) tgt)
          (tuples (cands (pre_cols pr) (map (rget R) (p_args p)))).
Definition closed (rules : list rule) (G : list prod) (R : rtab) : bool := forallb (closed_prod rules R) G.
Definition roots_ok (R : rtab) (root goal : string) : bool :=
  forallb (fun e => mem (PNt goal) (fst e)) (rget R root).
Definition table_ok (rules : list rule) (G : list prod) (root goal : string) (R : rtab) : bool :=
  closed rules G R && roots_ok R root goal.
Definition closure_ok (rules : list rule) (G : list prod) (root goal : string) : bool :=
  table_ok rules G root goal (reach rules G 40 []).

(* ---- diagnosis: minimal uncovered trees (all children derive something, the node does not) *)
Definition alive (root goal s : string) (e : entry) : bool :=
  if String.eqb s root then mem (PNt goal) (fst e)
  else existsb (fun p => match p with PNt _ => true | POp _ _ => false end) (fst e).
Definition uncovered (rules : list rule) (G : list prod) (root goal : string) (R : rtab) : list tree :=
  flat_map (fun p =>
    let pr := mk_pre rules (p_op p) in
    let bad := filter (fun tup => negb (alive root goal (p_sort p) (astate_core pr (map fst tup), T (p_op p) [])))
                 (tuples (cands (pre_cols pr)
                                (map (fun s => filter (alive root goal s) (rget R s)) (p_args p)))) in
    match bad with
    | [] => []
    | tup :: _ => [T (p_op p) (map snd tup)]     (* first witness per production *)
    end) G.

Fixpoint show_tree (t : tree) : string :=
  match t with
  | T op [] => op
  | T op (k :: ks) =>
      (op ++ "(" ++ show_tree k ++
      (fix go (l : list tree) : string :=
         match l with [] => "" | x :: xs => "," ++ show_tree x ++ go xs end) ks ++ ")")%string
  end.
