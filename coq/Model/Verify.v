(* Model/Verify.v — hand model (tie H) of ppci/irutils/verify.py: Verifier.verify_function,
   verify_block_termination, verify_instruction, verify_subroutine_call, instruction_dominates
   (property C03).  The verifier reads the STORED bookkeeping, so the model takes it as input:
     vs_uses   Instruction.uses of every instruction (per block, per position; OrderedSet order)
     vs_preds  Block.predecessors = [i.block for i in block.references] as block ids
               (0 = a reference whose instruction has no block / a block outside the function)
   Explicit `raise` = Diag, assert / KeyError / RuntimeError = Internal (Lib/Py.v convention).
   CfgInfo(function).cfg.strictly_dominates is NOT modelled: it is replaced by the reference
   dominance of property C25 (Model/DomRef.dom_ref), i.e. C25 is assumed for the implementation.
   Module-level facts (entry is blocks[0], block.function is function, instruction.block == block,
   isinstance checks) are representation invariants of tools/irimport.py and are not modelled.
   NO proofs here. *)
From PV Require Import Lib.Py Lib.Val Spec.IRSyntax Spec.CfgSpec Spec.IRWf Model.DomRef
  Model.IRWfCheck.
From Coq Require Import String.
Open Scope nat_scope.

(* repairs of the verifier proposed in /verif/fixes/C03-verifier-*.diff (false = code as found) *)
Record vfixes := mk_vfixes {
  vx_phi_exact : bool;   (* C03-verifier-phi-inputs: set(phi.inputs) == set(predecessors) *)
  vx_unop : bool;        (* C03-verifier-unop-type *)
  vx_uses : bool;        (* C03-verifier-uses-match-operands *)
  vx_phi_all : bool      (* C03-verifier-phi-dominance-all-inputs *)
}.
Definition v_as_found := mk_vfixes false false false false.
Definition v_all_fixed := mk_vfixes true true true true.

Record vstate := mk_vstate { vs_uses : list (list (list vref)); vs_preds : list (list bid) }.
Definition uses_at (st : vstate) (bi p : nat) : list vref := nth p (nth bi (vs_uses st) []) [].
Definition preds_at (st : vstate) (bi : nat) : list bid := nth bi (vs_preds st) [].

Fixpoint all_ok {A} (chk : A -> result unit) (l : list A) : result unit :=
  match l with
  | [] => Ok tt
  | x :: r => _ <- chk x ;; all_ok chk r
  end.
Definition check (c : bool) (e : result unit) : result unit := if c then Ok tt else e.
Definition assert_ (c : bool) : result unit := check c (Internal AssertionError).

(* all(f(x) for x in l): stops at the first False, exceptions propagate *)
Fixpoint all_true {A} (g : A -> result bool) (l : list A) : result bool :=
  match l with
  | [] => Ok true
  | x :: r => b <- g x ;; if b then all_true g r else Ok false
  end.
Definition vref_mem (r : vref) (l : list vref) : bool := existsb (vref_eqb r) l.
Definition last_instr (k : block) : option instr := List.last (map Some (b_ins k)) None.

Section V.
Variable vx : vfixes.
Variable m : modul.
Variable f : func.
Variable st : vstate.

Definition bnames : list string := map b_name (f_blocks f).

(* first loop of verify_function: block names, termination, return / exit *)
Definition check_block_head (bk : nat * block) : result unit :=
  let (bi, k) := bk in
  _ <- assert_ (negb (mem_str (b_name k) (firstn bi bnames))) ;;
  match rev (b_ins k) with
  | [] => Diag 1                                        (* ValueError: block is empty *)
  | t :: body =>
      _ <- check (is_terminator t) (Diag 1) ;;          (* ValueError: not a terminator *)
      _ <- assert_ (forallb (fun i => negb (is_terminator i)) body) ;;
      match t with
      | IReturn a =>
          match f_ret f with
          | None => Internal AssertionError             (* assert isinstance(function, Function) *)
          | Some rt => check (opt_ty_eqb (ty_of f a) (Some rt)) (Diag 2)      (* IrFormError *)
          end
      | IExit => assert_ (match f_ret f with None => true | Some _ => false end)
      | _ => Ok tt
      end
  end.

(* predecessors from successors vs. stored predecessors, as sets *)
Definition preds_match (bk : nat * block) : bool :=
  let (bi, k) := bk in
  let d := preds_of f k in
  let s := preds_at st bi in
  forallb (fun b => mem_pos b s) d && forallb (fun b => mem_pos b d) s.

Definition phi_get (ins : list (bid * vref)) (b : bid) : option vref :=
  option_map snd (find (fun p => Pos.eqb (fst p) b) ins).
(* every stored predecessor has an input, and that value is in the stored uses of the phi *)
Definition check_phi_inputs (s : site) : result unit :=
  match s_ins s with
  | IPhi _ _ _ ins =>
      _ <- (if vx_phi_exact vx
            then assert_ (forallb (fun b => mem_pos b (preds_at st (s_bi s))) (map fst ins)
                          && forallb (fun b => mem_pos b (map fst ins)) (preds_at st (s_bi s)))
            else Ok tt) ;;
      all_ok (fun pb => match phi_get ins pb with
                        | None => Internal KeyError
                        | Some r => assert_ (vref_mem r (uses_at st (s_bi s) (s_pos s)))
                        end)
             (preds_at st (s_bi s))
  | _ => Ok tt
  end.

(* instruction_dominates(one, another); CfgInfo replaced by the C25 reference *)
Definition sdom_b (d w : nat) : bool := dom_ref (cfg f) 0 d w && negb (Nat.eqb d w).
Definition block_len (bi : nat) : nat :=
  match nth_error (f_blocks f) bi with Some k => List.length (b_ins k) | None => 0 end.
Definition dominates_plain (bj q bi p : nat) : bool :=
  if Nat.eqb bj bi then Nat.ltb q p else sdom_b bj bi.
Definition instruction_dominates (one : vref) (s : site) : result bool :=
  match one with
  | Param _ | Glob _ => Ok true
  | Unres _ => Diag 3                                   (* ValueError: has no block *)
  | Loc v =>
      match def_site f v with
      | None => Internal (OtherI 3)                     (* value of another function: KeyError/TypeError *)
      | Some (bj, q, _) =>
          match s_ins s with
          | IPhi _ _ _ ins =>
              let via pb :=
                  let pj := bidx f pb in
                  if Nat.ltb pj (List.length (f_blocks f))
                  then Ok (dominates_plain bj q pj (block_len pj - 1))
                  else Internal KeyError in
              if vx_phi_all vx then
                match filter (fun p => vref_eqb (snd p) one) ins with
                | [] => Internal (OtherI 4)             (* RuntimeError *)
                | l => all_true via (map fst l)
                end
              else
                match find (fun p => vref_eqb (snd p) one) ins with
                | None => Internal (OtherI 4)           (* RuntimeError *)
                | Some (pb, _) => via pb
                end
          | _ => Ok (dominates_plain bj q (s_bi s) (s_pos s))
          end
      end
  end.

(* verify_subroutine_call for a callee that is a module-level subroutine *)
Definition check_call (c : vref) (args : list vref) (rt : option ty) : result unit :=
  match c with
  | Glob s =>
      match sig_of m s with
      | Some (ats, r) =>
          _ <- check (match rt, r with
                      | Some t, Some t' => ty_eqb t t'
                      | None, None => true
                      | _, _ => false
                      end) (Diag 4) ;;
          _ <- check (Nat.eqb (List.length args) (List.length ats)) (Diag 4) ;;
          check (forallb (fun p => ty_is f (fst p) (snd p)) (combine args ats)) (Diag 4)
      | None => Ok tt
      end
  | _ => Ok tt
  end.
Definition check_types (i : instr) : result unit :=
  match i with
  | IBinop _ _ t _ a b => _ <- check (ty_is f a t) (Diag 5) ;; check (ty_is f b t) (Diag 5)
  | IUnop _ _ t _ a => if vx_unop vx then check (ty_is f a t) (Diag 5) else Ok tt
  | ILoad _ _ _ a _ => check (ty_is f a Ptr) (Diag 5)
  | IStore _ a _ => check (ty_is f a Ptr) (Diag 5)
  | IPhi _ _ t ins => assert_ (forallb (fun p => ty_is f (snd p) t) ins)
  | ICJump a _ b _ _ => check (opt_ty_eqb (ty_of f a) (ty_of f b)) (Diag 2)
  | ICallF _ _ t c args => check_call c args (Some t)
  | ICallP c args => check_call c args None
  | _ => Ok tt
  end.

(* names seen before the idx-th instruction in print order: all block names, then value names *)
Definition site_names (s : site) : list string :=
  match instr_def (s_ins s) with Some d => [def_name d] | None => [] end.
Definition vnames_before (idx : nat) : list string := flat_map site_names (firstn idx (sites f)).
Definition verify_instruction (is : nat * site) : result unit :=
  let (idx, s) := is in
  _ <- match instr_def (s_ins s) with
       | Some d => assert_ (negb (mem_str (def_name d) (bnames ++ vnames_before idx)))
       | None => Ok tt
       end ;;
  _ <- check_types (s_ins s) ;;
  _ <- (if vx_uses vx
        then let u := uses_at st (s_bi s) (s_pos s) in
             assert_ (forallb (fun r => vref_mem r (instr_uses (s_ins s))) u
                      && forallb (fun r => vref_mem r u) (instr_uses (s_ins s)))
        else Ok tt) ;;
  all_ok (fun r => d <- instruction_dominates r s ;; assert_ d) (uses_at st (s_bi s) (s_pos s)).

Definition verify_function : result unit :=
  _ <- all_ok check_block_head (enum (f_blocks f)) ;;
  _ <- check (negb (Nat.eqb (List.length (f_blocks f)) 0)) (Internal IndexError) ;;
  _ <- assert_ (reachable_b f) ;;
  _ <- assert_ (forallb preds_match (enum (f_blocks f))) ;;
  _ <- all_ok check_phi_inputs (sites f) ;;
  all_ok verify_instruction (enum (sites f)).
End V.

Definition verify_module_x (vx : vfixes) (m : modul) (sts : list vstate) : result unit :=
  all_ok (fun p => verify_function vx m (fst p) (snd p)) (combine (m_funcs m) sts).
Definition verify_module := verify_module_x v_as_found.
