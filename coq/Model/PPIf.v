(* Model/PPIf.v — hand model (tie H) of the #if machinery of ppci/lang/c/preprocessor.py:
   CPreProcessor.parse_expression / _binop_take / _eval_tree; the table OP_MAP comes from the
   regenerated Gen/ppif.v. Tokens: NUMBER (value from cnum, suffix dropped — as the code does) and
   operator/punctuator tokens (token.typ). Identifiers, `defined`, character constants: not modelled. NO proofs. *)
From PV Require Import Lib.Py Lib.Val Gen.ppif.
From Coq Require Import String.
Open Scope Z_scope.
Open Scope string_scope.

Inductive tok := TNum (v : Z) | TSym (s : string).
Inductive ptree :=
  | PTNum (v : Z) | PTUn (op : string) (a : ptree) | PTBin (a : ptree) (op : string) (b : ptree)
  | PTTern (a b c : ptree).

Fixpoint lookup {A} (k : string) (l : list (string * A)) : option A :=
  match l with [] => None | (k', v) :: r => if String.eqb k k' then Some v else lookup k r end.

Definition op_prio (e : Z * bool * option (Z -> Z -> result Z)) : Z := fst (fst e).
Definition op_rassoc (e : Z * bool * option (Z -> Z -> result Z)) : bool := snd (fst e).
Definition op_func (e : Z * bool * option (Z -> Z -> result Z)) := snd e.

(* _binop_take: the OP_MAP access is done here, the decision is the regenerated Gen.ppif.binop_take_core
   (tie T: `op in self.OP_MAP` -> found, `self.OP_MAP[op][:2]` -> op_prio, right_associative) *)
Definition binop_take (op : string) (priority : Z) : bool :=
  match lookup op op_map with
  | Some e => binop_take_core true (op_prio e) (op_rassoc e) priority
  | None => binop_take_core false 0 false priority
  end.

(* parse_expression(priority): [pe] is the part before the while loop, [ploop] the loop *)
Fixpoint pe (fuel : nat) (priority : Z) (ts : list tok) : result (ptree * list tok) :=
  match fuel with O => OutOfFuel | S f =>
    match ts with
    | [] => Diag 0                                           (* consume() at end of line: CompilerError *)
    | TNum v :: r => ploop f priority (PTNum v) r
    | TSym s :: r =>
        if String.eqb s "!" || String.eqb s "-" || String.eqb s "~" then
          '(a, r') <- pe f 11 r ;; ploop f priority (PTUn s a) r'
        else if String.eqb s "+" then
          '(a, r') <- pe f 11 r ;; ploop f priority a r'
        else if String.eqb s "(" then
          '(a, r') <- pe f 0 r ;;
          match r' with TSym ")" :: r'' => ploop f priority a r'' | _ => Diag 0 end
        else Internal NotImplemented
    end
  end
with ploop (fuel : nat) (priority : Z) (lhs : ptree) (ts : list tok) : result (ptree * list tok) :=
  match fuel with O => OutOfFuel | S f =>
    match ts with
    | [] => Ok (lhs, [])
    | TNum _ :: _ => Ok (lhs, ts)                            (* "NUMBER" is not in OP_MAP: unget, break *)
    | TSym op :: r =>
        if binop_take op priority then
          match lookup op op_map with
          | None => Internal KeyError
          | Some e =>
              if String.eqb op "?" then
                '(mid, r1) <- pe f 0 r ;;
                match r1 with
                | TSym ":" :: r2 =>
                    '(rhs, r3) <- pe f (op_prio e) r2 ;;
                    match op_func e with
                    | Some _ => ploop f priority (PTBin lhs op rhs) r3
                    | None => ploop f priority (PTTern lhs mid rhs) r3
                    end
                | _ => Diag 0
                end
              else
                '(rhs, r1) <- pe f (op_prio e) r ;;
                match op_func e with
                | Some _ => ploop f priority (PTBin lhs op rhs) r1
                | None => Internal NotImplemented
                end
          end
        else Ok (lhs, ts)
    end
  end.

(* eval_expr: ast_tree = self.parse_expression() *)
Definition parse_line (fuel : nat) (ts : list tok) : result ptree :=
  '(t, r) <- pe fuel 0 ts ;; Ok t.

(* _eval_tree, parametrised by the OP_MAP table *)
Fixpoint eval_tree_with (op_map : list (string * (Z * bool * option (Z -> Z -> result Z)))) (t : ptree) : result Z :=
  let eval_tree := eval_tree_with op_map in
  match t with
  | PTNum v => Ok v
  | PTUn op a =>
      v <- eval_tree a ;;
      if String.eqb op "!" then Ok (b2z (negb (truthy v)))
      else if String.eqb op "-" then Ok (- v)
      else if String.eqb op "~" then Ok (Z.lnot v)
      else Internal NotImplemented
  | PTBin a op b =>
      if String.eqb op "||" then
        v <- eval_tree a ;; v' <- (if negb (truthy v) then eval_tree b else Ok v) ;; Ok (b2z (truthy v'))
      else if String.eqb op "&&" then
        v <- eval_tree a ;; v' <- (if truthy v then eval_tree b else Ok v) ;; Ok (b2z (truthy v'))
      else
        match lookup op op_map with
        | None => Internal KeyError
        | Some e =>
            va <- eval_tree a ;; vb <- eval_tree b ;;
            match op_func e with Some f => f va vb | None => Internal TypeError end
        end
  | PTTern a b c =>
      v <- eval_tree a ;; if truthy v then eval_tree b else eval_tree c
  end.

Definition eval_tree := eval_tree_with op_map.

Fixpoint ptree_val (t : ptree) : val :=
  match t with
  | PTNum v => VT [VS "num"; VZ v]
  | PTUn op a => VT [VS "un"; VS op; ptree_val a]
  | PTBin a op b => VT [VS "bin"; ptree_val a; VS op; ptree_val b]
  | PTTern a b c => VT [VS "tern"; ptree_val a; ptree_val b; ptree_val c]
  end.
#[global] Instance ToVal_ptree : ToVal ptree := ptree_val.
