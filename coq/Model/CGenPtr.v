(* Model/CGenPtr.v — hand model (tie H) of CCodeGenerator.gen_binop for `pointer + n` / `pointer - n`
   (the integer operand n has IR type [it], the element size is [esize] = CContext.sizeof(element type)):
   the instruction sequence, run with Spec/IRSem arithmetic.  NO proofs.
     scale_in_index : the code before fixes/C01-pointer-index-scaling.diff:
                        esize = Const(esize, rhs.ty); rhs = rhs * esize (in rhs.ty); rhs = cast rhs to ptr
     scale_in_ptr   : with the fix (and what gen_array_index does for p[n]):
                        rhs = cast rhs to ptr; esize = Const(esize, ptr); rhs = rhs * esize (in ptr)
   followed by  value = lhs +/- rhs  in ptr.  tools/props/c01.py reads which of the two the real code emits
   (the type of the multiplication) and compares the model with the real IR on generated cases. *)
From PV Require Import Lib.Py Lib.Val Model.CGenExpr Spec.IRSyntax Spec.IRSem.
Open Scope Z_scope.

Definition scale_in_index (k : cfg) (it : ty) (n esize : Z) : outcome Z :=
  if esize =? 1 then as_int (eval_cast k Ptr (Vint n))
  else e <~ as_int (eval_const k it (CInt esize)) ;;
       m <~ eval_binop k it Mul n e ;;
       as_int (eval_cast k Ptr (Vint m)).

Definition scale_in_ptr (k : cfg) (it : ty) (n esize : Z) : outcome Z :=
  c <~ as_int (eval_cast k Ptr (Vint n)) ;;
  if esize =? 1 then ODone c
  else e <~ as_int (eval_const k Ptr (CInt esize)) ;; eval_binop k Ptr Mul c e.

(* p + n (sub = false) / p - n (sub = true) with p = address a *)
Definition ptr_arith (k : cfg) (fixed : bool) (sub : bool) (it : ty) (a n esize : Z) : outcome Z :=
  r <~ (if fixed then scale_in_ptr k it n esize else scale_in_index k it n esize) ;;
  eval_binop k Ptr (if sub then Sub else Add) a r.
