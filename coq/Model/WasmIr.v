(* Model/WasmIr.v — C22, tie H: the straight-line fragment of ppci IR that
   ppci/wasm/wasm2ppci.py (gen_binop, gen_cmpop, gen_convert_instruction, gen_instruction_fallback
   -> _runtime_call) emits for integer numeric opcodes, and two executable semantics for it:

   * [py_run]  mirrors what ppci/lang/python/ir2py.py emits for these instructions
               (gen_binop / gen_cast / gen_cjump / gen_const / FunctionCall) and calls the
               *translated* IrPy runtime (Gen.irpy_rt, tie T) and wasm runtime helpers
               (Gen.wasm_runtime, tie T).  This is the behaviour of instantiate(target='python').
   * [ir_run]  the target-independent reading of the IR: fixed-width wrap, truncating division
               (undefined for divisor 0), shifts defined only for 0 <= count < width.

   The programs themselves are exported from the real compiler (Gen/wasm_irmap.v, tie I).
   NO proofs here. *)
From PV Require Import Lib.Py Spec.BitsSpec.
From PV Require Gen.irpy_rt Gen.wasm_runtime.
Open Scope Z_scope.

(* integer IR type: ir.i32 = Ity 32 true, ir.u64 = Ity 64 false ... *)
Inductive ity := Ity (nbits : Z) (sgn : bool).
Inductive bop := OAdd | OSub | OMul | ODiv | ORem | OAnd | OOr | OXor | OShl | OShr.
Inductive cop := CEq | CNe | CLt | CGt | CLe | CGe.
(* external functions wasm_rt_<name> (ppci/wasm/execution/runtime.py) *)
Inductive rtfn :=
| Rt_i32_rotl | Rt_i32_rotr | Rt_i64_rotl | Rt_i64_rotr
| Rt_i32_clz | Rt_i32_ctz | Rt_i32_popcnt | Rt_i64_clz | Rt_i64_ctz | Rt_i64_popcnt
| Rt_i32_extend8_s | Rt_i32_extend16_s | Rt_i64_extend8_s | Rt_i64_extend16_s | Rt_i64_extend32_s.

(* values are numbered: parameters first, then the result of every instruction in order *)
Inductive iins :=
| ICast (ty : ity) (src : nat)                 (* ir.Cast *)
| IBinop (op : bop) (ty : ity) (a b : nat)     (* ir.Binop *)
| IConst (ty : ity) (v : Z)                    (* ir.Const *)
| ICmp (op : cop) (a b : nat)                  (* ir.CJump a op b + phi(1, 0) : the i32 truth value *)
| ICall (f : rtfn) (args : list nat).          (* ir.FunctionCall of an external wasm_rt_ function *)
(* instructions, index of the returned value *)
Definition irprog := (list iins * nat)%type.

Definition getv (env : list Z) (i : nat) : result Z :=
  match nth_error env i with Some v => Ok v | None => Internal KeyError end.

Definition cmp_sem (op : cop) (x y : Z) : bool :=
  match op with
  | CEq => x =? y | CNe => negb (x =? y) | CLt => x <? y | CGt => y <? x
  | CLe => x <=? y | CGe => y <=? x
  end.

Definition rt_call (fuel : nat) (f : rtfn) (args : list Z) : result Z :=
  match f, args with
  | Rt_i32_rotl, [x; y] => wasm_runtime.i32_rotl x y
  | Rt_i32_rotr, [x; y] => wasm_runtime.i32_rotr x y
  | Rt_i64_rotl, [x; y] => wasm_runtime.i64_rotl x y
  | Rt_i64_rotr, [x; y] => wasm_runtime.i64_rotr x y
  | Rt_i32_clz, [x] => wasm_runtime.i32_clz fuel x
  | Rt_i32_ctz, [x] => wasm_runtime.i32_ctz fuel x
  | Rt_i32_popcnt, [x] => wasm_runtime.i32_popcnt x
  | Rt_i64_clz, [x] => wasm_runtime.i64_clz fuel x
  | Rt_i64_ctz, [x] => wasm_runtime.i64_ctz fuel x
  | Rt_i64_popcnt, [x] => wasm_runtime.i64_popcnt x
  | Rt_i32_extend8_s, [x] => wasm_runtime.i32_extend8_s x
  | Rt_i32_extend16_s, [x] => wasm_runtime.i32_extend16_s x
  | Rt_i64_extend8_s, [x] => wasm_runtime.i64_extend8_s x
  | Rt_i64_extend16_s, [x] => wasm_runtime.i64_extend16_s x
  | Rt_i64_extend32_s, [x] => wasm_runtime.i64_extend32_s x
  | _, _ => Internal TypeError        (* wrong number of arguments *)
  end.

Fixpoint getvs (env : list Z) (l : list nat) : result (list Z) :=
  match l with
  | [] => Ok []
  | i :: r => v <- getv env i ;; vs <- getvs env r ;; Ok (v :: vs)
  end.

(* ------------------------------------------------------------------ python target (ir2py) *)
(* ir2py.gen_binop: "/" -> rt.idiv, "%" -> rt.irem, "<<" -> rt.ishl(a, b, bits), ">>" -> rt.ishr,
   everything else the Python operator; then rt.correct(v, bits, signed) for integer types *)
Definition py_binop (op : bop) (n : Z) (x y : Z) : result Z :=
  match op with
  | OAdd => Ok (x + y) | OSub => Ok (x - y) | OMul => Ok (x * y)
  | OAnd => Ok (Z.land x y) | OOr => Ok (Z.lor x y) | OXor => Ok (Z.lxor x y)
  | ODiv => irpy_rt.idiv x y | ORem => irpy_rt.irem x y
  | OShl => irpy_rt.ishl x y n | OShr => irpy_rt.ishr x y n
  end.

Definition py_ins (fuel : nat) (env : list Z) (i : iins) : result Z :=
  match i with
  | ICast (Ity n s) src =>                      (* rt.correct(int(round(src)), bits, signed) *)
      x <- getv env src ;; irpy_rt.correct x n s
  | IBinop op (Ity n s) a b =>
      x <- getv env a ;; y <- getv env b ;;
      v <- py_binop op n x y ;; irpy_rt.correct v n s
  | IConst _ v => Ok v                          (* name = <literal> *)
  | ICmp op a b =>                              (* if a op b: ... one = 1 ... else: zero = 0 *)
      x <- getv env a ;; y <- getv env b ;; Ok (b2z (cmp_sem op x y))
  | ICall f args =>                             (* rt.externals['wasm_rt_...'](args) *)
      vs <- getvs env args ;; rt_call fuel f vs
  end.

Fixpoint py_exec (fuel : nat) (p : list iins) (env : list Z) : result (list Z) :=
  match p with
  | [] => Ok env
  | i :: r => v <- py_ins fuel env i ;; py_exec fuel r (env ++ [v])
  end.
Definition py_run (fuel : nat) (p : irprog) (args : list Z) : result Z :=
  env <- py_exec fuel (fst p) args ;; getv env (snd p).

(* ------------------------------------------------------------------ target-independent IR reading *)
(* None = undefined behaviour of the IR program *)
Definition norm (n : Z) (s : bool) (v : Z) : Z := if s then signed_of n v else unsigned_of n v.

Definition ir_binop (op : bop) (n : Z) (x y : Z) : option Z :=
  match op with
  | OAdd => Some (x + y) | OSub => Some (x - y) | OMul => Some (x * y)
  | OAnd => Some (Z.land x y) | OOr => Some (Z.lor x y) | OXor => Some (Z.lxor x y)
  | ODiv => if y =? 0 then None else Some (Z.quot x y)
  | ORem => if y =? 0 then None else Some (Z.rem x y)
  | OShl => if (0 <=? y) && (y <? n) then Some (x * 2 ^ y) else None
  | OShr => if (0 <=? y) && (y <? n) then Some (x / 2 ^ y) else None
  end.

Definition oget (env : list Z) (i : nat) : option Z := nth_error env i.
Definition obind {A B} (o : option A) (f : A -> option B) : option B :=
  match o with Some a => f a | None => None end.

Definition ir_ins (fuel : nat) (env : list Z) (i : iins) : option Z :=
  match i with
  | ICast (Ity n s) src => obind (oget env src) (fun x => Some (norm n s x))
  | IBinop op (Ity n s) a b =>
      obind (oget env a) (fun x => obind (oget env b) (fun y =>
      obind (ir_binop op n x y) (fun v => Some (norm n s v))))
  | IConst (Ity n s) v => Some (norm n s v)
  | ICmp op a b =>
      obind (oget env a) (fun x => obind (oget env b) (fun y => Some (b2z (cmp_sem op x y))))
  | ICall f args =>
      match getvs env args with
      | Ok vs => match rt_call fuel f vs with Ok v => Some v | _ => None end
      | _ => None
      end
  end.

Fixpoint ir_exec (fuel : nat) (p : list iins) (env : list Z) : option (list Z) :=
  match p with
  | [] => Some env
  | i :: r => obind (ir_ins fuel env i) (fun v => ir_exec fuel r (env ++ [v]))
  end.
Definition ir_run (fuel : nat) (p : irprog) (args : list Z) : option Z :=
  obind (ir_exec fuel (fst p) args) (fun env => oget env (snd p)).
