(* Model/CGenStmt.v — hand model (tie H) of the statement path of ppci's C front-end for integer locals.
   NO proofs.
   1. typing (CSemantics.on_if/on_while/on_do/on_for (check_condition), on_return (coerce to the return type),
      on_variable_initialization (coerce to the declared type), on_expression_statement): [elab_stmt].
   2. lowering (CCodeGenerator.gen_stmt: gen_compound_statement, gen_expression_statement,
      gen_declaration_statement/gen_local_variable/gen_local_init, gen_if, gen_while, gen_do_while, gen_for,
      gen_break, gen_continue, gen_return): [lower_stmt] to a structured skeleton [irs] over the expression /
      condition trees of Model/CGenExpr.v, run by [srun] (Spec/IRSem arithmetic, locals = store slots).
   3. [emit_s] / [emit_fn_stmt]: the exact ppci CFG of `rt f(params) { body }`: blocks in creation order
      (gen_if: final, yes, [no]; gen_while: condition, body, final; gen_do_while: body, condition, final;
      gen_for: condition, body, final, iterator; a fresh block after break / continue / return), the
      break / continue target stacks, allocas of all locals in the entry block, the dead `ptr + sizeof`
      that gen_local_init emits after an initialiser, the final `return 0` of gen_function_def,
      Function.delete_unreachable, ids in print order.  Compared structurally with irimport(c_to_ir(...)). *)
From PV Require Import Lib.Py Lib.Val Spec.CIntSpec Spec.CExprSpec Spec.CStmtSpec Gen.ceval Model.CEval
                       Model.CGenExpr Spec.IRSyntax Spec.IRSem.
From Coq Require Import String.
Open Scope Z_scope.

(* ------------------------------------------------------------------ typed statements *)
Inductive tstmt :=
  | TSSkip
  | TSExpr (e : texpr)
  | TSDecl (n : nat) (t : ity) (e : texpr)
  | TSSeq (a b : tstmt)
  | TSIf1 (c : texpr) (a : tstmt)
  | TSIf (c : texpr) (a b : tstmt)
  | TSWhile (c : texpr) (body : tstmt)
  | TSDoWhile (body : tstmt) (c : texpr)
  | TSFor (init : tstmt) (c : texpr) (post : texpr) (body : tstmt)
  | TSBreak
  | TSContinue
  | TSReturn (e : texpr)
  | TSSwitch (e : texpr) (items : list (slabel * tstmt)).     (* e = the promoted controlling expression *)

Section ElabS.
  Variable sv : semv.
  Variable te : tenv.
  Variable rt : ity.
  Fixpoint elab_stmt (s : cstmt) : tstmt :=
    match s with
    | SSkip => TSSkip
    | SExpr e => TSExpr (elab sv te e)
    | SDecl n e => TSDecl n (tvar te n) (coerce (elab sv te e) (tvar te n))
    | SSeq a b => TSSeq (elab_stmt a) (elab_stmt b)
    | SIf1 c a => TSIf1 (elab sv te c) (elab_stmt a)          (* check_condition keeps integer types *)
    | SIf c a b => TSIf (elab sv te c) (elab_stmt a) (elab_stmt b)
    | SWhile c b => TSWhile (elab sv te c) (elab_stmt b)
    | SDoWhile b c => TSDoWhile (elab_stmt b) (elab sv te c)
    | SFor i c p b => TSFor (elab_stmt i) (elab sv te c) (elab sv te p) (elab_stmt b)
    | SBreak => TSBreak
    | SContinue => TSContinue
    | SReturn e => TSReturn (coerce (elab sv te e) rt)
    | SSwitch e items =>                                        (* on_switch_enter: promote *)
        TSSwitch (promote_m sv (elab sv te e)) (map (fun it => match it with (l, s) => (l, elab_stmt s) end) items)
    end.
End ElabS.

Fixpoint agrees_stmt (sv : semv) (dm : datamodel) (te : tenv) (s : cstmt) : bool :=
  match s with
  | SSkip | SBreak | SContinue => true
  | SExpr e | SDecl _ e | SReturn e => agrees sv dm te e
  | SSeq a b => agrees_stmt sv dm te a && agrees_stmt sv dm te b
  | SIf1 c a => agrees sv dm te c && agrees_stmt sv dm te a
  | SIf c a b => agrees sv dm te c && agrees_stmt sv dm te a && agrees_stmt sv dm te b
  | SWhile c b | SDoWhile b c => agrees sv dm te c && agrees_stmt sv dm te b
  | SFor i c p b => agrees_stmt sv dm te i && agrees sv dm te c && agrees sv dm te p && agrees_stmt sv dm te b
  | SSwitch e items =>
      agrees sv dm te e && agree_p sv dm (xtype_of dm te e) &&
      forallb (fun it => match it with (_, s) => agrees_stmt sv dm te s end) items
  end.

(* ------------------------------------------------------------------ lowered skeleton *)
Inductive irs :=
  | ISSkip
  | ISExpr (x : irx)
  | ISDecl (n : nat) (inc : Z) (x : irx)          (* store of the initialiser, then the dead ptr + inc *)
  | ISSeq (a b : irs)
  | ISIf1 (c : irc) (a : irs)
  | ISIf (c : irc) (a b : irs)
  | ISWhile (c : irc) (body : irs)
  | ISDoWhile (body : irs) (c : irc)
  | ISFor (init : irs) (c : irc) (post : irx) (body : irs)
  | ISBreak
  | ISContinue
  | ISReturn (x : irx)
  | ISSwitch (x : irx) (t : ty) (items : list (slabel * irs)).

Fixpoint lower_stmt (g : cgen) (s : tstmt) : irs :=
  match s with
  | TSSkip => ISSkip
  | TSExpr e => ISExpr (lower g e)
  | TSDecl n t e => ISDecl n (sizeof (cg_ctx g) t) (lower g e)
  | TSSeq a b => ISSeq (lower_stmt g a) (lower_stmt g b)
  | TSIf1 c a => ISIf1 (lcond g c) (lower_stmt g a)
  | TSIf c a b => ISIf (lcond g c) (lower_stmt g a) (lower_stmt g b)
  | TSWhile c b => ISWhile (lcond g c) (lower_stmt g b)
  | TSDoWhile b c => ISDoWhile (lower_stmt g b) (lcond g c)
  | TSFor i c p b => ISFor (lower_stmt g i) (lcond g c) (lower g p) (lower_stmt g b)
  | TSBreak => ISBreak
  | TSContinue => ISContinue
  | TSReturn e => ISReturn (lower g e)
  | TSSwitch e items =>
      ISSwitch (lower g e) (irty g (ttyp e)) (map (fun it => match it with (l, s) => (l, lower_stmt g s) end) items)
  end.

(* ------------------------------------------------------------------ running a skeleton *)
Section SRun.
  Variable k : cfg.
  Fixpoint for_loop_i (run : irs -> store -> outcome (sout * store)) (n : nat) (st : store) (c : irc) (post : irx)
           (body : irs) {struct n} : outcome (sout * store) :=
    match n with
    | O => OFuel
    | S m =>
        '(bv, s1) <~ crun k c st ;;
        if bv then
          '(o, s2) <~ run body s1 ;;
          match loop_exit o with
          | Some o' => ODone (o', s2)
          | None => '(_, s3) <~ xrun k post s2 ;; for_loop_i run m s3 c post body   (* iterator block *)
          end
        else ODone (SNormal, s1)
    end.

  (* the value of the constant of a `case`: Const(value, switch_ir_typ) *)
  Definition case_val (t : ty) (z : Z) : Z := match wrap_ty k t z with Some r => r | None => z end.
  Fixpoint run_items_i (run : irs -> store -> outcome (sout * store)) (l : list (slabel * irs)) (st : store)
    : outcome (sout * store) :=
    match l with
    | [] => ODone (SNormal, st)                       (* jump to the final block *)
    | (_, s) :: r => '(o, s1) <~ run s st ;;
                     match o with SNormal => run_items_i run r s1 | _ => ODone (o, s1) end   (* fall through *)
    end.

  Fixpoint srun (fuel : nat) (s : irs) (st : store) {struct fuel} : outcome (sout * store) :=
    match fuel with
    | O => OFuel
    | S f =>
      match s with
      | ISSkip => ODone (SNormal, st)
      | ISExpr x => '(_, s1) <~ xrun k x st ;; ODone (SNormal, s1)
      | ISDecl n _ x =>
          '(v, s1) <~ xrun k x st ;;
          match nth_error s1 n with Some _ => ODone (SNormal, upd s1 n v) | None => OStuck end
      | ISSeq a b => '(o, s1) <~ srun f a st ;; match o with SNormal => srun f b s1 | _ => ODone (o, s1) end
      | ISIf1 c a => '(bv, s1) <~ crun k c st ;; if bv then srun f a s1 else ODone (SNormal, s1)
      | ISIf c a b => '(bv, s1) <~ crun k c st ;; if bv then srun f a s1 else srun f b s1
      | ISWhile c body =>
          '(bv, s1) <~ crun k c st ;;
          if bv then
            '(o, s2) <~ srun f body s1 ;;
            match loop_exit o with
            | Some o' => ODone (o', s2)
            | None => srun f (ISWhile c body) s2       (* jump back to the condition block *)
            end
          else ODone (SNormal, s1)
      | ISDoWhile body c =>
          '(o, s1) <~ srun f body st ;;
          match loop_exit o with
          | Some o' => ODone (o', s1)
          | None => '(bv, s2) <~ crun k c s1 ;;
                    if bv then srun f (ISDoWhile body c) s2 else ODone (SNormal, s2)
          end
      | ISFor init c post body =>
          '(o, s1) <~ srun f init st ;;
          match o with SNormal => for_loop_i (srun f) f s1 c post body | _ => OStuck end
      | ISBreak => ODone (SBrk, st)
      | ISContinue => ODone (SCont, st)
      | ISReturn x => '(v, s1) <~ xrun k x st ;; ODone (SRet v, s1)
      | ISSwitch x t items =>
          (* test block: the chain `v == case_i ? block_i : next`, then default or final *)
          '(v, s1) <~ xrun k x st ;;
          match switch_target (fun z => v =? case_val t z) items with
          | None => ODone (SNormal, s1)
          | Some rest => '(o, s2) <~ run_items_i (srun f) rest s1 ;; ODone (switch_exit o, s2)
          end
      end
    end.
End SRun.

(* ------------------------------------------------------------------ linearisation to the ppci CFG *)
Section EmitS.
  Variable slots : list vref.
  (* brk / cont : innermost break / continue target (block numbers) *)
  Fixpoint emit_s (s : irs) (brk cont : option nat) (e : estate) : estate :=
    let jump := fun (b : nat) (e : estate) => add_ins e (IJump (bid_of b)) in
    let fresh := fun (e : estate) => let '(n, e1) := new_block e in set_block e1 n in
    match s with
    | ISSkip => e
    | ISExpr x => snd (emit_x slots x e)
    | ISDecl n inc x =>
        let '(r, e1) := emit_x slots x e in
        let e2 := add_ins e1 (IStore r (slot slots n) false) in
        let '(ri, e3) := new_val e2 (fun v => IConst v "num" Ptr (CInt inc)) in
        snd (new_val e3 (fun v => IBinop v "tmp" Ptr Add (slot slots n) ri))
    | ISSeq a b => emit_s b brk cont (emit_s a brk cont e)
    | ISIf1 c a =>
        let '(fin, e1) := new_block e in
        let '(yes, e2) := new_block e1 in
        let e3 := emit_c slots c yes fin e2 in
        let e4 := emit_s a brk cont (set_block e3 yes) in
        set_block (jump fin e4) fin
    | ISIf c a b =>
        let '(fin, e1) := new_block e in
        let '(yes, e2) := new_block e1 in
        let '(no, e3) := new_block e2 in
        let e4 := emit_c slots c yes no e3 in
        let e5 := emit_s a brk cont (set_block e4 yes) in
        let e6 := emit_s b brk cont (set_block (jump fin e5) no) in
        set_block (jump fin e6) fin
    | ISWhile c body =>
        let '(cnd, e1) := new_block e in
        let '(bod, e2) := new_block e1 in
        let '(fin, e3) := new_block e2 in
        let e4 := emit_c slots c bod fin (set_block (jump cnd e3) cnd) in
        let e5 := emit_s body (Some fin) (Some cnd) (set_block e4 bod) in
        set_block (jump cnd e5) fin
    | ISDoWhile body c =>
        let '(bod, e1) := new_block e in
        let '(cnd, e2) := new_block e1 in
        let '(fin, e3) := new_block e2 in
        let e4 := emit_s body (Some fin) (Some cnd) (set_block (jump bod e3) bod) in
        let e5 := emit_c slots c bod fin (set_block (jump cnd e4) cnd) in
        set_block e5 fin
    | ISFor init c post body =>
        let '(cnd, e1) := new_block e in
        let '(bod, e2) := new_block e1 in
        let '(fin, e3) := new_block e2 in
        let '(itr, e4) := new_block e3 in
        let e5 := emit_s init brk cont e4 in
        let e6 := emit_c slots c bod fin (set_block (jump cnd e5) cnd) in
        let e7 := emit_s body (Some fin) (Some itr) (set_block e6 bod) in
        let e8 := snd (emit_x slots post (set_block (jump itr e7) itr)) in
        set_block (jump cnd e8) fin
    | ISBreak => match brk with Some b => fresh (jump b e) | None => e end
    | ISContinue => match cont with Some b => fresh (jump b e) | None => e end
    | ISReturn x => let '(r, e1) := emit_x slots x e in fresh (add_ins e1 (IReturn r))
    | ISSwitch x t items =>
        let '(tst, e1) := new_block e in
        let '(bod, e2) := new_block e1 in
        let '(fin, e3) := new_block e2 in
        (* the body: every labelled item opens a block (gen_case / gen_default) and is recorded *)
        let go := fix go (l : list (slabel * irs)) (opts : list (slabel * nat)) (e : estate) {struct l} :=
          match l with
          | [] => (opts, e)
          | (LNone, s) :: r => go r opts (emit_s s (Some fin) cont e)
          | (lb, s) :: r =>
              let '(b, ea) := new_block e in
              go r (opts ++ [(lb, b)]) (emit_s s (Some fin) cont (set_block (jump b ea) b))
          end in
        let '(opts, e4) := go items [] (set_block (jump tst e3) bod) in
        let e5 := jump fin e4 in
        (* the test chain *)
        let '(rv, e6) := emit_x slots x (set_block e5 tst) in
        let e7 := fold_left (fun ee o =>
                    match fst o with
                    | LCase z =>
                        (* the constant is the label value converted to the switch type (eval_expr of the coerced label) *)
                        let '(rc, ea) := new_val ee (fun v => IConst v "num" t (CInt (case_val default_cfg t z))) in
                        let '(nxt, eb) := new_block ea in
                        set_block (add_ins eb (ICJump rv Ceq rc (bid_of (snd o)) (bid_of nxt))) nxt
                    | _ => ee
                    end) opts e6 in
        let dflt := match find (fun o => match fst o with LDefault => true | _ => false end) opts with
                    | Some o => snd o | None => fin end in
        set_block (jump dflt e7) fin
    end.
End EmitS.

(* Function.delete_unreachable: blocks reachable from the entry, by creation number *)
Definition block_succs (b : list instr) : list nat :=
  match rev b with
  | IJump t :: _ => [Nat.pred (Pos.to_nat t)]
  | ICJump _ _ _ y n :: _ => [Nat.pred (Pos.to_nat y); Nat.pred (Pos.to_nat n)]
  | _ => []
  end.
Definition nat_mem (x : nat) (l : list nat) : bool := existsb (Nat.eqb x) l.
Fixpoint reach (fuel : nat) (blocks : list (list instr)) (seen : list nat) : list nat :=
  match fuel with
  | O => seen
  | S f =>
      let next := flat_map (fun i => block_succs (nth i blocks [])) seen in
      let add := fold_left (fun acc x => if nat_mem x acc then acc else acc ++ [x]) next seen in
      reach f blocks add
  end.
Definition remap_bid (m : list (nat * nat)) (b : bid) : bid :=
  match find (fun p => Nat.eqb (fst p) (Nat.pred (Pos.to_nat b))) m with
  | Some p => bid_of (snd p) | None => b
  end.
Definition remap_instr (m : list (nat * nat)) (i : instr) : instr :=
  match i with
  | IJump b => IJump (remap_bid m b)
  | ICJump a cc b y n => ICJump a cc b (remap_bid m y) (remap_bid m n)
  | IPhi v n t ins => IPhi v n t (map (fun p => (remap_bid m (fst p), snd p)) ins)
  | other => other
  end.

(* `rt f(params) { locals...; body }` : te = types of the parameters then of the locals *)
Definition emit_fn_stmt (g : cgen) (name : string) (pnames : list string) (te : tenv) (rt : ity) (body : irs) : func :=
  let np := List.length pnames in
  let n := List.length te in
  let allocs := flat_map (fun i =>
                  let t := nth i te TInt in
                  [IAlloc (Pos.of_succ_nat (2 * i)) "alloca" (sizeof (cg_ctx g) t) (alignof g t);
                   IAddrOf (Pos.of_succ_nat (2 * i + 1)) "alloca_addr" (Loc (Pos.of_succ_nat (2 * i)))])
                (seq 0 n) in
  let slots := map (fun i => Loc (Pos.of_succ_nat (2 * i + 1))) (seq 0 n) in
  let stores := map (fun i => IStore (Param i) (nth i slots (Unres "noslot")) false) (seq 0 np) in
  let e0 := mk_es [rev (allocs ++ [IJump (bid_of 1)]); rev stores] 1 (Pos.of_succ_nat (2 * n)) in
  let e1 := emit_s slots body None None e0 in
  (* gen_function_def: the open last block returns 0 *)
  let '(rz, e2) := new_val e1 (fun v => IConst v "num" (irty g rt) (CInt 0)) in
  let e3 := add_ins e2 (IReturn rz) in
  let blocks := map (@rev instr) (es_blocks e3) in
  let live := reach (List.length blocks) blocks [O] in
  let kept := filter (fun i => nat_mem i live) (seq 0 (List.length blocks)) in
  let m := combine kept (seq 0 (List.length kept)) in
  let kblocks := renumber (map (fun i => map (remap_instr m) (nth i blocks [])) kept) in
  mk_func name BGlobal (Some (irty g rt)) (map (fun i => (nth i pnames EmptyString, irty g (nth i te TInt))) (seq 0 np))
          (map (fun pb => mk_block (bid_of (fst (fst pb))) (name ++ "_block" ++ show_nat (snd (fst pb))) (snd pb))
               (combine (combine (seq 0 (List.length kept)) kept) kblocks)).

Definition c_fn_stmt (sv : semv) (g : cgen) (name : string) (pnames : list string) (te : tenv) (rt : ity)
           (body : cstmt) : func :=
  emit_fn_stmt g name pnames te rt (lower_stmt g (elab_stmt sv te rt body)).

(* value returned according to the skeleton run (OStuck when the body falls off its end) *)
Definition stmt_result (sv : semv) (g : cgen) (te : tenv) (np : nat) (rt : ity) (fuel : nat) (body : cstmt)
           (args : list Z) : outcome Z :=
  '(o, _) <~ srun default_cfg fuel (lower_stmt g (elab_stmt sv te rt body))
                  (args ++ repeat 0 (List.length te - np)) ;;
  match o with SRet v => ODone v | _ => OStuck end.
