(* Model/WasmMem.v — C22, tie H: linear memory of the python target.
   Mirrors, function by function:
     ir2py.py generate_memory_builtins : IrPy.get_memory / read_mem / write_mem / load_<ty> / store_<ty>
                                         (struct formats b B h H i I q Q, host assumed little-endian)
     _python_instance.py               : PythonMemoryInstance.size / grow / write (data segments)
     wasm2ppci.py                      : get_memory_address / gen_load / gen_store (address = mem0 + (int(addr) + offset),
                                         Load of the narrow type then Cast, Cast to the narrow type then Store)
   Python slice semantics (negative indices count from the end, slice assignment may insert) are modelled
   because addresses >= 2^31 reach them.  NO proofs here. *)
From PV Require Import Lib.Py Spec.BitsSpec Spec.WasmMemSpec.
From PV Require Gen.irpy_rt.
Open Scope Z_scope.

Definition HEAP_START : Z := 268435456.     (* IrPy.HEAP_START = 0x10000000 *)
Definition PAGE : Z := 65536.

Record pymem := { heap : list Z;            (* rt.heap (bytearray) *)
                  stack : list Z;           (* rt.stack (bytearray of live allocas) *)
                  mem0 : Z;                 (* PythonMemoryInstance._mem0_start (absolute address) *)
                  maxp : Z }.               (* max_size in pages (0x10000 when the module declares none) *)

(* ---- Python slicing *)
Definition clampi (n i : Z) : Z := if i <? 0 then Z.max 0 (i + n) else Z.min i n.
Definition pyslice (l : list Z) (a b : Z) : list Z :=
  let n := len l in sliceZ l (clampi n a) (clampi n b).
(* l[a:b] = data *)
Definition assign_slice (l : list Z) (a b : Z) (data : list Z) : list Z :=
  let n := len l in
  let s := clampi n a in let e := Z.max s (clampi n b) in
  firstn (Z.to_nat s) l ++ data ++ skipn (Z.to_nat e) l.

(* ---- IrPy memory builtins *)
Definition get_memory (m : pymem) (v : Z) : bool * Z :=
  if HEAP_START <=? v then (true, v - HEAP_START) else (false, v).

Definition read_mem (m : pymem) (address size : Z) : result (list Z) :=
  let '(h, a) := get_memory m address in
  let mem := if h then heap m else stack m in
  guard (a + size <=? len mem) (Internal AssertionError) (Ok (pyslice mem a (a + size))).

Definition write_mem (m : pymem) (address : Z) (data : list Z) : result pymem :=
  let '(h, a) := get_memory m address in
  let mem := if h then heap m else stack m in
  let size := len data in
  guard (a + size <=? len mem) (Internal AssertionError) (
  let mem' := assign_slice mem a (a + size) data in
  Ok (if h then {| heap := mem'; stack := stack m; mem0 := mem0 m; maxp := maxp m |}
      else {| heap := heap m; stack := mem'; mem0 := mem0 m; maxp := maxp m |})).

(* struct.unpack(fmt, data)[0] / struct.pack(fmt, value) for the integer formats, little-endian host *)
Definition unpack_int (sgn : bool) (size : nat) (data : list Z) : result Z :=
  if (length data =? size)%nat then
    Ok (if sgn then signed_of (8 * Z.of_nat size) (le_value data) else le_value data)
  else Internal StructError.
Definition pack_int (sgn : bool) (size : nat) (v : Z) : result (list Z) :=
  let m := 8 * Z.of_nat size in
  let ok := if sgn then (- 2 ^ (m - 1) <=? v) && (v <? 2 ^ (m - 1)) else (0 <=? v) && (v <? 2 ^ m) in
  if ok then Ok (le_bytes size (v mod 2 ^ m)) else Internal StructError.

Definition load_int (m : pymem) (sgn : bool) (size : nat) (address : Z) : result Z :=
  data <- read_mem m address (Z.of_nat size) ;; unpack_int sgn size data.
Definition store_int (m : pymem) (sgn : bool) (size : nat) (address v : Z) : result pymem :=
  data <- pack_int sgn size v ;; write_mem m address data.

(* ---- wasm2ppci get_memory_address: base = Cast(addr, ptr) = int(round(addr)) (no unsigned conversion);
   address = base + offset; address = mem0 + address (ptr adds are not wrapped by ir2py) *)
Definition eff_address (m : pymem) (s off : Z) : Z := mem0 m + (s + off).

(* iN.load / iN.loadM_sx : Load of (M bits, sx) then, unless M = N, Cast to iN *)
Definition wasm_load (m : pymem) (size : nat) (sgn : bool) (N : Z) (s off : Z) : result Z :=
  v <- load_int m sgn size (eff_address m s off) ;;
  if (8 * Z.of_nat size =? N) then Ok v else irpy_rt.correct v N true.
(* iN.store / iN.storeM : unless M = N, Cast to the signed M-bit type; then Store *)
Definition wasm_store (m : pymem) (size : nat) (N : Z) (s off v : Z) : result pymem :=
  v' <- (if (8 * Z.of_nat size =? N) then Ok v else irpy_rt.correct v (8 * Z.of_nat size) true) ;;
  store_int m true size (eff_address m s off) v'.

(* the repaired lowering of fixes/C22-address-unsigned.diff: Cast(addr, u32) = rt.correct(addr, 32, False) before the
   pointer cast.  tools/props/c22_mem.py reads the IR of a compiled load to see which lowering the source has and runs the
   correspondence against that one. *)
Definition wasm_load_u (m : pymem) (size : nat) (sgn : bool) (N : Z) (s off : Z) : result Z :=
  wasm_load m size sgn N (s mod 2 ^ 32) off.
Definition wasm_store_u (m : pymem) (size : nat) (N : Z) (s off v : Z) : result pymem :=
  wasm_store m size N (s mod 2 ^ 32) off v.

(* ---- PythonMemoryInstance *)
Definition heap_top (m : pymem) : Z := len (heap m) + HEAP_START.
Definition mem_size (m : pymem) : Z := (heap_top m - mem0 m) / PAGE.
Definition mem_grow_py (m : pymem) (amount : Z) : result (Z * pymem) :=
  let old := mem_size m in
  let new := old + amount in
  if maxp m <? new then Ok (-1, m) else
  guard (0 <=? amount * PAGE) (Internal ValueErrorI) (          (* bytes(negative) raises ValueError *)
  Ok (old, {| heap := heap m ++ repeat 0 (Z.to_nat (amount * PAGE)); stack := stack m;
              mem0 := mem0 m; maxp := maxp m |})).
(* the memory.grow INSTRUCTION: wasm_rt_memory_grow = ModuleInstance.memory_grow(idx, amount) -> memory.grow(amount).
   [mem_grow_instr false] is the current code (operand passed on as a signed int), [mem_grow_instr true] the repaired one of
   fixes/C22-memory-grow-unsigned.diff (amount &= 0xFFFFFFFF); the check probes memory.grow(-1) to see which one is live. *)
Definition mem_grow_instr (masked : bool) (m : pymem) (amount : Z) : result (Z * pymem) :=
  mem_grow_py m (if masked then Z.land amount 4294967295 else amount).
(* data segment: memory.write(offset, data) = rt.write_mem(mem0 + offset, data) *)
Definition mem_write (m : pymem) (off : Z) (data : list Z) : result pymem :=
  write_mem m (mem0 m + off) data.

(* the wasm-visible memory: everything from mem0 to the top of the heap *)
Definition wasm_mem (m : pymem) : list Z := skipn (Z.to_nat (mem0 m - HEAP_START)) (heap m).
