(* Model/OptValidateCfg.v — validator for passes that keep the instructions but reshape the CFG the
   way CleanPass does (C02, layer B): blocks of the "after" function correspond to HEAD blocks of
   the "before" function ([beta] : after block id -> before block id, an untrusted hint computed
   from the block names); a head block is compared with its counterpart after FLATTENING: an
   unconditional jump to a block that is not a head and has no phis is replaced by that block's
   instructions (glued blocks, and empty blocks reached by a jump); jump targets are compared
   after RESOLVING them through blocks that consist of a single jump (bypassed empty blocks), and
   the phi inputs of the target for the resolved edge must be related.  Everything else is the
   block-local validator of Model/OptValidateFn.v (so block-local changes are accepted as well).
   Executable definitions only; soundness: Proofs/C02_clean.v. *)
From PV Require Import Lib.Py Lib.Val Spec.IRSyntax Spec.IRSem Model.OptValidate Model.OptValidateFn.
From Coq Require Import String.
Open Scope Z_scope.

Fixpoint lastopt {A} (l : list A) : option A :=
  match l with [] => None | [x] => Some x | _ :: r => lastopt r end.

Section Cfg.
  Variable c : cfg.
  Variable f f' : func.
  Variable rho : list (vid * vid).
  Variable beta : list (bid * bid).

  Definition is_head (b : bid) : bool := existsb (fun p => Pos.eqb (snd p) b) beta.
  Definition no_phis (l : list instr) : bool := forallb (fun i => negb (is_phi_i i)) l.
  Definition no_terms (l : list instr) : bool := forallb (fun i => negb (is_terminator i)) l.

  Fixpoint flat (k : nat) (b : bid) : option (list instr * bid) :=
    match k with
    | O => None
    | S k' =>
      match find_block f b with
      | None => None
      | Some blk =>
        match lastopt (b_ins blk) with
        | Some (IJump t) =>
            if is_head t then Some (b_ins blk, b)
            else match find_block f t, flat k' t with
                 | Some tb, Some (l, last) =>
                     if no_phis (b_ins tb) && no_terms (removelast (b_ins blk))
                     then Some (removelast (b_ins blk) ++ l, last) else None
                 | _, _ => None
                 end
        | Some _ => Some (b_ins blk, b)
        | None => None
        end
      end
    end.

  (* follow single-jump blocks until a head; result: (head, predecessor through which it is entered) *)
  Fixpoint resolve (k : nat) (p u : bid) : option (bid * bid) :=
    if is_head u then Some (u, p)
    else match k with
         | O => None
         | S k' => match find_block f u with
                   | Some blk => match b_ins blk with [IJump u2] => resolve k' u u2 | _ => None end
                   | None => None
                   end
         end.

  Definition phi_edge (h u' q b' : bid) : bool :=
    match find_block f h, find_block f' u' with
    | Some hb, Some ub' =>
        forallb (fun i' => match i' with
                           | IPhi v' _ _ ins' =>
                               match rget rho v' with
                               | Some v =>
                                   match find_phi (b_ins hb) v with
                                   | Some ins =>
                                       match find (fun x => Pos.eqb (fst x) q) ins,
                                             find (fun x => Pos.eqb (fst x) b') ins' with
                                       | Some x, Some x' => ref_rel rho (snd x) (snd x')
                                       | _, _ => false
                                       end
                                   | None => false
                                   end
                               | None => false
                               end
                           | _ => true
                           end) (b_ins ub')
    | _, _ => false
    end.

  Definition nblocks : nat := S (List.length (f_blocks f)).
  (* the edge (p -> u) of f against the edge (p' -> u') of f' *)
  Definition edge_ok (p p' u u' : bid) : bool :=
    match resolve nblocks p u with
    | Some (h, q) => match rget beta u' with
                     | Some h' => Pos.eqb h' h && phi_edge h u' q p'
                     | None => false
                     end
    | None => false
    end.

  Definition check_head (pr : bid * bid) : bool :=
    let '(b', h) := pr in
    match find_block f' b', find_block f h, flat nblocks h with
    | Some kb', Some hb, Some (l, last) =>
        place_ok rho (phi_vids (b_ins hb)) (phi_vids (b_ins kb'))
        && check_body c f f' rho (edge_ok last b') (S (List.length l + List.length (b_ins kb'))) l (b_ins kb')
    | _, _, _ => false
    end.

  Definition check_entry : bool :=
    match f_blocks f, f_blocks f' with
    | k :: _, k' :: _ =>
        match rget beta (b_id k') with Some h => Pos.eqb h (b_id k) | None => false end
        && no_phis (b_ins k) && no_phis (b_ins k')
    | _, _ => false
    end.
End Cfg.

Definition check_cfg (c : cfg) (f f' : func) (beta : list (bid * bid)) : bool :=
  let rho := mk_rho f f' in
  String.eqb (f_name f) (f_name f') && params_eqb (f_params f) (f_params f')
  && nodup_pos (map fst rho) && nodup_pos (map snd rho)
  && check_entry f f' beta
  && forallb (check_head c f f' rho beta) beta.

Fixpoint check_funcs_cfg (c : cfg) (l l' : list func) (hs : list (list (bid * bid))) : bool :=
  match l, l', hs with
  | [], [], [] => true
  | f :: r, f' :: r', h :: rh => check_cfg c f f' h && check_funcs_cfg c r r' rh
  | _, _, _ => false
  end.
Definition check_modul_cfg (c : cfg) (m m' : modul) (hs : list (list (bid * bid))) : bool :=
  dec2b (list_eq_dec ext_eq_dec) (m_externals m) (m_externals m')
  && dec2b (list_eq_dec gvar_eq_dec) (m_vars m) (m_vars m')
  && check_funcs_cfg c (m_funcs m) (m_funcs m') hs.
