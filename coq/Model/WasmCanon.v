(* Model/WasmCanon.v — C21: a strict recognizer of the CANONICAL binary encoding (what the writer
   emits): minimal LEB128, value bytes in their writer form (mutable flag 0/1, data flag 2 only
   with a non-zero memory index, select 0x1C only with result types), run-length grouped locals,
   every section at most once, non-empty, in the writer's order, exact sizes, nothing after the
   last section. Definitions only (no proofs). [canonical] is a decidable predicate on bytes. *)
From PV Require Import Lib.Py Model.WasmTypes Gen.Tab_wasm_opcodes Model.WasmBin.
From Coq Require Import String.
Local Open Scope string_scope.
Local Open Scope list_scope.
Open Scope Z_scope.

Definition NonCanon {A} : result A := Internal (OtherI 9).

(* ---- minimal LEB128 ---- *)
Fixpoint suleb (bs : bytes) : result (Z * bytes) :=
  match bs with
  | [] => EOF
  | b :: r =>
      if negb (is_byte b) then NonCanon
      else if b <? 128 then Ok (b, r)
      else '(v, r') <- suleb r ;;
           if v =? 0 then NonCanon else Ok (b - 128 + 128 * v, r')
  end.

Fixpoint ssleb (bs : bytes) : result (Z * bytes) :=
  match bs with
  | [] => EOF
  | b :: r =>
      if negb (is_byte b) then NonCanon
      else if b <? 128 then Ok ((if 64 <=? b then b - 128 else b), r)
      else '(v, r') <- ssleb r ;;
           let byte := b - 128 in
           if ((v =? 0) && (byte <? 64)) || ((v =? -1) && (64 <=? byte)) then NonCanon
           else Ok (byte + 128 * v, r')
  end.

(* at most [n] bytes may have been consumed *)
Definition at_most {A} (n : Z) (bs : bytes) (x : result (A * bytes)) : result (A * bytes) :=
  '(v, r) <- x ;; if len bs - len r <=? n then Ok (v, r) else NonCanon.

Definition s_u32 : reader Z := fun bs => at_most 5 bs (suleb bs).
Definition s_s32 : reader Z := fun bs => at_most 5 bs (ssleb bs).
Definition s_s64 : reader Z := fun bs => at_most 10 bs (ssleb bs).

Definition s_byte : reader Z :=
  fun bs => match bs with [] => EOF | b :: r => if is_byte b then Ok (b, r) else NonCanon end.

Definition s_type : reader string :=
  fun bs =>
    '(b, r) <- s_byte bs ;;
    match assoc Z.eqb lang_types_reverse b with
    | Some t =>
        match assoc String.eqb lang_types t with
        | Some [b'] => if b' =? b then Ok (t, r) else NonCanon
        | _ => NonCanon
        end
    | None => Internal KeyError
    end.

Definition s_ref (space : string) : reader ref :=
  fun bs => '(i, r) <- s_u32 bs ;; Ok ((space, i), r).

Definition s_exactly (n : Z) : reader bytes :=
  fun bs => '(d, r) <- read_exactly n bs ;; if all_byte d then Ok (d, r) else NonCanon.

Definition s_lpbytes : reader bytes :=
  fun bs => '(n, r) <- s_u32 bs ;; s_exactly n r.

Definition s_limits : reader (Z * option Z) :=
  fun bs =>
    '(p, r) <- s_byte bs ;;
    if p =? 0 then '(mn, r1) <- s_u32 r ;; Ok ((mn, None), r1)
    else if p =? 1 then '(mn, r1) <- s_u32 r ;; '(mx, r2) <- s_u32 r1 ;; Ok ((mn, Some mx), r2)
    else NonCanon.

Definition s_bool : reader bool :=
  fun bs => '(b, r) <- s_byte bs ;; if b =? 0 then Ok (false, r) else if b =? 1 then Ok (true, r) else NonCanon.

(* ---- immediates ---- *)
Definition s_arg (key : code) (k : akind) : reader arg :=
  fun bs =>
    match assoc akind_eqb rfm k, assoc akind_eqb wfm k with
    | Some RType, Some WType => '(t, r) <- s_type bs ;; Ok (AStr t, r)
    | Some RByte, Some WByte => '(b, r) <- s_byte bs ;; Ok (AInt b, r)
    | Some RUint, Some WVu32 => '(v, r) <- s_u32 bs ;; Ok (AInt v, r)
    | Some RInt, Some WVs32 => '(v, r) <- s_s32 bs ;; Ok (AInt v, r)
    | Some RInt, Some WVs64 => '(v, r) <- s_s64 bs ;; Ok (AInt v, r)
    | Some (RSpaceRef sp), Some WRef => '(x, r) <- s_ref sp bs ;; Ok (ARef (fst x) (snd x), r)
    | Some RF32, Some WF32 => '(d, r) <- s_exactly 4 bs ;; Ok (AFloat d, r)
    | Some RF64, Some WF64 => '(d, r) <- s_exactly 8 bs ;; Ok (AFloat d, r)
    | None, None =>
        match k with
        | KBrTable =>
            '(count, r) <- s_u32 bs ;;
            '(vec, r') <- read_vec (Z.to_nat (count + 1)) (s_ref "label") r ;;
            Ok (ARefs vec, r')
        | KResultTypes =>
            if code_eqb key (28, None) then
              '(count, r) <- s_u32 bs ;;
              if count =? 0 then NonCanon
              else '(vec, r') <- read_vec (Z.to_nat count) s_type r ;; Ok (AStrs vec, r')
            else Ok (AStrs [], bs)
        | _ => NonCanon
        end
    | _, _ => NonCanon
    end.

Fixpoint s_args (key : code) (ks : list akind) : reader (list arg) :=
  fun bs =>
    match ks with
    | [] => Ok ([], bs)
    | k :: ks' => '(a, r) <- s_arg key k bs ;; '(l, r') <- s_args key ks' r ;; Ok (a :: l, r')
    end.

Definition s_instr : reader instr :=
  fun bs =>
    '(b, r) <- s_byte bs ;;
    '(key, r1) <- (if (b =? 252) || (b =? 253)
                   then '(sub, r') <- s_u32 r ;; Ok ((b, Some sub), r')
                   else Ok ((b, None), r)) ;;
    match assoc code_eqb reverz key with
    | None => Internal KeyError
    | Some op =>
        match assoc String.eqb operands op, assoc String.eqb opcodes op with
        | Some ks, Some c =>
            '(args, r2) <- s_args key ks r1 ;;
            match effective_code c args with
            | Ok eff => if code_eqb eff key then Ok (Instr op args, r2) else NonCanon
            | _ => NonCanon
            end
        | _, _ => Internal KeyError
        end
    end.

Fixpoint s_expr_loop (fuel : nat) (blocks : Z) (expr : list instr) : reader (list instr) :=
  fun bs =>
    match fuel with
    | O => OutOfFuel
    | S f =>
        '(i, r) <- s_instr bs ;;
        let blocks' := blocks_step blocks i in
        if blocks' =? 0 then
          (if is_end i then Ok (expr, r) else NonCanon)
        else s_expr_loop f blocks' (expr ++ [i]) r
    end.

Definition s_expr : reader (list instr) :=
  fun bs => s_expr_loop (S (List.length bs)) 1 [] bs.

(* ---- definitions ---- *)
Definition s_type_def : reader defn :=
  fun bs =>
    '(form, r) <- s_byte bs ;;
    if negb (form =? 96) then NonCanon
    else
      '(np, r1) <- s_u32 r ;;
      '(params, r2) <- read_vec (Z.to_nat np) s_type r1 ;;
      '(nr, r3) <- s_u32 r2 ;;
      if negb (nr <? 128) then NonCanon
      else '(results, r4) <- read_vec (Z.to_nat nr) s_type r3 ;; Ok (DType params results, r4).

Definition s_import_def : reader defn :=
  fun bs =>
    '(modname, r) <- s_lpbytes bs ;;
    '(name, r1) <- s_lpbytes r ;;
    '(kind_id, r2) <- s_byte r1 ;;
    if kind_id =? 0 then
      '(x, r3) <- s_ref "type" r2 ;; Ok (DImport modname name (IFunc x), r3)
    else if kind_id =? 1 then
      '(k, r3) <- s_type r2 ;; '(lim, r4) <- s_limits r3 ;;
      Ok (DImport modname name (ITable k (fst lim) (snd lim)), r4)
    else if kind_id =? 2 then
      '(lim, r3) <- s_limits r2 ;; Ok (DImport modname name (IMemory (fst lim) (snd lim)), r3)
    else if kind_id =? 3 then
      '(t, r3) <- s_type r2 ;; '(m, r4) <- s_bool r3 ;; Ok (DImport modname name (IGlobal t m), r4)
    else NonCanon.

Definition s_table_def : reader defn :=
  fun bs => '(k, r) <- s_type bs ;; '(lim, r1) <- s_limits r ;; Ok (DTable k (fst lim) (snd lim), r1).

Definition s_memory_def : reader defn :=
  fun bs => '(lim, r) <- s_limits bs ;; Ok (DMemory (fst lim) (snd lim), r).

Definition s_global_def : reader defn :=
  fun bs =>
    '(t, r) <- s_type bs ;; '(m, r1) <- s_bool r ;; '(init, r2) <- s_expr r1 ;;
    Ok (DGlobal t m init, r2).

Definition s_export_def : reader defn :=
  fun bs =>
    '(name, r) <- s_lpbytes bs ;; '(kind_id, r1) <- s_byte r ;;
    match nthZ export_kinds kind_id with
    | None => NonCanon
    | Some kind =>
        match index_of kind export_kinds 0 with
        | Some id' => if id' =? kind_id then '(x, r2) <- s_ref kind r1 ;; Ok (DExport name kind x, r2)
                      else NonCanon
        | None => NonCanon
        end
    end.

Definition s_start_def : reader defn :=
  fun bs => '(x, r) <- s_ref "func" bs ;; Ok (DStart x, r).

Definition s_elem_def : reader defn :=
  fun bs =>
    '(x, r) <- s_u32 bs ;;
    if negb (x =? 0) then NonCanon
    else
      '(offset, r1) <- s_expr r ;;
      '(count, r2) <- s_u32 r1 ;;
      '(refs, r3) <- read_vec (Z.to_nat count) (s_ref "func") r2 ;;
      Ok (DElem ("table", 0) offset refs, r3).

Definition s_data_def : reader defn :=
  fun bs =>
    '(x, r) <- s_u32 bs ;;
    '(mode, r1) <- (if x =? 1 then Ok (None, r)
                    else if x =? 0 then
                      '(offset, r') <- s_expr r ;; Ok (Some (("memory", 0), offset), r')
                    else if x =? 2 then
                      '(rf, r') <- s_ref "memory" r ;;
                      if negb (0 <? snd rf) then NonCanon
                      else '(offset, r'') <- s_expr r' ;; Ok (Some (rf, offset), r'')
                    else NonCanon) ;;
    '(data, r2) <- s_lpbytes r1 ;;
    Ok (DData mode data, r2).

Definition s_datacount_def : reader defn :=
  fun bs => '(n, r) <- s_u32 bs ;; Ok (DDataCount n, r).

Definition s_local_entry : reader (Z * string) :=
  fun bs => '(c, r) <- s_u32 bs ;; '(t, r1) <- s_type r ;; Ok ((c, t), r1).

Fixpoint entries_eqb (a b : list (Z * string)) : bool :=
  match a, b with
  | [], [] => true
  | (c, t) :: a', (c', t') :: b' => (c =? c') && String.eqb t t' && entries_eqb a' b'
  | _, _ => false
  end.

(* nothing may remain *)
Definition all_of {A} (data : bytes) (rd : reader A) : result A :=
  '(x, rest) <- rd data ;; match rest with [] => Ok x | _ => NonCanon end.

Definition s_func_def (t : Z) : reader defn :=
  fun bs =>
    '(body, r) <- s_lpbytes bs ;;
    p <- all_of body (fun b =>
           '(n, r1) <- s_u32 b ;;
           '(entries, r2) <- read_vec (Z.to_nat n) s_local_entry r1 ;;
           let locals := List.concat (map expand_local entries) in
           if negb (entries_eqb (local_entries locals) entries) then NonCanon
           else '(instructions, r3) <- s_expr r2 ;; Ok ((locals, instructions), r3)) ;;
    Ok (DFunc ("type", t) (fst p) (snd p), r).

Fixpoint s_funcs (ts : list Z) : reader (list defn) :=
  fun bs =>
    match ts with
    | [] => Ok ([], bs)
    | t :: ts' => '(d, r) <- s_func_def t bs ;; '(l, r') <- s_funcs ts' r ;; Ok (d :: l, r')
    end.

(* ---- sections ---- *)
(* an optional section with id [id]: absent, or present with a non-empty exactly sized payload *)
Definition s_section {A} (id : Z) (parse : reader (list A)) : reader (list A) :=
  fun bs =>
    match bs with
    | b :: r =>
        if b =? id then
          '(payload, r1) <- s_lpbytes r ;;
          l <- all_of payload parse ;;
          match l with [] => NonCanon | _ => Ok (l, r1) end
        else Ok ([], bs)
    | [] => Ok ([], bs)
    end.

(* every definition of a section has the section's name (a check that cannot fail: each reader
   builds one constructor) *)
Definition named (name : string) (x : result (list defn * bytes)) : result (list defn * bytes) :=
  '(l, r) <- x ;; if forallb (has_name name) l then Ok (l, r) else NonCanon.

(* count-prefixed vector of definitions *)
Definition s_defs (name : string) (rd : reader defn) : reader (list defn) :=
  fun bs => named name ('(n, r) <- s_u32 bs ;; read_vec (Z.to_nat n) rd r).

Definition s_one (name : string) (rd : reader defn) : reader (list defn) :=
  fun bs => named name ('(d, r) <- rd bs ;; Ok ([d], r)).

Definition s_u32_vec : reader (list Z) :=
  fun bs => '(n, r) <- s_u32 bs ;; read_vec (Z.to_nat n) s_u32 r.

Definition s_code (ts : list Z) : reader (list defn) :=
  fun bs =>
    named "func" ('(n, r) <- s_u32 bs ;;
                  if negb (n =? len ts) then NonCanon else s_funcs ts r).

Definition s_custom_def : reader defn :=
  fun bs => '(name, r) <- s_lpbytes bs ;; if all_byte r then Ok (DCustom name r, []) else NonCanon.

Fixpoint s_customs (fuel : nat) : reader (list defn) :=
  fun bs =>
    match fuel with
    | O => OutOfFuel
    | S f =>
        match bs with
        | 0 :: r =>
            '(payload, r1) <- s_lpbytes r ;;
            d <- all_of payload s_custom_def ;;
            '(l, r2) <- s_customs f r1 ;; Ok (d :: l, r2)
        | _ => Ok ([], bs)
        end
    end.

(* decidable: the bytes are a canonical encoding whose definitions are well-formed is stated in
   Proofs/C21_canon.v ([canonical]); here the recognizer only *)
Definition s_module (bs : bytes) : result (list defn) :=
  '(_, r) <- read_header bs ;;
  '(customs, r0) <- s_customs (S (List.length r)) r ;;
  '(types, r1) <- s_section 1 (s_defs "type" s_type_def) r0 ;;
  '(imports, r2) <- s_section 2 (s_defs "import" s_import_def) r1 ;;
  '(ts, r3) <- s_section 3 s_u32_vec r2 ;;
  '(tables, r4) <- s_section 4 (s_defs "table" s_table_def) r3 ;;
  '(memories, r5) <- s_section 5 (s_defs "memory" s_memory_def) r4 ;;
  '(globals, r6) <- s_section 6 (s_defs "global" s_global_def) r5 ;;
  '(exports, r7) <- s_section 7 (s_defs "export" s_export_def) r6 ;;
  '(starts, r8) <- s_section 8 (s_one "start" s_start_def) r7 ;;
  '(elems, r9) <- s_section 9 (s_defs "elem" s_elem_def) r8 ;;
  '(funcs, r10) <- s_section 10 (s_code ts) r9 ;;
  '(datas, r11) <- s_section 11 (s_defs "data" s_data_def) r10 ;;
  '(datacounts, r12) <- s_section 12 (s_one "datacount" s_datacount_def) r11 ;;
  match r12 with
  | [] =>
      if negb (Nat.eqb (List.length funcs) (List.length ts)) then NonCanon
      else Ok (customs ++ types ++ imports ++ tables ++ memories ++ globals ++ exports ++ starts
               ++ elems ++ funcs ++ datas ++ datacounts)
  | _ => NonCanon
  end.
