(* Model/LrBuilder.v — property C32, hand model (tie H) of ppci/lang/tools/lr.py LrParserBuilder:
   calculate_first_sets, closure/first2, next_item_set, gen_canonical_set, set_action,
   generate_tables.  Sets are duplicate-free lists (item sets are kept sorted so that set
   equality is list equality).  State numbers are discovery order with the symbol order
   nonterminals ++ terminals (Python iterates a hash-ordered set: numbering is compared modulo
   renaming).  [fix_first = false] is lr.py as it is; [fix_first = true] is the repaired
   lookahead computation (fixes/C32-lookahead-nullable.diff).  No proofs here. *)
From PV Require Import Lib.Py Lib.Val Spec.CfgGrammarSpec Model.LrValidator.
Open Scope Z_scope.

Definition nonterminals (g : grammar) : list Z := nodup Z.eq_dec (map fst (prods g)).
Definition symbols (g : grammar) : list Z := nonterminals g ++ terminals g.

(* Grammar.check_symbols *)
Definition check_symbols (g : grammar) : bool :=
  forallb (fun pr => forallb (fun x => mem_z x (symbols g)) (snd pr)) (prods g).

(* ---------------------------------------------------------------- first sets *)
Definition fmap := list (Z * list Z).
Definition fget (m : fmap) (x : Z) : list Z :=
  match find (fun e => fst e =? x) m with Some e => snd e | None => [] end.
Definition fset (m : fmap) (x : Z) (s : list Z) : fmap :=
  map (fun e => if fst e =? x then (x, s) else e) m.
Definition union (a b : list Z) : list Z := a ++ filter (fun x => negb (mem_z x a)) (nodup Z.eq_dec b).
Definition has_new (b a : list Z) : bool := existsb (fun x => negb (mem_z x a)) b.   (* b - a non-empty *)

Definition fstate := (fmap * list Z * bool)%type.   (* first, nullable, some_change *)

(* the inner "for beta in rule.symbols" loop *)
Fixpoint first_syms (fix_first : bool) (st : fstate) (name : Z) (syms : list Z) : fstate :=
  match syms with
  | [] => st
  | beta :: r =>
    let '(first, nullable, ch) := st in
    let upd := if has_new (fget first beta) (fget first name)
               then (fset first name (union (fget first name) (fget first beta)), nullable, true)
               else st in
    if fix_first then
      if mem_z beta nullable then first_syms fix_first upd name r else upd
    else
      if mem_z beta nullable then first_syms fix_first st name r else upd
  end.

Definition first_rule (fix_first : bool) (st : fstate) (pr : Z * list Z) : fstate :=
  let '(first, nullable, ch) := st in
  let '(name, syms) := pr in
  let st1 := if forallb (fun b => mem_z b nullable) syms && negb (mem_z name nullable)
             then (first, name :: nullable, true) else st in
  first_syms fix_first st1 name syms.

Fixpoint first_loop (fix_first : bool) (fuel : nat) (g : grammar) (first : fmap) (nullable : list Z)
  : result (fmap * list Z) :=
  match fuel with
  | O => OutOfFuel
  | S fuel' =>
    let '(first', nullable', ch) := fold_left (first_rule fix_first) (prods g) (first, nullable, false) in
    if ch then first_loop fix_first fuel' g first' nullable' else Ok (first', nullable')
  end.

Definition calculate_first_sets (fix_first : bool) (fuel : nat) (g : grammar) : result fmap :=
  let ts := nodup Z.eq_dec (terminals g ++ [EOF; EPS]) in
  let init := map (fun t => (t, [t])) ts ++ map (fun n => (n, [])) (nonterminals g) in
  '(first, nullable) <- first_loop fix_first fuel g init [] ;;
  Ok (if fix_first
      then map (fun e => if mem_z (fst e) nullable && mem_z (fst e) (nonterminals g)
                         then (fst e, union (snd e) [EPS]) else e) first
      else first).

(* ---------------------------------------------------------------- items *)
Definition item := (Z * Z * Z)%type.   (* production index, dot position, look-ahead *)
Definition i_prod (i : item) := fst (fst i).
Definition i_dot (i : item) := snd (fst i).
Definition i_la (i : item) := snd i.
Definition item_eqb (a b : item) : bool :=
  (i_prod a =? i_prod b) && (i_dot a =? i_dot b) && (i_la a =? i_la b).
Definition item_ltb (a b : item) : bool :=
  (i_prod a <? i_prod b) || ((i_prod a =? i_prod b) &&
    ((i_dot a <? i_dot b) || ((i_dot a =? i_dot b) && (i_la a <? i_la b)))).
Definition item_mem (x : item) (l : list item) : bool := existsb (item_eqb x) l.
Fixpoint add_item (x : item) (l : list item) : list item :=
  match l with
  | [] => [x]
  | y :: r => if item_eqb x y then l else if item_ltb x y then x :: l else y :: add_item x r
  end.
Fixpoint itemset_eqb (a b : list item) : bool :=
  match a, b with
  | [], [] => true
  | x :: a', y :: b' => item_eqb x y && itemset_eqb a' b'
  | _, _ => false
  end.

Definition prod_at (g : grammar) (p : Z) : Z * list Z := nth (Z.to_nat p) (prods g) (0, []).
Definition next_sym (g : grammar) (i : item) : option Z :=
  nth_error (snd (prod_at g (i_prod i))) (Z.to_nat (i_dot i)).
Definition is_reduce (g : grammar) (i : item) : bool :=
  match next_sym g i with None => true | Some _ => false end.
(* indices of the productions of a nonterminal, in grammar order *)
Definition prods_for (g : grammar) (C : Z) : list Z :=
  map fst (filter (fun e => fst (snd e) =? C) (combine (rangeZ 0 (len (prods g))) (prods g))).

(* first2 of closure.  As it is: FIRST of the single symbol after Next (EPS at the end),
   EPS replaced by the item's look-ahead.  Repaired: FIRST of the whole rest followed by the
   look-ahead. *)
Fixpoint first_of_seq (first : fmap) (syms : list Z) (la : Z) : list Z :=
  match syms with
  | [] => [la]
  | x :: r => let f := fget first x in
              if mem_z EPS f then union (filter (fun y => negb (y =? EPS)) f) (first_of_seq first r la)
              else f
  end.
Definition first2 (fix_first : bool) (g : grammar) (first : fmap) (i : item) : list Z :=
  let rest := skipn (S (Z.to_nat (i_dot i))) (snd (prod_at g (i_prod i))) in
  if fix_first then nodup Z.eq_dec (first_of_seq first rest (i_la i))
  else
    let nn := match rest with [] => EPS | x :: _ => x end in
    let f := fget first nn in
    if mem_z EPS f then union (filter (fun y => negb (y =? EPS)) f) [i_la i] else f.

Definition add_it (acc : list item * list item) (itm : item) : list item * list item :=
  let '(s, w) := acc in if item_mem itm s then acc else (add_item itm s, w ++ [itm]).

Fixpoint closure_loop (fix_first : bool) (fuel : nat) (g : grammar) (first : fmap)
                      (set wl : list item) : result (list item) :=
  match fuel with
  | O => OutOfFuel
  | S fuel' =>
    match wl with
    | [] => Ok set
    | it :: wl' =>
      match next_sym g it with
      | None => closure_loop fix_first fuel' g first set wl'
      | Some C =>
        if negb (mem_z C (nonterminals g)) then closure_loop fix_first fuel' g first set wl'
        else
          let las := first2 fix_first g first it in
          let new := flat_map (fun p => map (fun b => (p, 0, b)) las) (prods_for g C) in
          let '(set', wl'') := fold_left add_it new (set, wl') in
          closure_loop fix_first fuel' g first set' wl''
      end
    end
  end.

Definition closure (fix_first : bool) (fuel : nat) (g : grammar) (first : fmap) (items : list item)
  : result (list item) :=
  let s := fold_right add_item [] items in
  closure_loop fix_first fuel g first s s.

Definition initial_item_set fix_first fuel g first : result (list item) :=
  closure fix_first fuel g first (map (fun p => (p, 0, EOF)) (prods_for g (start g))).

Definition next_item_set fix_first fuel g first (itemset : list item) (X : Z) : result (list item) :=
  closure fix_first fuel g first
    (flat_map (fun i => match next_sym g i with
                        | Some Y => if Y =? X then [(i_prod i, i_dot i + 1, i_la i)] else []
                        | None => [] end) itemset).

(* ---------------------------------------------------------------- canonical collection *)
Fixpoint index_of (s : list item) (states : list (list item)) (k : Z) : option Z :=
  match states with
  | [] => None
  | x :: r => if itemset_eqb s x then Some k else index_of s r (k + 1)
  end.

Definition cstate := (list (list item) * list Z * list ((Z * Z) * Z))%type. (* states, worklist, transitions *)

Fixpoint canon_syms fix_first fuel g first (idx : Z) (itemset : list item) (syms : list Z) (c : cstate)
  : result cstate :=
  match syms with
  | [] => Ok c
  | X :: r =>
    nis <- next_item_set fix_first fuel g first itemset X ;;
    match nis with
    | [] => canon_syms fix_first fuel g first idx itemset r c
    | _ =>
      let '(states, wl, trans) := c in
      match index_of nis states 0 with
      | Some j => canon_syms fix_first fuel g first idx itemset r (states, wl, trans ++ [((idx, X), j)])
      | None =>
        let j := len states in
        canon_syms fix_first fuel g first idx itemset r
                   (states ++ [nis], wl ++ [j], trans ++ [((idx, X), j)])
      end
    end
  end.

Fixpoint canon_loop fix_first (fuel fuel2 : nat) g first (c : cstate) : result cstate :=
  match fuel with
  | O => OutOfFuel
  | S fuel' =>
    let '(states, wl, trans) := c in
    match wl with
    | [] => Ok c
    | idx :: wl' =>
      let itemset := nth (Z.to_nat idx) states [] in
      c' <- canon_syms fix_first fuel2 g first idx itemset (symbols g) (states, wl', trans) ;;
      canon_loop fix_first fuel' fuel2 g first c'
    end
  end.

(* ---------------------------------------------------------------- action table *)
Definition action_eqb (a b : action) : bool :=
  match a, b with
  | Shift x, Shift y | Reduce x, Reduce y | Accept x, Accept y => x =? y
  | _, _ => false
  end.

Fixpoint replace_key {A} (k : Z * Z) (v : A) (l : list ((Z * Z) * A)) : list ((Z * Z) * A) :=
  match l with
  | [] => []
  | (k', v') :: r => if key_eqb k k' then (k', v) :: r else (k', v') :: replace_key k v r
  end.

(* LrParserBuilder.set_action.  The boolean is a ghost flag (not present in the Python): true when
   this call silently resolved a shift/reduce conflict in favour of the shift. *)
Definition atable := (list ((Z * Z) * action) * bool)%type.
Definition set_action (tb : atable) (k : Z * Z) (a : action) : result atable :=
  let '(tbl, sr) := tb in
  match lookup k tbl with
  | None => Ok (tbl ++ [(k, a)], sr)
  | Some a2 =>
    if action_eqb a a2 then Ok tb else
    match a2, a with
    | Reduce _, Shift _ => Ok (replace_key k a tbl, true)
    | Shift _, Reduce _ => Ok (tbl, true)
    | Shift _, _ | _, Shift _ => Internal (OtherI 2)     (* AttributeError: Shift has no .rule *)
    | _, _ => Diag 2                                      (* ParserGenerationException: LR conflict *)
    end
  end.

Definition item_actions (g : grammar) (trans : list ((Z * Z) * Z)) (idx : Z)
           (tbl : result atable) (i : item) : result atable :=
  t <- tbl ;;
  match next_sym g i with
  | Some X =>
      if mem_z X (terminals g) then
        match lookup (idx, X) trans with
        | Some j => set_action t (idx, X) (Shift j)
        | None => Internal KeyError
        end
      else Ok t
  | None =>
      let act := if (fst (prod_at g (i_prod i)) =? start g) && (i_la i =? EOF)
                 then Accept (i_prod i) else Reduce (i_prod i) in
      set_action t (idx, i_la i) act
  end.

Definition fill_actions (g : grammar) (states : list (list item)) (trans : list ((Z * Z) * Z))
  : result atable :=
  fold_left (fun tbl st => fold_left (item_actions g trans (fst st)) (snd st) tbl)
            (combine (rangeZ 0 (len states)) states) (Ok ([], false)).

(* LrParserBuilder.generate_tables (grammar.start_symbol already set); second component = ghost
   flag "some shift/reduce conflict was resolved automatically" *)
Definition generate_tables_sr (fix_first : bool) (fuel : nat) (g : grammar) : result (tables * bool) :=
  if negb (check_symbols g) then Diag 1 else
  first <- calculate_first_sets fix_first fuel g ;;
  iis <- initial_item_set fix_first fuel g first ;;
  '(states, _, trans) <- canon_loop fix_first fuel fuel g first ([iis], [0], []) ;;
  '(acts, sr) <- fill_actions g states trans ;;
  Ok (mkTables acts (filter (fun e => mem_z (snd (fst e)) (nonterminals g)) trans), sr).

Definition generate_tables (fix_first : bool) (fuel : nat) (g : grammar) : result tables :=
  r <- generate_tables_sr fix_first fuel g ;; Ok (fst r).

(* the canonical collection, for diagnostics / comparison *)
Definition canonical (fix_first : bool) (fuel : nat) (g : grammar)
  : result (list (list item) * list ((Z * Z) * Z)) :=
  first <- calculate_first_sets fix_first fuel g ;;
  iis <- initial_item_set fix_first fuel g first ;;
  '(states, _, trans) <- canon_loop fix_first fuel fuel g first ([iis], [0], []) ;;
  Ok (states, trans).

(* ---------------------------------------------------------------- comparison helpers (correspondence) *)
Definition sub_table {A} (eqb : A -> A -> bool) (l1 l2 : list ((Z * Z) * A)) : bool :=
  forallb (fun e => match lookup (fst e) l2 with Some v => eqb (snd e) v | None => false end) l1.
Definition tables_eqb (T1 T2 : tables) : bool :=
  sub_table action_eqb (actions T1) (actions T2) && sub_table action_eqb (actions T2) (actions T1) &&
  sub_table Z.eqb (gotos T1) (gotos T2) && sub_table Z.eqb (gotos T2) (gotos T1).
(* model builder outcome against the implementation's: Some (T, sr) = tables (renumbered to the model's
   state numbering) and whether a shift/reduce conflict was resolved; None = the builder raised *)
Definition build_matches (fix_first : bool) (fuel : nat) (g : grammar) (expected : option (tables * bool)) : bool :=
  match generate_tables_sr fix_first fuel g, expected with
  | Ok (T, sr), Some (T', sr') => tables_eqb T T' && Bool.eqb sr sr'
  | Diag _, None | Internal _, None => true
  | _, _ => false
  end.

(* ---------------------------------------------------------------- rendering *)
#[global] Instance ToVal_action : ToVal action := fun a =>
  match a with
  | Shift s => VT [VZ 0; VZ s]
  | Reduce p => VT [VZ 1; VZ p]
  | Accept p => VT [VZ 2; VZ p]
  end.
#[global] Instance ToVal_tables : ToVal tables := fun T =>
  VT [toval (actions T); toval (gotos T)].
