(* Model/IrText.v — hand model (tie H) of the IR text format of ppci:
     printer  = ppci/ir.py  __str__/__repr__ methods + ppci/irutils/writer.py  Writer.write
     reader   = ppci/irutils/reader.py  tokenize  +  Reader.parse_*  (+ Value.replace_by)
   Executable Gallina, NO proofs (see Proofs/C15_irtext.v).

   Layers (each a function; the reader is the composition lex ; parse_raw ; resolve)
     erase   : modul -> rmodul         names instead of object references ("value.name")
     layout  : rmodul -> list ltok     the text as tokens + white space (Writer + __str__)
     render  : list ltok -> string     the characters;   toks : list ltok -> list token
     lex     : string -> result (list token)              tokenize (regex alternation order)
     parse   : list token -> result rmodul                Reader.parse_* without name resolution
     resolve : rmodul -> result modul                     Reader scopes, find_value/define_value,
                                                          undefined_values + Value.replace_by,
                                                          the constructor checks of ppci.ir
   The real reader does the three reader steps interleaved (lazy token generator, objects are
   built while parsing).  For texts that are read successfully the result is the same; for
   texts with several faults the model may report another fault than Python does (only the
   fact that reading fails is compared for faulty texts).

   Floats.  Spec.IRSyntax carries a float constant as its binary64 bit pattern.  Python prints
   repr(x) and reads float(lexeme); both are parameters of the model:
     fr : Z -> string          bits -> repr text        (instantiated per case from CPython)
     fp : string -> option Z   lexeme -> bits
   Theorems assume fp (fr b) = Some b for the constants of the module (CPython: float(repr(x))
   == x; for NaN only the canonical quiet NaN).

   [tcfg] selects between the code AS IT IS in the baseline and the code with the proposed
   fixes (/verif/fixes/C15-*.diff):
     fx_init   Variable.__str__ prints the initial value " = ['0102', &label]" and
               Reader.parse_variable reads it back           (orig: never printed => lost)
     fx_float  tokenize accepts the exponent form 1e+30 / 1.5e-07 and -inf, parse_assignment
               accepts inf / nan                               (orig: IrParseException /
                                                                NotImplementedError / TypeError)
     fx_fwd    Binop/Unop operands that are defined later in the text get a placeholder of
               the instruction's type, and a placeholder takes the type asked for by every
               later use (orig: i32 resp. ptr, fixed at the first use => TypeError/ValueError)
     fx_ops    'rol'/'ror' (identifiers in operator position) and '~' are read
               (orig: NotImplementedError / Lex fault)
     fx_ru_generic / fx_ru_phi / fx_ru_call   Instruction.replace_use, Phi.replace_use and
               FunctionCall/ProcedureCall.replace_use of ppci/ir.py (reached through
               Reader.define_value -> Value.replace_by) handle a placeholder that fills two operand
               slots / two phi edges / two call arguments (orig: KeyError resp. only the first
               argument replaced); same switches as Model.IrJson.jcfg
   Deviations (all outside the image of the printer on well-formed modules), as in
   Model/IrJson.v: jump to a block name that is never defined => Internal (OtherI 78) (Python
   builds a dangling Block); a name clash that makes SubRoutine.make_unique_name rename a block
   or value => Internal (OtherI 77); a local definition that resolves a placeholder used in an
   earlier function => Internal (OtherI 79) (Python builds a cross-function reference). *)
From PV Require Import Lib.Py Lib.Val Lib.Json Spec.IRSyntax Model.IrJson.
From Coq Require Import String Ascii DecimalString.
Local Open Scope string_scope.
Local Open Scope list_scope.
Open Scope Z_scope.

Record tcfg := mk_tcfg { fx_init : bool; fx_float : bool; fx_fwd : bool; fx_ops : bool;
                         fx_ru_generic : bool; fx_ru_phi : bool; fx_ru_call : bool;
                         fx_copyblob : bool; fx_undef : bool; fx_volatile : bool }.
(* the baseline code; the baseline + fixes/C15-*.diff (replace_use of ppci/ir.py as in the
   baseline); and the current code = all of them (replace_use repaired by the /repo commits
   2d6a9c1, e4350a7, 283ca09, found by the C16 check) *)
(* third group of switches (fixes/C15-copyblob-reader, C15-undefined-type, C15-volatile-marker.diff):
     fx_copyblob  Reader.parse_statement reads "memcpy(dst, src, n)"      (orig: KeyError('memcpy'))
     fx_undef     ir.Undefined prints its type "i32 x = undefined" and is read back
                  (orig: "x = undefined", KeyError on the name)
     fx_volatile  volatile loads / stores print the word volatile after the mnemonic and the reader
                  takes it as the flag when another identifier follows  (orig: flag lost)
   tcfg_w2 = the code before these three repairs, tcfg_fixed = everything repaired *)
Definition tcfg_orig := mk_tcfg false false false false false false false false false false.
Definition tcfg_noru := mk_tcfg true true true true false false false false false false.
Definition tcfg_w2 := mk_tcfg true true true true true true true false false false.
Definition tcfg_fixed := mk_tcfg true true true true true true true true true true.

(* ------------------------------------------------------------------ tokens *)
Inductive token :=
  | TId (s : string) | TInt (z : Z) | TFloat (txt : string) | TStr (s : string) | TOp (s : string).
Inductive ltok := LT (t : token) | LSp | LInd (n : nat) | LNl.

Definition token_eq_dec (a b : token) : {a = b} + {a <> b}.
Proof. decide equality; try apply string_dec; apply Z.eq_dec. Defined.

Definition nl : string := String (ascii_of_nat 10) EmptyString.
Fixpoint spaces (n : nat) : string :=
  match n with O => EmptyString | S k => String " " (spaces k) end.
(* str(int) *)
Definition dec_of_Z (z : Z) : string := NilZero.string_of_int (Z.to_int z).
Definition token_text (t : token) : string :=
  match t with
  | TId s => s | TInt z => dec_of_Z z | TFloat s => s | TStr s => "'" ++ s ++ "'" | TOp s => s
  end.
Definition ltok_text (l : ltok) : string :=
  match l with LT t => token_text t | LSp => " " | LInd n => spaces n | LNl => nl end.
Definition render (l : list ltok) : string := String.concat "" (map ltok_text l).
Definition toks (l : list ltok) : list token :=
  flat_map (fun x => match x with LT t => [t] | _ => [] end) l.

(* ------------------------------------------------------------------ raw syntax (names) *)
Inductive rcst := RInt (z : Z) | RFloat (txt : string).
Inductive rinstr :=
  | RConst (t : ty) (n : string) (c : rcst)
  | RBinop (t : ty) (n a : string) (o : binop) (b : string)
  | RUnop (t : ty) (n : string) (o : unop) (a : string)
  | RCast (t : ty) (n a : string)
  | RLoad (t : ty) (n a : string) (vol : bool)
  | RStore (x a : string) (vol : bool)
  | RAlloc (t : ty) (n : string) (size align : Z)
  | RAddrOf (t : ty) (n a : string)
  | RLit (t : ty) (n hex : string)
  | RCopyBlob (d s : string) (amount : Z)
  | RPhi (t : ty) (n : string) (ins : list (string * string))
  | RUndef (t : option ty) (n : string)
  | RCallF (t : ty) (n c : string) (args : list string)
  | RCallP (c : string) (args : list string)
  | RJump (b : string)
  | RCJump (a : string) (c : cond) (b yes no : string)
  | RReturn (a : string)
  | RExit.
Record rblock := mk_rblock { rb_name : string; rb_ins : list rinstr }.
Record rfunc := mk_rfunc { rf_binding : binding; rf_ret : option ty; rf_name : string;
                           rf_params : list (ty * string); rf_blocks : list rblock }.
Inductive rinit := RBytes (hex : string) | RRef (label : string).
Record rvar := mk_rvar { rv_binding : binding; rv_name : string; rv_amount : Z; rv_align : Z;
                         rv_value : option (list rinit) }.
Inductive ritem := RExt (e : ext) | RVar (g : rvar) | RFunc (f : rfunc).
Record rmodul := mk_rmodul { rm_name : string; rm_items : list ritem }.

(* ------------------------------------------------------------------ erase: value.name *)
(* Phi.__str__ sorts the (block name, value name) pairs *)
Definition pair_leb (a b : string * string) : bool :=
  match String.compare (fst a) (fst b) with
  | Lt => true | Gt => false
  | Eq => match String.compare (snd a) (snd b) with Gt => false | _ => true end
  end.
Fixpoint insert_pair (p : string * string) (l : list (string * string)) :=
  match l with
  | [] => [p]
  | q :: r => if pair_leb p q then p :: l else q :: insert_pair p r
  end.
(* stable insertion sort (insert after equal elements would need <; pairs that compare equal
   are identical strings, so stability is not observable) *)
Definition sort_pairs (l : list (string * string)) := fold_right insert_pair [] l.

Section Erase.
Variable fr : Z -> string.
Variable c : tcfg.
Definition erase_cst (c : cst) : rcst :=
  match c with CInt z => RInt z | CFloat b => RFloat (fr b) end.
Definition erase_instr (f : func) (i : instr) : rinstr :=
  let rn := ref_name f in
  let bn := block_name f in
  match i with
  | IConst _ n t c => RConst t n (erase_cst c)
  | IBinop _ n t o a b => RBinop t n (rn a) o (rn b)
  | IUnop _ n t o a => RUnop t n o (rn a)
  | ICast _ n t a => RCast t n (rn a)
  | ILoad _ n t a vol => RLoad t n (rn a) (fx_volatile c && vol)
  | IStore x a vol => RStore (rn x) (rn a) (fx_volatile c && vol)
  | IAlloc _ n s al => RAlloc (Blob s al) n s al
  | IAddrOf _ n a => RAddrOf Ptr n (rn a)
  | ILit _ n d => RLit (Blob (len d) 1) n (hexlify d)
  | ICopyBlob d s n => RCopyBlob (rn d) (rn s) n
  | IPhi _ n t ins => RPhi t n (sort_pairs (map (fun p => (bn (fst p), rn (snd p))) ins))
  | IUndef _ n t => RUndef (if fx_undef c then Some t else None) n
  | ICallF _ n t c args => RCallF t n (rn c) (map rn args)
  | ICallP c args => RCallP (rn c) (map rn args)
  | IJump b => RJump (bn b)
  | ICJump a c b y n => RCJump (rn a) c (rn b) (bn y) (bn n)
  | IReturn a => RReturn (rn a)
  | IExit => RExit
  end.
Definition erase_block (f : func) (k : block) : rblock :=
  mk_rblock (b_name k) (map (erase_instr f) (b_ins k)).
Definition erase_func (f : func) : rfunc :=
  mk_rfunc (f_binding f) (f_ret f) (f_name f) (map (fun p => (snd p, fst p)) (f_params f))
           (map (erase_block f) (f_blocks f)).
Definition erase_init (i : init) : rinit :=
  match i with InitBytes d => RBytes (hexlify d) | InitRef _ s => RRef s end.
Definition erase_var (g : gvar) : rvar :=
  mk_rvar (g_binding g) (g_name g) (g_amount g) (g_align g)
          (if fx_init c then match g_value g with Some l => Some (map erase_init l) | None => None end
           else None).
Definition erase (m : modul) : rmodul :=
  mk_rmodul (m_name m)
    (map RExt (m_externals m) ++ map (fun g => RVar (erase_var g)) (m_vars m)
     ++ map (fun f => RFunc (erase_func f)) (m_funcs m)).
End Erase.

(* ------------------------------------------------------------------ layout: __str__ + Writer *)
Definition K (s : string) : ltok := LT (TId s).
Definition OP (s : string) : ltok := LT (TOp s).
Definition NI (z : Z) : ltok := LT (TInt z).
(* ", ".join(...) *)
Fixpoint join_comma (l : list (list ltok)) : list ltok :=
  match l with
  | [] => []
  | [x] => x
  | x :: r => x ++ [OP ","; LSp] ++ join_comma r
  end.
Definition l_ty (t : ty) : list ltok :=
  match t with
  | Blob s a => [K "blob"; OP "<"; NI s; OP ":"; NI a; OP ">"]
  | _ => [K (ty_name t)]
  end.
Definition l_binop (o : binop) : ltok :=
  match o with Rol | Ror => K (binop_name o) | _ => OP (binop_name o) end.
(* repr(float): a FLOAT lexeme, or the words inf / nan (identifiers for the lexer) *)
Definition l_cst (c : rcst) : ltok :=
  match c with
  | RInt z => NI z
  | RFloat s => if String.eqb s "inf" || String.eqb s "nan" then K s else LT (TFloat s)
  end.
Definition l_assign (t : ty) (n : string) : list ltok := l_ty t ++ [LSp; K n; LSp; OP "="; LSp].
Definition l_args (args : list string) : list ltok :=
  [OP "("] ++ join_comma (map (fun a => [K a]) args) ++ [OP ")"].
Definition l_vol (vol : bool) : list ltok := if vol then [K "volatile"; LSp] else [].
Definition l_instr (i : rinstr) : list ltok :=
  match i with
  | RConst t n c => l_assign t n ++ [l_cst c]
  | RBinop t n a o b => l_assign t n ++ [K a; LSp; l_binop o; LSp; K b]
  | RUnop t n o a => l_assign t n ++ [OP (unop_name o); LSp; K a]
  | RCast t n a => l_assign t n ++ [K "cast"; LSp; K a]
  | RLoad t n a vol => l_assign t n ++ [K "load"; LSp] ++ l_vol vol ++ [K a]
  | RStore x a vol => [K "store"; LSp] ++ l_vol vol ++ [K x; OP ","; LSp; K a]
  | RAlloc t n s al => l_assign t n ++ [K "alloc"; LSp; NI s; LSp; K "bytes"; LSp; K "aligned";
                                        LSp; K "at"; LSp; NI al]
  | RAddrOf t n a => l_assign t n ++ [OP "&"; K a]
  | RLit t n h => l_assign t n ++ [K "literal"; LSp; LT (TStr h)]
  | RCopyBlob d s n => [K "memcpy"; OP "("; K d; OP ","; LSp; K s; OP ","; LSp; NI n; OP ")"]
  | RPhi t n ins => l_assign t n ++ [K "phi"; LSp]
                    ++ join_comma (map (fun p => [K (fst p); OP ":"; LSp; K (snd p)]) ins)
  | RUndef None n => [K n; LSp; OP "="; LSp; K "undefined"]
  | RUndef (Some t) n => l_assign t n ++ [K "undefined"]
  | RCallF t n c args => l_assign t n ++ [K "call"; LSp; K c] ++ l_args args
  | RCallP c args => [K "call"; LSp; K c] ++ l_args args
  | RJump b => [K "jmp"; LSp; K b]
  | RCJump a c b y n => [K "cjmp"; LSp; K a; LSp; OP (cond_name c); LSp; K b; LSp; OP "?"; LSp; K y;
                         LSp; OP ":"; LSp; K n]
  | RReturn a => [K "return"; LSp; K a]
  | RExit => [K "exit"]
  end.
Definition l_block (k : rblock) : list ltok :=
  [LInd 2; K (rb_name k); OP ":"; LSp; OP "{"; LNl]
  ++ flat_map (fun i => [LInd 4] ++ l_instr i ++ [OP ";"; LNl]) (rb_ins k)
  ++ [LInd 2; OP "}"; LNl; LNl].
Definition l_func (f : rfunc) : list ltok :=
  [K (binding_name (rf_binding f)); LSp]
  ++ match rf_ret f with
     | Some t => [K "function"; LSp] ++ l_ty t ++ [LSp]
     | None => [K "procedure"; LSp]
     end
  ++ [K (rf_name f); OP "("]
  ++ join_comma (map (fun p => l_ty (fst p) ++ [LSp; K (snd p)]) (rf_params f))
  ++ [OP ")"; LSp; OP "{"; LNl]
  ++ flat_map l_block (rf_blocks f)
  ++ [OP "}"; LNl].
Definition l_ext (e : ext) : list ltok :=
  match e with
  | EVar n => [K "external"; LSp; K "variable"; LSp; K n]
  | EFunc n args r => [K "external"; LSp; K "function"; LSp] ++ l_ty r ++ [LSp; K n; OP "("]
                      ++ join_comma (map l_ty args) ++ [OP ")"]
  | EProc n args => [K "external"; LSp; K "procedure"; LSp; K n; OP "("]
                    ++ join_comma (map l_ty args) ++ [OP ")"]
  end.
Definition l_init (i : rinit) : list ltok :=
  match i with RBytes h => [LT (TStr h)] | RRef s => [OP "&"; K s] end.
Definition l_var (g : rvar) : list ltok :=
  [K (binding_name (rv_binding g)); LSp; K "variable"; LSp; K (rv_name g); LSp; OP "(";
   NI (rv_amount g); LSp; K "bytes"; LSp; K "aligned"; LSp; K "at"; LSp; NI (rv_align g); OP ")"]
  ++ match rv_value g with
     | None => []
     | Some l => [LSp; OP "="; LSp; OP "["] ++ join_comma (map l_init l) ++ [OP "]"]
     end.
Definition l_item (x : ritem) : list ltok :=
  [LNl] ++ match x with
           | RExt e => l_ext e ++ [OP ";"; LNl]
           | RVar g => l_var g ++ [LNl]
           | RFunc f => l_func f
           end.
Definition layout (m : rmodul) : list ltok :=
  [K "module"; LSp; K (rm_name m); OP ";"; LNl] ++ flat_map l_item (rm_items m).

(* ------------------------------------------------------------------ lex: tokenize *)
Definition is_digit (c : ascii) : bool := let n := nat_of_ascii c in (48 <=? n)%nat && (n <=? 57)%nat.
Definition is_alpha (c : ascii) : bool :=
  let n := nat_of_ascii c in ((65 <=? n) && (n <=? 90) || (97 <=? n) && (n <=? 122))%nat.
Definition is_idchar (c : ascii) : bool := is_alpha c || is_digit c || Ascii.eqb c "_".
Definition is_space (c : ascii) : bool :=
  let n := nat_of_ascii c in ((9 <=? n) && (n <=? 13) || (28 <=? n) && (n <=? 32))%nat.
Fixpoint span (p : ascii -> bool) (s : string) : string * string :=
  match s with
  | EmptyString => (EmptyString, EmptyString)
  | String c r => if p c then let '(a, b) := span p r in (String c a, b) else (EmptyString, s)
  end.
Definition digit_val (c : ascii) : Z := Z.of_nat (nat_of_ascii c) - 48.
Fixpoint digits_val (acc : Z) (s : string) : Z :=
  match s with EmptyString => acc | String c r => digits_val (10 * acc + digit_val c) r end.
(* e[-+]\d+ at the start of s: (lexeme, rest) *)
Definition lex_exponent (s : string) : option (string * string) :=
  match s with
  | String e (String sg r) =>
      if Ascii.eqb e "e" && (Ascii.eqb sg "+" || Ascii.eqb sg "-") then
        let '(d, r2) := span is_digit r in
        match d with EmptyString => None | _ => Some (String e (String sg d), r2) end
      else None
  | _ => None
  end.
(* FLOAT | INT at the start of s (after an optional sign [sg]); None when no digit follows *)
Definition with_exp (c : tcfg) (sg mant rest : string) (dflt : token * string) : token * string :=
  if fx_float c then
    match lex_exponent rest with
    | Some (e, r3) => (TFloat (sg ++ mant ++ e), r3)
    | None => dflt
    end
  else dflt.
Definition lex_number (c : tcfg) (sg : string) (s : string) : option (token * string) :=
  let '(d, r) := span is_digit s in
  match d with
  | EmptyString => None
  | _ =>
      let int_tok := (TInt (if String.eqb sg "-" then - digits_val 0 d else digits_val 0 d), r) in
      match r with
      | String dot r1 =>
          if Ascii.eqb dot "." then
            let '(d2, r2) := span is_digit r1 in
            match d2 with
            | EmptyString => Some (with_exp c sg d r int_tok)
            | _ => let m := (d ++ "." ++ d2)%string in Some (with_exp c sg m r2 (TFloat (sg ++ m), r2))
            end
          else Some (with_exp c sg d r int_tok)
      | EmptyString => Some (with_exp c sg d r int_tok)
      end
  end.
Definition other1 : list ascii :=
  [","; ":"; ";"; "-"; "?"; "+"; "*"; "%"; "["; "]"; "/"; "("; ")"]%char.
Definition other_rest : list string :=
  ["<<"; ">>"; "!="; "=="; "<="; ">="; ">"; "<"; "="; "{"; "}"; "&"; "^"; "|"].
Fixpoint strip_prefix (p s : string) : option string :=
  match p, s with
  | EmptyString, _ => Some s
  | String a p', String b s' => if Ascii.eqb a b then strip_prefix p' s' else None
  | _, _ => None
  end.
Fixpoint lex_other (l : list string) (s : string) : option (token * string) :=
  match l with
  | [] => None
  | p :: r => match strip_prefix p s with Some rest => Some (TOp p, rest) | None => lex_other r s end
  end.
Definition starts_idchar (s : string) : bool :=
  match s with String c _ => is_idchar c | EmptyString => false end.
Definition newline_char : ascii := ascii_of_nat 10.
Fixpoint lex_fuel (c : tcfg) (fuel : nat) (s : string) : result (list token) :=
  match fuel with
  | O => OutOfFuel
  | S fuel' =>
      match s with
      | EmptyString => Ok []
      | String ch r =>
          (* [other] and the default of [number] are thunks: vm_compute is call by value *)
          let other := fun _ : unit =>
            match (if existsb (Ascii.eqb ch) other1 then Some (TOp (String ch EmptyString), r)
                   else lex_other ((if fx_ops c then ["~"] else []) ++ other_rest) s) with
            | Some (t, rest) => ts <- lex_fuel c fuel' rest ;; Ok (t :: ts)
            | None => Diag 1
            end in
          let number (sg rest : string) (dflt : unit -> result (list token)) :=
            match lex_number c sg rest with
            | Some (t, rest') => ts <- lex_fuel c fuel' rest' ;; Ok (t :: ts)
            | None => dflt tt
            end in
          if Ascii.eqb ch "-" then
            match (if fx_float c then strip_prefix "inf" r else None) with
            | Some r2 => if starts_idchar r2 then number "-" r other
                         else ts <- lex_fuel c fuel' r2 ;; Ok (TFloat "-inf" :: ts)
            | None => number "-" r other
            end
          else if is_digit ch then number "" s other
          else if Ascii.eqb ch "'" then
            let '(body, r2) := span (fun x => negb (Ascii.eqb x "'") && negb (Ascii.eqb x newline_char)) r in
            match r2 with
            | String q r3 => if Ascii.eqb q "'" then ts <- lex_fuel c fuel' r3 ;; Ok (TStr body :: ts)
                             else Diag 1
            | EmptyString => Diag 1
            end
          else if is_alpha ch then
            let '(w, r2) := span is_idchar s in ts <- lex_fuel c fuel' r2 ;; Ok (TId w :: ts)
          else if is_space ch then lex_fuel c fuel' r
          else other tt
      end
  end.
Definition lex (c : tcfg) (s : string) : result (list token) := lex_fuel c (S (String.length s)) s.

(* ------------------------------------------------------------------ parse: Reader.parse_* *)
Definition perr {A} : result A := Diag 1.   (* IrParseException *)
Definition peek (ts : list token) : string :=
  match ts with
  | [] => "eof" | TId _ :: _ => "ID" | TInt _ :: _ => "INT" | TFloat _ :: _ => "FLOAT"
  | TStr _ :: _ => "STRING" | TOp s :: _ => s
  end.
Definition at_keyword (k : string) (ts : list token) : bool :=
  match ts with TId s :: _ => String.eqb s k | _ => false end.
Definition consume_op (s : string) (ts : list token) : result (list token) :=
  match ts with TOp o :: r => if String.eqb o s then Ok r else perr | _ => perr end.
Definition parse_id (ts : list token) : result (string * list token) :=
  match ts with TId s :: r => Ok (s, r) | _ => perr end.
Definition parse_integer (ts : list token) : result (Z * list token) :=
  match ts with TInt z :: r => Ok (z, r) | _ => perr end.
Definition consume_keyword (k : string) (ts : list token) : result (list token) :=
  '(s, r) <- parse_id ts ;; if String.eqb s k then Ok r else perr.
Definition peek_is (s : string) (ts : list token) : bool := String.eqb (peek ts) s.

Definition parse_type (ts : list token) : result (ty * list token) :=
  if at_keyword "blob" ts then
    ts <- consume_keyword "blob" ts ;; ts <- consume_op "<" ts ;;
    '(s, ts) <- parse_integer ts ;; ts <- consume_op ":" ts ;;
    '(a, ts) <- parse_integer ts ;; ts <- consume_op ">" ts ;;
    Ok (Blob s a, ts)
  else
    '(n, ts) <- parse_id ts ;;
    match basic_of_name n with Some t => Ok (t, ts) | None => Internal KeyError end.

(* "bytes aligned at" *)
Definition parse_baa (ts : list token) : result (list token) :=
  ts <- consume_keyword "bytes" ts ;; ts <- consume_keyword "aligned" ts ;; consume_keyword "at" ts.

Section Parse.
Variable c : tcfg.
Variable N : nat.   (* fuel for every loop: any bound >= the number of tokens *)

(* while self.peek == ",": consume(","); x = item() *)
Fixpoint comma_loop {A} (item : list token -> result (A * list token)) (fuel : nat)
         (ts : list token) : result (list A * list token) :=
  match fuel with
  | O => OutOfFuel
  | S f =>
      if peek_is "," ts then
        ts <- consume_op "," ts ;; '(x, ts) <- item ts ;;
        '(xs, ts) <- comma_loop item f ts ;; Ok (x :: xs, ts)
      else Ok ([], ts)
  end.
(* "(" [ item { "," item } ] ")"   (parse_braced_types, parse_function_arguments) *)
Definition parse_parens {A} (item : list token -> result (A * list token)) (ts : list token)
  : result (list A * list token) :=
  ts <- consume_op "(" ts ;;
  if peek_is ")" ts then ts <- consume_op ")" ts ;; Ok ([], ts)
  else '(x, ts) <- item ts ;; '(xs, ts) <- comma_loop item N ts ;;
       ts <- consume_op ")" ts ;; Ok (x :: xs, ts).

Definition parse_phi_pair (ts : list token) : result ((string * string) * list token) :=
  '(b, ts) <- parse_id ts ;; ts <- consume_op ":" ts ;; '(v, ts) <- parse_id ts ;; Ok ((b, v), ts).

(* self.peek in ir.Binop.ops *)
Definition peek_binop (ts : list token) : option binop :=
  match ts with TOp s :: _ => binop_of_name s | _ => None end.
Definition peek_rot (ts : list token) : option binop :=
  match ts with
  | TId s :: _ => if String.eqb s "rol" then Some Rol else if String.eqb s "ror" then Some Ror else None
  | _ => None
  end.

(* Reader.parse_volatile_value_ref: ['volatile'] name; the word is the marker only when another
   identifier follows (a value may itself be called volatile) *)
Definition parse_vol_ref (ts : list token) : result (bool * string * list token) :=
  '(n, ts1) <- parse_id ts ;;
  if String.eqb n "volatile" && peek_is "ID" ts1 && fx_volatile c
  then '(n2, ts2) <- parse_id ts1 ;; Ok (true, n2, ts2)
  else Ok (false, n, ts1).
Definition parse_assignment (ts : list token) : result (rinstr * list token) :=
  '(t, ts) <- parse_type ts ;;
  '(n, ts) <- parse_id ts ;;
  ts <- consume_op "=" ts ;;
  match ts with
  | TId a :: ts1 =>
      match (match peek_binop ts1 with
             | Some o => Some o
             | None => if fx_ops c && negb (mem_str a ["phi"; "alloc"; "load"; "cast"; "call"; "literal"])
                       then peek_rot ts1 else None
             end) with
      | Some o => '(b, ts2) <- parse_id (tl ts1) ;; Ok (RBinop t n a o b, ts2)
      | None =>
          if String.eqb a "phi" then
            '(p, ts2) <- parse_phi_pair ts1 ;; '(ps, ts3) <- comma_loop parse_phi_pair N ts2 ;;
            Ok (RPhi t n (p :: ps), ts3)
          else if String.eqb a "alloc" then
            '(s, ts2) <- parse_integer ts1 ;; ts3 <- parse_baa ts2 ;; '(al, ts4) <- parse_integer ts3 ;;
            Ok (RAlloc t n s al, ts4)
          else if String.eqb a "load" then '(vol, x, ts2) <- parse_vol_ref ts1 ;; Ok (RLoad t n x vol, ts2)
          else if String.eqb a "cast" then '(x, ts2) <- parse_id ts1 ;; Ok (RCast t n x, ts2)
          else if String.eqb a "call" then
            '(f, ts2) <- parse_id ts1 ;; '(args, ts3) <- parse_parens parse_id ts2 ;;
            Ok (RCallF t n f args, ts3)
          else if String.eqb a "literal" then
            match ts1 with TStr h :: ts2 => Ok (RLit t n h, ts2) | _ => perr end
          else if String.eqb a "undefined" && fx_undef c then Ok (RUndef (Some t) n, ts1)
          else if fx_float c && (String.eqb a "inf" || String.eqb a "nan") then
            Ok (RConst t n (RFloat a), ts1)
          else Internal NotImplemented
      end
  | TInt z :: ts1 => Ok (RConst t n (RInt z), ts1)
  | TFloat s :: ts1 => Ok (RConst t n (RFloat s), ts1)
  | TOp o :: ts1 =>
      if String.eqb o "&" then '(a, ts2) <- parse_id ts1 ;; Ok (RAddrOf t n a, ts2)
      else if String.eqb o "-" then '(a, ts2) <- parse_id ts1 ;; Ok (RUnop t n Neg a, ts2)
      else if fx_ops c && String.eqb o "~" then '(a, ts2) <- parse_id ts1 ;; Ok (RUnop t n Inv a, ts2)
      else Internal NotImplemented
  | _ => Internal NotImplemented
  end.

Definition parse_statement (ts : list token) : result (rinstr * list token) :=
  '(i, ts) <-
    (if at_keyword "jmp" ts then '(b, ts) <- parse_id (tl ts) ;; Ok (RJump b, ts)
     else if at_keyword "cjmp" ts then
       '(a, ts) <- parse_id (tl ts) ;;
       (* op = self.consume(self.peek)[0]: any token, its type is the condition *)
       let op := match ts with TOp s :: _ => cond_of_name s | _ => None end in
       '(b, ts) <- parse_id (tl ts) ;; ts <- consume_op "?" ts ;;
       '(y, ts) <- parse_id ts ;; ts <- consume_op ":" ts ;; '(n, ts) <- parse_id ts ;;
       match op with Some o => Ok (RCJump a o b y n, ts) | None => Internal ValueErrorI end
     else if at_keyword "return" ts then '(a, ts) <- parse_id (tl ts) ;; Ok (RReturn a, ts)
     else if at_keyword "store" ts then
       '(vol, x, ts) <- parse_vol_ref (tl ts) ;; ts <- consume_op "," ts ;; '(a, ts) <- parse_id ts ;;
       Ok (RStore x a vol, ts)
     else if at_keyword "exit" ts then Ok (RExit, tl ts)
     else if at_keyword "call" ts then
       '(f, ts) <- parse_id (tl ts) ;; '(args, ts) <- parse_parens parse_id ts ;; Ok (RCallP f args, ts)
     else if at_keyword "memcpy" ts && fx_copyblob c then
       ts <- consume_op "(" (tl ts) ;; '(d, ts) <- parse_id ts ;; ts <- consume_op "," ts ;;
       '(s, ts) <- parse_id ts ;; ts <- consume_op "," ts ;; '(n, ts) <- parse_integer ts ;;
       ts <- consume_op ")" ts ;; Ok (RCopyBlob d s n, ts)
     else parse_assignment ts) ;;
  ts <- consume_op ";" ts ;; Ok (i, ts).

(* while self.peek != "}": x = item() *)
Fixpoint until_rbrace {A} (item : list token -> result (A * list token)) (fuel : nat)
         (ts : list token) : result (list A * list token) :=
  match fuel with
  | O => OutOfFuel
  | S f =>
      if peek_is "}" ts then Ok ([], ts)
      else '(x, ts) <- item ts ;; '(xs, ts) <- until_rbrace item f ts ;; Ok (x :: xs, ts)
  end.

Definition parse_block (ts : list token) : result (rblock * list token) :=
  '(n, ts) <- parse_id ts ;; ts <- consume_op ":" ts ;; ts <- consume_op "{" ts ;;
  '(ins, ts) <- until_rbrace parse_statement N ts ;;
  ts <- consume_op "}" ts ;; Ok (mk_rblock n ins, ts).

(* while self.peek != ")": ty name; if self.peek != ",": break; consume(",") *)
Fixpoint parse_params (fuel : nat) (ts : list token) : result (list (ty * string) * list token) :=
  match fuel with
  | O => OutOfFuel
  | S f =>
      if peek_is ")" ts then Ok ([], ts)
      else '(t, ts) <- parse_type ts ;; '(n, ts) <- parse_id ts ;;
           if peek_is "," ts then
             ts <- consume_op "," ts ;; '(ps, ts) <- parse_params f ts ;; Ok ((t, n) :: ps, ts)
           else Ok ([(t, n)], ts)
  end.

Definition parse_function (b : binding) (ts : list token) : result (rfunc * list token) :=
  '(ret, name, ts) <-
    (if at_keyword "function" ts then
       '(t, ts) <- parse_type (tl ts) ;; '(n, ts) <- parse_id ts ;; Ok (Some t, n, ts)
     else ts <- consume_keyword "procedure" ts ;; '(n, ts) <- parse_id ts ;; Ok (None, n, ts)) ;;
  ts <- consume_op "(" ts ;;
  '(ps, ts) <- parse_params N ts ;;
  ts <- consume_op ")" ts ;; ts <- consume_op "{" ts ;;
  '(bl, ts) <- until_rbrace parse_block N ts ;;
  ts <- consume_op "}" ts ;;
  Ok (mk_rfunc b ret name ps bl, ts).

Definition parse_init (ts : list token) : result (rinit * list token) :=
  match ts with
  | TStr h :: r => Ok (RBytes h, r)
  | _ => ts <- consume_op "&" ts ;; '(n, ts) <- parse_id ts ;; Ok (RRef n, ts)
  end.
Definition parse_variable (b : binding) (ts : list token) : result (rvar * list token) :=
  ts <- consume_keyword "variable" ts ;;
  '(n, ts) <- parse_id ts ;; ts <- consume_op "(" ts ;;
  '(am, ts) <- parse_integer ts ;; ts <- parse_baa ts ;; '(al, ts) <- parse_integer ts ;;
  ts <- consume_op ")" ts ;;
  if fx_init c && peek_is "=" ts then
    ts <- consume_op "=" ts ;; ts <- consume_op "[" ts ;;
    if peek_is "]" ts then ts <- consume_op "]" ts ;; Ok (mk_rvar b n am al (Some []), ts)
    else '(x, ts) <- parse_init ts ;; '(xs, ts) <- comma_loop parse_init N ts ;;
         ts <- consume_op "]" ts ;; Ok (mk_rvar b n am al (Some (x :: xs)), ts)
  else Ok (mk_rvar b n am al None, ts).

Definition parse_declaration (ts : list token) : result (ritem * list token) :=
  '(b, ts) <- (if at_keyword "local" ts then Ok (BLocal, tl ts)
               else ts <- consume_keyword "global" ts ;; Ok (BGlobal, ts)) ;;
  if at_keyword "variable" ts then '(g, ts) <- parse_variable b ts ;; Ok (RVar g, ts)
  else if at_keyword "function" ts || at_keyword "procedure" ts then
    '(f, ts) <- parse_function b ts ;; Ok (RFunc f, ts)
  else perr.

Definition parse_external (ts : list token) : result (ritem * list token) :=
  ts <- consume_keyword "external" ts ;;
  '(e, ts) <-
    (if at_keyword "function" ts then
       '(t, ts) <- parse_type (tl ts) ;; '(n, ts) <- parse_id ts ;;
       '(args, ts) <- parse_parens parse_type ts ;; Ok (EFunc n args t, ts)
     else if at_keyword "procedure" ts then
       '(n, ts) <- parse_id (tl ts) ;; '(args, ts) <- parse_parens parse_type ts ;; Ok (EProc n args, ts)
     else if at_keyword "variable" ts then '(n, ts) <- parse_id (tl ts) ;; Ok (EVar n, ts)
     else Internal NotImplemented) ;;
  ts <- consume_op ";" ts ;; Ok (RExt e, ts).

Fixpoint parse_items (fuel : nat) (ts : list token) : result (list ritem) :=
  match fuel with
  | O => OutOfFuel
  | S f =>
      match ts with
      | [] => Ok []
      | _ => '(x, ts) <- (if at_keyword "external" ts then parse_external ts else parse_declaration ts) ;;
             xs <- parse_items f ts ;; Ok (x :: xs)
      end
  end.
Definition parse_module (ts : list token) : result rmodul :=
  ts <- consume_keyword "module" ts ;; '(n, ts) <- parse_id ts ;; ts <- consume_op ";" ts ;;
  items <- parse_items N ts ;; Ok (mk_rmodul n items).
End Parse.
Definition parse (c : tcfg) (ts : list token) : result rmodul := parse_module c (S (List.length ts)) ts.

(* ------------------------------------------------------------------ resolve: scopes, objects *)
(* Python objects over the id-based syntax, as in Model/IrJson.v: a defined value = its vref +
   type; the placeholder ir.Undefined(name, ty) kept in Reader.undefined_values = [Unres name]
   (at most one per name at a time); a Block object = its name (Reader.block_map of the function
   scope), its bid = position of its definition in the function. *)
Record tst := mk_tst {
  ts_glob : vmap;                  (* scopes[0].value_map: externals, variables, subroutines *)
  ts_loc : vmap;                   (* scopes[1].value_map: parameters and instructions *)
  ts_pend : list (string * ty);    (* undefined_values: name -> type of the placeholder *)
  ts_next : positive;              (* next vid of the current subroutine *)
  ts_names : list string;          (* SubRoutine.defined_names of the current subroutine *)
  ts_funcs : list func;            (* subroutines already added to the module *)
  ts_blocks : list block;          (* blocks already completed in the current subroutine *)
  ts_ins : list instr }.           (* instructions already added to the current block *)
Definition tst0 := mk_tst [] [] [] 1 [] [] [] [].

Fixpoint pset (s : string) (t : ty) (l : list (string * ty)) : list (string * ty) :=
  match l with [] => [] | (k, v) :: r => if String.eqb s k then (k, t) :: r else (k, v) :: pset s t r end.

(* Reader.find_value(name, ty) *)
Definition find_value (c : tcfg) (name : string) (dty : ty) (st : tst) : (vref * ty) * tst :=
  match vlookup name (ts_loc st) with
  | Some x => (x, st)
  | None =>
      match vlookup name (ts_glob st) with
      | Some x => (x, st)
      | None =>
          match plookup name (ts_pend st) with
          | Some t =>
              if fx_fwd c then
                ((Unres name, dty), mk_tst (ts_glob st) (ts_loc st) (pset name dty (ts_pend st)) (ts_next st)
                                           (ts_names st) (ts_funcs st) (ts_blocks st) (ts_ins st))
              else ((Unres name, t), st)
          | None => ((Unres name, dty),
                     mk_tst (ts_glob st) (ts_loc st) ((name, dty) :: ts_pend st) (ts_next st)
                            (ts_names st) (ts_funcs st) (ts_blocks st) (ts_ins st))
          end
      end
  end.

(* use.replace_use(old, new) for one user (same as Model.IrJson.patch_instr, own switches) *)
Definition tpatch_instr (c : tcfg) (name : string) (new : vref) (i : instr) : result instr :=
  let call := fun (cl : vref) (args : list vref) (mk : vref -> list vref -> instr) =>
    if fx_ru_call c then Ok (mk (sub1 name new cl) (map (sub1 name new) args))
    else if is_old name cl
    then (if existsb (is_old name) args then Internal KeyError else Ok (mk new args))
    else Ok (mk cl (replace_first name new args)) in
  match i with
  | ICallF v n t cl args => call cl args (ICallF v n t)
  | ICallP cl args => call cl args ICallP
  | IPhi _ _ _ _ =>
      if negb (fx_ru_phi c) && Nat.leb 2 (count_old name (instr_uses i)) then Internal KeyError
      else Ok (map_refs (sub1 name new) i)
  | _ => if negb (fx_ru_generic c) && Nat.leb 2 (count_old name (instr_uses i)) then Internal KeyError
         else Ok (map_refs (sub1 name new) i)
  end.
Definition tpatch_block (c : tcfg) (name : string) (new : vref) (k : block) : result block :=
  ins <- mapM (tpatch_instr c name new) (b_ins k) ;; Ok (mk_block (b_id k) (b_name k) ins).
Definition tpatch_func (c : tcfg) (name : string) (new : vref) (f : func) : result func :=
  bl <- mapM (tpatch_block c name new) (f_blocks f) ;;
  Ok (mk_func (f_name f) (f_binding f) (f_ret f) (f_params f) bl).

Definition uses_old (name : string) (i : instr) : bool := existsb (is_old name) (instr_uses i).
Definition func_uses_old (name : string) (f : func) : bool := existsb (uses_old name) (func_instrs f).

(* Reader.define_value(value): [r] = the new object, [local] = which scope is on top,
   [self] = the instruction being defined (built, not yet in its block) *)
Definition define_value (c : tcfg) (name : string) (r : vref) (t : ty) (local : bool) (self : option instr)
           (st : tst) : result (option instr * tst) :=
  '(self1, st1) <-
    match plookup name (ts_pend st) with
    | None => Ok (self, st)
    | Some _ =>
        _ <- check (negb (match r with Loc _ | Param _ => existsb (func_uses_old name) (ts_funcs st)
                                | _ => false end)) (OtherI 79) ;;
        fs <- mapM (tpatch_func c name r) (ts_funcs st) ;;
        bs <- mapM (tpatch_block c name r) (ts_blocks st) ;;
        ins <- mapM (tpatch_instr c name r) (ts_ins st) ;;
        s1 <- match self with
              | None => Ok None
              | Some i => i' <- tpatch_instr c name r i ;; Ok (Some i')
              end ;;
        Ok (s1, mk_tst (ts_glob st) (ts_loc st) (premove name (ts_pend st)) (ts_next st)
                       (ts_names st) fs bs ins)
    end ;;
  if local
  then Ok (self1, mk_tst (ts_glob st1) ((name, (r, t)) :: ts_loc st1) (ts_pend st1) (ts_next st1)
                         (ts_names st1) (ts_funcs st1) (ts_blocks st1) (ts_ins st1))
  else Ok (self1, mk_tst ((name, (r, t)) :: ts_glob st1) (ts_loc st1) (ts_pend st1) (ts_next st1)
                         (ts_names st1) (ts_funcs st1) (ts_blocks st1) (ts_ins st1)).

(* block.add_instruction (+ SubRoutine.make_unique_name for values) *)
Definition add_ins (i : instr) (st : tst) : result tst :=
  _ <- check (negb (match List.rev (ts_ins st) with x :: _ => is_terminator x | [] => false end))
             AssertionError ;;
  match instr_def i with
  | Some d =>
      _ <- check (negb (mem_str (def_name d) (ts_names st))) (OtherI 77) ;;
      Ok (mk_tst (ts_glob st) (ts_loc st) (ts_pend st) (Pos.succ (ts_next st))
                 (ts_names st ++ [def_name d]) (ts_funcs st) (ts_blocks st) (ts_ins st ++ [i]))
  | None =>
      Ok (mk_tst (ts_glob st) (ts_loc st) (ts_pend st) (ts_next st) (ts_names st) (ts_funcs st)
                 (ts_blocks st) (ts_ins st ++ [i]))
  end.
(* parse_statement: ins = parse_assignment(); define_value(ins); ...; block.add_instruction(ins) *)
Definition finish_val (c : tcfg) (i : instr) (st : tst) : result tst :=
  match instr_def i with
  | None => Internal AssertionError
  | Some (v, n, t) =>
      '(self, st1) <- define_value c n (Loc v) t true (Some i) st ;;
      match self with Some i' => add_ins i' st1 | None => Internal AssertionError end
  end.

Section Resolve.
Variable c : tcfg.
Variable fp : string -> option Z.
Variable bmap : list (string * bid).   (* blocks of the current function *)

Definition block_ref (n : string) : result bid :=
  match blookup n bmap with Some b => Ok b | None => Internal (OtherI 78) end.
Fixpoint find_args (l : list string) (st : tst) : list vref * tst :=
  match l with
  | [] => ([], st)
  | n :: r => let '((a, _), st1) := find_value c n Ptr st in
              let '(rest, st2) := find_args r st1 in (a :: rest, st2)
  end.
Fixpoint phi_inputs (t : ty) (l : list (string * string)) (acc : list (bid * vref)) (st : tst)
  : result (list (bid * vref) * tst) :=
  match l with
  | [] => Ok (acc, st)
  | (bn, vn) :: r =>
      b <- block_ref bn ;;
      let '((a, ta), st1) := find_value c vn t st in
      _ <- check (ty_eqb ta t) ValueErrorI ;;
      let acc' := if mem_pos b (map fst acc)
                  then map (fun p => if Pos.eqb (fst p) b then (b, a) else p) acc
                  else acc ++ [(b, a)] in
      phi_inputs t r acc' st1
  end.

Definition resolve_instr (i : rinstr) (st : tst) : result tst :=
  let v := ts_next st in
  match i with
  | RConst t n k =>
      k' <- match k with
            | RInt z => Ok (CInt z)
            | RFloat s => match fp s with Some b => Ok (CFloat b) | None => Internal ValueErrorI end
            end ;;
      finish_val c (IConst v n t k') st
  | RBinop t n a o b =>
      let d := if fx_fwd c then t else I32 in
      let '((a', ta), st1) := find_value c a d st in
      let '((b', tb), st2) := find_value c b d st1 in
      _ <- check (ty_eqb ta t) TypeError ;; _ <- check (ty_eqb tb t) TypeError ;;
      finish_val c (IBinop v n t o a' b') st2
  | RUnop t n o a =>
      let '((a', ta), st1) := find_value c a (if fx_fwd c then t else Ptr) st in
      _ <- check (ty_eqb ta t) TypeError ;;
      finish_val c (IUnop v n t o a') st1
  | RCast t n a =>
      let '((a', _), st1) := find_value c a Ptr st in finish_val c (ICast v n t a') st1
  | RLoad t n a vol =>
      let '((a', ta), st1) := find_value c a Ptr st in
      _ <- check (ty_eqb ta Ptr) AssertionError ;;
      _ <- check (negb (ty_is_blob t)) ValueErrorI ;;
      finish_val c (ILoad v n t a' vol) st1
  | RStore x a vol =>
      let '((x', _), st1) := find_value c x Ptr st in
      let '((a', ta), st2) := find_value c a Ptr st1 in
      _ <- check (ty_eqb ta Ptr) TypeError ;;
      add_ins (IStore x' a' vol) st2
  | RAlloc _ n s al =>
      _ <- check (negb (s =? 0)) ValueErrorI ;;
      finish_val c (IAlloc v n s al) st
  | RAddrOf t n a =>
      let '((a', ta), st1) := find_value c a (Blob 1 1) st in
      _ <- check (ty_is_blob ta) TypeError ;;
      _ <- check (ty_eqb t Ptr) AssertionError ;;
      finish_val c (IAddrOf v n a') st1
  | RLit _ n h =>
      match unhexlify h with
      | Ok d => finish_val c (ILit v n d) st
      | _ => Internal ValueErrorI
      end
  | RPhi t n ins =>
      '(l, st1) <- phi_inputs t ins [] st ;;
      finish_val c (IPhi v n t l) st1
  | RCallF t n f args =>
      let '((f', tf), st1) := find_value c f Ptr st in
      let '(args', st2) := find_args args st1 in
      _ <- check (ty_eqb tf Ptr) ValueErrorI ;;
      finish_val c (ICallF v n t f' args') st2
  | RCallP f args =>
      let '((f', tf), st1) := find_value c f Ptr st in
      let '(args', st2) := find_args args st1 in
      _ <- check (ty_eqb tf Ptr) ValueErrorI ;;
      add_ins (ICallP f' args') st2
  | RJump b => b' <- block_ref b ;; add_ins (IJump b') st
  | RCJump a o b y n =>
      let '((a', _), st1) := find_value c a Ptr st in
      let '((b', _), st2) := find_value c b Ptr st1 in
      y' <- block_ref y ;; n' <- block_ref n ;;
      add_ins (ICJump a' o b' y' n') st2
  | RReturn a =>
      let '((a', _), st1) := find_value c a Ptr st in add_ins (IReturn a') st1
  | RExit => add_ins IExit st
  | RCopyBlob d s n =>
      let '((d', _), st1) := find_value c d Ptr st in
      let '((s', _), st2) := find_value c s Ptr st1 in
      add_ins (ICopyBlob d' s' n) st2
  | RUndef (Some t) n => finish_val c (IUndef v n t) st
  | RUndef None _ => Internal NotImplemented   (* never produced by [parse] *)
  end.
Fixpoint resolve_instrs (l : list rinstr) (st : tst) : result tst :=
  match l with [] => Ok st | i :: r => st1 <- resolve_instr i st ;; resolve_instrs r st1 end.
End Resolve.

Fixpoint number_names (p : positive) (l : list string) : list (string * bid) :=
  match l with [] => [] | n :: r => (n, p) :: number_names (Pos.succ p) r end.

Section ResolveM.
Variable c : tcfg.
Variable fp : string -> option Z.

(* parse_block: function.add_block(block) (make_unique_name), then the statements *)
Definition resolve_block (bmap : list (string * bid)) (k : rblock) (st : tst) : result tst :=
  _ <- check (negb (mem_str (rb_name k) (map b_name (ts_blocks st)))) AssertionError ;;
  _ <- check (negb (mem_str (rb_name k) (ts_names st))) (OtherI 77) ;;
  b <- match blookup (rb_name k) bmap with Some b => Ok b | None => Internal (OtherI 78) end ;;
  let st0 := mk_tst (ts_glob st) (ts_loc st) (ts_pend st) (ts_next st) (ts_names st ++ [rb_name k])
                    (ts_funcs st) (ts_blocks st) [] in
  st1 <- resolve_instrs c fp bmap (rb_ins k) st0 ;;
  Ok (mk_tst (ts_glob st1) (ts_loc st1) (ts_pend st1) (ts_next st1) (ts_names st1) (ts_funcs st1)
             (ts_blocks st1 ++ [mk_block b (rb_name k) (ts_ins st1)]) []).
Fixpoint resolve_blocks (bmap : list (string * bid)) (l : list rblock) (st : tst) : result tst :=
  match l with [] => Ok st | k :: r => st1 <- resolve_block bmap k st ;; resolve_blocks bmap r st1 end.
Fixpoint define_params (l : list (ty * string)) (k : nat) (st : tst) : result tst :=
  match l with
  | [] => Ok st
  | (t, n) :: r => '(_, st1) <- define_value c n (Param k) t true None st ;; define_params r (S k) st1
  end.
Definition resolve_func (f : rfunc) (st : tst) : result tst :=
  '(_, st1) <- define_value c (rf_name f) (Glob (rf_name f)) Ptr false None st ;;
  let st2 := mk_tst (ts_glob st1) [] (ts_pend st1) 1 [] (ts_funcs st1) [] [] in
  st3 <- define_params (rf_params f) O st2 ;;
  let bmap := number_names 1 (map rb_name (rf_blocks f)) in
  st4 <- resolve_blocks bmap (rf_blocks f) st3 ;;
  let fn := mk_func (rf_name f) (rf_binding f) (rf_ret f)
                    (map (fun p => (snd p, fst p)) (rf_params f)) (ts_blocks st4) in
  Ok (mk_tst (ts_glob st4) [] (ts_pend st4) 1 [] (ts_funcs st4 ++ [fn]) [] []).

Definition resolve_init (i : rinit) : result init :=
  match i with
  | RBytes h => match unhexlify h with Ok d => Ok (InitBytes d) | _ => Internal ValueErrorI end
  | RRef s => Ok (InitRef Ptr s)
  end.
Definition resolve_var (g : rvar) : result gvar :=
  v <- match rv_value g with
       | None => Ok None
       | Some l => l' <- mapM resolve_init l ;; Ok (Some l')
       end ;;
  Ok (mk_gvar (rv_name g) (rv_binding g) (rv_amount g) (rv_align g) v).

Fixpoint resolve_items (l : list ritem) (exts : list ext) (vars : list gvar) (st : tst)
  : result (list ext * list gvar * tst) :=
  match l with
  | [] => Ok (exts, vars, st)
  | RExt e :: r =>
      '(_, st1) <- define_value c (ext_name e) (Glob (ext_name e)) Ptr false None st ;;
      resolve_items r (exts ++ [e]) vars st1
  | RVar g :: r =>
      g' <- resolve_var g ;;
      '(_, st1) <- define_value c (rv_name g) (Glob (rv_name g)) Ptr false None st ;;
      resolve_items r exts (vars ++ [g']) st1
  | RFunc f :: r =>
      st1 <- resolve_func f st ;; resolve_items r exts vars st1
  end.
Definition resolve (m : rmodul) : result modul :=
  '(exts, vars, st) <- resolve_items (rm_items m) [] [] tst0 ;;
  Ok (mk_modul (rm_name m) exts vars (ts_funcs st)).

(* Reader.read on the characters *)
Definition read_tokens (ts : list token) : result modul := r <- parse c ts ;; resolve r.
Definition read_text (s : string) : result modul := ts <- lex c s ;; read_tokens ts.
End ResolveM.

(* ------------------------------------------------------------------ printer on modules *)
Definition print_layout (c : tcfg) (fr : Z -> string) (m : modul) : list ltok := layout (erase fr c m).
Definition print_tokens (c : tcfg) (fr : Z -> string) (m : modul) : list token := toks (print_layout c fr m).
Definition print_text (c : tcfg) (fr : Z -> string) (m : modul) : string := render (print_layout c fr m).
(* Variable.__str__ of the fixed code refuses a reference part whose type is not ptr
   (NotImplementedError, as the code generator does); Writer output otherwise always exists *)
Definition print_ok (c : tcfg) (m : modul) : bool :=
  negb (fx_init c) ||
  forallb (fun g => match g_value g with
                    | Some l => forallb (fun i => match i with InitRef t _ => ty_eqb t Ptr | _ => true end) l
                    | None => true
                    end) (m_vars m).

(* what the text does not carry: volatile flags, the order of phi inputs (printed sorted by
   block name), and (orig) the initial values of global variables *)
Definition sort_phi (f : func) (ins : list (bid * vref)) : list (bid * vref) :=
  let key := fun p : bid * vref => (block_name f (fst p), ref_name f (snd p)) in
  fold_right (fun p acc =>
                (fix ins (l : list (bid * vref)) :=
                   match l with
                   | [] => [p]
                   | q :: r => if pair_leb (key p) (key q) then p :: l else q :: ins r
                   end) acc) [] ins.
Definition norm_instr (c : tcfg) (f : func) (i : instr) : instr :=
  match i with
  | ILoad v n t a vol => ILoad v n t a (fx_volatile c && vol)
  | IStore x a vol => IStore x a (fx_volatile c && vol)
  | IPhi v n t ins => IPhi v n t (sort_phi f ins)
  | _ => i
  end.
Definition norm_func (c : tcfg) (f : func) : func :=
  mk_func (f_name f) (f_binding f) (f_ret f) (f_params f)
          (map (fun k => mk_block (b_id k) (b_name k) (map (norm_instr c f) (b_ins k))) (f_blocks f)).
Definition norm_var (c : tcfg) (g : gvar) : gvar :=
  mk_gvar (g_name g) (g_binding g) (g_amount g) (g_align g) (if fx_init c then g_value g else None).
Definition norm (c : tcfg) (m : modul) : modul :=
  mk_modul (m_name m) (m_externals m) (map (norm_var c) (m_vars m)) (map (norm_func c) (m_funcs m)).

(* association-list instances of the float parameters (used by the check's cases) *)
Fixpoint fr_of (l : list (Z * string)) (b : Z) : string :=
  match l with [] => "?" | (k, s) :: r => if k =? b then s else fr_of r b end.
Fixpoint fp_of (l : list (Z * string)) (s : string) : option Z :=
  match l with [] => None | (k, x) :: r => if String.eqb x s then Some k else fp_of r s end.

(* ------------------------------------------------------------------ values for the check's cases *)
Definition token_val (fp : string -> option Z) (t : token) : val :=
  match t with
  | TId s => VT [VS "ID"; VS s]
  | TInt z => VT [VS "INT"; VZ z]
  | TFloat s => VT [VS "FLOAT"; match fp s with Some b => VZ b | None => VNone end]
  | TStr s => VT [VS "STRING"; VS s]
  | TOp s => VT [VS s; VS s]
  end.
(* texts travel as lists of lines (every line of the Writer ends in a newline) *)
Fixpoint lines_of (acc : string) (s : string) : list string :=
  match s with
  | EmptyString => match acc with EmptyString => [] | _ => [acc] end
  | String ch r => if Ascii.eqb ch newline_char then acc :: lines_of EmptyString r
                   else lines_of (acc ++ String ch EmptyString)%string r
  end.
Definition unlines (l : list string) : string := String.concat "" (map (fun s => (s ++ nl)%string) l).
Definition case_print (c : tcfg) (tr : list (Z * string)) (m : modul) : val :=
  if print_ok c m then VOk (VL (map VS (lines_of EmptyString (print_text c (fr_of tr) m)))) else VInternal.
Definition case_lex (c : tcfg) (tp : list (Z * string)) (l : list string) : val :=
  toval (ts <- lex c (unlines l) ;; Ok (map (token_val (fp_of tp)) ts)).
Definition case_read (c : tcfg) (tp : list (Z * string)) (l : list string) : val :=
  toval (read_text c (fp_of tp) (unlines l)).
(* printer and reader agree on the token level: lex (text) = tokens of the layout *)
Definition case_lexprint (c : tcfg) (tr : list (Z * string)) (m : modul) : bool :=
  match lex c (print_text c (fr_of tr) m) with
  | Ok ts => if list_eq_dec token_eq_dec ts (print_tokens c (fr_of tr) m) then true else false
  | _ => false
  end.
Definition okfail (v : val) : val := match v with VOk x => VOk x | _ => VInternal end.

(* ------------------------------------------------------------------ lexable layouts *)
Definition is_ident (s : string) : bool :=
  match s with
  | EmptyString => false
  | String ch r => is_alpha ch && match span is_idchar r with (_, EmptyString) => true | _ => false end
  end.

(* what may follow a word-like token (ID, INT, FLOAT): nothing, or a character that neither
   continues an identifier / number nor is a '.' *)
Definition sep_word (rest : string) : bool :=
  match rest with
  | EmptyString => true
  | String ch _ => negb (is_idchar ch) && negb (Ascii.eqb ch ".")
  end.
(* what may follow an operator token: '<' '>' '=' must not be followed by '<' '>' '=' (longest
   match <<, >>, ==, <=, >=), '-' not by a digit or a letter (-5, -inf) *)
Definition sep_op (s rest : string) : bool :=
  match rest with
  | EmptyString => true
  | String ch _ =>
      if String.eqb s "<" || String.eqb s ">" || String.eqb s "="
      then negb (Ascii.eqb "<" ch || Ascii.eqb ">" ch || Ascii.eqb "=" ch)
      else if String.eqb s "-" then negb (is_idchar ch) else true
  end.
Definition str_char_ok (x : ascii) : bool := negb (Ascii.eqb x "'") && negb (Ascii.eqb x newline_char).
Fixpoint all_chars (p : ascii -> bool) (s : string) : bool :=
  match s with EmptyString => true | String ch r => p ch && all_chars p r end.
Definition op_names (c : tcfg) : list string :=
  map (fun ch => String ch EmptyString) other1 ++ (if fx_ops c then ["~"] else []) ++ other_rest.
(* FLOAT spellings: the number lexer consumes all of it as one FLOAT, or (fixed) "-inf" *)
Definition num_ok (c : tcfg) (sg body : string) : bool :=
  match lex_number c sg body with
  | Some (TFloat x, EmptyString) => String.eqb x (sg ++ body)
  | _ => false
  end.
Definition float_ok (c : tcfg) (s : string) : bool :=
  match s with
  | String ch r => if Ascii.eqb ch "-" then (fx_float c && String.eqb r "inf") || num_ok c "-" r
                   else num_ok c "" s
  | EmptyString => false
  end.
Definition tok_ok (c : tcfg) (t : token) : bool :=
  match t with
  | TId s => is_ident s
  | TInt _ => true
  | TFloat s => float_ok c s
  | TStr s => all_chars str_char_ok s
  | TOp s => mem_str s (op_names c)
  end.
Definition sep_ok (t : token) (rest : string) : bool :=
  match t with
  | TId _ | TInt _ | TFloat _ => sep_word rest
  | TStr _ => true
  | TOp s => sep_op s rest
  end.
Fixpoint lay_ok (c : tcfg) (l : list ltok) : bool :=
  match l with
  | [] => true
  | x :: r => match x with LT t => tok_ok c t && sep_ok t (render r) | _ => true end && lay_ok c r
  end.
(* names and spellings of a raw module are lexable *)
Definition rlex_cst (c : tcfg) (k : rcst) : bool :=
  match k with
  | RInt _ => true
  | RFloat s => if String.eqb s "inf" || String.eqb s "nan" then true else float_ok c s
  end.
Definition rlex_instr (c : tcfg) (i : rinstr) : bool :=
  match i with
  | RConst _ n k => is_ident n && rlex_cst c k
  | RBinop _ n a _ b => is_ident n && is_ident a && is_ident b
  | RUnop _ n o a => is_ident n && is_ident a && match o with Inv => fx_ops c | Neg => true end
  | RCast _ n a | RLoad _ n a _ | RAddrOf _ n a => is_ident n && is_ident a
  | RStore x a _ => is_ident x && is_ident a
  | RAlloc _ n _ _ => is_ident n
  | RLit _ n h => is_ident n && all_chars str_char_ok h
  | RCopyBlob d s _ => is_ident d && is_ident s
  | RPhi _ n ins => is_ident n && forallb (fun p => is_ident (fst p) && is_ident (snd p)) ins
  | RUndef _ n => is_ident n
  | RCallF _ n f args => is_ident n && is_ident f && forallb is_ident args
  | RCallP f args => is_ident f && forallb is_ident args
  | RJump b => is_ident b
  | RCJump a _ b y n => is_ident a && is_ident b && is_ident y && is_ident n
  | RReturn a => is_ident a
  | RExit => true
  end.
Definition rlex_item (c : tcfg) (x : ritem) : bool :=
  match x with
  | RExt e => is_ident (ext_name e)
  | RVar g => is_ident (rv_name g)
              && match rv_value g with
                 | Some l => forallb (fun i => match i with RBytes h => all_chars str_char_ok h | RRef s => is_ident s end) l
                 | None => true
                 end
  | RFunc f => is_ident (rf_name f) && forallb (fun p => is_ident (snd p)) (rf_params f)
               && forallb (fun k => is_ident (rb_name k) && forallb (rlex_instr c) (rb_ins k)) (rf_blocks f)
  end.
Definition rlex_ok (c : tcfg) (m : rmodul) : bool := is_ident (rm_name m) && forallb (rlex_item c) (rm_items m).

(* ------------------------------------------------------------------ printable: what the format carries *)
(* raw level (what [parse] needs): *)
Definition kw6 : list string := ["phi"; "alloc"; "load"; "cast"; "call"; "literal"].
Definition rprintable_instr (c : tcfg) (i : rinstr) : bool :=
  match i with
  | RBinop _ _ a o _ => match o with Rol | Ror => fx_ops c && negb (mem_str a kw6) | _ => true end
  | RUnop _ _ o _ => match o with Inv => fx_ops c | Neg => true end
  | RConst _ _ (RFloat s) => if String.eqb s "inf" || String.eqb s "nan" then fx_float c else true
  | RPhi _ _ ins => negb (Nat.eqb (List.length ins) 0)
  | RCopyBlob _ _ _ => fx_copyblob c
  | RUndef (Some _) _ => fx_undef c
  | RUndef None _ => false
  | RLoad _ _ _ vol | RStore _ _ vol => negb vol || fx_volatile c
  | _ => true
  end.
Definition rprintable_item (c : tcfg) (x : ritem) : bool :=
  match x with
  | RExt _ => true
  | RVar g => match rv_value g with Some _ => fx_init c | None => true end
  | RFunc f => forallb (fun k => forallb (rprintable_instr c) (rb_ins k)) (rf_blocks f)
  end.
Definition rprintable (c : tcfg) (m : rmodul) : bool := forallb (rprintable_item c) (rm_items m).
(* bound for the loops of [parse] *)
Definition rsize_instr (i : rinstr) : nat :=
  match i with
  | RPhi _ _ ins => List.length ins
  | RCallF _ _ _ args | RCallP _ args => List.length args
  | _ => O
  end.
Definition list_max (l : list nat) : nat := fold_right Nat.max O l.
Definition rsize_item (x : ritem) : nat :=
  match x with
  | RExt (EFunc _ args _) | RExt (EProc _ args) => List.length args
  | RExt (EVar _) => O
  | RVar g => match rv_value g with Some l => List.length l | None => O end
  | RFunc f => Nat.max (Nat.max (List.length (rf_params f)) (List.length (rf_blocks f)))
                 (list_max (map (fun k => Nat.max (List.length (rb_ins k)) (list_max (map rsize_instr (rb_ins k))))
                                (rf_blocks f)))
  end.
Definition rsize (m : rmodul) : nat :=
  Nat.max (List.length (rm_items m)) (list_max (map rsize_item (rm_items m))).

(* module level: characters (names must be identifiers, float texts must be lexemes), the
   constructor checks of ppci.ir, and the exclusions that are findings *)
Definition float_lexeme (c : tcfg) (s : string) : bool :=
  if String.eqb s "inf" || String.eqb s "nan" then fx_float c
  else match lex c s with Ok [TFloat x] => String.eqb x s | _ => false end.
Definition ref_ty (f : func) (r : vref) : option ty :=
  match r with
  | Loc v => match find_def f v with Some d => Some (def_ty d) | None => None end
  | Param n => match nth_error (f_params f) n with Some p => Some (snd p) | None => None end
  | Glob _ => Some Ptr
  | Unres _ => None
  end.
Definition ref_has (f : func) (r : vref) (p : ty -> bool) : bool :=
  match ref_ty f r with Some t => p t | None => false end.
(* the checks of the ppci.ir constructors (every live ir object satisfies them) *)
Definition ctor_ok (f : func) (i : instr) : bool :=
  match i with
  | IBinop _ _ t _ a b => ref_has f a (ty_eqb t) && ref_has f b (ty_eqb t)
  | IUnop _ _ t _ a => ref_has f a (ty_eqb t)
  | ILoad _ _ t a _ => ref_has f a (ty_eqb Ptr) && negb (ty_is_blob t)
  | IStore _ a _ => ref_has f a (ty_eqb Ptr)
  | IAlloc _ _ s _ => negb (s =? 0)
  | IAddrOf _ _ a => ref_has f a ty_is_blob
  | ILit _ _ d => all_byte d
  | IPhi _ _ t ins => forallb (fun p => ref_has f (snd p) (ty_eqb t)) ins
  | ICallF _ _ _ cl _ | ICallP cl _ => ref_has f cl (ty_eqb Ptr)
  | _ => true
  end.
(* a value used before its definition in print order, in two operand slots of one instruction
   or as a repeated call argument: the replace_use defects of ppci/ir.py (known findings) *)
Fixpoint count_ref (r : vref) (l : list vref) : nat :=
  match l with [] => O | x :: t => (if vref_eqb x r then 1 else 0)%nat + count_ref r t end.
Definition fwd_double (next : positive) (i : instr) : bool :=
  existsb (fun r => match r with
                    | Loc v => negb (Pos.ltb v next) && Nat.leb 2 (count_ref r (instr_uses i))
                    | _ => false
                    end) (instr_uses i).
Fixpoint no_fwd_double (next : positive) (l : list instr) : bool :=
  match l with
  | [] => true
  | i :: r => negb (fwd_double next i)
              && no_fwd_double (match instr_def i with Some _ => Pos.succ next | None => next end) r
  end.
Definition instr_floats_ok (c : tcfg) (fr : Z -> string) (fp : string -> option Z) (i : instr) : bool :=
  match i with
  | IConst _ _ _ (CFloat b) =>
      float_lexeme c (fr b) && match fp (fr b) with Some b' => b' =? b | None => false end
  | _ => true
  end.
Definition printable_func (c : tcfg) (fr : Z -> string) (fp : string -> option Z) (f : func) : bool :=
  is_ident (f_name f) && forallb (fun p => is_ident (fst p)) (f_params f)
  && forallb (fun k => is_ident (b_name k)) (f_blocks f)
  && forallb (fun d => is_ident (def_name d)) (func_defs f)
  && forallb (fun i => ctor_ok f i && instr_floats_ok c fr fp i) (func_instrs f)
  && forallb (rprintable_instr c) (map (erase_instr fr c f) (func_instrs f))
  && ((fx_ru_generic c && fx_ru_phi c && fx_ru_call c) || no_fwd_double 1 (func_instrs f)).
Definition printable (c : tcfg) (fr : Z -> string) (fp : string -> option Z) (m : modul) : bool :=
  print_ok c m && rlex_ok c (erase fr c m) && is_ident (m_name m)
  && forallb (fun e => is_ident (ext_name e)) (m_externals m)
  && forallb (fun g => is_ident (g_name g)
                       && match g_value g with
                          | Some l => forallb (fun i => match i with InitRef _ s => is_ident s | _ => true end) l
                          | None => true
                          end) (m_vars m)
  && forallb (printable_func c fr fp) (m_funcs m).

(* the round trip, as one boolean (used by the bounded theorem and by the check) *)
Definition tokens_eqb (a b : list token) : bool := if list_eq_dec token_eq_dec a b then true else false.
Definition roundtrip_ok (c : tcfg) (tab : list (Z * string)) (m : modul) : bool :=
  let fr := fr_of tab in
  let fp := fp_of tab in
  wf_modul m && printable c fr fp m
  && match lex c (print_text c fr m) with
     | Ok ts => tokens_eqb ts (print_tokens c fr m)
     | _ => false
     end
  && match read_tokens c fp (print_tokens c fr m) with
     | Ok m' => modul_eqb m' (norm c m)
     | _ => false
     end
  && (tokens_eqb (print_tokens c fr (norm c m)) (print_tokens c fr m)
      && String.eqb (print_text c fr (norm c m)) (print_text c fr m)).

(* the hypotheses of the round-trip theorem, evaluated per generated module by the check: when the model says
   "well-formed and printable", the real print/read round trip (modulo volatile flags) must have succeeded *)
Definition case_hyp (c : tcfg) (tab : list (Z * string)) (m : modul) (real_ok : bool) : val :=
  VB (implb (wf_modul m && printable c (fr_of tab) (fp_of tab) m) real_ok).

(* mutated texts: a read that leaves a dangling reference (a placeholder nothing defined, or - Python only - a
   reference to a value of another function, which tools/irimport.py also renders as 'unres') counts as a failed
   read on both sides; this is where the deviation Internal (OtherI 79) of [define_value] is absorbed *)
Definition ref_dangling (r : vref) : bool := match r with Unres _ => true | _ => false end.
Definition modul_dangling (m : modul) : bool :=
  existsb (fun f => existsb (fun i => existsb ref_dangling (instr_uses i)) (func_instrs f)) (m_funcs m).
Definition case_read_strict (c : tcfg) (tp : list (Z * string)) (l : list string) : val :=
  match read_text c (fp_of tp) (unlines l) with
  | Ok m => if modul_dangling m then VInternal else VOk (toval m)
  | _ => VInternal
  end.
