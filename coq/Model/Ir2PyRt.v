(* Model/Ir2PyRt.v — hand model (tie H) of the STATE of the runtime object emitted by
   ppci/lang/python/ir2py.py (class IrPy): the two bytearrays heap / stack, the address dispatch
   get_memory, read_mem / write_mem and load_<ty> / store_<ty> THROUGH that dispatch, alloca, free,
   heap_top.  No proofs here.  HEAP_START is Gen.ir2py_runtime.heap_start (exported from the emitted
   text on every run); the per-bytearray helpers are Model.Ir2Py.read_mem / write_mem / load / store.
   Correspondence: tools/props/c24.py runs scripts of alloca / free / store / load / heap_top on the real
   emitted IrPy object and on run_ops below, on every run.
   NOT modelled: an address below HEAP_START whose stack-relative value is negative (Python then slices
   from the END of the bytearray): Internal (OtherI 98); the scripts use addresses >= 0 only. *)
From PV Require Import Lib.Py Gen.ir2py_runtime Model.Ir2Py.
From Coq Require Import String.
Open Scope Z_scope.

Record rt := mk_rt { heap : list Z; stack : list Z }.

(* def get_memory(self, v): if v >= self.HEAP_START: return self.heap, v - self.HEAP_START  else: return self.stack, v *)
Definition get_memory (r : rt) (v : Z) : bool * Z :=
  if heap_start <=? v then (true, v - heap_start) else (false, v).
Definition region (r : rt) (h : bool) : list Z := if h then heap r else stack r.
Definition set_region (r : rt) (h : bool) (m : list Z) : rt :=
  if h then mk_rt m (stack r) else mk_rt (heap r) m.

Definition rt_read_mem (r : rt) (address size : Z) : result (list Z) :=
  let '(h, a) := get_memory r address in
  if a <? 0 then Internal (OtherI 98) else read_mem (region r h) a size.
Definition rt_write_mem (r : rt) (address : Z) (data : list Z) : result rt :=
  let '(h, a) := get_memory r address in
  if a <? 0 then Internal (OtherI 98) else m <- write_mem (region r h) a data ;; Ok (set_region r h m).

(* load_<ty>(self, address) / store_<ty>(self, address, value) *)
Definition rt_load (ty : string) (r : rt) (address : Z) : result Z :=
  let '(h, a) := get_memory r address in
  if a <? 0 then Internal (OtherI 98) else load ty (region r h) a.
Definition rt_store (ty : string) (r : rt) (address value : Z) : result rt :=
  let '(h, a) := get_memory r address in
  if a <? 0 then Internal (OtherI 98) else m <- store ty (region r h) a value ;; Ok (set_region r h m).

(* def alloca(self, amount): ptr = len(self.stack); self.stack.extend(bytes(amount)); return (ptr, amount)
   bytes(negative) raises ValueError *)
Definition alloca (r : rt) (amount : Z) : result (rt * (Z * Z)) :=
  if amount <? 0 then Internal ValueErrorI
  else Ok (mk_rt (heap r) (stack r ++ repeat 0 (Z.to_nat amount)), (len (stack r), amount)).

(* def free(self, amount): for _ in range(amount): self.stack.pop()      (pop of an empty bytearray: IndexError) *)
Fixpoint pop_n (n : nat) (s : list Z) : result (list Z) :=
  match n with
  | O => Ok s
  | S k => match s with [] => Internal IndexError | _ :: _ => pop_n k (removelast s) end
  end.
Definition free (r : rt) (amount : Z) : result rt :=
  s <- pop_n (Z.to_nat amount) (stack r) ;; Ok (mk_rt (heap r) s).

Definition heap_top (r : rt) : Z := len (heap r) + heap_start.

(* scripts for the correspondence check: outputs (alloca results, loaded values, heap_top), final heap and stack *)
Inductive rtop := OAlloca (n : Z) | OFree (n : Z) | OStore (ty : string) (a v : Z) | OLoad (ty : string) (a : Z) | OTop.
Fixpoint run_ops (r : rt) (ops : list rtop) (out : list Z) : result (list Z * list Z * list Z) :=
  match ops with
  | [] => Ok (out, heap r, stack r)
  | OAlloca n :: k => '(r', (p, m)) <- alloca r n ;; run_ops r' k (out ++ [p; m])
  | OFree n :: k => r' <- free r n ;; run_ops r' k out
  | OStore ty a v :: k => r' <- rt_store ty r a v ;; run_ops r' k out
  | OLoad ty a :: k => v <- rt_load ty r a ;; run_ops r k (out ++ [v])
  | OTop :: k => run_ops r k (out ++ [heap_top r])
  end.
