(* Model/RegexVal.v — rendering of regex trees as [val] for the correspondence case files, and
   the fixed word lists the cases run the automata on. Definitions only. *)
From PV Require Import Lib.Py Lib.Val Spec.RegLangSpec Model.Regex.
From Coq Require Import String.
Open Scope Z_scope.

Fixpoint re_val (r : re) : val :=
  match r with
  | Eps => VT [VS "eps"]
  | Sym s => VT [VS "sym"; toval s]
  | Star a => VT [VS "star"; re_val a]
  | Cat a b => VT [VS "cat"; re_val a; re_val b]
  | Or a b => VT [VS "or"; re_val a; re_val b]
  | And a b => VT [VS "and"; re_val a; re_val b]
  end.
#[global] Instance ToVal_re : ToVal re := re_val.

(* all words over {a, b} of length exactly n, then up to n (shorter first, a before b) *)
Fixpoint words_eq (n : nat) : list (list Z) :=
  match n with
  | O => [[]]
  | S n' => flat_map (fun w => [97 :: w; 98 :: w]) (words_eq n')
  end.
Fixpoint words_upto (n : nat) : list (list Z) :=
  match n with
  | O => [[]]
  | S n' => words_upto n' ++ words_eq n
  end.

Definition run_words (fuel : nat) (r : re) (n : nat) : list (result bool) :=
  map (fun w => d <- compile fuel r ;; run d w) (words_upto n).
Definition scan_words (fuel : nat) (r : re) (n : nat) : list (result (list (list Z))) :=
  map (fun w => d <- compile fuel r ;; scan fuel d w) (words_upto n).
