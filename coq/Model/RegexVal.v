(* Model/RegexVal.v — rendering of regex trees as [val] for the correspondence case files, and
   the fixed word lists the cases run the automata on. Definitions only. *)
From PV Require Import Lib.Py Lib.Val Spec.RegLangSpec Model.Regex.
From Coq Require Import String.
Open Scope Z_scope.

Fixpoint re_val (r : re) : val :=
  match r with
  | Eps => VT [VS "eps"]
  | Sym s => VT [VS "sym"; toval s]
  | Star a => VT [VS "star"; re_val a]
  | Cat a b => VT [VS "cat"; re_val a; re_val b]
  | Or a b => VT [VS "or"; re_val a; re_val b]
  | And a b => VT [VS "and"; re_val a; re_val b]
  end.
#[global] Instance ToVal_re : ToVal re := re_val.

(* all words over {a, b} of length exactly n, then up to n (shorter first, a before b) *)
Fixpoint words_eq (n : nat) : list (list Z) :=
  match n with
  | O => [[]]
  | S n' => flat_map (fun w => [97 :: w; 98 :: w]) (words_eq n')
  end.
Fixpoint words_upto (n : nat) : list (list Z) :=
  match n with
  | O => [[]]
  | S n' => words_upto n' ++ words_eq n
  end.

(* the implementation "diverges" (RecursionError after unbounded state growth) exactly where the
   model runs out of fuel; both are rendered as Internal in the case files *)
Definition fuel_as_internal {A} (r : result A) : result A :=
  match r with OutOfFuel => Internal OverflowErr | _ => r end.
Definition compile_i (fuel : nat) (r : re) : result dfa := fuel_as_internal (compile fuel r).

Definition run_words (fuel : nat) (r : re) (n : nat) : list (result bool) :=
  match compile fuel r with
  | Ok d => map (fun w => run d w) (words_upto n)
  | _ => map (fun _ => Internal OverflowErr) (words_upto n)
  end.
Definition scan_words (fuel : nat) (r : re) (n : nat) : list (result (list (list Z))) :=
  match compile fuel r with
  | Ok d => map (fun w => scan fuel d w) (words_upto n)
  | _ => map (fun _ => Internal OverflowErr) (words_upto n)
  end.

(* ---- one function per kind of correspondence case (typeclass resolution happens once, here) *)
Definition case_regex (r : re) : val :=
  toval (nu r, nullable r, [deriv r 97; deriv r 98; deriv r 99], classes r).
Definition case_compile (fuel : nat) (r : re) : val := toval (compile_i fuel r).
Definition case_run (fuel : nat) (r : re) (n : nat) : val := toval (run_words fuel r n).
Definition case_scan (fuel : nat) (r : re) (n : nat) : val := toval (scan_words fuel r n).
Definition case_smart (x y : re) : val :=
  toval (concatenate x y, logical_or x y, logical_and x y).
Definition case_iset (la lb : list (Z * Z)) (probe : list Z) : val :=
  let a := mk_iset la in let b := mk_iset lb in
  toval (a, union a b, inter a b, diff a b, map (contains a) probe, nonempty a).
Definition case_parse (fuel : nat) (txt : list Z) : val := toval (parse fuel txt).

(* ---- switched variants: fx = true selects the repaired function (probed by the check) *)
Definition compile_sw (fx : bool) (fuel : nat) (r : re) : result dfa :=
  if fx then compile_fx fuel r else compile fuel r.
Definition scan_sw (fx : bool) := if fx then scan_fx else scan.
Definition case_compile_sw (fx : bool) (fuel : nat) (r : re) : val :=
  toval (fuel_as_internal (compile_sw fx fuel r)).
Definition case_run_sw (fx : bool) (fuel : nat) (r : re) (n : nat) : val :=
  toval (match compile_sw fx fuel r with
         | Ok d => map (fun w => run d w) (words_upto n)
         | _ => map (fun _ => Internal OverflowErr) (words_upto n)
         end).
(* scan outcomes on all short words; OutOfFuel (divergence) is rendered as Internal *)
Definition case_scan_sw (fxc fxs : bool) (fuel : nat) (r : re) (n : nat) : val :=
  toval (match compile_sw fxc fuel r with
         | Ok d => map (fun w => fuel_as_internal (scan_sw fxs fuel d w)) (words_upto n)
         | _ => map (fun _ => Internal OverflowErr) (words_upto n)
         end).
