(* Model/Relax.v — hand model (tie H) of linker relaxation, ppci/binutils/linker.py:
     Linker.do_relaxations          -> scan_relocs (candidate detection + byte patching), replace_relocs,
                                       holes_of, do_relaxations
     Linker._apply_relaxation_holes -> count_holes, shift_symbols, shift_relocs, punch (byte deletion in
                                       reverse order), shift_images (per-image address shift)
   can_shrink / do_shrink of the relocation classes are in Model/Reloc.v.  Faithful: no re-alignment of the
   shifted sections (the code's TODO), candidates judged on the un-shrunk distances.  NO proofs here.
   Checked against the real linker by tools/props/c13.py on every run. *)
From PV Require Import Lib.Py Gen.bitfun Model.Reloc.
Open Scope Z_scope.

Record image := mkImg { i_addr : Z; i_secs : list Z }.        (* section names, in image order *)
Definition hole := (Z * Z)%type.                              (* (offset, size) *)

Scheme Equality for rkind.
Definition relent_eqb (a b : relent) : bool :=
  rkind_beq (r_kind a) (r_kind b)
  && (r_sym a =? r_sym b) && (r_sec a =? r_sec b) && (r_off a =? r_off b) && (r_add a =? r_add b).

(* ---- phase 1: for relocation in self.dst.relocations: ... lst.append((hole, relocation, reloc, new_relocs)) *)
Fixpoint scan_relocs (secs : list section) (syms : list symbol) (rels : list relent)
  : result (list section * list (hole * relent * rkind)) :=
  match rels with
  | [] => Ok (secs, [])
  | r :: rest =>
      S <- get_symbol_id_value secs syms (r_sym r) ;;
      sec <- find_section secs (r_sec r) ;;
      let P := s_addr sec + r_off r in
      shrink <- can_shrink (r_kind r) S P ;;
      if shrink then
        let b := r_off r in
        let size := rk_size (r_kind r) in
        let e := b + size in
        let data := sliceZ (s_data sec) b e in
        asrt (len data =? size) (
        '(d2, newk) <- do_shrink (r_kind r) S P data ;;
        let new_size := len d2 in
        let diff := size - new_size in
        asrt ((0 <=? diff) && (diff <=? size)) (
        let new_end := b + new_size in
        asrt (new_end + new_size =? e) (
        let secs' := update_section secs (r_sec r) (splice (s_data sec) b new_end d2) in
        '(secs'', lst) <- scan_relocs secs' syms rest ;;
        Ok (secs'', ((new_end, diff), r, newk) :: lst))))
      else scan_relocs secs syms rest
  end.

(* self.dst.relocations.remove(relocation): first equal entry *)
Fixpoint remove_first (r : relent) (rels : list relent) : result (list relent) :=
  match rels with
  | [] => Internal ValueErrorI
  | x :: rest => if relent_eqb x r then Ok rest else rest' <- remove_first r rest ;; Ok (x :: rest')
  end.

(* for hole, relocation, _, new_relocs in lst: remove old, append RelocationEntry(new.name, same sym/section/offset/addend) *)
Fixpoint replace_relocs (rels : list relent) (lst : list (hole * relent * rkind)) : result (list relent) :=
  match lst with
  | [] => Ok rels
  | (_, r, newk) :: rest =>
      rels' <- remove_first r rels ;;
      replace_relocs (rels' ++ [mkRel newk (r_sym r) (r_sec r) (r_off r) (r_add r)]) rest
  end.

(* holes_map[section]: holes of one section in list order, then sorted by offset (stable insertion sort) *)
Fixpoint insert_hole (h : hole) (l : list hole) : list hole :=
  match l with
  | [] => [h]
  | x :: r => if fst h <=? fst x then h :: x :: r else x :: insert_hole h r
  end.
Fixpoint sort_holes (l : list hole) : list hole :=
  match l with [] => [] | h :: r => insert_hole h (sort_holes r) end.
Definition holes_of (lst : list (hole * relent * rkind)) (sec : Z) : list hole :=
  (* stable: equal offsets keep list order (insertion from the right, before equal elements) *)
  sort_holes (map (fun x => fst (fst x)) (filter (fun x => r_sec (snd (fst x)) =? sec) lst)).

(* ---- _apply_relaxation_holes *)
Fixpoint count_holes (offset : Z) (holes : list hole) : Z :=
  match holes with
  | [] => 0
  | (ho, hs) :: r => if ho <? offset then hs + count_holes offset r else 0      (* break *)
  end.

Definition shift_symbol (hm : Z -> list hole) (y : symbol) : symbol :=
  match y_sec y with
  | None => y
  | Some sn => mkSym (y_id y) (y_undef y) (y_sec y) (y_val y - count_holes (y_val y) (hm sn))
  end.
Definition shift_reloc (hm : Z -> list hole) (r : relent) : relent :=
  mkRel (r_kind r) (r_sym r) (r_sec r) (r_off r - count_holes (r_off r) (hm (r_sec r))) (r_add r).

(* for _ in range(hole_size): section.data.pop(hole_offset) *)
Definition delete_range (data : list Z) (h : hole) : result (list Z) :=
  let '(ho, hs) := h in
  if (hs >? 0) && negb ((0 <=? ho) && (ho + hs <=? len data)) then Internal IndexError
  else Ok (firstn (Z.to_nat ho) data ++ skipn (Z.to_nat (ho + hs)) data).
(* for hole in reversed(holes): the head of the list is deleted last *)
Fixpoint punch (data : list Z) (holes : list hole) : result (list Z) :=
  match holes with
  | [] => Ok data
  | h :: r => d <- punch data r ;; delete_range d h
  end.
Fixpoint punch_sections (hm : Z -> list hole) (secs : list section) : result (list section) :=
  match secs with
  | [] => Ok []
  | s :: r =>
      d <- punch (s_data s) (hm (s_name s)) ;;
      r' <- punch_sections hm r ;;
      Ok (mkSec (s_name s) (s_addr s) d :: r')
  end.

Fixpoint sum_holes (holes : list hole) : Z :=
  match holes with [] => 0 | (_, hs) :: r => hs + sum_holes r end.

(* for image: delta = 0; for section in image.sections: section.address -= delta; delta += changes[name].
   [addrs] maps a section name to its new address; sections that are in no image keep their address *)
Fixpoint shift_image_secs (hm : Z -> list hole) (names : list Z) (delta : Z) : list (Z * Z) :=
  match names with
  | [] => []
  | n :: r => (n, delta) :: shift_image_secs hm r (delta + sum_holes (hm n))
  end.
Fixpoint lookup_delta (tbl : list (Z * Z)) (n : Z) : Z :=
  match tbl with [] => 0 | (m, d) :: r => if m =? n then d + lookup_delta r n else lookup_delta r n end.
Definition shift_images (hm : Z -> list hole) (images : list image) (secs : list section) : list section :=
  let tbl := flat_map (fun im => shift_image_secs hm (i_secs im) 0) images in
  map (fun s => mkSec (s_name s) (s_addr s - lookup_delta tbl (s_name s)) (s_data s)) secs.

Definition apply_relaxation_holes (hm : Z -> list hole) (secs : list section) (syms : list symbol)
  (rels : list relent) (images : list image) : result (list section * list symbol * list relent) :=
  let syms' := map (shift_symbol hm) syms in
  let rels' := map (shift_reloc hm) rels in
  secs' <- punch_sections hm secs ;;
  Ok (shift_images hm images secs', syms', rels').

(* Linker.do_relaxations *)
Definition do_relaxations (secs : list section) (syms : list symbol) (rels : list relent) (images : list image)
  : result (list section * list symbol * list relent) :=
  '(secs1, lst) <- scan_relocs secs syms rels ;;
  match lst with
  | [] => Ok (secs1, syms, rels)
  | _ =>
      rels1 <- replace_relocs rels lst ;;
      apply_relaxation_holes (holes_of lst) secs1 syms rels1 images
  end.

Definition out_syms (syms : list symbol) : list (Z * option Z * Z) :=
  map (fun y => (y_id y, y_sec y, y_val y)) syms.
