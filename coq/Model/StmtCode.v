(* Model/StmtCode.v -- the shape in which the statement models of C36 (python2ir.gen_statement)
   and C37 (c3 codegenerator.gen_stmt) represent the control-flow graph a front-end emits.
   Shared by Model/Py2IrStmt.v and Model/C3Stmt.v.  Definitions only.

   A [code] is the CFG unfolded into a tree along its forward edges: a block's instructions
   followed by its terminator, with the target blocks of a jump inlined (a join block reached
   from several predecessors appears once per predecessor).  Only back edges are kept as edges:
   [KLoop l body] is a loop-head block of nesting level l, [KBack l] a jump to the head of the
   enclosing loop of level l.  SSA values that live across blocks (the phi of a Python for-loop,
   its bound, the value a C3 switch dispatches on) are registers [r]; variables live in stack
   slots [x] (Alloc + Store/Load).  Expressions are the front-end model's IR trees, evaluated by
   [evale] (which uses IRSem.eval_binop etc.).

   [runs ls env rg c v] : executing c from memory env and registers rg, inside the loops whose
   bodies are ls (outermost first), reaches a Return of value v.  Big-step, relational. *)
From PV Require Import Lib.Py Spec.IRSyntax Spec.IRSem.
Open Scope Z_scope.

Inductive rop := RReg (r : nat) | RConst (z : Z).

Section Code.
Variable exp : Type.
Variable evale : list Z -> exp -> outcome Z.
Variable wrapc : Z -> Z.          (* wrap-around of the type registers/constants live in *)

Inductive code :=
  | KRet (e : exp)                                   (* Return e *)
  | KStore (x : nat) (e : exp) (k : code)            (* Store e -> slot x *)
  | KCJ (c : cond) (a b : exp) (yes no : code)       (* CJump a c b *)
  | KLoop (l : nat) (body : code)                    (* Jump to a loop head of level l *)
  | KBack (l : nat)                                  (* Jump back to the head of loop l *)
  | KSet (r : nat) (e : exp) (k : code)              (* register r := e (value used in later blocks / phi input) *)
  | KGet (x : nat) (r : nat) (k : code)              (* Store register r -> slot x *)
  | KInc (r : nat) (k : code)                        (* r := r + 1 (wrapped), the phi's back-edge input *)
  | KRCJ (c : cond) (a b : rop) (yes no : code)      (* CJump on registers / constants *)
  | KStuck                                           (* block without terminator *)
  | KCall (x : nat) (f : nat) (args : list exp) (k : code).   (* FunctionCall f(args); Store result -> slot x *)

(* the functions of the module: number -> (number of extra local slots, code of the body) *)
Variable ftab : nat -> option (nat * code).

Fixpoint set_nth (x : nat) (v : Z) (env : list Z) : option (list Z) :=
  match x, env with
  | O, _ :: r => Some (v :: r)
  | S x', y :: r => match set_nth x' v r with Some r' => Some (y :: r') | None => None end
  | _, [] => None
  end.
Definition updr (rg : nat -> Z) (r : nat) (v : Z) : nat -> Z :=
  fun q => if Nat.eqb q r then v else rg q.
Definition ropv (rg : nat -> Z) (a : rop) : Z :=
  match a with RReg r => rg r | RConst z => wrapc z end.

Inductive runs : list code -> list Z -> (nat -> Z) -> code -> Z -> Prop :=
  | R_ret ls env rg e v : evale env e = ODone v -> runs ls env rg (KRet e) v
  | R_store ls env rg x e k v xv env' :
      evale env e = ODone xv -> set_nth x xv env = Some env' -> runs ls env' rg k v ->
      runs ls env rg (KStore x e k) v
  | R_cj ls env rg c a b yes no v xa xb :
      evale env a = ODone xa -> evale env b = ODone xb ->
      runs ls env rg (if eval_cond c xa xb then yes else no) v ->
      runs ls env rg (KCJ c a b yes no) v
  | R_loop ls env rg l body v :
      runs (firstn l ls ++ [body]) env rg body v -> runs ls env rg (KLoop l body) v
  | R_back ls env rg l body v :
      nth_error ls l = Some body -> runs (firstn (S l) ls) env rg body v ->
      runs ls env rg (KBack l) v
  | R_set ls env rg r e k v xv :
      evale env e = ODone xv -> runs ls env (updr rg r xv) k v -> runs ls env rg (KSet r e k) v
  | R_get ls env rg x r k v env' :
      set_nth x (rg r) env = Some env' -> runs ls env' rg k v -> runs ls env rg (KGet x r k) v
  | R_inc ls env rg r k v :
      runs ls env (updr rg r (wrapc (rg r + 1))) k v -> runs ls env rg (KInc r k) v
  | R_rcj ls env rg c a b yes no v :
      runs ls env rg (if eval_cond c (ropv rg a) (ropv rg b) then yes else no) v ->
      runs ls env rg (KRCJ c a b yes no) v
  (* arguments left to right, the callee runs on its own slots (parameters, then zeroed locals) and
     its own registers, outside every loop of the caller; the result is stored to slot x *)
  | R_call ls env rg x f args k v vs nloc cf rv env' :
      Forall2 (fun e a => evale env e = ODone a) args vs -> ftab f = Some (nloc, cf) ->
      runs [] (vs ++ repeat 0 nloc) (fun _ => 0) cf rv -> set_nth x rv env = Some env' ->
      runs ls env' rg k v -> runs ls env rg (KCall x f args k) v.

(* the jumps of c that are not under a loop head of c itself stay inside d enclosing loops *)
Fixpoint top_ok (d : nat) (c : code) : Prop :=
  match c with
  | KRet _ | KStuck => True
  | KStore _ _ k | KSet _ _ k | KGet _ _ k | KInc _ k | KCall _ _ _ k => top_ok d k
  | KCJ _ _ _ y n | KRCJ _ _ _ y n => top_ok d y /\ top_ok d n
  | KLoop l _ => (l <= d)%nat
  | KBack l => (l < d)%nat
  end.
End Code.

Arguments KRet {exp}. Arguments KStore {exp}. Arguments KCJ {exp}. Arguments KLoop {exp}.
Arguments KBack {exp}. Arguments KSet {exp}. Arguments KGet {exp}. Arguments KInc {exp}.
Arguments KRCJ {exp}. Arguments KStuck {exp}. Arguments KCall {exp}. Arguments top_ok {exp}.

(* rendering, for the structural comparison with the decompiled front-end output *)
From PV Require Import Lib.Val.
From Coq Require Import String.
Section Render.
Variable exp : Type.
Variable exp_val : exp -> val.
Definition rop_val (a : rop) : val :=
  match a with RReg r => VT [VS "r"; toval r] | RConst z => VT [VS "k"; VZ z] end.
Fixpoint code_val (c : code exp) : val :=
  match c with
  | KRet e => VT [VS "ret"; exp_val e]
  | KStore x e k => VT [VS "st"; toval x; exp_val e; code_val k]
  | KCJ c a b y n => VT [VS "cj"; VS (cond_name c); exp_val a; exp_val b; code_val y; code_val n]
  | KLoop l b => VT [VS "loop"; toval l; code_val b]
  | KBack l => VT [VS "back"; toval l]
  | KSet r e k => VT [VS "set"; toval r; exp_val e; code_val k]
  | KGet x r k => VT [VS "get"; toval x; toval r; code_val k]
  | KInc r k => VT [VS "inc"; toval r; code_val k]
  | KRCJ c a b y n => VT [VS "rcj"; VS (cond_name c); rop_val a; rop_val b; code_val y; code_val n]
  | KStuck => VS "stuck"
  | KCall x f args k => VT [VS "call"; toval x; toval f; VL (map exp_val args); code_val k]
  end.
End Render.
Arguments code_val {exp}.
