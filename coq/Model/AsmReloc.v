(* Model/AsmReloc.v — C09 hand model (tie H/I), no proofs: the relocation list of a label-form instruction as a
   function of (class variant, operands).  ppci/arch/encoding.py Instruction.relocations() of the exported classes
   returns a fixed list of (relocation type, offset, addend) per class, each against one of the label operands
   (Gen/Tab_syntax_<arch>.v relocs_<arch>, exported from two operand samples per class variant). *)
From PV Require Import Lib.Py Model.AsmSyntax.
From Coq Require Import String.
Open Scope Z_scope.

Definition reloc_row := (string * Z * Z * nat)%type.     (* type, offset, addend, index among the label operands *)

Fixpoint labels_of (ops : list opv) : list string :=
  match ops with
  | [] => []
  | VLabel s :: r => s :: labels_of r
  | _ :: r => labels_of r
  end.

Fixpoint find_row (i : nat) (tab : list (nat * list reloc_row)) : option (list reloc_row) :=
  match tab with
  | [] => None
  | (k, rows) :: r => if Nat.eqb k i then Some rows else find_row i r
  end.

Fixpoint inst_rows (labs : list string) (rows : list reloc_row) : option (list (string * Z * Z * string)) :=
  match rows with
  | [] => Some []
  | (t, o, a, k) :: r =>
      match nth_error labs k, inst_rows labs r with
      | Some s, Some l => Some ((t, o, a, s) :: l)
      | _, _ => None
      end
  end.

(* (type, offset, addend, symbol) list of class variant i with the given operands; None = no exported row *)
Definition relocs_of (tab : list (nat * list reloc_row)) (i : nat) (ops : list opv)
  : option (list (string * Z * Z * string)) :=
  match find_row i tab with
  | Some rows => inst_rows (labels_of ops) rows
  | None => None
  end.

Definition count_labels (rule : list atom) : nat :=
  List.length (List.filter (fun a => match a with ALab => true | _ => false end) rule).

(* every row belongs to a table entry and refers to one of its label operands; every label-form entry with a row
   has at least one relocation *)
Definition reloc_table_ok (stab : list sentry) (tab : list (nat * list reloc_row)) : bool :=
  forallb (fun p => (Nat.ltb (fst p) (List.length stab) &&
                     negb (Nat.eqb (List.length (snd p)) 0) &&
                     forallb (fun row => Nat.ltb (snd row) (count_labels (s_rule (entry_at stab (fst p))))) (snd p))%bool) tab.

From PV Require Import Lib.Val.
Definition reloc_val (r : string * Z * Z * string) : val :=
  match r with (t, o, a, s) => VT [VS t; VZ o; VZ a; VS s] end.
Definition relocs_val (o : option (list (string * Z * Z * string))) : val :=
  match o with Some l => VL (List.map reloc_val l) | None => VNone end.
