(* Model/ConstFold.v — hand model (tie H) of the object plumbing of
   ppci/opt/constantfolding.py : ConstantFolder.is_const / eval_const / on_block (one instruction).
   The integer helpers (correct, cast, rem, is_defined) and the ops table are NOT written here:
   they come from Gen.constfold (py2coq, tie T) and Gen.constfold_ops (table export, tie I).
   No proofs in this file.

   IR types: the five observations the folder makes of a type object
   (isinstance PointerTyp / .is_integer / isinstance FloatingPointTyp / .bits / .signed).
   Type identity ([a.ty is b.ty]) is equality of these observations: the built-in types
   i8..u64, f32, f64, ptr are singletons that differ in at least one of them.
   Constant values are Python ints (float constants are not modelled). *)
From PV Require Import Lib.Py Model.PyOperator Gen.constfold Gen.constfold_ops.
From Coq Require Import String.
Open Scope Z_scope.

Record typ := Typ { t_ptr : bool; t_int : bool; t_float : bool; t_bits : Z; t_signed : bool }.

Definition typ_eqb (x y : typ) : bool :=
  Bool.eqb (t_ptr x) (t_ptr y) && Bool.eqb (t_int x) (t_int y) && Bool.eqb (t_float x) (t_float y)
  && (t_bits x =? t_bits y) && Bool.eqb (t_signed x) (t_signed y).

(* what is_const / eval_const / on_block can see of an instruction *)
Inductive value :=
  | VConst (v : Z) (ty : typ)                         (* ir.Const *)
  | VBinop (a : value) (op : Z) (b : value) (ty : typ) (* ir.Binop; op = index in ir.Binop.ops *)
  | VCast (src : value) (ty : typ)                    (* ir.Cast *)
  | VOther (ty : typ).                                (* Parameter, Load, Phi, ... *)

Definition ty_of (v : value) : typ :=
  match v with VConst _ t | VBinop _ _ _ t | VCast _ t | VOther t => t end.

(* operation string -> code (index in ir.Binop.ops, exported in Gen.constfold_ops) *)
Fixpoint index_of (s : string) (l : list string) (i : Z) : Z :=
  match l with
  | [] => -1
  | x :: r => if String.eqb x s then i else index_of s r (i + 1)
  end.
Definition code_of (s : string) : Z := index_of s binop_names 0.

(* self.ops: dictionary lookup *)
Fixpoint assoc {A} (k : Z) (l : list (Z * A)) : option A :=
  match l with
  | [] => None
  | (k', x) :: r => if k' =? k then Some x else assoc k r
  end.
Definition in_ops (op : Z) : bool :=
  match assoc op ops_table with Some _ => true | None => false end.

Definition correct_ty (v : Z) (ty : typ) : result Z :=
  correct v (t_ptr ty) (t_int ty) (t_float ty) (t_bits ty) (t_signed ty).
Definition cast_ty (v : Z) (ty : typ) : result Z :=
  cast v (t_ptr ty) (t_int ty) (t_float ty) (t_bits ty) (t_signed ty).
Definition is_defined_ty (op : Z) (ty : typ) (b : Z) : bool :=
  is_defined op (t_ptr ty) (t_int ty) (t_float ty) (t_bits ty) (t_signed ty) b.

(* self.ops[op](ty, a, b)  with  ops[op] = enhance(f) = lambda ty, a, b: correct(f(a, b), ty) *)
Definition apply_op (op : Z) (ty : typ) (a b : Z) : result Z :=
  match assoc op ops_table with
  | None => Internal KeyError
  | Some f => r <- f a b ;; correct_ty r ty
  end.

(* eval_const, then is_const (which evaluates value.b to ask is_defined).
   Python's [and] is short-circuit. *)
Fixpoint eval_const (v : value) : result (Z * typ) :=
  match v with
  | VConst c ty => Ok (c, ty)
  | VBinop a op b ty =>
      ' (av, aty) <- eval_const a ;;
      ' (bv, bty) <- eval_const b ;;
      guard (typ_eqb aty bty) (Internal AssertionError) (
      guard (typ_eqb aty ty) (Internal AssertionError) (
      r <- apply_op op ty av bv ;;
      Ok (r, aty)))
  | VCast src ty =>
      ' (cv, _) <- eval_const src ;;
      n <- cast_ty cv ty ;;
      Ok (n, ty)
  | VOther _ => Internal NotImplemented
  end.

Fixpoint is_const (v : value) : result bool :=
  match v with
  | VConst _ _ => Ok true
  | VCast src _ => is_const src
  | VBinop a op b ty =>
      if negb (in_ops op) then Ok false else
      if negb (t_int ty) then Ok false else
      ca <- is_const a ;; if negb ca then Ok false else
      cb <- is_const b ;; if negb cb then Ok false else
      ' (bv, _) <- eval_const b ;;
      Ok (is_defined_ty op ty bv)
  | VOther _ => Ok false
  end.

(* what on_block does with one instruction *)
Inductive outcome :=
  | Unchanged                                  (* instruction left as it is *)
  | Folded (v : Z) (ty : typ)                  (* replaced by Const v : ty *)
  | Rechained (y : value) (op : Z) (c : Z) (cty : typ).  (* becomes  y op (Const c : cty) *)

(* condition of a chain rule for the operation string s ("+" or "-") *)
Definition chain_cond (s : string) (ins : value) : result bool :=
  match ins with
  | VBinop (VBinop y opa c1 _) op c2 ty =>
      if negb (opa =? code_of s) then Ok false else
      k1 <- is_const c1 ;; if negb k1 then Ok false else
      if negb (op =? code_of s) then Ok false else
      k2 <- is_const c2 ;; if negb k2 then Ok false else
      Ok (negb (t_float ty))
  | _ => Ok false
  end.

(* body of a chain rule: both rules build Const(cast(a.value + b.value, a.ty)) *)
Definition chain_apply (ins : value) : result outcome :=
  match ins with
  | VBinop (VBinop y _ c1 _) op c2 ty =>
      ' (av, aty) <- eval_const c1 ;;
      ' (bv, bty) <- eval_const c2 ;;
      guard (typ_eqb aty bty) (Internal AssertionError) (
      n <- cast_ty (av + bv) aty ;;
      guard (typ_eqb ty aty) (Internal AssertionError) (
      guard (typ_eqb ty (ty_of y)) (Internal AssertionError) (
      Ok (Rechained y op n aty))))
  | _ => Internal AssertionError
  end.

Definition on_instruction (ins : value) : result outcome :=
  match ins with
  | VConst _ _ => Ok Unchanged
  | _ =>
      c <- is_const ins ;;
      if c then ' (v, ty) <- eval_const ins ;; Ok (Folded v ty)
      else
        p <- chain_cond "+" ins ;;
        if p then chain_apply ins
        else
          m <- chain_cond "-" ins ;;
          if m then chain_apply ins else Ok Unchanged
  end.

(* ToVal rendering used by the correspondence cases *)
From PV Require Import Lib.Val.
Definition value_tag (v : value) : Z :=   (* identifies the surviving operand y in the cases *)
  match v with VOther _ => 1 | VConst _ _ => 2 | VBinop _ _ _ _ => 3 | VCast _ _ => 4 end.
#[global] Instance ToVal_outcome : ToVal outcome := fun o =>
  match o with
  | Unchanged => VT [VZ 0]
  | Folded v ty => VT [VZ 1; VZ v; VZ (t_bits ty); VB (t_signed ty); VB (t_int ty)]
  | Rechained y op c cty => VT [VZ 2; VZ (value_tag y); VZ op; VZ c; VZ (t_bits cty); VB (t_signed cty); VB (t_int cty)]
  end.
