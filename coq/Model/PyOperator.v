(* Model/PyOperator.v — meaning of the functions of CPython's [operator] module on ints
   (trusted reading of the CPython documentation; no proofs).  Used by table exports that
   meet [operator.xxx] objects in ppci dictionaries (C38: ConstantFolder.ops). *)
From PV Require Import Lib.Py.
Open Scope Z_scope.

Definition op_add (a b : Z) : result Z := Ok (a + b).
Definition op_sub (a b : Z) : result Z := Ok (a - b).
Definition op_mul (a b : Z) : result Z := Ok (a * b).
(* operator.mod / operator.floordiv: floor semantics, ZeroDivisionError for b = 0 *)
Definition op_mod (a b : Z) : result Z := if b =? 0 then Internal ZeroDiv else Ok (a mod b).
Definition op_floordiv (a b : Z) : result Z := if b =? 0 then Internal ZeroDiv else Ok (a / b).
(* shifts: ValueError("negative shift count") for b < 0.  (A left shift by an astronomically
   large count raises MemoryError/OverflowError in CPython; not modelled, see C38 ASSUMPTIONS.) *)
Definition op_lshift (a b : Z) : result Z := if b <? 0 then Internal ValueErrorI else Ok (Z.shiftl a b).
Definition op_rshift (a b : Z) : result Z := if b <? 0 then Internal ValueErrorI else Ok (Z.shiftr a b).
Definition op_and (a b : Z) : result Z := Ok (Z.land a b).
Definition op_or (a b : Z) : result Z := Ok (Z.lor a b).
Definition op_xor (a b : Z) : result Z := Ok (Z.lxor a b).
