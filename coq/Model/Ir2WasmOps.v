(* Model/Ir2WasmOps.v — hand model (tie H) of the operator selection of
   ppci/wasm/ppci2wasm.py:IrToWasmCompiler (binop_map, get_ty, cmp_operators/cmp_ops) and of the
   placement of initialised globals (compile / create_wasm_module).  No proofs here.

   Representation used by the generated code: an IR value of type t lives in a wasm local of type
   get_ty(t) ([container]); nothing is ever re-wrapped after an operation, so the intended
   invariant is "the local holds the IR value modulo 2^N" ([rep]). *)
From Coq Require Import ZArith List Bool String.
Import ListNotations.
From PV Require Import Spec.IRSyntax Spec.IRSem Spec.WasmNumSpec.
Open Scope Z_scope.

(* get_ty: i8 u8 i16 u16 i32 ptr -> i32 ; u32 i64 u64 -> i64 *)
Definition container (t : ty) : option width :=
  match t with
  | I8 | U8 | I16 | U16 | I32 | Ptr => Some W32
  | U32 | I64 | U64 => Some W64
  | _ => None
  end.

Definition rep (w : width) (v : Z) : Z := v mod 2 ^ bits w.

(* the selection-DAG name of the value type: ptr is I32 in WasmArchitecture *)
Definition sel_ty (t : ty) : ty := match t with Ptr => I32 | _ => t end.

(* binop_map, keyed by (operator, selection type); 64-bit bitwise ops and shifts, rol/ror are
   absent (do_tree raises NotImplementedError / KeyError: the module is rejected) *)
Definition select_binop (o : IRSyntax.binop) (t : ty) : option wop :=
  let t' := sel_ty t in
  match container t' with
  | None => None
  | Some w =>
    let sg := ty_signed t' in
    let wide := match t' with I64 | U64 => true | _ => false end in
    match o with
    | IRSyntax.Add => Some (Bin w WasmNumSpec.Add)
    | IRSyntax.Sub => Some (Bin w WasmNumSpec.Sub)
    | IRSyntax.Mul => Some (Bin w WasmNumSpec.Mul)
    | IRSyntax.Div => Some (Bin w (if sg then DivS else DivU))
    | IRSyntax.Rem => Some (Bin w (if sg then RemS else RemU))
    | IRSyntax.And => if wide then None else Some (Bin w WasmNumSpec.And)
    | IRSyntax.Or => if wide then None else Some (Bin w WasmNumSpec.Or)
    | IRSyntax.Xor => if wide then None else Some (Bin w WasmNumSpec.Xor)
    | IRSyntax.Shl => if wide then None else Some (Bin w WasmNumSpec.Shl)
    | IRSyntax.Shr => if wide then None else Some (Bin w (if sg then ShrS else ShrU))
    | IRSyntax.Rol | IRSyntax.Ror => None
    end
  end.

(* comparison opcode of a CJMP: get_ty(ty).cmp_ops[op] + _s/_u for the ordered ones *)
Definition select_cmp (c : cond) (t : ty) : option wop :=
  let t' := sel_ty t in
  match container t' with
  | None => None
  | Some w =>
    let sg := ty_signed t' in
    Some (Rel w (match c with
                 | Ceq => Eq | Cne => Ne
                 | Clt => if sg then LtS else LtU
                 | Cgt => if sg then GtS else GtU
                 | Cle => if sg then LeS else LeU
                 | Cge => if sg then GeS else GeU
                 end))
  end.

Definition binop_eqb (a b : IRSyntax.binop) : bool :=
  match a, b with
  | IRSyntax.Add, IRSyntax.Add | IRSyntax.Sub, IRSyntax.Sub | IRSyntax.Mul, IRSyntax.Mul
  | IRSyntax.Div, IRSyntax.Div | IRSyntax.Rem, IRSyntax.Rem | IRSyntax.Or, IRSyntax.Or
  | IRSyntax.And, IRSyntax.And | IRSyntax.Xor, IRSyntax.Xor | IRSyntax.Shl, IRSyntax.Shl
  | IRSyntax.Shr, IRSyntax.Shr | IRSyntax.Rol, IRSyntax.Rol | IRSyntax.Ror, IRSyntax.Ror => true
  | _, _ => false
  end.

(* rows where the selected opcode does NOT compute the IR result exactly on in-range operands:
   - sub-word types and u32 (kept in a wider local, never re-wrapped): + - * << overflow
   - ptr is unsigned in the IR but gets the signed i32 opcodes: / % >> differ from 2^31 on *)
Definition inexact (o : IRSyntax.binop) (t : ty) : bool :=
  match t with
  | I8 | I16 | U8 | U16 | U32 =>
      match o with IRSyntax.Add | IRSyntax.Sub | IRSyntax.Mul | IRSyntax.Shl => true | _ => false end
  | Ptr => match o with IRSyntax.Div | IRSyntax.Rem | IRSyntax.Shr => true | _ => false end
  | _ => false
  end.
Definition signed_on_unsigned (o : IRSyntax.binop) (t : ty) : bool :=
  match t with
  | Ptr => match o with IRSyntax.Div | IRSyntax.Rem | IRSyntax.Shr => true | _ => false end
  | _ => false
  end.

Definition in_range_ty (c : cfg) (t : ty) (v : Z) : Prop :=
  match int_shape c t with
  | Some (b, sg) => if sg then - 2 ^ (b - 1) <= v < 2 ^ (b - 1) else 0 <= v < 2 ^ b
  | None => False
  end.

Definition row := (IRSyntax.binop * ty * wop)%type.

(* the selected opcode computes exactly the IR result (on the representations) wherever the IR
   operation is defined *)
Definition exact_row (c : cfg) (r : row) : Prop :=
  let '(o, t, w) := r in
  exists cw, container t = Some cw /\
  forall a b z, in_range_ty c t a -> in_range_ty c t b ->
    eval_binop c t o a b = ODone z ->
    wop_sem w [rep cw a; rep cw b] = Some (rep cw z).

(* ... or at least a value that re-wraps to the IR result *)
Definition wrap_row (c : cfg) (r : row) : Prop :=
  let '(o, t, w) := r in
  exists cw, container t = Some cw /\
  forall a b z, in_range_ty c t a -> in_range_ty c t b ->
    eval_binop c t o a b = ODone z ->
    exists x, wop_sem w [rep cw a; rep cw b] = Some x /\ wrap_ty c t x = Some z.

Definition cmp_row (c : cfg) (cc : cond) (t : ty) (w : wop) : Prop :=
  exists cw, container t = Some cw /\
  forall a b, in_range_ty c t a -> in_range_ty c t b ->
    wop_sem w [rep cw a; rep cw b] = Some (if eval_cond cc a b then 1 else 0).

(* ---- data segments: compile() places the module's variables consecutively from STACKSIZE,
   *without* alignment, and records one (memory 0, address, bytes) triple per variable that has
   an initial value; create_wasm_module turns each triple into a Data definition with an
   i32.const offset.  Instantiation copies the segments in order into zeroed memory. *)
Record gvar := mk_gvar { gv_name : string; gv_amount : Z; gv_init : option (list Z) }.
Definition STACKSIZE : Z := 1000.

Fixpoint place (addr : Z) (vs : list gvar) : list (string * Z) * list (Z * list Z) * Z :=
  match vs with
  | [] => ([], [], addr)
  | v :: r =>
      let '(labs, segs, e) := place (addr + gv_amount v) r in
      ((gv_name v, addr) :: labs,
       match gv_init v with
       | Some d => match d with [] => segs | _ => (addr, d) :: segs end   (* `if ir_variable.value` *)
       | None => segs
       end,
       e)
  end.

(* memory image after instantiation: later segments overwrite earlier ones *)
Fixpoint seg_byte (d : list Z) (base addr : Z) : option Z :=
  match d with
  | [] => None
  | x :: r => if addr =? base then Some x else seg_byte r (base + 1) addr
  end.
Fixpoint mem_lookup (segs : list (Z * list Z)) (addr : Z) : option Z :=
  match segs with
  | [] => None
  | (base, d) :: r =>
      match mem_lookup r addr with
      | Some x => Some x
      | None => seg_byte d base addr
      end
  end.
Definition mem_image (segs : list (Z * list Z)) (addr : Z) : Z :=
  match mem_lookup segs addr with Some x => x | None => 0 end.
