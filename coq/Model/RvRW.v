(* Model/RvRW.v — C07 (tie I + a two-line H): the read/write annotations of ppci instruction classes.
   A class is (class name, its leaf operands in syntax order with the Operand(read=, write=) flags);
   [used_registers] / [defined_registers] mirror Instruction.used_registers / defined_registers of
   ppci/arch/encoding.py for an instruction without extra_uses/extra_defs: the values of the leaves
   flagged read / write, in operand order.  Call rows carry the instruction as gen_call builds it,
   with the real used_registers, defined_registers and clobbers.  No proofs. *)
From Coq Require Import ZArith List String Bool.
Import ListNotations.
Open Scope Z_scope.

Record rwop := mkRW { rw_name : string; rw_reg : bool; rw_read : bool; rw_write : bool }.
Definition rwclass := (string * list rwop)%type.

Fixpoint flagged (f : rwop -> bool) (fl : list rwop) (ops : list Z) : list Z :=
  match fl, ops with
  | o :: fl', v :: ops' => if rw_reg o && f o then v :: flagged f fl' ops' else flagged f fl' ops'
  | _, _ => []
  end.

Definition used_registers (c : rwclass) (ops : list Z) : list Z := flagged rw_read (snd c) ops.
Definition defined_registers (c : rwclass) (ops : list Z) : list Z := flagged rw_write (snd c) ops.

Record callrow := mkCall {
  c_class : string; c_ops : list Z;
  c_uses : list Z; c_defs : list Z; c_clobbers : list Z }.
