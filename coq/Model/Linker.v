(* Model/Linker.v — hand model (tie H) of the section-merging and layout part of the ppci linker.
   Mirrors, function by function,
     /repo/ppci/binutils/linker.py   link, Linker.link, merge_objects, inject_object,
                                     merge_global_symbol, inject_symbol, layout_sections,
                                     check_undefined_symbols
     /repo/ppci/binutils/objectfile.py  ObjectFile.get_section/add_symbol/has_symbol/get_symbol,
                                     Image.data, Image.size
     /repo/ppci/binutils/layout.py   Layout / Memory / Section / SectionData / SymbolDefinition / Align
   NOT modelled: do_relaxations, do_relocations (properties C13, C11), debug info, libraries.
   The model therefore describes the destination object as it is after check_undefined_symbols
   (equal to the result of link() whenever the inputs carry no relocations, and for partial links).

   Representation choices (each is faithful on every path that does not abort the link):
   * dst.section_map / symbol_map / symbols_by_id are derived from the lists: the destination's
     section names are unique (sections are only created through get_section), its symbol ids are
     the list positions (inject_symbol uses len(dst.symbols)), and symbol_map holds exactly the
     symbols with binding "global" (add_symbol raises before a second one could be mapped).
   * Image.sections holds references to Section objects; here an image holds section *names*
     which are resolved in the destination's section list when Image.data is evaluated.
   * the two `while x % alignment != 0` loops are modelled byte by byte with an internal fuel of
     |alignment| iterations, which Proofs/C12_linker.v shows to be always sufficient.
   * Diag codes: 1 "Multiple defined symbol", 2 "<name> already defined" (ObjectFile.add_symbol),
     3 "Multiple entry points defined", 4 "Memory exceeds size", 5 "Undefined references",
     6 "Section placed more than once" (only with fix_twice)  (all CompilerError). Every other exception is [Internal].
   NO proofs in this file. *)
From PV Require Import Lib.Py Lib.Val.
From Coq Require Import String.
Open Scope Z_scope.

(* ------------------------------------------------------------------ records *)
Record sect := mkSect { s_name : string; s_addr : Z; s_align : Z; s_data : list Z }.
Record sym := mkSym { y_id : Z; y_name : string; y_bind : string; y_value : option Z;
                      y_sect : option string; y_typ : string; y_size : Z }.
Record reloc := mkReloc { r_type : string; r_sym : Z; r_sect : string; r_off : Z; r_addend : Z }.
Record image := mkImage { i_name : string; i_addr : Z; i_sects : list string }.
Record obj := mkObj { o_sects : list sect; o_syms : list sym; o_relocs : list reloc;
                      o_images : list image; o_entry : option Z }.

Inductive minput :=
  | ISection (n : string) | ISectionData (n : string) | ISymDef (n : string) | IAlign (a : Z).
Record memory := mkMem { m_name : string; m_loc : Z; m_size : Z; m_inputs : list minput }.
Record layout := mkLayout { l_mems : list memory; l_entry : option string }.

(* one switch per defect for which a fix is proposed (true = fixed code):
   fix_twice: fixes/C12-1-section-placed-twice.diff   (layout_sections raises CompilerError, Diag 6,
              when a SECTION input names a section that is already part of an image)
   fix_abs:   fixes/C12-2-absolute-symbol-relink.diff (inject_object keeps defined symbols whose
              section is None unshifted instead of raising KeyError) *)
Record lcfg := mk_lcfg { fix_twice : bool; fix_abs : bool }.

Definition GLOBAL : string := "global"%string.
Definition OBJECT : string := "object"%string.
Definition is_global (b : string) : bool := String.eqb b GLOBAL.
Definition y_undefined (s : sym) : bool := match y_value s with None => true | Some _ => false end.

(* ------------------------------------------------------------------ ObjectFile helpers *)
(* Section(name): address 0, alignment 4, no data *)
Definition new_sect (n : string) : sect := mkSect n 0 4 [].

Fixpoint find_sect (n : string) (l : list sect) : option sect :=
  match l with
  | [] => None
  | s :: r => if String.eqb (s_name s) n then Some s else find_sect n r
  end.

(* store a mutated section object back (first section carrying that name) *)
Fixpoint set_sect (s' : sect) (l : list sect) : list sect :=
  match l with
  | [] => []
  | s :: r => if String.eqb (s_name s) (s_name s') then s' :: r else s :: set_sect s' r
  end.

(* ObjectFile.get_section(name, create=True) *)
Definition get_section_create (n : string) (l : list sect) : list sect * sect :=
  match find_sect n l with
  | Some s => (l, s)
  | None => (l ++ [new_sect n], new_sect n)
  end.

(* symbol_map lookup: the symbol with binding "global" and that name *)
Fixpoint find_global (n : string) (l : list sym) : option sym :=
  match l with
  | [] => None
  | s :: r => if is_global (y_bind s) && String.eqb (y_name s) n then Some s else find_global n r
  end.

(* new_symbol.value = value; new_symbol.section = section   (in-place mutation of that symbol) *)
Fixpoint define_global (n : string) (v : Z) (sc : option string) (l : list sym) : list sym :=
  match l with
  | [] => []
  | s :: r =>
      if is_global (y_bind s) && String.eqb (y_name s) n
      then mkSym (y_id s) (y_name s) (y_bind s) (Some v) sc (y_typ s) (y_size s) :: r
      else s :: define_global n v sc r
  end.

(* dict lookups; later insertions win *)
Fixpoint lookup (n : string) (l : list (string * Z)) : option Z :=
  match l with
  | [] => None
  | (k, v) :: r =>
      match lookup n r with
      | Some x => Some x
      | None => if String.eqb k n then Some v else None
      end
  end.

Fixpoint lookupZ (n : Z) (l : list (Z * Z)) : option Z :=
  match l with
  | [] => None
  | (k, v) :: r =>
      match lookupZ n r with
      | Some x => Some x
      | None => if k =? n then Some v else None
      end
  end.

Fixpoint map_result {A B} (f : A -> result B) (l : list A) : result (list B) :=
  match l with
  | [] => Ok []
  | a :: r => b <- f a ;; bs <- map_result f r ;; Ok (b :: bs)
  end.

(* ------------------------------------------------------------------ inject_object: sections *)
(* while output_section.size % input_section.alignment != 0: output_section.add_data(bytes([0])) *)
Fixpoint pad_loop (fuel : nat) (data : list Z) (a : Z) : result (list Z) :=
  if a =? 0 then Internal ZeroDiv
  else if len data mod a =? 0 then Ok data
  else match fuel with
       | O => OutOfFuel
       | S f => pad_loop f (data ++ [0]) a
       end.

Definition pad_to (data : list Z) (a : Z) : result (list Z) :=
  pad_loop (Z.to_nat (Z.abs a)) data a.

(* one iteration of `for input_section in obj.sections`; returns the recorded offset *)
Definition inject_section (secs : list sect) (inp : sect) : result (list sect * Z) :=
  let '(secs1, out) := get_section_create (s_name inp) secs in
  let al := if s_align inp >? s_align out then s_align inp else s_align out in
  data1 <- pad_to (s_data out) (s_align inp) ;;
  let off := len data1 in
  Ok (set_sect (mkSect (s_name out) (s_addr out) al (data1 ++ s_data inp)) secs1, off).

(* the recorded offsets are returned in section order; section_offsets[name] = lookup name offs *)
Fixpoint inject_sections (secs : list sect) (inps : list sect)
  : result (list sect * list (string * Z)) :=
  match inps with
  | [] => Ok (secs, [])
  | i :: r =>
      '(secs1, off) <- inject_section secs i ;;
      '(secs2, offs) <- inject_sections secs1 r ;;
      Ok (secs2, (s_name i, off) :: offs)
  end.

(* ------------------------------------------------------------------ symbols *)
(* ObjectFile.add_symbol via Linker.inject_symbol (id = len(dst.symbols)); returns the new id *)
Definition inject_symbol (syms : list sym) (name bind : string) (sc : option string)
           (value : option Z) (typ : string) (size : Z) : result (list sym * Z) :=
  match (if is_global bind then find_global name syms else None) with
  | Some _ => Diag 2
  | None => Ok (syms ++ [mkSym (len syms) name bind value sc typ size], len syms)
  end.

Definition merge_global_symbol (syms : list sym) (name : string) (sc : option string)
           (value : option Z) (typ : string) (size : Z) : result (list sym * Z) :=
  match find_global name syms with
  | Some s =>
      match value with
      | Some v =>
          match y_value s with
          | None => Ok (define_global name v sc syms, y_id s)
          | Some _ => Diag 1
          end
      | None => Ok (syms, y_id s)
      end
  | None => inject_symbol syms name GLOBAL sc value typ size
  end.

(* one iteration of `for symbol in obj.symbols` *)
Definition inject_sym (cfg : lcfg) (offs : list (string * Z)) (syms : list sym) (s : sym)
  : result (list sym * Z) :=
  vs <- match y_value s with
        | Some v =>
            match y_sect s with
            | Some sc =>
                match lookup sc offs with
                | Some off => Ok (Some (off + v), Some sc)
                | None => Internal KeyError
                end
            | None => if fix_abs cfg then Ok (Some v, None)    (* absolute symbol *)
                      else Internal KeyError             (* section_offsets[None] *)
            end
        | None => Ok (None, None)
        end ;;
  if is_global (y_bind s)
  then merge_global_symbol syms (y_name s) (snd vs) (fst vs) (y_typ s) (y_size s)
  else inject_symbol syms (y_name s) (y_bind s) (snd vs) (fst vs) (y_typ s) (y_size s).

(* returns the new ids in symbol order; symbol_id_mapping = combine (map y_id syms) newids *)
Fixpoint inject_syms (cfg : lcfg) (offs : list (string * Z)) (syms : list sym) (inps : list sym)
  : result (list sym * list Z) :=
  match inps with
  | [] => Ok (syms, [])
  | s :: r =>
      '(syms1, id) <- inject_sym cfg offs syms s ;;
      '(syms2, ids) <- inject_syms cfg offs syms1 r ;;
      Ok (syms2, id :: ids)
  end.

Definition inject_reloc (offs : list (string * Z)) (idmap : list (Z * Z)) (r : reloc)
  : result reloc :=
  match lookup (r_sect r) offs with
  | None => Internal KeyError
  | Some off =>
      match lookupZ (r_sym r) idmap with
      | None => Internal KeyError
      | Some id => Ok (mkReloc (r_type r) id (r_sect r) (off + r_off r) (r_addend r))
      end
  end.

(* what inject_object records: section_offsets (in section order) and the new symbol ids *)
Definition trace : Type := (list (string * Z) * list Z)%type.

Definition inject_object (cfg : lcfg) (d o : obj) : result (obj * trace) :=
  '(secs, offs) <- inject_sections (o_sects d) (o_sects o) ;;
  '(syms, newids) <- inject_syms cfg offs (o_syms d) (o_syms o) ;;
  let idmap := combine (map y_id (o_syms o)) newids in
  rels <- map_result (inject_reloc offs idmap) (o_relocs o) ;;
  entry <- match o_entry o with
           | None => Ok (o_entry d)
           | Some e =>
               match o_entry d with
               | None => match lookupZ e idmap with
                         | Some i => Ok (Some i)
                         | None => Internal KeyError
                         end
               | Some _ => Diag 3
               end
           end ;;
  Ok (mkObj secs syms (o_relocs d ++ rels) (o_images d) entry, (offs, newids)).

Fixpoint merge_objects (cfg : lcfg) (d : obj) (objs : list obj) : result (obj * list trace) :=
  match objs with
  | [] => Ok (d, [])
  | o :: r =>
      '(d1, t) <- inject_object cfg d o ;;
      '(d2, ts) <- merge_objects cfg d1 r ;;
      Ok (d2, t :: ts)
  end.

(* ------------------------------------------------------------------ Image.data *)
Fixpoint image_data_loop (cur : Z) (data : list Z) (sects : list sect) : result (list Z) :=
  match sects with
  | [] => Ok data
  | s :: r =>
      if s_addr s <? cur then Internal ValueErrorI        (* "sections overlap!!" *)
      else
        let data1 := if s_addr s >? cur then data ++ repeat 0 (Z.to_nat (s_addr s - cur))
                     else data in
        image_data_loop (s_addr s + len (s_data s)) (data1 ++ s_data s) r
  end.

(* the Section objects an image refers to (names always resolve: sections are never deleted) *)
Definition resolve (secs : list sect) (names : list string) : list sect :=
  flat_map (fun n => match find_sect n secs with Some s => [s] | None => [] end) names.

Definition image_data (secs : list sect) (img : image) : result (list Z) :=
  image_data_loop (i_addr img) [] (resolve secs (i_sects img)).

(* ------------------------------------------------------------------ layout_sections *)
(* while current_address % alignment != 0: current_address += 1 *)
Fixpoint align_loop (fuel : nat) (cur a : Z) : result Z :=
  if a =? 0 then Internal ZeroDiv
  else if cur mod a =? 0 then Ok cur
  else match fuel with
       | O => OutOfFuel
       | S f => align_loop f (cur + 1) a
       end.

Definition align_up (cur a : Z) : result Z := align_loop (Z.to_nat (Z.abs a)) cur a.

(* f"_${name}_" *)
Definition sd_name (n : string) : string := String.append "_$"%string (String.append n "_"%string).

Definition with_sects (d : obj) (secs : list sect) : obj :=
  mkObj secs (o_syms d) (o_relocs d) (o_images d) (o_entry d).

(* the fix's set `placed`: names of the sections that are part of an image so far
   (dst.images is empty when layout_sections starts) *)
Definition placed_so_far (d : obj) (names : list string) : list string :=
  flat_map i_sects (o_images d) ++ names.

(* one memory input; state = destination, current_address, image.sections *)
Definition layout_input (cfg : lcfg) (st : obj * Z * list string) (i : minput)
  : result (obj * Z * list string) :=
  let '(d, cur, names) := st in
  match i with
  | ISection n =>
      if fix_twice cfg && existsb (String.eqb n) (placed_so_far d names) then Diag 6 else
      let '(secs1, s) := get_section_create n (o_sects d) in
      cur1 <- align_up cur (s_align s) ;;
      Ok (with_sects d (set_sect (mkSect (s_name s) cur1 (s_align s) (s_data s)) secs1),
          cur1 + len (s_data s), names ++ [n])
  | ISectionData n =>
      match find_sect (sd_name n) (o_sects d) with
      | Some _ => Internal AssertionError
      | None =>
          match find_sect n (o_sects d) with
          | None => Internal KeyError
          | Some src =>
              Ok (with_sects d (o_sects d ++ [mkSect (sd_name n) cur 1 (s_data src)]),
                  cur + len (s_data src), names ++ [sd_name n])
          end
      end
  | ISymDef n =>
      match find_sect (sd_name n) (o_sects d) with
      | Some _ => Internal AssertionError
      | None =>
          '(syms, _) <- merge_global_symbol (o_syms d) n (Some (sd_name n)) (Some 0) OBJECT 0 ;;
          Ok (mkObj (o_sects d ++ [mkSect (sd_name n) cur 1 []]) syms (o_relocs d) (o_images d)
                    (o_entry d), cur, names ++ [sd_name n])
      end
  | IAlign a =>
      cur1 <- align_up cur a ;; Ok (d, cur1, names)
  end.

Fixpoint layout_inputs (cfg : lcfg) (st : obj * Z * list string) (l : list minput)
  : result (obj * Z * list string) :=
  match l with
  | [] => Ok st
  | i :: r => st1 <- layout_input cfg st i ;; layout_inputs cfg st1 r
  end.

Definition layout_memory (cfg : lcfg) (d : obj) (m : memory) : result obj :=
  '(d1, cur, names) <- layout_inputs cfg (d, m_loc m, []) (m_inputs m) ;;
  let img := mkImage (m_name m) (m_loc m) names in
  data <- image_data (o_sects d1) img ;;
  if len data >? m_size m then Diag 4
  else Ok (mkObj (o_sects d1) (o_syms d1) (o_relocs d1) (o_images d1 ++ [img]) (o_entry d1)).

Fixpoint layout_sections (cfg : lcfg) (d : obj) (mems : list memory) : result obj :=
  match mems with
  | [] => Ok d
  | m :: r => d1 <- layout_memory cfg d m ;; layout_sections cfg d1 r
  end.

(* ------------------------------------------------------------------ check_undefined_symbols *)
Definition undefined_global (s : sym) : bool := y_undefined s && is_global (y_bind s).

Definition check_undefined_symbols (d : obj) : result unit :=
  if existsb undefined_global (o_syms d) then Diag 5 else Ok tt.

(* ------------------------------------------------------------------ link *)
Definition empty_obj : obj := mkObj [] [] [] [] None.

Fixpoint inject_extra (syms : list sym) (extra : list (string * Z)) : result (list sym) :=
  match extra with
  | [] => Ok syms
  | (n, v) :: r =>
      '(syms1, _) <- inject_symbol syms n GLOBAL None (Some v) OBJECT 0 ;;
      inject_extra syms1 r
  end.

(* api.link(objects, layout, partial_link, entry=..., extra_symbols=...) up to and including
   check_undefined_symbols; returns the destination object and what each inject_object recorded *)
Definition link_trace (cfg : lcfg) (objs : list obj) (lay : option layout) (partial : bool)
           (entry : option string) (extra : list (string * Z)) : result (obj * list trace) :=
  match objs with
  | [] => Internal ValueErrorI
  | _ =>
      let ename := match entry with
                   | Some e => Some e
                   | None => match lay with Some l => l_entry l | None => None end
                   end in
      '(syms0, eid) <- match ename with
                       | Some e => '(sy, i) <- inject_symbol [] e GLOBAL None None OBJECT 0 ;;
                                   Ok (sy, Some i)
                       | None => Ok ([], None)
                       end ;;
      syms1 <- inject_extra syms0 extra ;;
      '(d1, ts) <- merge_objects cfg (mkObj [] syms1 [] [] eid) objs ;;
      if partial then
        match lay with
        | Some _ => Internal ValueErrorI
        | None => Ok (d1, ts)
        end
      else
        d2 <- match lay with
              | Some l => layout_sections cfg d1 (l_mems l)
              | None => Ok d1
              end ;;
        _ <- check_undefined_symbols d2 ;;
        Ok (d2, ts)
  end.

Definition link (cfg : lcfg) (objs : list obj) (lay : option layout) (partial : bool)
           (entry : option string) (extra : list (string * Z)) : result obj :=
  r <- link_trace cfg objs lay partial entry extra ;; Ok (fst r).

(* ------------------------------------------------------------------ rendering for the harness *)
#[global] Instance ToVal_sect : ToVal sect :=
  fun s => VT [VS (s_name s); VZ (s_addr s); VZ (s_align s); toval (s_data s)].
#[global] Instance ToVal_sym : ToVal sym :=
  fun s => VT [VZ (y_id s); VS (y_name s); VS (y_bind s); toval (y_value s); toval (y_sect s);
               VS (y_typ s); VZ (y_size s)].
#[global] Instance ToVal_reloc : ToVal reloc :=
  fun r => VT [VS (r_type r); VZ (r_sym r); VS (r_sect r); VZ (r_off r); VZ (r_addend r)].
Definition image_val (secs : list sect) (i : image) : val :=
  VT [VS (i_name i); VZ (i_addr i); toval (i_sects i); toval (image_data secs i)].
#[global] Instance ToVal_obj : ToVal obj :=
  fun o => VT [toval (o_sects o); toval (o_syms o); toval (o_relocs o);
               VL (map (image_val (o_sects o)) (o_images o)); toval (o_entry o)].

(* ------------------------------------------------------------------ after layout: relocation and the
   SECTIONDATA copies (fixes/C12-3-sectiondata-after-relocation.diff).
   do_relaxations/do_relocations are not modelled; they are an arbitrary function [relocate] on the
   destination's sections (C11/C13 describe what it does). With the fix (fix_sd = true) the linker then runs
   update_section_copies: every (copy, source) pair recorded by layout_sections, in creation order, gets
   copy.data[:] = source.data. The pairs hold Section objects; here they are names (unique in dst). *)
Definition input_pair (i : minput) : list (string * string) :=
  match i with ISectionData n => [(sd_name n, n)] | _ => [] end.
Definition sd_pairs (mems : list memory) : list (string * string) :=
  flat_map (fun m => flat_map input_pair (m_inputs m)) mems.

Fixpoint refresh_copies (pairs : list (string * string)) (secs : list sect) : list sect :=
  match pairs with
  | [] => secs
  | (c, n) :: r =>
      refresh_copies r
        (match find_sect c secs, find_sect n secs with
         | Some cs, Some ss => set_sect (mkSect (s_name cs) (s_addr cs) (s_align cs) (s_data ss)) secs
         | _, _ => secs
         end)
  end.

Definition link_final (cfg : lcfg) (fix_sd : bool) (relocate : list sect -> result (list sect))
           (objs : list obj) (lay : option layout) (entry : option string)
           (extra : list (string * Z)) : result obj :=
  d <- link cfg objs lay false entry extra ;;
  secs <- relocate (o_sects d) ;;
  Ok (with_sects d
        (if fix_sd
         then match lay with Some l => refresh_copies (sd_pairs (l_mems l)) secs | None => secs end
         else secs)).

(* a concrete stand-in for do_relocations used by the correspondence: every byte of every section whose
   name does not start with "_$" is replaced by (b + 1) mod 256 *)
Definition is_generated (n : string) : bool :=
  match n with
  | String a (String b _) => Ascii.eqb a (Ascii.ascii_of_nat 95) && Ascii.eqb b (Ascii.ascii_of_nat 36)
  | _ => false
  end.
Definition bump_sections (secs : list sect) : result (list sect) :=
  Ok (map (fun s => if is_generated (s_name s) then s
                    else mkSect (s_name s) (s_addr s) (s_align s) (map (fun b => (b + 1) mod 256) (s_data s)))
          secs).
