(* Model/Py2IrStmt.v -- hand model (tie H) of python2ir.gen_statement and the statement
   generators it dispatches to (gen_assign, gen_aug_assign, gen_if, gen_while, gen_for,
   gen_break, gen_continue, gen_return), for the CURRENT source (increment block + loop-variable
   slot in gen_for: Gen/Tab_py2ir.v must say VIncBlock / LVSlot).  NO proofs here.
   [pcompile k d s kn kb kc] = the code emitted for s inside d enclosing loops when the code that
   follows s is kn, and block_stack[-1] = (code of the continue block kc, code of the break
   block kb); the result is a Model/StmtCode.v tree (CFG unfolded along forward edges).
   * gen_if: gen_cond into ja_block / else_block, both end with Jump(continue_block) = kn;
   * gen_while: test_block is the loop head; body with continue -> test_block, break -> final;
   * gen_for: i_init, n2 evaluated in the entry block (registers 2d, 2d+1: the phi and the
     bound), test block = loop head with CJump(i_phi < n2), body block stores i_phi to the loop
     variable's slot, increment block (target of continue) adds 1 and jumps back;
   * break / continue / return: what follows lands in a fresh unreachable block: dropped;
   * x op= e: Load x, gen_expr(e), Binop -> same tree as the expression x op e. *)
From PV Require Import Lib.Py Lib.Val Spec.IRSyntax Spec.IRSem Spec.PyExprSpec Spec.PyStmtSpec
  Model.Py2Ir Model.StmtCode.
Open Scope Z_scope.

Notation pcode := (code itree).

Fixpoint graftc (t : ctree) (ky kn : pcode) : pcode :=
  match t with
  | CYes => ky
  | CNo => kn
  | CJ c a b y n => KCJ c a b (graftc y ky kn) (graftc n ky kn)
  end.

Definition phi_reg (d : nat) : nat := (2 * d)%nat.
Definition bound_reg (d : nat) : nat := S (2 * d).

(* gen_assign, tuple target: values = [gen_expr(v) for v in values] (SSA values, registers
   base, base+1, ...), then store_value(target, value) pairwise *)
Fixpoint lower_list (k : lowcfg) (es : list pexpr) : option (list itree) :=
  match es with
  | [] => Some []
  | e :: r => match lower k e, lower_list k r with
              | Some t, Some ts => Some (t :: ts) | _, _ => None end
  end.
Fixpoint tup_sets (base : nat) (ts : list itree) (kn : pcode) : pcode :=
  match ts with [] => kn | t :: r => KSet base t (tup_sets (S base) r kn) end.
Fixpoint tup_gets (base : nat) (xs : list nat) (kn : pcode) : pcode :=
  match xs with [] => kn | x :: r => KGet x base (tup_gets (S base) r kn) end.

Fixpoint pcompile (k : lowcfg) (d : nat) (s : pstmt) (kn kb kc : pcode) : option pcode :=
  match s with
  | PSPass => Some kn
  | PSAssign x e =>
      match lower k e with Some t => Some (KStore x t kn) | None => None end
  | PSAug x o e =>
      match lower k (PBin o (PVar x) e) with Some t => Some (KStore x t kn) | None => None end
  | PSSeq a b =>
      match pcompile k d b kn kb kc with
      | Some cb => pcompile k d a cb kb kc
      | None => None
      end
  | PSIf c a b =>
      match lower_cond k c CYes CNo, pcompile k d a kn kb kc, pcompile k d b kn kb kc with
      | Some t, Some ca, Some cb => Some (graftc t ca cb)
      | _, _, _ => None
      end
  | PSWhile c b =>
      match lower_cond k c CYes CNo, pcompile k (S d) b (KBack d) kn (KBack d) with
      | Some t, Some cb => Some (KLoop d (graftc t cb kn))
      | _, _ => None
      end
  | PSFor x a b body =>
      let inc := KInc (phi_reg d) (KBack d) in
      match lower k a, lower k b, pcompile k (S d) body inc kn inc with
      | Some ta, Some tb, Some cb =>
          Some (KSet (phi_reg d) ta (KSet (bound_reg d) tb
                 (KLoop d (KRCJ Clt (RReg (phi_reg d)) (RReg (bound_reg d))
                                (KGet x (phi_reg d) cb) kn))))
      | _, _, _ => None
      end
  | PSBreak => Some kb
  | PSContinue => Some kc
  | PSRet e => match lower k e with Some t => Some (KRet t) | None => None end
  | PSTuple xs es =>
      match lower_list k es with
      | Some ts => if Nat.eqb (length xs) (length ts)      (* assert len(values) == len(targets) *)
                   then Some (tup_sets (phi_reg d) ts (tup_gets (phi_reg d) xs kn)) else None
      | None => None
      end
  | PSCall x f args =>
      (* gen_assign with a Call value: gen_call evaluates the arguments, FunctionCall, store_value *)
      match lower_list k args with
      | Some ts => Some (KCall x f ts kn)
      | None => None
      end
  end.

(* a module: its functions in definition order, each (number of locals besides the parameters, body);
   gen_function compiles each body on its own *)
Fixpoint compile_funs (k : lowcfg) (funs : list (nat * pstmt)) : option (list (nat * pcode)) :=
  match funs with
  | [] => Some []
  | (nloc, body) :: r =>
      match pcompile k 0 body KStuck KStuck KStuck, compile_funs k r with
      | Some c, Some cs => Some ((nloc, c) :: cs)
      | _, _ => None
      end
  end.

Definition wrap64 (z : Z) : Z := wrap_bits 64 true z.
Notation pruns ft := (runs itree eval_tree wrap64 ft).

(* rendering for the structural comparison with decompiled python_to_ir output *)
From Coq Require Import String.
Fixpoint itree_val (t : itree) : val :=
  match t with
  | TConst z => VT [VS "c"; VZ z]
  | TVar n => VT [VS "v"; toval n]
  | TBin o a b => VT [VS "b"; VS (binop_name o); itree_val a; itree_val b]
  | TProg _ a b => VT [VS "p"; itree_val a; itree_val b]
  end.
Definition pcompile_val (k : lowcfg) (s : pstmt) : val :=
  match pcompile k 0 s KStuck KStuck KStuck with
  | Some c => code_val itree_val c
  | None => VDiag
  end.
