(* Model/RelocFix.v — hand model of REPAIRED relocation bodies (fixes/C11-thumb-bl-j1j2.diff).  The check probes on
   every run which variant the current source has (Gen/reloc_switch.v) and ties that variant (Proofs/C11_tie2.v). *)
From PV Require Import Lib.Py Gen.bitfun Model.Reloc.
Open Scope Z_scope.

(* BlImm11Relocation.apply with J1 = NOT(I1 XOR S), J2 = NOT(I2 XOR S) written *)
Definition apply_bl_fixed (S : Z) (data : list Z) (P : Z) : result (list Z) :=
  asrt (S mod 2 =? 0) (
  al <- align FUEL P 2 ;;
  let offset := S - (al + 4) in
  asrt ((-16777216 <=? offset) && (offset <? 16777214) && ((offset + 16777216) mod 2 =? 0)) (
  imm32 <- wrap_negative (Z.shiftr offset 1) 32 ;;
  let imm11 := Z.land imm32 2047 in
  let imm10 := Z.land (Z.shiftr imm32 11) 1023 in
  let s := Z.land (Z.shiftr imm32 24) 1 in
  let i1 := Z.land (Z.shiftr imm32 22) 1 in
  let i2 := Z.land (Z.shiftr imm32 21) 1 in
  let j1 := Z.lxor (Z.lxor i1 s) 1 in
  let j2 := Z.lxor (Z.lxor i2 s) 1 in
  d <- bv_set data 4 0 10 imm10 ;;
  d <- bv_set d 4 10 11 s ;;
  d <- bv_set d 4 16 27 imm11 ;;
  d <- bv_set d 4 27 28 j2 ;;
  bv_set d 4 29 30 j1)).
