(* Model/LengauerTarjan.v — hand model (tie H) of ppci/graph/lt.py (LengauerTarjan.compute) and of
   ppci/graph/digraph.py:dfs.  Definitions only, statement by statement.
   Python dicts keyed by nodes = lists indexed by node with None for "no key"; a failing dict
   lookup is [Internal KeyError], a failing assert [Internal AssertionError].
   Python sets: the graph is given as successor lists [g] and predecessor lists [pr] IN THE
   ITERATION ORDER of the Python sets (the check passes the observed order; the bounded theorem
   uses sorted order); bucket sets iterate in insertion order. *)
From PV Require Import Lib.Py.
From PV Require Import Spec.CfgSpec Model.DomRef Model.DomTree.
Close Scope Z_scope.
Open Scope nat_scope.

Definition dict := list (option nat).
Definition dget (m : dict) (k : nat) : result nat :=
  match nth k m None with Some v => Ok v | None => Internal KeyError end.
Definition dhas (m : dict) (k : nat) : bool :=
  match nth k m None with Some _ => true | None => false end.
Definition dset (m : dict) (k v : nat) : dict := set_nth k (Some v) m.

(* ---------------------------------------------------------------- digraph.dfs
     visited = set(); worklist = [(None, start_node)]
     while worklist:
         parent, node = worklist.pop()
         if node not in visited:
             visited.add(node); yield parent, node
             for successor in node.successors: worklist.append((node, successor)) *)
Fixpoint dfs_loop (fuel : nat) (g : graph) (stack : list (option nat * nat)) (visited : list nat)
         (out : list (option nat * nat)) : result (list (option nat * nat)) :=
  match fuel with
  | O => OutOfFuel
  | S f =>
    match stack with
    | [] => Ok (rev out)
    | (p, x) :: rest =>
      if mem x visited then dfs_loop f g rest visited out
      else dfs_loop f g (rev (map (fun s => (Some x, s)) (succs g x)) ++ rest)
                    (x :: visited) ((p, x) :: out)
    end
  end.

(* LengauerTarjan.dfs: dfnum[node] = i; parent[node] = parent; vertex.append(node) *)
Fixpoint number_dfs (i : nat) (l : list (option nat * nat)) (dfnum parent : dict) : dict * dict :=
  match l with
  | [] => (dfnum, parent)
  | (p, x) :: r =>
    number_dfs (S i) r (dset dfnum x i)
               (match p with Some q => dset parent x q | None => parent end)
  end.

Record lts := mk_lts {
  l_anc : dict; l_best : dict; l_semi : dict;
  l_bucket : list (list nat); l_idom : dict; l_samedom : dict }.

Definition set_anc s m := mk_lts m (l_best s) (l_semi s) (l_bucket s) (l_idom s) (l_samedom s).
Definition set_best s m := mk_lts (l_anc s) m (l_semi s) (l_bucket s) (l_idom s) (l_samedom s).
Definition set_semi s m := mk_lts (l_anc s) (l_best s) m (l_bucket s) (l_idom s) (l_samedom s).
Definition set_bucket s m := mk_lts (l_anc s) (l_best s) (l_semi s) m (l_idom s) (l_samedom s).
Definition set_idom s m := mk_lts (l_anc s) (l_best s) (l_semi s) (l_bucket s) m (l_samedom s).
Definition set_samedom s m := mk_lts (l_anc s) (l_best s) (l_semi s) (l_bucket s) (l_idom s) m.

(* ---------------------------------------------------------------- ancestor_with_lowest_semi
     original_v = v; path = []; a = self.ancestor[v]
     while a in self.ancestor: path.append((v, a)); v = a; a = self.ancestor[v]
     for v, a in reversed(path):
         b = self.best[a]; self.ancestor[v] = self.ancestor[a]
         if self.dfnum[self.semi[b]] < self.dfnum[self.semi[self.best[v]]]: self.best[v] = b
     return self.best[original_v] *)
Fixpoint climb (fuel : nat) (ancd : dict) (v a : nat) (path : list (nat * nat))
  : result (list (nat * nat)) :=
  match fuel with
  | O => OutOfFuel
  | S f =>
    if dhas ancd a then (a' <- dget ancd a ;; climb f ancd a a' ((v, a) :: path))
    else Ok path          (* head of [path] = last appended, i.e. reversed(path) order *)
  end.

Fixpoint compress (dfnum : dict) (path : list (nat * nat)) (s : lts) : result lts :=
  match path with
  | [] => Ok s
  | (v, a) :: r =>
    b <- dget (l_best s) a ;;
    aa <- dget (l_anc s) a ;;
    let s1 := set_anc s (dset (l_anc s) v aa) in
    sb <- dget (l_semi s1) b ;;
    d1 <- dget dfnum sb ;;
    bv <- dget (l_best s1) v ;;
    sbv <- dget (l_semi s1) bv ;;
    d2 <- dget dfnum sbv ;;
    compress dfnum r (if d1 <? d2 then set_best s1 (dset (l_best s1) v b) else s1)
  end.

Definition awls (fuel : nat) (dfnum : dict) (s : lts) (v : nat) : result (lts * nat) :=
  a <- dget (l_anc s) v ;;
  path <- climb fuel (l_anc s) v a [] ;;
  s' <- compress dfnum path s ;;
  r <- dget (l_best s') v ;;
  Ok (s', r).

(* ---------------------------------------------------------------- compute, semidominator loop
     s = p
     for v in n.predecessors:
         if self.dfnum[v] <= self.dfnum[n]: s2 = v
         else: s2 = self.semi[self.ancestor_with_lowest_semi(v)]
         if self.dfnum[s2] < self.dfnum[s]: s = s2 *)
Fixpoint semi_loop (fuel : nat) (dfnum : dict) (n : nat) (preds : list nat) (s : lts) (cur : nat)
  : result (lts * nat) :=
  match preds with
  | [] => Ok (s, cur)
  | v :: r =>
    dv <- dget dfnum v ;;
    dn <- dget dfnum n ;;
    x <- (if dv <=? dn then Ok (s, v)
          else (y <- awls fuel dfnum s v ;;
                sy <- dget (l_semi (fst y)) (snd y) ;;
                Ok (fst y, sy))) ;;
    d2 <- dget dfnum (snd x) ;;
    dc <- dget dfnum cur ;;
    semi_loop fuel dfnum n r (fst x) (if d2 <? dc then snd x else cur)
  end.

(*   for v in bucket[p]:
         y = self.ancestor_with_lowest_semi(v)
         if self.semi[y] is self.semi[v]: idom[v] = p
         else: samedom[v] = y *)
Fixpoint bucket_loop (fuel : nat) (dfnum : dict) (p : nat) (vs : list nat) (s : lts) : result lts :=
  match vs with
  | [] => Ok s
  | v :: r =>
    y <- awls fuel dfnum s v ;;
    sy <- dget (l_semi (fst y)) (snd y) ;;
    sv <- dget (l_semi (fst y)) v ;;
    bucket_loop fuel dfnum p r
      (if sy =? sv then set_idom (fst y) (dset (l_idom (fst y)) v p)
       else set_samedom (fst y) (dset (l_samedom (fst y)) v (snd y)))
  end.

(*   for n in reversed(self.vertex[1:]):
         p = self.parent[n]; <semi loop>
         assert n not in self.semi; self.semi[n] = s; bucket[s].add(n)
         self.link(p, n)    # assert n not in ancestor; ancestor[n] = p; best[n] = n
         <bucket loop>; bucket[p].clear() *)
Fixpoint main_loop (fuel : nat) (dfnum parent : dict) (pr : list (list nat)) (ns : list nat) (s : lts)
  : result lts :=
  match ns with
  | [] => Ok s
  | n :: r =>
    p <- dget parent n ;;
    x <- semi_loop fuel dfnum n (nth n pr []) s p ;;
    let s1 := fst x in
    let sm := snd x in
    if dhas (l_semi s1) n then Internal AssertionError else
    let s2 := set_semi s1 (dset (l_semi s1) n sm) in
    let s3 := set_bucket s2 (set_nth sm (set_add n (nth sm (l_bucket s2) [])) (l_bucket s2)) in
    if dhas (l_anc s3) n then Internal AssertionError else
    let s4 := set_best (set_anc s3 (dset (l_anc s3) n p)) (dset (l_best s3) n n) in
    s5 <- bucket_loop fuel dfnum p (nth p (l_bucket s4) []) s4 ;;
    main_loop fuel dfnum parent pr r (set_bucket s5 (set_nth p [] (l_bucket s5)))
  end.

(*   for n in self.vertex[1:]:
         if n in samedom: idom[n] = idom[samedom[n]]
         else: assert n in idom *)
Fixpoint fixup (ns : list nat) (samedom idom : dict) : result dict :=
  match ns with
  | [] => Ok idom
  | n :: r =>
    if dhas samedom n then
      (sd <- dget samedom n ;; i <- dget idom sd ;; fixup r samedom (dset idom n i))
    else if dhas idom n then fixup r samedom idom
    else Internal AssertionError
  end.

(* compute(graph, entry): returns (dfnum, parent, semi, idom) *)
Definition lt_compute (g : graph) (pr : list (list nat)) (e : nat)
  : result (dict * dict * dict * dict) :=
  let n := length g in
  let empty : dict := repeat None n in
  order <- dfs_loop (n * n + n + 2) g [(None, e)] [] [] ;;
  let dp := number_dfs 0 order empty empty in
  let dfnum := fst dp in
  let parent := snd dp in
  let vertex := map snd order in
  s <- main_loop (S n) dfnum parent pr (rev (tl vertex))
                 (mk_lts empty empty empty (repeat [] n) empty empty) ;;
  idom <- fixup (tl vertex) (l_samedom s) (l_idom s) ;;
  Ok (dfnum, parent, l_semi s, idom).

(* predecessor lists derived from the successor lists (sorted order) *)
Definition preds_of (g : graph) : list (list nat) :=
  map (fun v => filter (fun u => mem v (succs g u)) (seq 0 (length g))) (seq 0 (length g)).

Definition lt_idom (g : graph) (pr : list (list nat)) (e : nat) : result dict :=
  match lt_compute g pr e with
  | Ok r => Ok (snd r)
  | Diag c => Diag c
  | Internal err => Internal err
  | OutOfFuel => OutOfFuel
  end.
