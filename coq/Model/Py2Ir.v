(* Model/Py2Ir.v -- hand model (tie H) of ppci/lang/python/python2ir.py, the fragment C36 has
   theorems for.  NO proofs here.

   * [lower]       gen_expr / gen_binop / gen_name / gen_num on integer (i64) expressions:
                   Python expression -> IR expression tree.  The operator table is a PARAMETER
                   (the real one is exported to Gen/Tab_py2ir.v by introspection of
                   PythonToIrCompiler.binop_map); an operator missing from the table is
                   not_impl -> CompilerError (None here).  Integer [//] is lowered to the
                   straight-line binop program the front-end emits for it (also exported: the
                   instruction sequence of the compiled function [return a // b]); in the
                   original source that program is the single instruction [a / b].
                   UnaryOp is not implemented by gen_expr (None).
   * [lower_cond]  gen_cond / gen_compare / gen_bool_op: condition -> decision tree of CJumps
                   with the yes/no continuations threaded exactly as the block arguments are.
                   [not] is not implemented (None).
   * [eval_tree], [eval_ctree]  meaning of those trees with IRSem.eval_binop / eval_cond on i64.
   * [for_cfg], [run_for]  the block skeleton gen_for builds (entry, test with the phi, body,
                   increment, final; targets of break/continue) in two variants: [VOrig] = the
                   source as found, [VIncBlock] = increment in its own block (fix C36-2), and
                   where the loop variable lives: [LVPhi] (name bound to the phi) or [LVSlot]
                   (stored to a local at the top of the body, fix C36-3).  The body is abstract:
                   which block it ends in and how each iteration leaves it. *)
From PV Require Import Lib.Py Lib.Val Spec.IRSyntax Spec.IRSem Spec.PyExprSpec.
From Coq Require Import String.
Open Scope Z_scope.

(* ------------------------------------------------------------------ tables *)
Definition pbin_name (o : pbin) : string :=
  match o with
  | PAdd => "Add" | PSub => "Sub" | PMult => "Mult" | PFloorDiv => "FloorDiv" | PMod => "Mod"
  | PLShift => "LShift" | PRShift => "RShift" | PBitAnd => "BitAnd" | PBitOr => "BitOr"
  | PBitXor => "BitXor" | PTrueDiv => "Div"
  end%string.
Definition pcmp_name (o : pcmp) : string :=
  match o with
  | PEq => "Eq" | PNotEq => "NotEq" | PLt => "Lt" | PLtE => "LtE" | PGt => "Gt" | PGtE => "GtE"
  end%string.
Definition all_pbins := [PAdd; PSub; PMult; PFloorDiv; PMod; PLShift; PRShift; PBitAnd; PBitOr; PBitXor; PTrueDiv].
Definition all_pcmps := [PEq; PNotEq; PLt; PLtE; PGt; PGtE].

Definition binop_of_name (s : string) : option binop :=
  find (fun o => String.eqb (binop_name o) s) all_binops.
Definition cond_of_name (s : string) : option cond :=
  find (fun o => String.eqb (cond_name o) s) all_conds.
Definition tab := list (string * string).
Definition irop_of (t : tab) (o : pbin) : option binop :=
  match assoc_str (pbin_name o) t with Some s => binop_of_name s | None => None end.
Definition ircond_of (t : tab) (o : pcmp) : option cond :=
  match assoc_str (pcmp_name o) t with Some s => cond_of_name s | None => None end.

(* straight-line program over two inputs: operands are the inputs, constants, or the result of
   the k-th instruction (0-based); the value of the program is the last result *)
Inductive sref := SA | SB | SK (z : Z) | SR (k : nat).
Definition sprog := list (string * sref * sref).

(* ------------------------------------------------------------------ expressions *)
Inductive itree :=
  | TConst (z : Z)                          (* Const z : i64 *)
  | TVar (n : nat)                          (* Load i64 from the variable's stack slot *)
  | TBin (o : binop) (a b : itree)          (* Binop a o b : i64 *)
  | TProg (p : sprog) (a b : itree).        (* a, b, then the instructions of p, all i64 *)

(* lc_int_truediv_rejected: gen_binop raises a CompilerError for `/` on int operands (probed from
   the current source on every run; false = the source as found, which uses binop_map["/"]) *)
Record lowcfg := mk_lowcfg { lc_binops : tab; lc_cmps : tab; lc_floordiv : sprog;
                             lc_int_truediv_rejected : bool }.
Definition irop_eff (k : lowcfg) (o : pbin) : option binop :=
  match o with
  | PTrueDiv => if lc_int_truediv_rejected k then None else irop_of (lc_binops k) o
  | _ => irop_of (lc_binops k) o
  end.

Fixpoint lower (k : lowcfg) (e : pexpr) : option itree :=
  match e with
  | PConst z => Some (TConst z)
  | PVar n => Some (TVar n)
  | PNeg _ => None
  | PBin o a b =>
      match lower k a, lower k b with
      | Some ta, Some tb =>
          match o, lc_floordiv k with
          | PFloorDiv, (_ :: _) as p => Some (TProg p ta tb)
          | _, _ => match irop_eff k o with
                    | Some io => Some (TBin io ta tb)
                    | None => None
                    end
          end
      | _, _ => None
      end
  end.

Definition sref_val (a b : Z) (acc : list Z) (r : sref) : outcome Z :=
  match r with
  | SA => ODone a
  | SB => ODone b
  | SK z => of_opt (wrap_ty default_cfg I64 z) OStuck
  | SR k => of_opt (nth_error (rev acc) k) OStuck
  end.
(* acc = results so far, newest first *)
Fixpoint run_prog (p : sprog) (a b : Z) (acc : list Z) : outcome Z :=
  match p with
  | [] => match acc with r :: _ => ODone r | [] => OStuck end
  | (s, x, y) :: rest =>
      match binop_of_name s with
      | None => OStuck
      | Some o =>
          vx <~ sref_val a b acc x ;;
          vy <~ sref_val a b acc y ;;
          r <~ eval_binop default_cfg I64 o vx vy ;;
          run_prog rest a b (r :: acc)
      end
  end.

Fixpoint eval_tree (env : list Z) (t : itree) : outcome Z :=
  match t with
  | TConst z => of_opt (wrap_ty default_cfg I64 z) OStuck
  | TVar n => of_opt (nth_error env n) OStuck
  | TBin o a b =>
      x <~ eval_tree env a ;; y <~ eval_tree env b ;; eval_binop default_cfg I64 o x y
  | TProg p a b =>
      x <~ eval_tree env a ;; y <~ eval_tree env b ;; run_prog p x y []
  end.

(* ------------------------------------------------------------------ conditions *)
Inductive ctree :=
  | CYes | CNo                                            (* the two target blocks *)
  | CJ (c : cond) (a b : itree) (yes no : ctree).         (* a; b; CJump a c b yes no *)

(* gen_bool_op: first_values = values[:-1], last_value = values[-1].  Every value but the last
   gets a fresh block (all_true_block / all_false_block) that the NEXT value's code is emitted
   into; the last value jumps to the original targets.  [f x yes no] = gen_cond(x, yes, no). *)
Definition chain_lower (f : pcond -> ctree -> ctree -> option ctree) (isand : bool)
           (yes no : ctree) : list pcond -> option ctree :=
  fix go (l : list pcond) : option ctree :=
  match l with
  | [] => None                                   (* values[-1] of an empty list *)
  | x :: r =>
      match r with
      | [] => f x yes no                         (* last_value *)
      | _ :: _ =>
          match go r with
          | Some next => if isand then f x next no     (* gen_cond(value, all_true_block, no_block) *)
                         else f x yes next             (* gen_cond(value, yes_block, all_false_block) *)
          | None => None
          end
      end
  end.

Fixpoint lower_cond (k : lowcfg) (c : pcond) (yes no : ctree) : option ctree :=
  match c with
  | PCmp o a b =>
      match lower k a, lower k b, ircond_of (lc_cmps k) o with
      | Some ta, Some tb, Some io => Some (CJ io ta tb yes no)
      | _, _, _ => None
      end
  | PBoolOp isand vs => chain_lower (lower_cond k) isand yes no vs
  | PNot _ => None
  end.

Fixpoint eval_ctree (env : list Z) (t : ctree) : outcome bool :=
  match t with
  | CYes => ODone true
  | CNo => ODone false
  | CJ c a b yes no =>
      x <~ eval_tree env a ;; y <~ eval_tree env b ;;
      if eval_cond c x y then eval_ctree env yes else eval_ctree env no
  end.

(* ------------------------------------------------------------------ gen_for skeleton *)
Inductive variant := VOrig | VIncBlock.
Inductive loopvar := LVPhi | LVSlot.
Inductive blk := BEntry | BTest | BBody | BBodyEnd | BContSite | BInc | BFinal.
Definition blk_eqb (a b : blk) : bool :=
  match a, b with
  | BEntry, BEntry | BTest, BTest | BBody, BBody | BBodyEnd, BBodyEnd | BContSite, BContSite
  | BInc, BInc | BFinal, BFinal => true
  | _, _ => false
  end.
Inductive phisrc := SrcInit | SrcInc.

Record for_cfg := mk_for_cfg {
  fc_phi : list (blk * phisrc);    (* i_phi.set_incoming(block, value) calls *)
  fc_back : blk;                   (* block whose Jump(test_block) follows the increment *)
  fc_continue : blk;               (* block_stack[-1][0] during the body *)
  fc_break : blk }.                (* block_stack[-1][1] *)

(* [straight] = the body contains no nested control flow, so that builder.block is still
   body_block when gen_for emits the increment *)
Definition gen_for (v : variant) (straight : bool) : for_cfg :=
  match v with
  | VOrig => mk_for_cfg [(BEntry, SrcInit); (BBody, SrcInc)]
                        (if straight then BBody else BBodyEnd) BTest BFinal
  | VIncBlock => mk_for_cfg [(BEntry, SrcInit); (BInc, SrcInc)] BInc BInc BFinal
  end.

Fixpoint phi_lookup (l : list (blk * phisrc)) (p : blk) : option phisrc :=
  match l with
  | [] => None
  | (b, s) :: r => if blk_eqb b p then Some s else phi_lookup r p
  end.

Inductive for_result :=
  | FDone (visited : list Z) (var_after : option Z)
  | FStuck (visited : list Z)      (* phi without an input for the edge taken *)
  | FFuel.

(* One unit of fuel per entry of the test block.  [pred] = block we arrive from, [iprev] = the
   phi value of the previous round, [slot] = content of the loop variable's stack slot. *)
Fixpoint run_for (g : for_cfg) (lv : loopvar) (body : Z -> exit_kind) (init n : Z)
         (fuel : nat) (pred : blk) (iprev : Z) (slot : option Z) (acc : list Z) : for_result :=
  match fuel with
  | O => FFuel
  | S fuel' =>
    match phi_lookup (fc_phi g) pred with
    | None => FStuck acc
    | Some src =>
      let i := match src with SrcInit => init | SrcInc => wrap_bits 64 true (iprev + 1) end in
      let after (sl : option Z) := match lv with LVPhi => Some i | LVSlot => sl end in
      if i <? n then
        let slot' := Some i in
        let acc' := acc ++ [i] in
        match body i with
        | Fall => run_for g lv body init n fuel' (fc_back g) i slot' acc'
        | Cont =>
            (* the continue statement jumps to fc_continue; when that is the increment block
               the increment runs and the back edge is taken from there, when it is the test
               block itself the edge comes from the block containing the continue *)
            match fc_continue g with
            | BInc => run_for g lv body init n fuel' BInc i slot' acc'
            | _ => run_for g lv body init n fuel' BContSite i slot' acc'
            end
        | Brk => FDone acc' (after slot')
        end
      else FDone acc (after slot)
    end
  end.
Definition run_for_loop g lv body init n fuel := run_for g lv body init n fuel BEntry 0 None [].

(* rendering for the correspondence with the compiled CFG *)
Definition blk_name (b : blk) : string :=
  match b with
  | BEntry => "entry" | BTest => "test" | BBody => "body" | BBodyEnd => "body_end"
  | BContSite => "cont_site" | BInc => "inc" | BFinal => "final"
  end%string.
Definition itree_outcome (k : lowcfg) (env : list Z) (e : pexpr) : val :=
  match lower k e with
  | None => VDiag
  | Some t => toval (eval_tree env t)
  end.
Definition ctree_outcome (k : lowcfg) (env : list Z) (c : pcond) : val :=
  match lower_cond k c CYes CNo with
  | None => VDiag
  | Some t => toval (eval_ctree env t)
  end.
Definition for_result_val (r : for_result) : val :=
  match r with
  | FDone l a => VT [VS "done"; toval l; toval a]
  | FStuck l => VT [VS "stuck"; toval l]
  | FFuel => VS "fuel"
  end.
Definition phisrc_name (s : phisrc) : string :=
  match s with SrcInit => "init" | SrcInc => "inc" end%string.
Definition for_cfg_val (g : for_cfg) : val :=
  VT [VL (map (fun p => VT [VS (blk_name (fst p)); VS (phisrc_name (snd p))]) (fc_phi g));
      VS (blk_name (fc_back g)); VS (blk_name (fc_continue g)); VS (blk_name (fc_break g))].
