(* Model/Regex.v — hand model (tie H) of ppci/lang/tools/regex/{regex,compiler,scanner,parser}.py.
   Executable Gallina, function by function; NO proofs here.
   Regex objects are the [re] trees of Spec/RegLangSpec.v (Python __eq__/__hash__ go through
   orderby() = structural equality, [re_eqb]); IntegerSet values are their [ranges] tuples.

   IntegerSet: constructor (filter, sort, merge_overlapping_intervals) and union are mirrored
   literally. contains / intersection / difference are modelled *extensionally* (linear scan,
   pairwise intersection, hole punching, then the same canonicalising constructor) rather than by
   the bisect / two-iterator algorithms of integer_set.py: on canonical inputs they return the
   same range tuples (checked on every run by the correspondence); the algorithms themselves are
   property C33. *)
From PV Require Import Lib.Py Spec.RegLangSpec.
Open Scope Z_scope.

(* ================================================================== IntegerSet *)
Definition iset := ranges.

Definition pair_leb (p q : Z * Z) : bool :=
  (fst p <? fst q) || ((fst p =? fst q) && (snd p <=? snd q)).
Fixpoint insert_pair (p : Z * Z) (l : list (Z * Z)) : list (Z * Z) :=
  match l with
  | [] => [p]
  | q :: l' => if pair_leb p q then p :: l else q :: insert_pair p l'
  end.
(* sorted(...) on tuples *)
Fixpoint sort_pairs (l : list (Z * Z)) : list (Z * Z) :=
  match l with [] => [] | p :: l' => insert_pair p (sort_pairs l') end.

(* merge_overlapping_intervals: r is the pending interval *)
Fixpoint merge_from (r : Z * Z) (l : list (Z * Z)) : list (Z * Z) :=
  match l with
  | [] => [r]
  | s :: l' =>
      if fst s >? snd r + 1 then r :: merge_from s l'
      else merge_from (fst r, Z.max (snd r) (snd s)) l'
  end.
Definition merge_overlapping (l : list (Z * Z)) : list (Z * Z) :=
  match l with [] => [] | r :: l' => merge_from r l' end.

(* the IntegerSet constructor, with every value already a (lo, hi) tuple *)
Definition range_ok (r : Z * Z) : bool := fst r <=? snd r.
Definition mk_iset (l : list (Z * Z)) : iset :=
  merge_overlapping (sort_pairs (filter range_ok l)).

Definition in_range (c : Z) (r : Z * Z) : bool := (fst r <=? c) && (c <=? snd r).
Definition contains (s : iset) (c : Z) : bool := existsb (in_range c) s.

Definition union (a b : iset) : iset := mk_iset (a ++ b).

Definition inter_pair (r s : Z * Z) : list (Z * Z) :=
  let x := Z.max (fst r) (fst s) in
  let y := Z.min (snd r) (snd s) in
  if x <=? y then [(x, y)] else [].
Definition inter (a b : iset) : iset :=
  mk_iset (flat_map (fun r => flat_map (inter_pair r) b) a).

(* the parts of r that are outside the hole s *)
Definition punch (s r : Z * Z) : list (Z * Z) :=
  (if fst r <=? Z.min (snd r) (fst s - 1) then [(fst r, Z.min (snd r) (fst s - 1))] else []) ++
  (if Z.max (fst r) (snd s + 1) <=? snd r then [(Z.max (fst r) (snd s + 1), snd r)] else []).
Definition diff (a b : iset) : iset :=
  mk_iset (fold_left (fun acc s => flat_map (punch s) acc) b a).

(* bool(IntegerSet) *)
Definition nonempty (s : iset) : bool := match s with [] => false | _ => true end.

(* ================================================================== regex.py *)
Definition NULL : re := Sym [].
Definition SIGMA_SET : iset := [(0, 255)].
Definition SIGMA : re := Sym SIGMA_SET.

Fixpoint iset_eqb (a b : iset) : bool :=
  match a, b with
  | [], [] => true
  | p :: a', q :: b' => (fst p =? fst q) && (snd p =? snd q) && iset_eqb a' b'
  | _, _ => false
  end.

(* Regex.__eq__ : orderby() tuples compared structurally *)
Fixpoint re_eqb (a b : re) : bool :=
  match a, b with
  | Eps, Eps => true
  | Sym s, Sym t => iset_eqb s t
  | Star x, Star y => re_eqb x y
  | Cat x1 x2, Cat y1 y2 => re_eqb x1 y1 && re_eqb x2 y2
  | Or x1 x2, Or y1 y2 => re_eqb x1 y1 && re_eqb x2 y2
  | And x1 x2, And y1 y2 => re_eqb x1 y1 && re_eqb x2 y2
  | _, _ => false
  end.

Definition concatenate (l r : re) : re :=
  if re_eqb l NULL then NULL
  else if re_eqb r NULL then NULL
  else if re_eqb l Eps then r
  else if re_eqb r Eps then l
  else Cat l r.

Definition logical_or (l r : re) : re :=
  match l, r with
  | Sym a, Sym b => Sym (union a b)
  | _, _ =>
      if re_eqb l r then l
      else if re_eqb l NULL then r
      else if re_eqb r NULL then l
      else Or l r
  end.

Definition logical_and (l r : re) : re :=
  if re_eqb l r then l
  else if re_eqb l NULL then l
  else if re_eqb r NULL then r
  else And l r.

(* nu() returns EPSILON or NULL as a regex *)
Fixpoint nu (r : re) : re :=
  match r with
  | Eps => Eps
  | Sym _ => NULL
  | Star _ => Eps
  | Cat a b => logical_and (nu a) (nu b)
  | Or a b => logical_or (nu a) (nu b)
  | And a b => logical_and (nu a) (nu b)
  end.
Definition nullable (r : re) : bool := re_eqb (nu r) Eps.

Fixpoint deriv (r : re) (c : Z) : re :=
  match r with
  | Eps => NULL
  | Sym s => if contains s c then Eps else NULL
  | Star a => concatenate (deriv a c) (Star a)
  | Cat a b => logical_or (concatenate (deriv a c) b) (concatenate (nu a) (deriv b c))
  | Or a b => logical_or (deriv a c) (deriv b c)
  | And a b => logical_and (deriv a c) (deriv b c)
  end.

(* filter(None, (a.intersection(b) for a, b in itertools.product(A, B))) *)
Definition product_intersections (A B : list iset) : list iset :=
  filter nonempty (flat_map (fun a => map (fun b => inter a b) B) A).

Fixpoint classes (r : re) : list iset :=
  match r with
  | Eps => [SIGMA_SET]
  | Sym s => [s; diff SIGMA_SET s]
  | Star a => classes a
  | Cat a b => if nullable a then product_intersections (classes a) (classes b) else classes a
  | Or a b => product_intersections (classes a) (classes b)
  | And a b => product_intersections (classes a) (classes b)
  end.

(* ================================================================== compiler.py *)
Definition tr := (Z * Z * nat)%type.          (* (first, last, next_state_number) *)
Definition tr_first (t : tr) : Z := fst (fst t).
Definition tr_last (t : tr) : Z := snd (fst t).
Definition tr_next (t : tr) : nat := snd t.

Definition tr_leb (p q : tr) : bool :=
  (tr_first p <? tr_first q) ||
  ((tr_first p =? tr_first q) &&
   ((tr_last p <? tr_last q) || ((tr_last p =? tr_last q) && (tr_next p <=? tr_next q)%nat))).
Fixpoint insert_tr (p : tr) (l : list tr) : list tr :=
  match l with
  | [] => [p]
  | q :: l' => if tr_leb p q then p :: l else q :: insert_tr p l'
  end.
(* list.sort() on tuples *)
Fixpoint sort_tr (l : list tr) : list tr :=
  match l with [] => [] | p :: l' => insert_tr p (sort_tr l') end.

(* state_numbers[x] : position of the first structurally equal state *)
Fixpoint index_of (x : re) (l : list re) (i : nat) : option nat :=
  match l with
  | [] => None
  | y :: l' => if re_eqb x y then Some i else index_of x l' (S i)
  end.

Fixpoint upd_nth {A} (n : nat) (f : A -> A) (l : list A) : list A :=
  match l, n with
  | [], _ => []
  | x :: l', O => f x :: l'
  | x :: l', S n' => x :: upd_nth n' f l'
  end.

(* (states, transitions, stack) ; the head of [stack] is the top *)
Definition cstate := (list re * list (list tr) * list re)%type.

(* body of  for derivative_class in state.derivative_classes()  *)
Definition class_step (state : re) (n : nat) (st : cstate) (K : iset) : cstate :=
  match K with
  | [] => st                                   (* if not derivative_class: continue *)
  | r0 :: _ =>
      let '(states, trs, stack) := st in
      let nxt := deriv state (fst r0) in
      let '(states', trs', stack', m) :=
        match index_of nxt states O with
        | Some m => (states, trs, stack, m)
        | None => (states ++ [nxt], trs ++ [[]], nxt :: stack, length states)
        end in
      (states', upd_nth n (fun t => t ++ map (fun r => (fst r, snd r, m)) K) trs', stack')
  end.

Fixpoint compile_loop (fuel : nat) (st : cstate) : result cstate :=
  match fuel with
  | O => OutOfFuel
  | S fuel' =>
      let '(states, trs, stack) := st in
      match stack with
      | [] => Ok st
      | state :: stack' =>
          match index_of state states O with
          | None => Internal KeyError
          | Some n =>
              let '(s1, t1, k1) :=
                fold_left (class_step state n) (classes state) (states, trs, stack') in
              compile_loop fuel' (s1, upd_nth n sort_tr t1, k1)
          end
      end
  end.

Definition dfa := (list (list tr) * list bool * nat)%type.

Definition compile (fuel : nat) (r : re) : result dfa :=
  st <- compile_loop fuel ([r], [[]], [r]) ;;
  let '(states, trs, _) := st in
  match index_of NULL states O with     (* error = state_numbers[expr.null] *)
  | None => Internal KeyError
  | Some e => Ok (trs, map nullable states, e)
  end.

(* ================================================================== scanner.py *)
(* bisect.bisect(transitions, (char,)) on the sorted transition list: the number of entries
   that compare below (char,), i.e. whose first component is < char *)
Definition bisect_tr (ts : list tr) (c : Z) : nat :=
  length (filter (fun t => tr_first t <? c) ts).

Definition pick_transition (trs : list (list tr)) (state : nat) (c : Z) : result nat :=
  match nth_error trs state with
  | None => Internal IndexError
  | Some ts =>
      let i := bisect_tr ts c in
      let hit1 := match nth_error ts i with
                  | Some t => if c =? tr_first t then Some (tr_next t) else None
                  | None => None
                  end in
      match hit1 with
      | Some m => Ok m
      | None =>
          match i with
          | O => Internal (OtherI 1)            (* RuntimeError("We should not get here!") *)
          | S j =>
              match nth_error ts j with
              | Some t => if (tr_first t <=? c) && (c <=? tr_last t) then Ok (tr_next t)
                          else Internal (OtherI 1)
              | None => Internal IndexError
              end
          end
      end
  end.

(* whole-string acceptance: run the tables from state 0 and look up accept_states *)
Fixpoint run_from (d : dfa) (state : nat) (s : list Z) : result bool :=
  let '(trs, accepts, _) := d in
  match s with
  | [] => match nth_error accepts state with Some b => Ok b | None => Internal IndexError end
  | c :: s' => m <- pick_transition trs state c ;; run_from d m s'
  end.
Definition run (d : dfa) (s : list Z) : result bool := run_from d O s.

(* scan(prog, chars) : the list of yielded tokens, Diag when ValueError("No match!") is raised *)
Fixpoint scan_loop (fuel : nat) (d : dfa) (chars : list Z)
         (start offset state : nat) (accept : bool) (end_ : nat) (out : list (list Z))
  : result (list (list Z)) :=
  match fuel with
  | O => OutOfFuel
  | S fuel' =>
      let '(trs, accepts, error) := d in
      match nth_error accepts state with
      | None => Internal IndexError
      | Some acc_here =>
          let accept1 := if acc_here then true else accept in
          let end1 := if acc_here then offset else end_ in
          r <- match nth_error chars offset with
               | Some ch => m <- pick_transition trs state ch ;; Ok (m, S offset)
               | None => Ok (error, offset)
               end ;;
          let '(state1, offset1) := r in
          if (state1 =? error)%nat then
            if accept1 then
              scan_loop fuel' d chars end1 end1 O false end1
                        (out ++ [firstn (end1 - start) (skipn start chars)])
            else if (start <? offset1)%nat then Diag 1
            else Ok out
          else scan_loop fuel' d chars start offset1 state1 accept1 end1 out
      end
  end.
Definition scan (fuel : nat) (d : dfa) (chars : list Z) : result (list (list Z)) :=
  scan_loop fuel d chars O O O false O [].

(* ================================================================== parser.py *)
(* The text is a list of code points; self.pos is implicit (the remaining suffix).
   ValueError = Diag 1 (the parser's error); NotImplementedError = Internal. *)
Definition Symbol (c : Z) : re := Sym (mk_iset [(c, c)]).

(* eat() with c=None: next character, a backslash escapes the following one *)
Definition eat_any (txt : list Z) : result (Z * list Z) :=
  match txt with
  | [] => Diag 1
  | c :: rest =>
      if c =? ch_bslash then
        match rest with [] => Diag 1 | c2 :: rest2 => Ok (c2, rest2) end
      else Ok (c, rest)
  end.

(* while not self.peek("]"): ... ; returns the collected ranges and the text from "]" on *)
Fixpoint set_loop (fuel : nat) (txt : list Z) (acc : list (Z * Z)) : result (list (Z * Z) * list Z) :=
  match fuel with
  | O => OutOfFuel
  | S fuel' =>
      match txt with
      | c :: _ =>
          if c =? ch_rbrack then Ok (acc, txt)
          else
            '(start, rest) <- eat_any txt ;;
            match rest with
            | d :: rest1 =>
                if d =? ch_minus then
                  '(stop, rest2) <- eat_any rest1 ;;
                  if start <? stop then set_loop fuel' rest2 (acc ++ [(start, stop)])
                  else Diag 1
                else set_loop fuel' rest (acc ++ [(start, start)])
            | [] => set_loop fuel' rest (acc ++ [(start, start)])
            end
      | [] => Diag 1       (* peek fails at the end, eat() raises "At end of string!" *)
      end
  end.

(* _parse_set; txt starts with "[" *)
Definition parse_set (fuel : nat) (txt : list Z) : result (re * list Z) :=
  match txt with
  | [] => Diag 1
  | _ :: rest0 =>
      let '(complement, rest1) :=
        match rest0 with
        | c :: r => if c =? ch_caret then (true, r) else (false, rest0)
        | [] => (false, rest0)
        end in
      '(rs, rest2) <- set_loop fuel rest1 [] ;;
      match rest2 with
      | [] => Diag 1
      | _ :: rest3 =>                (* eat("]") *)
          match rs with
          | [] => Diag 1
          | _ => if complement then Internal NotImplemented else Ok (Sym (mk_iset rs), rest3)
          end
      end
  end.

(* _parse_modifier *)
Definition parse_modifier (e : re) (txt : list Z) : re * list Z :=
  match txt with
  | c :: rest =>
      if c =? ch_star then (Star e, rest)
      else if c =? ch_plus then (concatenate e (Star e), rest)
      else if c =? ch_qmark then (logical_or e Eps, rest)
      else (e, txt)
  | [] => (e, txt)
  end.

(* ---- the parser with the precedence repair (fixes/C31-regex-parser-precedence.diff):
        _parse_or  : _parse_and ('|' _parse_and)*
        _parse_and : elements until '|' , ')' or the end of the text *)
Fixpoint parse_or (fuel : nat) (txt : list Z) : result (re * list Z) :=
  match fuel with
  | O => OutOfFuel
  | S f => '(e, rest) <- parse_and f Eps txt ;; or_loop f e rest
  end
with or_loop (fuel : nat) (e : re) (txt : list Z) : result (re * list Z) :=
  match fuel with
  | O => OutOfFuel
  | S f =>
      match txt with
      | c :: rest =>
          if c =? ch_bar then
            '(r, rest') <- parse_and f Eps rest ;; or_loop f (logical_or e r) rest'
          else Ok (e, txt)
      | [] => Ok (e, txt)
      end
  end
with parse_and (fuel : nat) (acc : re) (txt : list Z) : result (re * list Z) :=
  match fuel with
  | O => OutOfFuel
  | S f =>
      match txt with
      | [] => Ok (acc, txt)
      | c :: _ =>
          if (c =? ch_bar) || (c =? ch_rpar) then Ok (acc, txt)
          else '(e, rest) <- parse_element f txt ;; parse_and f (concatenate acc e) rest
      end
  end
with parse_element (fuel : nat) (txt : list Z) : result (re * list Z) :=
  match fuel with
  | O => OutOfFuel
  | S f =>
      '(e, rest) <-
        match txt with
        | c :: rest =>
            if c =? ch_lpar then
              '(e, rest') <- parse_or f rest ;;
              match rest' with
              | d :: rest2 => if d =? ch_rpar then Ok (e, rest2) else Diag 1
              | [] => Diag 1
              end
            else if c =? ch_lbrack then parse_set f txt
            else if c =? ch_dot then Ok (SIGMA, rest)
            else '(sym, rest') <- eat_any txt ;; Ok (Symbol sym, rest')
        | [] => Diag 1
        end ;;
      Ok (parse_modifier e rest)
  end.

Definition parse (fuel : nat) (txt : list Z) : result re :=
  '(e, rest) <- parse_or fuel txt ;;
  match rest with [] => Ok e | _ => Diag 1 end.

(* ---- the parser as found (before the repair): _parse_and parses ONE element, and only the
        top-level loop of parse() concatenates; kept for the refutation theorem *)
Fixpoint orig_parse_or (fuel : nat) (txt : list Z) : result (re * list Z) :=
  match fuel with
  | O => OutOfFuel
  | S f => '(e, rest) <- orig_parse_element f txt ;; orig_or_loop f e rest
  end
with orig_or_loop (fuel : nat) (e : re) (txt : list Z) : result (re * list Z) :=
  match fuel with
  | O => OutOfFuel
  | S f =>
      match txt with
      | c :: rest =>
          if c =? ch_bar then
            '(r, rest') <- orig_parse_element f rest ;; orig_or_loop f (logical_or e r) rest'
          else Ok (e, txt)
      | [] => Ok (e, txt)
      end
  end
with orig_parse_element (fuel : nat) (txt : list Z) : result (re * list Z) :=
  match fuel with
  | O => OutOfFuel
  | S f =>
      '(e, rest) <-
        match txt with
        | c :: rest =>
            if c =? ch_lpar then
              '(e, rest') <- orig_parse_or f rest ;;
              match rest' with
              | d :: rest2 => if d =? ch_rpar then Ok (e, rest2) else Diag 1
              | [] => Diag 1
              end
            else if c =? ch_lbrack then parse_set f txt
            else if c =? ch_dot then Ok (SIGMA, rest)
            else '(sym, rest') <- eat_any txt ;; Ok (Symbol sym, rest')
        | [] => Diag 1
        end ;;
      Ok (parse_modifier e rest)
  end.

Fixpoint orig_top_loop (fuel : nat) (e : re) (txt : list Z) : result re :=
  match fuel with
  | O => OutOfFuel
  | S f =>
      match txt with
      | [] => Ok e
      | _ => '(e2, rest) <- orig_parse_or f txt ;; orig_top_loop f (concatenate e e2) rest
      end
  end.
Definition orig_parse (fuel : nat) (txt : list Z) : result re :=
  match txt with
  | [] => Ok Eps
  | _ => '(e, rest) <- orig_parse_or fuel txt ;; orig_top_loop fuel e rest
  end.

(* ================================================================== repaired variants
   (fixes/C31-regex-compile-error-state.diff, fixes/C31-regex-scan-empty-match.diff);
   the definitions above stay the model of the code as found. *)

(* compile(): when the error state was not reached it is appended after the loop, with the
   transitions of its own derivative classes (all of them lead back to it) *)
Definition null_row (n : nat) : list tr :=
  sort_tr (flat_map (fun K => map (fun r => (fst r, snd r, n)) K) (classes NULL)).

Definition compile_fx (fuel : nat) (r : re) : result dfa :=
  st <- compile_loop fuel ([r], [[]], [r]) ;;
  let '(states, trs, _) := st in
  match index_of NULL states O with
  | Some e => Ok (trs, map nullable states, e)
  | None => Ok (trs ++ [null_row (length states)], map nullable (states ++ [NULL]), length states)
  end.

(* scan(): an empty longest match counts as no match *)
Fixpoint scan_loop_fx (fuel : nat) (d : dfa) (chars : list Z)
         (start offset state : nat) (accept : bool) (end_ : nat) (out : list (list Z))
  : result (list (list Z)) :=
  match fuel with
  | O => OutOfFuel
  | S fuel' =>
      let '(trs, accepts, error) := d in
      match nth_error accepts state with
      | None => Internal IndexError
      | Some acc_here =>
          let accept1 := if acc_here then true else accept in
          let end1 := if acc_here then offset else end_ in
          r <- match nth_error chars offset with
               | Some ch => m <- pick_transition trs state ch ;; Ok (m, S offset)
               | None => Ok (error, offset)
               end ;;
          let '(state1, offset1) := r in
          if (state1 =? error)%nat then
            if accept1 && (start <? end1)%nat then
              scan_loop_fx fuel' d chars end1 end1 O false end1
                           (out ++ [firstn (end1 - start) (skipn start chars)])
            else if (start <? offset1)%nat then Diag 1
            else Ok out
          else scan_loop_fx fuel' d chars start offset1 state1 accept1 end1 out
      end
  end.
Definition scan_fx (fuel : nat) (d : dfa) (chars : list Z) : result (list (list Z)) :=
  scan_loop_fx fuel d chars O O O false O [].
