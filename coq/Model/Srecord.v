(* Model/Srecord.v — hand model (tie H) of ppci/format/srecord.py, function by function.
   value_to_bytes_big_endian is the py2coq-generated Gen.bitfun definition (tie T).
   The object is abstracted to the two attributes write_srecord reads:
   base = obj.get_section("code").address, code = obj.get_section("code").data.
   print(line, file=f) is modelled as the list of lines written.
   [write_srecord] follows the source with fixes C19-1..3 applied; [write_srecord_orig] is the
   writer as it was before the fixes (kept for the refutation theorems). *)
From PV Require Import Lib.Py Gen.bitfun.
From Coq Require Import String Ascii.
Open Scope Z_scope.

Record SRecord := mkSRecord { typ : Z; address : Z; data : list Z }.

(* SRecord.address_byte_sizes *)
Definition address_byte_sizes (t : Z) : option Z :=
  if t =? 0 then Some 2 else if t =? 1 then Some 2 else if t =? 2 then Some 3
  else if t =? 3 then Some 4 else if t =? 5 then Some 2 else if t =? 6 then Some 3
  else if t =? 7 then Some 4 else if t =? 8 then Some 3 else if t =? 9 then Some 2
  else None.

(* SRecord.__init__ : raise ValueError for an unknown type *)
Definition SRecord_init (t a : Z) (d : list Z) : result SRecord :=
  match address_byte_sizes t with
  | Some _ => Ok (mkSRecord t a d)
  | None => Diag 1
  end.

(* binascii.hexlify(data).decode("ascii").upper() *)
Definition hexdigit (n : Z) : ascii :=
  ascii_of_nat (Z.to_nat (if n <? 10 then 48 + n else 55 + n)).
Fixpoint hexlify_upper (bs : list Z) : string :=
  match bs with
  | [] => EmptyString
  | b :: r => String (hexdigit (b / 16)) (String (hexdigit (b mod 16)) (hexlify_upper r))
  end.

(* the bytes object built by to_line before hexlify: count, address, data, crc *)
Definition to_line_bytes (r : SRecord) : result (list Z) :=
  match address_byte_sizes (typ r) with
  | None => Internal KeyError
  | Some addr_size =>
      addr_data <- value_to_bytes_big_endian (address r) addr_size ;;
      let d := addr_data ++ data r in
      let count := len d + 1 in
      guard (is_byte count) (Internal ValueErrorI) (      (* bytes([count]) *)
      let d := count :: d in
      let crc := sumZ d in
      let crc := Z.land (Z.lnot crc) 255 in
      Ok (d ++ [crc]))
  end.

(* f"S{self.typ}{txt_data}" ; typ is one of 0..9 after __init__ *)
Definition to_line (r : SRecord) : result string :=
  bs <- to_line_bytes r ;;
  Ok (String "S" (String (ascii_of_nat (Z.to_nat (48 + typ r))) (hexlify_upper bs))).

(* utils.chunk.chunks(data, size=30) *)
Definition chunks (d : list Z) : list (list Z) :=
  map (fun i => sliceZ d i (i + 30)) (rangeZ_step 0 (len d) 30).

(* the for loop: one record per chunk, address += len(chunk) *)
Fixpoint data_lines (data_typ : Z) (chs : list (list Z)) (addr : Z) : result (list string) :=
  match chs with
  | [] => Ok []
  | c :: r =>
      rcd <- SRecord_init data_typ addr c ;;
      l <- to_line rcd ;;
      ls <- data_lines data_typ r (addr + len c) ;;
      Ok (l :: ls)
  end.

Definition HDR : list Z := [72; 68; 82].

Definition write_srecord (base : Z) (code : list Z) : result (list string) :=
  let end_address := base + len code in
  types <- (if end_address <=? 65536 then Ok (1, 9)
            else if end_address <=? 16777216 then Ok (2, 8)
            else if end_address <=? 4294967296 then Ok (3, 7)
            else Diag 1) ;;
  let '(data_typ, end_typ) := types in
  r0 <- SRecord_init 0 0 HDR ;;
  l0 <- to_line r0 ;;
  ls <- data_lines data_typ (chunks code) base ;;
  r9 <- SRecord_init end_typ 0 [] ;;
  l9 <- to_line r9 ;;
  Ok (l0 :: ls ++ [l9]).

(* the writer before the fixes: header as S1, always S1/S9, addresses from 0 *)
Definition write_srecord_orig (code : list Z) : result (list string) :=
  r0 <- SRecord_init 1 0 HDR ;;
  l0 <- to_line r0 ;;
  ls <- data_lines 1 (chunks code) 0 ;;
  r9 <- SRecord_init 9 0 [] ;;
  l9 <- to_line r9 ;;
  Ok (l0 :: ls ++ [l9]).
