(* Model/WasmBinVal.v — C21: rendering of the model's values as [val] for the correspondence
   case files (the check renders the implementation's objects the same way). Definitions only. *)
From PV Require Import Lib.Py Lib.Val Model.WasmTypes Model.WasmBin.
From Coq Require Import String.
Local Open Scope string_scope.
Local Open Scope list_scope.
Open Scope Z_scope.

Definition ref_val (r : ref) : val := VT [VS (fst r); VZ (snd r)].
Definition bytes_val (b : bytes) : val := VL (map VZ b).
Definition optz_val (o : option Z) : val := match o with Some z => VZ z | None => VNone end.

Definition arg_val (a : arg) : val :=
  match a with
  | AInt z => VT [VS "i"; VZ z]
  | AStr s => VT [VS "s"; VS s]
  | ARef sp i => VT [VS "r"; VS sp; VZ i]
  | AFloat raw => VT [VS "f"; bytes_val raw]
  | ARefs l => VT [VS "rs"; VL (map ref_val l)]
  | AStrs l => VT [VS "ss"; VL (map VS l)]
  | ABytes l => VT [VS "b"; bytes_val l]
  end.

Definition instr_val (i : instr) : val := VT [VS (i_op i); VL (map arg_val (i_args i))].
Definition expr_val (l : list instr) : val := VL (map instr_val l).

Definition defn_val (d : defn) : val :=
  match d with
  | DType params results => VT [VS "type"; VL (map VS params); VL (map VS results)]
  | DImport modname name info =>
      VT [VS "import"; bytes_val modname; bytes_val name;
          match info with
          | IFunc r => VT [VS "func"; ref_val r]
          | ITable k mn mx => VT [VS "table"; VS k; VZ mn; optz_val mx]
          | IMemory mn mx => VT [VS "memory"; VZ mn; optz_val mx]
          | IGlobal t m => VT [VS "global"; VS t; VB m]
          end]
  | DTable k mn mx => VT [VS "table"; VS k; VZ mn; optz_val mx]
  | DMemory mn mx => VT [VS "memory"; VZ mn; optz_val mx]
  | DGlobal t m init => VT [VS "global"; VS t; VB m; expr_val init]
  | DExport name kind r => VT [VS "export"; bytes_val name; VS kind; ref_val r]
  | DStart r => VT [VS "start"; ref_val r]
  | DElem tab offset refs => VT [VS "elem"; ref_val tab; expr_val offset; VL (map ref_val refs)]
  | DFunc r locals instructions => VT [VS "func"; ref_val r; VL (map VS locals); expr_val instructions]
  | DData mode data =>
      VT [VS "data";
          match mode with
          | Some (r, offset) => VT [ref_val r; expr_val offset]
          | None => VNone
          end; bytes_val data]
  | DDataCount n => VT [VS "datacount"; VZ n]
  | DCustom name data => VT [VS "custom"; bytes_val name; bytes_val data]
  end.

#[global] Instance ToVal_arg : ToVal arg := arg_val.
#[global] Instance ToVal_instr : ToVal instr := instr_val.
#[global] Instance ToVal_defn : ToVal defn := defn_val.

(* reader results: value and number of unread bytes *)
Definition rd_val {A} `{ToVal A} (r : result (A * bytes)) : val :=
  match r with
  | Ok (a, rest) => VOk (VT [toval a; VZ (len rest)])
  | Diag _ => VDiag
  | Internal _ => VInternal
  | OutOfFuel => VFuel
  end.

(* ---- compact case format: byte strings are passed as hexadecimal string literals ---- *)
Definition hexdigit (n : Z) : Ascii.ascii :=
  Ascii.ascii_of_nat (Z.to_nat (if n <? 10 then 48 + n else 87 + n)).
Fixpoint hex_of_bytes (b : bytes) : string :=
  match b with
  | [] => EmptyString
  | x :: r => String (hexdigit (x / 16)) (String (hexdigit (x mod 16)) (hex_of_bytes r))
  end.
Definition digit_of (c : Ascii.ascii) : Z :=
  let n := Z.of_nat (Ascii.nat_of_ascii c) in if n <? 58 then n - 48 else n - 87.
Fixpoint bytes_of_hex (s : string) : bytes :=
  match s with
  | String a (String b r) => (16 * digit_of a + digit_of b) :: bytes_of_hex r
  | _ => []
  end.

Definition res_hex (r : result bytes) : result string :=
  match r with
  | Ok b => Ok (hex_of_bytes b)
  | Diag c => Diag c
  | Internal e => Internal e
  | OutOfFuel => OutOfFuel
  end.

(* model writer output = the implementation's bytes *)
Definition corr_write (defs : list defn) (hex : string) : bool :=
  match write_module defs with
  | Ok b => String.eqb (hex_of_bytes b) hex
  | _ => false
  end.

(* model reader output = the implementation's re-read definitions *)
Definition corr_read (hex : string) (defs : list defn) : bool :=
  val_eqb (toval (read_module (S (List.length (bytes_of_hex hex))) (bytes_of_hex hex)))
          (toval (Ok (A:=list defn) defs)).

(* outcome class of reading arbitrary bytes *)
Definition read_outcome (hex : string) : val :=
  match read_module (S (List.length (bytes_of_hex hex))) (bytes_of_hex hex) with
  | Ok _ => VOk VNone
  | Diag _ => VDiag
  | Internal _ => VInternal
  | OutOfFuel => VFuel
  end.
