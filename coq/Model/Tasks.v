(* Model/Tasks.v — hand model (tie H) of ppci/build/tasks.py: Project.dfs / check_target /
   dependencies, Target.__gt__, TaskRunner.run.  Executable Gallina, no proofs.

   Two models live here:
   * [Orig]  — the code as found in /repo before the C34 fix (visited-set "loop" detection,
               transitive closure, list.sort() with a partial-order __gt__).  The refuted
               theorems are about this model.
   * (top)   — the code after fixes/C34-dfs-order.diff (DFS with an on-stack list and
               post-order output, no sort).  The positive theorems are about this model.
   tools/props/c34.py checks the implementation's execution history against the model that
   matches the tree under test.

   Abstractions (see TRUSTED in tools/props/c34.py):
   - target names are Z (Python: str); only ==/hash are used on names.
   - a Python set is a list; iteration order of Target.dependencies is the order of the
     dependency list in the graph; the iteration order of the target set built in the original
     TaskRunner.run is the extra argument [pi].
   - "executing a target" = appending its name to the history (each target has tasks that run
     in sequence; tasks do not fail in this model).
   - errors: TaskError "Dependency loop detected" = Diag 1, TaskError "target not found" = Diag 2. *)
From PV Require Import Lib.Py Lib.Val Spec.BuildSpec.
Open Scope Z_scope.

Definition mem (x : name) (l : list name) : bool := existsb (Z.eqb x) l.

Definition E_LOOP : Z := 1.
Definition E_NOTFOUND : Z := 2.

(* TaskRunner.run, first lines: explicit targets, else project.default, else nothing *)
Definition effective (dflt : option name) (req : list name) : list name :=
  match req with
  | _ :: _ => req
  | [] => match dflt with Some d => [d] | None => [] end
  end.

(* ------------------------------------------------------------------------------------ *)
(*  model of the fixed code                                                              *)
(* ------------------------------------------------------------------------------------ *)

(*  for dep in deps:
        if dep in stack: raise TaskError("Dependency loop detected ...")
        if dep not in order: self.dfs(dep, stack, order)
    [rec d order] is the recursive call, [stack] already contains the current target.
    The same loop with stack = [] is Project.target_order's loop over the requested names. *)
Fixpoint dfs_deps (rec : name -> list name -> result (list name)) (stack : list name)
         (ds : list name) (order : list name) : result (list name) :=
  match ds with
  | [] => Ok order
  | d :: r =>
      if mem d stack then Diag E_LOOP
      else if mem d order then dfs_deps rec stack r order
      else o <- rec d order ;; dfs_deps rec stack r o
  end.

(*  def dfs(self, target_name, stack, order):
        stack.append(target_name)
        target = self.get_target(target_name)          # TaskError when missing
        for dep in target.dependencies: ...            # dfs_deps
        stack.pop()
        order.append(target_name)
    [stack] is passed down functionally: push/pop are balanced, and after an exception the
    lists are dropped.  Returns the new [order]. *)
Fixpoint dfs (fuel : nat) (g : graph) (n : name) (stack order : list name)
  : result (list name) :=
  match fuel with
  | O => OutOfFuel
  | S f =>
      match lookup g n with
      | None => Diag E_NOTFOUND
      | Some ds =>
          o <- dfs_deps (fun d o => dfs f g d (n :: stack) o) (n :: stack) ds order ;;
          Ok (o ++ [n])
      end
  end.

(*  def target_order(self, target_names):
        order = []
        for target_name in target_names:
            if target_name not in order: self.dfs(target_name, [], order)
        return order                                                              *)
Definition target_order (fuel : nat) (g : graph) (req : list name) : result (list name) :=
  dfs_deps (fun d o => dfs fuel g d [] o) [] req [].

(*  def check_target(self, target_name): self.target_order([target_name]) *)
Definition check_target (fuel : nat) (g : graph) (n : name) : result unit :=
  _ <- target_order fuel g [n] ;; Ok tt.

(* TaskRunner.run: the history of executed targets (or the error) *)
Definition run_fuel (fuel : nat) (g : graph) (dflt : option name) (req : list name)
  : result (list name) :=
  target_order fuel g (effective dflt req).

(* recursion depth is bounded by the number of targets + 1 *)
Definition run (g : graph) (dflt : option name) (req : list name) : result (list name) :=
  run_fuel (S (length g)) g dflt req.

(* ------------------------------------------------------------------------------------ *)
(*  model of the original code (before the fix)                                          *)
(* ------------------------------------------------------------------------------------ *)
Module Orig.

(*  def dfs(self, target_name, state):
        state.add(target_name)
        target = self.get_target(target_name)
        for dep in target.dependencies:
            if dep in state: raise TaskError("Dependency loop detected ...")
            self.dfs(dep, state)
    [state] is one mutable set shared by the whole walk: threaded through and returned. *)
Fixpoint dfs_deps (rec : name -> list name -> result (list name))
         (ds : list name) (state : list name) : result (list name) :=
  match ds with
  | [] => Ok state
  | d :: r =>
      if mem d state then Diag E_LOOP
      else st <- rec d state ;; dfs_deps rec r st
  end.

Fixpoint dfs (fuel : nat) (g : graph) (n : name) (state : list name) : result (list name) :=
  match fuel with
  | O => OutOfFuel
  | S f =>
      let state := n :: state in
      match lookup g n with
      | None => Diag E_NOTFOUND
      | Some ds => dfs_deps (dfs f g) ds state
      end
  end.

(*  def check_target(self, target_name): state = set(); self.dfs(target_name, state) *)
Definition check_target (fuel : nat) (g : graph) (n : name) : result unit :=
  _ <- dfs fuel g n [] ;; Ok tt.

Fixpoint check_all (fuel : nat) (g : graph) (req : list name) : result unit :=
  match req with
  | [] => Ok tt
  | r :: rs => _ <- check_target fuel g r ;; check_all fuel g rs
  end.

(*  def dependencies(self, target_name):
        target = self.get_target(target_name)
        cdst = [self.dependencies(dep) for dep in target.dependencies]
        cdst.append(target.dependencies)
        return set.union( *cdst)
    (diverges on a cycle: the model then runs out of fuel).  The set is a list with possible
    repetitions; it is only used for membership and to form the target set. *)
Fixpoint map_res {A B} (f : A -> result B) (l : list A) : result (list B) :=
  match l with
  | [] => Ok []
  | x :: r => y <- f x ;; ys <- map_res f r ;; Ok (y :: ys)
  end.

Fixpoint dependencies (fuel : nat) (g : graph) (n : name) : result (list name) :=
  match fuel with
  | O => OutOfFuel
  | S f =>
      match lookup g n with
      | None => Diag E_NOTFOUND
      | Some ds => cdst <- map_res (dependencies f g) ds ;; Ok (concat cdst ++ ds)
      end
  end.

(* ---- list.sort() of CPython 3.12 for fewer than 64 elements (Objects/listobject.c):
   minrun = n, so: count_run on the whole list (reverse it when strictly descending), then
   binarysort (binary insertion) of the remaining elements.  Only ISLT(x, y) is used. ---- *)
Section Sort.
  Variable lt : name -> name -> bool.

  (* the ascending branch: extend while not (next < prev) *)
  Fixpoint asc_run (prev : name) (rest : list name) (n : nat) : nat :=
    match rest with
    | [] => n
    | c :: r => if lt c prev then n else asc_run c r (S n)
    end.
  (* the descending branch: extend while next < prev *)
  Fixpoint desc_run (prev : name) (rest : list name) (n : nat) : nat :=
    match rest with
    | [] => n
    | c :: r => if lt c prev then desc_run c r (S n) else n
    end.
  Definition count_run (l : list name) : nat * bool :=
    match l with
    | [] => (O, false)
    | [_] => (1%nat, false)
    | a :: b :: r => if lt b a then (desc_run b r 2, true) else (asc_run b r 2, false)
    end.

  (* do { p = l + ((r - l) >> 1); if (pivot < *p) r = p; else l = p + 1; } while (l < r) *)
  Fixpoint bsearch (fuel : nat) (pre : list name) (pivot : name) (l r : nat) : nat :=
    match fuel with
    | O => l
    | S f =>
        if (l <? r)%nat then
          let p := (l + (r - l) / 2)%nat in
          if lt pivot (nth p pre 0) then bsearch f pre pivot l p
          else bsearch f pre pivot (S p) r
        else l
    end.
  Fixpoint binarysort (pre rest : list name) : list name :=
    match rest with
    | [] => pre
    | x :: r =>
        let k := bsearch (S (length pre)) pre x O (length pre) in
        binarysort (firstn k pre ++ x :: skipn k pre) r
    end.
  Definition py_sort (l : list name) : list name :=
    let '(n, descending) := count_run l in
    let run := firstn n l in
    binarysort (if descending then rev run else run) (skipn n l).
End Sort.

(* pi enumerates the set s exactly once *)
Definition enumerates (pi s : list name) : bool :=
  forallb (fun x => mem x s) pi && forallb (fun x => mem x pi) s &&
  (fix nodup (l : list name) : bool :=
     match l with [] => true | x :: r => negb (mem x r) && nodup r end) pi.

Definition tbl_lookup (tbl : list (name * list name)) (n : name) : list name :=
  match lookup tbl n with Some l => l | None => [] end.

(*  TaskRunner.run(project, targets).  [pi] = iteration order of the set
        set.union( *[project.dependencies(t) for t in target_list]).union(set(target_list)).
    x < y on Targets: Target defines only __gt__, so CPython evaluates y.__gt__(x), i.e.
    x.name in project.dependencies(y.name).  dependencies() is pure, so its values for the
    elements of the list are tabulated once instead of per comparison (it has already
    succeeded for every reachable target at that point). *)
Definition run_fuel (fuel : nat) (g : graph) (dflt : option name) (req pi : list name)
  : result (list name) :=
  let req := effective dflt req in
  match req with
  | [] => Ok []                                   (* "No targets to run!" *)
  | _ =>
      _ <- check_all fuel g req ;;
      dsets <- map_res (dependencies fuel g) req ;;
      let s := concat dsets ++ req in
      if negb (enumerates pi s) then Internal (OtherI 1)      (* model artefact: bad pi *)
      else if (64 <=? length pi)%nat then Internal (OtherI 64) (* sort model covers n < 64 *)
      else
        tbl <- map_res (fun n => d <- dependencies fuel g n ;; Ok (n, d)) pi ;;
        Ok (py_sort (fun x y => mem x (tbl_lookup tbl y)) pi)
  end.

Definition run (g : graph) (dflt : option name) (req pi : list name) : result (list name) :=
  run_fuel (S (length g)) g dflt req pi.

End Orig.

(* ---- rendering for the correspondence: ("ok", history) | ("loop") | ("notfound") ---- *)
Definition show (r : result (list name)) : val :=
  match r with
  | Ok h => VT [VZ 0; toval h]
  | Diag c => VT [VZ c]
  | Internal _ => VInternal
  | OutOfFuel => VFuel
  end.
