(* Model/C3Stmt.v -- hand model (tie H) of the statement path of the C3 front-end
   (typechecker.check_stmt + codegenerator.gen_stmt: gen_assignment_stmt, gen_if_stmt, gen_while,
   gen_for_stmt, gen_switch_stmt, gen_return_stmt, Compound) on int/byte/bool variables.
   NO proofs here.  [compile w rt d s k] = the code emitted for s when the code that follows it
   is k (everything emitted after s ends up in the block gen_stmt leaves current), inside d
   enclosing loops; the result is a Model/StmtCode.v tree (CFG unfolded along forward edges).
   Expression values and conditions come from Model/C3Lower.v ([lower]); the right-hand side of
   an assignment and the operand of return are coerced with typechecker.do_coerce
   ([coerce_tree]).  gen_switch_stmt evaluates the expression once into an SSA value (register
   2d) and tests it against Const(case label) in source order, falling to the default block.
   After `return` the front-end opens a fresh block that nothing jumps to: k is dropped. *)
From PV Require Import Lib.Py Lib.Val Spec.IRSyntax Spec.IRSem Spec.C3Spec Spec.C3StmtSpec
  Model.C3Lower Model.StmtCode.
Open Scope Z_scope.

Definition ccode := code ltree.

(* gen_cond_code's CJump tree with the two target blocks' code at the leaves *)
Fixpoint graft (t : ktree) (ky kn : ccode) : ccode :=
  match t with
  | KYes => ky
  | KNo => kn
  | C3Lower.KCJ c a b y n => StmtCode.KCJ c a b (graft y ky kn) (graft n ky kn)
  end.

Definition sw_reg (d : nat) : nat := (2 * d)%nat.

(* the test blocks of gen_switch_stmt: CJump(ir_val == Const(label)) in source order, the last
   test block jumps to the default block; [f s1] = code of a case body *)
Definition sw_chain (f : cstmt -> option ccode) (dflt : option ccode) (d : nat) :
    list (Z * cstmt) -> option ccode :=
  fix chain (l : list (Z * cstmt)) : option ccode :=
  match l with
  | [] => dflt
  | (z, s1) :: r =>
      match f s1, chain r with
      | Some c1, Some cr => Some (KRCJ Ceq (RReg (sw_reg d)) (RConst z) c1 cr)
      | _, _ => None
      end
  end.

(* astnodes.Assignment.operators = ("=", "|=", "&=", "+=", "-=", "*=") *)
Definition shorthand_ok (o : cbin) : bool :=
  match o with BAdd | BSub | BMul | BAnd | BOr => true | _ => false end.

Fixpoint compile (w : Z) (rt : cty) (d : nat) (s : cstmt) (k : ccode) : option ccode :=
  match s with
  | SSkip => Some k
  | SAssign x t e =>
      match lower w e with
      | Some (te, ve, _) =>
          match coerce_tree w te t ve with
          | Some ce => Some (KStore x ce k)
          | None => None
          end
      | None => None
      end
  | SSeq a b =>
      match compile w rt d b k with
      | Some kb => compile w rt d a kb
      | None => None
      end
  | SIf c a b =>
      match lower w c, compile w rt d a k, compile w rt d b k with
      | Some (CBool, _, kc), Some ca, Some cb => Some (graft (kc KYes KNo) ca cb)
      | _, _, _ => None
      end
  | SWhile c b =>
      match lower w c, compile w rt (S d) b (KBack d) with
      | Some (CBool, _, kc), Some cb => Some (KLoop d (graft (kc KYes KNo) cb k))
      | _, _ => None
      end
  | SFor init c step body =>
      (* gen(init); Jump test; test: gen_cond(main, final); main: gen(body); gen(step); Jump test *)
      match compile w rt (S d) step (KBack d) with
      | Some cs =>
          match lower w c, compile w rt (S d) body cs with
          | Some (CBool, _, kc), Some cb =>
              compile w rt d init (KLoop d (graft (kc KYes KNo) cb k))
          | _, _ => None
          end
      | None => None
      end
  | SSwitch e cases dflt =>
      match lower w e with
      | Some (CInt, ve, _) =>
          match sw_chain (fun s1 => compile w rt d s1 k) (compile w rt d dflt k) d cases with
          | Some cc => Some (KSet (sw_reg d) ve cc)
          | None => None
          end
      | _ => None
      end
  | SRet e =>
      match lower w e with
      | Some (te, ve, _) =>
          match coerce_tree w te rt ve with
          | Some ce => Some (KRet ce)
          | None => None
          end
      | None => None
      end
  | SAssignOp x t o e =>
      (* gen_assignment_stmt with is_shorthand: rval (coerced to the type of the target by the type
         checker), then Load of the target, Binop(load, op, rval) in that type, Store *)
      if shorthand_ok o && numeric t then
        match lower w e, ir_ty w t with
        | Some (te, ve, _), Some vt =>
            match coerce_tree w te t ve with
            | Some ce => Some (KStore x (LBin vt (binop_of o) (LVar vt x) ce) k)
            | None => None
            end
        | _, _ => None
        end
      else None
  end.

(* constants and registers of a switch live in the int type *)
Definition wrap_int (w : Z) (z : Z) : Z := normt w CInt z.
(* calls are not modelled for C3: empty function table *)
Notation cruns w := (runs ltree eval_l (wrap_int w) (fun _ => None)).

(* rendering for the structural comparison with decompiled c3_to_ir output *)
From Coq Require Import String.
Fixpoint ltree_val (t : ltree) : val :=
  match t with
  | LConst ty z => VT [VS "c"; VS (ty_name ty); VZ z]
  | LVar ty n => VT [VS "v"; VS (ty_name ty); toval n]
  | LBin ty o a b => VT [VS "b"; VS (ty_name ty); VS (binop_name o); ltree_val a; ltree_val b]
  | LNeg ty a => VT [VS "n"; VS (ty_name ty); ltree_val a]
  | LCast ty a => VT [VS "k"; VS (ty_name ty); ltree_val a]
  | LBoolVal ty _ => VT [VS "B"; VS (ty_name ty)]
  end.
Definition compile_val (w : Z) (rt : cty) (s : cstmt) : val :=
  match compile w rt 0 s KStuck with
  | Some c => code_val ltree_val c
  | None => VDiag
  end.
