(* C29 — check of the rules InstructionSelector1 synthesizes (UND<ty>, CALL, ASM) against the target's
   type -> register class map (no proofs).  A row is (operator, type, rule non-terminal, class of the register
   the rule's template returned when the exporter executed it).  A UND<ty> rule is good when the produced
   class is value_classes[ty] (ty_cls of the target description) and its non-terminal is the name of a register
   class of that type; CALL/ASM must derive stm.  [synth_bad] lists the operators of the bad rows. *)
From Coq Require Import String List Bool.
From PV Require Import Spec.BurgCoverSpec Spec.IRTrees.
Import ListNotations.
Local Open Scope string_scope.

Definition cls_of_type (d : tdesc) (ty : string) : option string :=
  match find (fun t => String.eqb (ty_name t) ty) (td_types d) with
  | Some t => Some (ty_cls t)
  | None => None
  end.

Definition synth_row_ok (d : tdesc) (clsnt : list (string * string)) (r : string * string * string * string) : bool :=
  match r with
  | (op, ty, nt, cls) =>
      if String.eqb op "CALL" || String.eqb op "ASM" then String.eqb nt "stm"
      else match cls_of_type d ty with
           | Some c => String.eqb c cls &&
                       existsb (fun p => String.eqb (fst p) nt && String.eqb (snd p) cls) clsnt
           | None => false
           end
  end.

Definition synth_bad (d : tdesc) (clsnt : list (string * string))
           (rows : list (string * string * string * string)) : list string :=
  map (fun r => fst (fst (fst r))) (filter (fun r => negb (synth_row_ok d clsnt r)) rows).

(* every value type of the target has its UND rule *)
Definition synth_complete (d : tdesc) (rows : list (string * string * string * string)) : bool :=
  forallb (fun t => existsb (fun r => String.eqb (fst (fst (fst r))) ("UND" ++ ty_name t)) rows) (td_types d).
