(* Model/Ir2PyRot.v — hand model (tie H) of the REPAIRED rol/ror lowering of ir2py
   (fixes/C24-rol-ror.diff): the runtime helpers irol / iror (the text below is the py2coq
   translation of the helpers the repaired generate_builtins emits; when the tree under test emits
   them, the check compares these definitions with the executed helpers) and the two statements
   gen_binop emits for "rol" / "ror":   r = rt.irol(a, b, <bits>) ; r = rt.correct(r, <bits>, <signed>).
   /repo before the repair emits "r = a rol b" (Model.Ir2Py.gen_binop, c24_binop_rol_refuted). *)
From PV Require Import Lib.Py Spec.IRSemArith Gen.ir2py_runtime Model.Ir2Py.
From Coq Require Import String.
Open Scope Z_scope.

Definition irol_m (x : Z) (amount : Z) (bits : Z) :=
  guard (negb (bits =? 0)) (Internal ZeroDiv) (
  let amount := (amount mod bits) in
  guard (0 <=? bits) (Internal ValueErrorI) (
  guard (negb ((Z.shiftl 1 bits) =? 0)) (Internal ZeroDiv) (
  let x := (x mod (Z.shiftl 1 bits)) in
  guard (0 <=? amount) (Internal ValueErrorI) (
  guard (0 <=? (bits - amount)) (Internal ValueErrorI) (
  Ok ((Z.lor (Z.shiftl x amount) (Z.shiftr x (bits - amount))))))))).

Definition iror_m (x : Z) (amount : Z) (bits : Z) :=
  guard (negb (bits =? 0)) (Internal ZeroDiv) (
  let amount := (amount mod bits) in
  guard (0 <=? bits) (Internal ValueErrorI) (
  guard (negb ((Z.shiftl 1 bits) =? 0)) (Internal ZeroDiv) (
  let x := (x mod (Z.shiftl 1 bits)) in
  guard (0 <=? amount) (Internal ValueErrorI) (
  guard (0 <=? (bits - amount)) (Internal ValueErrorI) (
  Ok ((Z.lor (Z.shiftr x amount) (Z.shiftl x (bits - amount))))))))).

(* the two emitted lines *)
Definition rot_lines (op : binop) (name a b : string) (t : ity) : list string :=
  [(name ++ " = rt." ++ (match op with Ror => "iror" | _ => "irol" end) ++ "(" ++ a ++ ", " ++ b ++ ", "
    ++ show_Z (bits t) ++ ")")%string;
   show_stmt (SAssign name (ECorrect (EVar name) (bits t) (signed t)))].

(* their meaning on integer operands *)
Definition py_rot (op : binop) (t : ity) (a b : Z) : result Z :=
  r <- (match op with
        | Rol => irol_m a b (bits t)
        | Ror => iror_m a b (bits t)
        | _ => Internal (OtherI 1)
        end) ;;
  correct r (bits t) (signed t).
