(* Model/ShapeCompile.v — ppci2wasm.IrToWasmCompiler.do_shape as a function into the structured
   control language of Spec/WasmCtlSpec.v (tie H; no proofs).  [flat (compile st s)] is the token
   skeleton [ShapeCheck.do_shape st s] that the check compares with the emitted instructions, so
   the two models are tied to each other by Proofs/C23_doshape.v and to ppci by that test.

   None = do_shape raises (None shape, break/continue level <> 0, no enclosing loop). *)
From Coq Require Import List Bool Arith.
Import ListNotations.
From PV Require Import Spec.StructSpec Spec.WasmCtlSpec Model.ShapeCheck.

Definition is_none (s : shape) : bool := match s with SNone => true | _ => false end.

Definition cseq (comp : shape -> option (list winstr)) : list shape -> option (list winstr) :=
  fix cs (l : list shape) : option (list winstr) :=
    match l with
    | [] => Some []
    | s1 :: r =>
        if is_none s1 then cs r          (* `if sub_shape is not None` *)
        else match comp s1, cs r with
             | Some a, Some b => Some (a ++ b)
             | _, _ => None
             end
    end.

Fixpoint compile (st : list frame) (s : shape) : option (list winstr) :=
  match s with
  | SNone => None
  | SBasic b => Some [WCode b]
  | SSeq l => cseq (compile st) l
  | SIf b y n =>
      match (if is_none y then Some [] else compile (FIf :: st) y),
            (if is_none n then Some None
             else match compile (FIf :: st) n with Some cn => Some (Some cn) | None => None end) with
      | Some cy, Some cn => Some [WCode b; WIf cy cn]
      | _, _ => None
      end
  | SLoop body =>
      match compile (FLoop :: st) body with
      | Some cb => Some [WBlock [WLoop cb]]
      | None => None
      end
  | SBreak O => match block_level st with Some i => Some [WBr (S i)] | None => None end
  | SBreak (S _) => None
  | SContinue O => match block_level st with Some i => Some [WBr i] | None => None end
  | SContinue (S _) => None
  end.

Fixpoint flat_i (i : winstr) : list ctl :=
  match i with
  | WCode b => [CCode b]
  | WBlock body => CBlock :: flat_map flat_i body ++ [CEnd]
  | WLoop body => CLoopI :: flat_map flat_i body ++ [CEnd]
  | WIf t e => CIf :: flat_map flat_i t
               ++ match e with Some e' => CElse :: flat_map flat_i e' | None => [] end ++ [CEnd]
  | WBr k => [CBr k]
  end.
Definition flat (c : list winstr) : list ctl := flat_map flat_i c.
