(* Model/Reloc.v — hand model (tie H) of relocation application:
     ppci/utils/bitfun.py        BitView.__setitem__ (slice)       -> bv_set
     ppci/arch/token.py          Token.unpack / pack / __setitem__ -> unpack / pack / tok_set, concat_set
     ppci/arch/encoding.py       Relocation.apply (default)        -> tok_apply
     ppci/arch/riscv/relocations.py, rvc_relocations.py, arm/arm_relocations.py,
     arm/thumb_relocations.py, x86_64/instructions.py, data_instructions.py  (calc / apply per class) -> apply
     ppci/binutils/objectfile.py ObjectFile.get_symbol_id_value    -> get_symbol_id_value
     ppci/binutils/linker.py     Linker._do_relocation / do_relocations -> do_relocation / do_relocations
   wrap_negative, align and encode_imm32 are the py2coq translations (Gen.bitfun, regenerated per run).
   Faithful, including the lax range checks and the ignored addend.  NO proofs here.
   Checked against the implementation by tools/props/c11.py on every run. *)
From PV Require Import Lib.Py Gen.bitfun.
Open Scope Z_scope.

Definition asrt {A} (c : bool) (k : result A) : result A := guard c (Internal AssertionError) k.

(* ---------------------------------------------------------------- BitView(data, 0, length)[a:b] = v *)
(* the byte written at index j when the slice [a,b) intersects byte j *)
Definition bv_newbyte (d j a b v : Z) : Z :=
  let bitpos1 := j * 8 in
  let bitpos2 := bitpos1 + 8 in
  let p1 := if a >? bitpos1 then a else bitpos1 in
  let p2 := if b <? bitpos2 then b else bitpos2 in
  let bitsize := p2 - p1 in
  let bitmask := Z.shiftl 1 bitsize - 1 in
  let mask := Z.shiftl bitmask (p1 - bitpos1) in
  let bits := Z.shiftl (Z.land bitmask (Z.shiftr v (p1 - a))) (p1 - bitpos1) in
  Z.lor (Z.land d (Z.lxor 255 mask)) bits.

(* for j in range(length): ... ; [n] = remaining iterations, [rest] = data[j:] *)
Fixpoint bv_loop (n : nat) (j : Z) (rest : list Z) (a b v : Z) : result (list Z) :=
  match n with
  | O => Ok rest
  | S n' =>
      if a >=? j * 8 + 8 then                       (* continue *)
        match rest with
        | [] => bv_loop n' (j + 1) [] a b v
        | d :: r => r' <- bv_loop n' (j + 1) r a b v ;; Ok (d :: r')
        end
      else if b <=? j * 8 then Ok rest               (* break *)
      else
        match rest with
        | [] => Internal IndexError
        | d :: r => r' <- bv_loop n' (j + 1) r a b v ;; Ok (bv_newbyte d j a b v :: r')
        end
  end.

Definition bv_set (data : list Z) (length a b v : Z) : result (list Z) :=
  let bits := b - a in
  asrt (bits >? 0) (
  asrt (b <=? length * 8) (
  asrt (v <? Z.shiftl 1 bits) (
  bv_loop (Z.to_nat length) 0 data a b v))).

(* ---------------------------------------------------------------- tokens *)
(* Token.unpack (little endian), TypeError when the length is wrong *)
Fixpoint le_value (data : list Z) : Z :=
  match data with [] => 0 | d :: r => d + 256 * le_value r end.
Definition unpack (size : Z) (data : list Z) : result Z :=
  if negb (len data =? size) then Internal TypeError else Ok (le_value data).
(* Token.pack (little endian): bytes((value >> (x*8)) & 0xFF for x in range(size)) *)
Definition pack (size : Z) (value : Z) : list Z :=
  map (fun x => Z.land (Z.shiftr value (x * 8)) 255) (rangeZ 0 size).

(* Token.__setitem__(slice(start, stop), value) on a token of [tsize] bits *)
Definition tok_set (tsize bit_value start stop value : Z) : result Z :=
  let bits := stop - start in
  asrt (bits >? 0) (
  let limit := Z.shiftl 1 bits in
  if value >=? limit then Diag 1
  else
    let value := if value <? 0 then limit + value else value in
    asrt ((value >=? 0) && (value <? limit)) (
    let tmask := Z.shiftl 1 tsize - 1 in
    let mask := Z.lxor tmask (Z.shiftl (limit - 1) start) in
    Ok (Z.lor (Z.land bit_value mask) (Z.shiftl value start)))).

(* a field is a list of (start, stop) parts, most significant first (bit_range = one part).
   bit_concat setter: for at in reversed(partials): at.__set__(s, v & at._mask); v >>= at._bitsize *)
Fixpoint parts_width (ps : list (Z * Z)) : Z :=
  match ps with [] => 0 | (s, e) :: r => (e - s) + parts_width r end.
Fixpoint concat_set (tsize bv : Z) (ps : list (Z * Z)) (v : Z) : result Z :=
  match ps with
  | [] => Ok bv
  | (s, e) :: r =>
      bv' <- concat_set tsize bv r v ;;
      tok_set tsize bv' s e (Z.land (Z.shiftr v (parts_width r)) (Z.shiftl 1 (e - s) - 1))
  end.
Definition field_set (tsize bv : Z) (ps : list (Z * Z)) (v : Z) : result Z :=
  match ps with
  | [(s, e)] => tok_set tsize bv s e v            (* bit_range: the value is passed as is *)
  | _ => concat_set tsize bv ps v
  end.

(* Relocation.apply default: token = cls.token.from_data(data); setattr(token, field, v); token.encode() *)
Definition tok_apply (size : Z) (data : list Z) (ps : list (Z * Z)) (v : Z) : result (list Z) :=
  w <- unpack size data ;;
  w' <- field_set (size * 8) w ps v ;;
  Ok (pack size w').

(* data[i] = v / data[i] |= v on a bytearray: ValueError when the byte is out of range *)
Fixpoint set_nth (l : list Z) (i : nat) (f : Z -> Z) : result (list Z) :=
  match l, i with
  | [], _ => Internal IndexError
  | d :: r, O => let x := f d in if (0 <=? x) && (x <? 256) then Ok (x :: r) else Diag 2
  | d :: r, S i' => r' <- set_nth r i' f ;; Ok (d :: r')
  end.

(* data[i] = v  (used by the flattened class bodies, Gen/reloc_bodies.v) *)
Definition set_byte (data : list Z) (i : Z) (v : Z) : result (list Z) :=
  set_nth data (Z.to_nat i) (fun _ => v).

(* ---------------------------------------------------------------- relocation classes *)
Inductive rkind :=
  | RvBImm12 | RvBImm20 | RvAbs32Imm20 | RvRelImm20 | RvAbs32Imm12 | RvRelImm12 | RvAbsAddr32
  | RvcCBImm11 | RvcCBlImm11 | RvcBcImm11 | RvcBcImm8
  | ArmImm24 | ArmRel8 | ArmLdrImm12 | ArmAdrImm12
  | ThLit8 | ThWrapNew11 | ThRel8 | ThBlImm11 | ThBImm11Imm6
  | X86Rel32 | X86Abs32 | X86Jmp8 | X86Abs64
  | DataAbs16 | DataAbs32 | DataAbs64.

(* Relocation.size() *)
Definition rk_size (k : rkind) : Z :=
  match k with
  | RvcBcImm11 | RvcBcImm8 | ThLit8 | ThWrapNew11 | ThRel8 | DataAbs16 => 2
  | X86Jmp8 => 1
  | X86Abs64 | DataAbs64 => 8
  | _ => 4
  end.

Definition FUEL : nat := 8%nat.     (* align(value, 2|4) needs at most 4 iterations *)

(* the J-type scatter shared by BImm20Relocation, CBImm11Relocation, CBlImm11Relocation *)
Definition apply_jtype (S P : Z) (data : list Z) : result (list Z) :=
  asrt (S mod 2 =? 0) (
  asrt (P mod 2 =? 0) (
  let offset := S - P in
  rel20 <- wrap_negative (Z.shiftr offset 1) 20 ;;
  d <- bv_set data 4 21 31 (Z.land rel20 1023) ;;
  d <- bv_set d 4 20 21 (Z.land (Z.shiftr rel20 10) 1) ;;
  d <- bv_set d 4 12 20 (Z.land (Z.shiftr rel20 11) 255) ;;
  bv_set d 4 31 32 (Z.land (Z.shiftr rel20 19) 1))).

Definition apply_hi20 (x : Z) (data : list Z) : result (list Z) :=
  if Z.land x 2048 =? 0 then bv_set data 4 12 32 (Z.land (Z.shiftr x 12) 1048575)
  else let x := x - 4294963200 in bv_set data 4 12 32 (Z.land (Z.shiftr x 12) 1048575).

(* apply(self, sym_value, data, reloc_value) with self.addend = A *)
Definition apply (k : rkind) (A S : Z) (data : list Z) (P : Z) : result (list Z) :=
  match k with
  | RvBImm12 =>
      asrt (S mod 2 =? 0) (asrt (P mod 2 =? 0) (
      v <- wrap_negative ((S - P) / 2) 12 ;;
      tok_apply 4 data [(31, 32); (7, 8); (25, 31); (8, 12)] v))
  | RvBImm20 | RvcCBImm11 | RvcCBlImm11 => apply_jtype S P data
  | RvAbs32Imm20 => asrt (S mod 2 =? 0) (apply_hi20 S data)
  | RvRelImm20 => asrt (S mod 2 =? 0) (asrt (P mod 2 =? 0) (apply_hi20 (S - P) data))
  | RvAbs32Imm12 => asrt (S mod 2 =? 0) (tok_apply 4 data [(20, 32)] (Z.land S 4095))
  | RvRelImm12 =>
      asrt (S mod 2 =? 0) (asrt (P mod 2 =? 0) (
      tok_apply 4 data [(20, 32)] (Z.land (S - P + 4) 4095)))
  | RvAbsAddr32 => bv_set data 4 0 32 S
  | RvcBcImm11 =>
      asrt (S mod 2 =? 0) (asrt (P mod 2 =? 0) (
      rel11 <- wrap_negative (Z.shiftr (S - P) 1) 11 ;;
      d <- bv_set data 4 2 3 (Z.land (Z.shiftr rel11 4) 1) ;;
      d <- bv_set d 4 3 6 (Z.land rel11 7) ;;
      d <- bv_set d 4 6 7 (Z.land (Z.shiftr rel11 6) 1) ;;
      d <- bv_set d 4 7 8 (Z.land (Z.shiftr rel11 5) 1) ;;
      d <- bv_set d 4 8 9 (Z.land (Z.shiftr rel11 9) 1) ;;
      d <- bv_set d 4 9 11 (Z.land (Z.shiftr rel11 7) 3) ;;
      d <- bv_set d 4 11 12 (Z.land (Z.shiftr rel11 3) 1) ;;
      bv_set d 4 12 13 (Z.land (Z.shiftr rel11 10) 1)))
  | RvcBcImm8 =>
      asrt (S mod 2 =? 0) (asrt (P mod 2 =? 0) (
      rel8 <- wrap_negative (Z.shiftr (S - P) 1) 8 ;;
      d <- bv_set data 4 2 3 (Z.land (Z.shiftr rel8 4) 1) ;;
      d <- bv_set d 4 3 5 (Z.land rel8 3) ;;
      d <- bv_set d 4 5 7 (Z.land (Z.shiftr rel8 5) 3) ;;
      d <- bv_set d 4 10 12 (Z.land (Z.shiftr rel8 2) 3) ;;
      bv_set d 4 12 13 (Z.land (Z.shiftr rel8 7) 1)))
  | ArmImm24 =>
      asrt (S mod 4 =? 0) (asrt (P mod 4 =? 0) (
      v <- wrap_negative (Z.shiftr (S - (P + 8)) 2) 24 ;;
      tok_apply 4 data [(0, 24)] v))
  | ArmRel8 =>
      asrt (S mod 2 =? 0) (
      al <- align FUEL P 2 ;;
      let offset := S - (al + 4) in
      asrt ((-256 <=? offset) && (offset <? 254) && ((offset + 256) mod 2 =? 0)) (
      v <- wrap_negative (Z.shiftr offset 1) 8 ;;
      tok_apply 4 data [(0, 8)] v))
  | ArmLdrImm12 =>
      asrt (S mod 4 =? 0) (asrt (P mod 4 =? 0) (
      let offset := S - (P + 8) in
      let U := if offset <? 0 then 0 else 1 in
      let offset := if offset <? 0 then - offset else offset in
      asrt (offset <? 4096) (
      d <- set_nth data 2 (fun x => Z.lor x (Z.shiftl U 7)) ;;
      d <- set_nth d 1 (fun x => Z.lor x (Z.land (Z.shiftr offset 8) 15)) ;;
      set_nth d 0 (fun _ => Z.land offset 255))))
  | ArmAdrImm12 =>
      asrt (S mod 4 =? 0) (asrt (P mod 4 =? 0) (
      let offset := S - (P + 8) in
      let U := if offset <? 0 then 1 else 2 in
      let offset := if offset <? 0 then - offset else offset in
      asrt (offset <? 4096) (
      offset <- encode_imm32 offset ;;
      d <- set_nth data 2 (fun x => Z.lor x (Z.shiftl U 6)) ;;
      d <- set_nth d 1 (fun x => Z.lor x (Z.land (Z.shiftr offset 8) 15)) ;;
      set_nth d 0 (fun _ => Z.land offset 255))))
  | ThLit8 =>
      asrt (S mod 4 =? 0) (
      al <- align FUEL (P + 2) 4 ;;
      let offset := S - al in
      asrt ((0 <=? offset) && (offset <? 1024) && (offset mod 4 =? 0)) (
      set_nth data 0 (fun _ => Z.shiftr offset 2)))
  | ThWrapNew11 =>
      al <- align FUEL P 2 ;;
      let offset := S - (al + 4) in
      asrt ((-2048 <=? offset) && (offset <? 2046) && ((offset + 2048) mod 2 =? 0)) (
      imm11 <- wrap_negative (Z.shiftr offset 1) 11 ;;
      bv_set data 2 0 11 imm11)
  | ThRel8 =>
      asrt (S mod 2 =? 0) (
      al <- align FUEL P 2 ;;
      let offset := S - (al + 4) in
      asrt ((-256 <=? offset) && (offset <? 254) && ((offset + 256) mod 2 =? 0)) (
      imm8 <- wrap_negative (Z.shiftr offset 1) 8 ;;
      set_nth data 0 (fun _ => imm8)))
  | ThBlImm11 =>
      asrt (S mod 2 =? 0) (
      al <- align FUEL P 2 ;;
      let offset := S - (al + 4) in
      asrt ((-16777216 <=? offset) && (offset <? 16777214) && ((offset + 16777216) mod 2 =? 0)) (
      imm32 <- wrap_negative (Z.shiftr offset 1) 32 ;;
      let imm11 := Z.land imm32 2047 in
      let imm10 := Z.land (Z.shiftr imm32 11) 1023 in
      let s := Z.land (Z.shiftr imm32 24) 1 in
      d <- bv_set data 4 0 10 imm10 ;;
      d <- bv_set d 4 10 11 s ;;
      bv_set d 4 16 27 imm11))
  | ThBImm11Imm6 =>
      asrt (S mod 2 =? 0) (
      al <- align FUEL P 2 ;;
      let offset := S - (al + 4) in
      asrt ((-1048576 <=? offset) && (offset <? 1048574) && ((offset + 1048576) mod 2 =? 0)) (
      imm32 <- wrap_negative (Z.shiftr offset 1) 32 ;;
      let imm11 := Z.land imm32 2047 in
      let imm6 := Z.land (Z.shiftr imm32 11) 63 in
      let s := Z.land (Z.shiftr imm32 17) 1 in
      d <- set_nth data 2 (fun _ => Z.land imm11 255) ;;
      d <- set_nth d 3 (fun x => Z.lor x (Z.land (Z.shiftr imm11 8) 7)) ;;
      d <- set_nth d 3 (fun x => Z.lor x (Z.lor (Z.shiftl s 5) (Z.shiftl s 3))) ;;
      d <- set_nth d 0 (fun x => Z.lor x imm6) ;;
      set_nth d 1 (fun x => Z.lor x (Z.shiftl s 2))))
  | X86Rel32 => tok_apply 4 data [(0, 32)] (S - P + A)
  | X86Abs32 => tok_apply 4 data [(0, 32)] S
  | X86Jmp8 => tok_apply 1 data [(0, 8)] (S - (P + 1))
  | X86Abs64 => v <- wrap_negative S 64 ;; tok_apply 8 data [(0, 64)] v
  | DataAbs16 => asrt (P mod 2 =? 0) (tok_apply 2 data [(0, 16)] S)
  | DataAbs32 => asrt (P mod 4 =? 0) (tok_apply 4 data [(0, 32)] S)
  | DataAbs64 => asrt (P mod 4 =? 0) (tok_apply 8 data [(0, 64)] S)
  end.

(* can_shrink / do_shrink (only the two rvc classes override them) *)
Definition isinsrange (bits val : Z) : bool :=
  let msb := Z.shiftl 1 (bits - 1) in (val <=? msb - 1) && (val >=? - msb).
Definition can_shrink (k : rkind) (S P : Z) : result bool :=
  match k with
  | RvcCBImm11 | RvcCBlImm11 =>
      asrt (S mod 2 =? 0) (asrt (P mod 2 =? 0) (Ok (isinsrange 12 (S - P))))
  | _ => Ok false
  end.
(* returns (new bytes, new relocation kind) *)
Definition do_shrink (k : rkind) (S P : Z) (data : list Z) : result (list Z * rkind) :=
  match k with
  | RvcCBImm11 =>
      asrt (S mod 2 =? 0) (asrt (P mod 2 =? 0) (
      d <- bv_set data 4 0 2 1 ;;
      d <- bv_set d 4 13 16 5 ;;
      Ok (sliceZ d 0 2, RvcBcImm11)))
  | RvcCBlImm11 =>
      asrt (S mod 2 =? 0) (asrt (P mod 2 =? 0) (
      d <- bv_set data 4 0 2 1 ;;
      d <- bv_set d 4 13 16 1 ;;
      Ok (sliceZ d 0 2, RvcBcImm11)))
  | _ => Internal (OtherI 1)     (* AttributeError: no do_shrink *)
  end.

(* ---------------------------------------------------------------- object file pieces *)
Record section := mkSec { s_name : Z; s_addr : Z; s_data : list Z }.
Record symbol := mkSym { y_id : Z; y_undef : bool; y_sec : option Z; y_val : Z }.
Record relent := mkRel { r_kind : rkind; r_sym : Z; r_sec : Z; r_off : Z; r_add : Z }.

Fixpoint find_section (secs : list section) (name : Z) : result section :=
  match secs with
  | [] => Internal KeyError
  | s :: r => if s_name s =? name then Ok s else find_section r name
  end.
Fixpoint find_symbol (syms : list symbol) (id : Z) : result symbol :=
  match syms with
  | [] => Internal KeyError
  | y :: r => if y_id y =? id then Ok y else find_symbol r id
  end.

(* ObjectFile.get_symbol_id_value *)
Definition get_symbol_id_value (secs : list section) (syms : list symbol) (id : Z) : result Z :=
  y <- find_symbol syms id ;;
  if y_undef y then Diag 3
  else match y_sec y with
       | None => Ok (y_val y)
       | Some sn => s <- find_section secs sn ;; Ok (y_val y + s_addr s)
       end.

(* section.data[begin:end] = data *)
Definition splice (l : list Z) (b e : Z) (x : list Z) : list Z :=
  firstn (Z.to_nat b) l ++ x ++ skipn (Z.to_nat e) l.
Fixpoint update_section (secs : list section) (name : Z) (data : list Z) : list section :=
  match secs with
  | [] => []
  | s :: r => if s_name s =? name then mkSec (s_name s) (s_addr s) data :: r
              else s :: update_section r name data
  end.

(* Linker._do_relocation *)
Definition do_relocation (secs : list section) (syms : list symbol) (r : relent) : result (list section) :=
  S <- get_symbol_id_value secs syms (r_sym r) ;;
  sec <- find_section secs (r_sec r) ;;
  let P := s_addr sec + r_off r in
  let b := r_off r in
  let size := rk_size (r_kind r) in
  let e := b + size in
  let data := sliceZ (s_data sec) b e in
  asrt (len data =? size) (
  data' <- apply (r_kind r) (r_add r) S data P ;;
  asrt (len data' =? size) (
  Ok (update_section secs (r_sec r) (splice (s_data sec) b e data')))).

(* Linker.do_relocations *)
Fixpoint do_relocations (secs : list section) (syms : list symbol) (rs : list relent) : result (list section) :=
  match rs with
  | [] => Ok secs
  | r :: rest => secs' <- do_relocation secs syms r ;; do_relocations secs' syms rest
  end.

Definition secs_out (secs : list section) : list (Z * Z * list Z) :=
  map (fun s => (s_name s, s_addr s, s_data s)) secs.
