(* Model/ObjectFile.v — hand model (tie H) of
     ppci/binutils/objectfile.py : serialize / deserialize (ObjectFile, Section, Symbol,
                                   RelocationEntry, Image), ObjectFile.add_symbol / add_relocation
     ppci/binutils/archive.py    : Archive.save / Archive.load (value level)
     ppci/utils/binary_txt.py    : bin2asc / asc2bin,  ppci/utils/chunk.py : chunks
     ppci/common.py              : make_num
     builtins hex(), int(s, base), binascii.hexlify / unhexlify (specified here)
   Executable Gallina, NO proofs.  Correspondence with the implementation: tools/props/c14.py.

   Abstractions (stated in the check module as well):
   * an Image holds the *names* of its sections (Python holds the Section objects and serializes
     their names; deserialize looks them up by name) — exact when section names are unique;
   * the architecture is its id string (Architecture.make_id_str()); get_arch is modelled by
     membership in the exported table [arch_ids] (Gen/objarch.v, regenerated from /repo);
   * this file is the part without debug info: [serialize] is the function on objects whose
     debug_info is None, [deserialize] answers Internal NotImplemented on JSON that has a "debug"
     key; objects WITH debug info: Model/DebugInfo.v + Model/ObjectFileFull.v;
   * int(s, base) is modelled on plain digit strings (optional sign for base 10); CPython also
     accepts surrounding white space, '_' separators, a sign and a repeated base prefix. *)
From PV Require Import Lib.Py Lib.Val Lib.Json Gen.objarch.
From Coq Require Import String Ascii.
Open Scope string_scope.
Open Scope Z_scope.

(* ------------------------------------------------------------------ hex text *)
Definition hexch (d : Z) : ascii :=
  match d with
  | 0 => "0" | 1 => "1" | 2 => "2" | 3 => "3" | 4 => "4" | 5 => "5" | 6 => "6" | 7 => "7"
  | 8 => "8" | 9 => "9" | 10 => "a" | 11 => "b" | 12 => "c" | 13 => "d" | 14 => "e" | _ => "f"
  end%char.

Definition digit_table : list (ascii * Z) :=
  [("0", 0); ("1", 1); ("2", 2); ("3", 3); ("4", 4); ("5", 5); ("6", 6); ("7", 7); ("8", 8);
   ("9", 9); ("a", 10); ("b", 11); ("c", 12); ("d", 13); ("e", 14); ("f", 15);
   ("A", 10); ("B", 11); ("C", 12); ("D", 13); ("E", 14); ("F", 15)]%char.

Fixpoint assoc_ascii (c : ascii) (t : list (ascii * Z)) : option Z :=
  match t with
  | [] => None
  | (c', v) :: r => if Ascii.eqb c c' then Some v else assoc_ascii c r
  end.
(* value of a digit character (both cases, as int() and unhexlify accept) *)
Definition unhexch (c : ascii) : option Z := assoc_ascii c digit_table.

(* digits of n >= 0 in base 16, most significant first; fuel = number of bits is enough *)
Fixpoint hexdigs (fuel : nat) (n : Z) : list Z :=
  match fuel with
  | O => [n]
  | S f => if n <? 16 then [n] else (hexdigs f (n / 16) ++ [n mod 16])%list
  end.
Definition hex_abs (n : Z) : string :=
  string_of_list_ascii (map hexch (hexdigs (S (Z.to_nat (Z.log2 n))) n)).
(* builtin hex() *)
Definition py_hex (n : Z) : string :=
  if n <? 0 then "-0x" ++ hex_abs (- n) else "0x" ++ hex_abs n.

Definition digit_step (base : Z) (acc : option Z) (c : ascii) : option Z :=
  match acc, unhexch c with
  | Some a, Some d => if d <? base then Some (a * base + d) else None
  | _, _ => None
  end.
Definition parse_digits (base : Z) (cs : list ascii) : option Z :=
  match cs with
  | [] => None
  | _ => fold_left (digit_step base) cs (Some 0)
  end.
(* int(s, base) on digit strings; ValueError otherwise *)
Definition py_int (base : Z) (s : string) : result Z :=
  match parse_digits base (list_ascii_of_string s) with
  | Some v => Ok v
  | None => Internal ValueErrorI
  end.
(* int(s): optional sign *)
Definition py_int_dec (s : string) : result Z :=
  match s with
  | String "-" r => v <- py_int 10 r ;; Ok (- v)
  | String "+" r => py_int 10 r
  | _ => py_int 10 s
  end.

Fixpoint sdrop (n : nat) (s : string) : string :=
  match n, s with
  | S k, String _ r => sdrop k r
  | _, _ => s
  end.

(* ppci.common.make_num *)
Definition make_num (txt : string) : result Z :=
  if prefix "0x" txt then py_int 16 (sdrop 2 txt)
  else if prefix "-0x" txt then v <- py_int 16 (sdrop 3 txt) ;; Ok (- v)
  else if prefix "$" txt then py_int 16 (sdrop 1 txt)
  else if prefix "0b" txt then py_int 2 (sdrop 2 txt)
  else if prefix "%" txt then py_int 2 (sdrop 1 txt)
  else py_int_dec txt.
(* make_num(d[k]) : txt.startswith on a non-string raises AttributeError *)
Definition make_num_j (j : json) : result Z :=
  match j with JStr s => make_num s | _ => Internal TypeError end.

(* ------------------------------------------------------------------ binary_txt.py *)
(* binascii.hexlify(data).decode("ascii") *)
Definition hexlify (bs : list Z) : string :=
  string_of_list_ascii (flat_map (fun b => [hexch (b / 16); hexch (b mod 16)]) bs).

(* binascii.unhexlify: odd length or non-hex digit -> binascii.Error *)
Fixpoint unhex_pairs (cs : list ascii) : result (list Z) :=
  match cs with
  | [] => Ok []
  | a :: b :: r =>
      match unhexch a, unhexch b with
      | Some x, Some y => rest <- unhex_pairs r ;; Ok (x * 16 + y :: rest)
      | _, _ => Internal ValueErrorI
      end
  | [_] => Internal ValueErrorI
  end.
Definition unhexlify (s : string) : result (list Z) := unhex_pairs (list_ascii_of_string s).

(* chunk.py chunks(data, size=30): data[i:i+size] for i in range(0, len(data), size) *)
Fixpoint chunks_f (fuel : nat) (size : nat) (l : list Z) : list (list Z) :=
  match fuel with
  | O => []
  | S f => match l with
           | [] => []
           | _ => firstn size l :: chunks_f f size (skipn size l)
           end
  end.
Definition chunks (l : list Z) : list (list Z) := chunks_f (List.length l) 30 l.

Definition bin2asc (data : list Z) : json :=
  if 30 <? len data then JList (map (fun p => JStr (hexlify p)) (chunks data))
  else JStr (hexlify data).

Definition asc2bin (j : json) : result (list Z) :=
  match j with
  | JStr s => unhexlify s
  | JList parts =>
      ps <- mapM (fun p => s <- as_str p ;; unhexlify s) parts ;; Ok (List.concat ps)
  | _ => Internal NotImplemented
  end.

(* ------------------------------------------------------------------ records *)
Record section := mkSection {
  sec_name : string; sec_address : Z; sec_alignment : Z; sec_data : list Z }.
Record symbol := mkSymbol {
  sym_id : Z; sym_name : string; sym_binding : string;
  sym_value : option Z;            (* None = undefined symbol *)
  sym_section : option string; sym_typ : option string; sym_size : option Z }.
Record reloc := mkReloc {
  rel_type : string; rel_symbol_id : Z; rel_section : string; rel_offset : Z; rel_addend : Z }.
Record image := mkImage {
  img_name : string; img_address : Z; img_sections : list string }.
Record objectfile := mkObj {
  obj_arch : string;
  obj_sections : list section;
  obj_symbols : list symbol;
  obj_relocations : list reloc;
  obj_images : list image;
  obj_entry : option Z }.           (* entry_symbol_id *)

(* ------------------------------------------------------------------ serialize *)
Definition ser_section (s : section) : json :=
  JObj [("name", JStr (sec_name s)); ("address", JStr (py_hex (sec_address s)));
        ("data", bin2asc (sec_data s)); ("alignment", JStr (py_hex (sec_alignment s)))].

Definition ser_symbol (y : symbol) : json :=
  JObj ([("id", JNum (sym_id y)); ("name", JStr (sym_name y)); ("binding", JStr (sym_binding y))]
        ++ match sym_value y with
           | Some v => [("value", JStr (py_hex v)); ("section", jopt_str (sym_section y))]
           | None => []
           end
        ++ [("typ", jopt_str (sym_typ y)); ("size", jopt_num (sym_size y))])%list.

Definition ser_reloc (r : reloc) : json :=
  JObj [("symbol_id", JNum (rel_symbol_id r)); ("type", JStr (rel_type r));
        ("section", JStr (rel_section r)); ("offset", JStr (py_hex (rel_offset r)));
        ("addend", JStr (py_hex (rel_addend r)))].

Definition ser_image (i : image) : json :=
  JObj [("name", JStr (img_name i)); ("address", JStr (py_hex (img_address i)));
        ("sections", JList (map JStr (img_sections i)))].

Definition serialize (o : objectfile) : json :=
  JObj ([("sections", JList (map ser_section (obj_sections o)));
         ("symbols", JList (map ser_symbol (obj_symbols o)));
         ("relocations", JList (map ser_reloc (obj_relocations o)));
         ("images", JList (map ser_image (obj_images o)));
         ("arch", JStr (obj_arch o))]
        ++ match obj_entry o with Some e => [("entry_symbol_id", JNum e)] | None => [] end)%list.

(* ------------------------------------------------------------------ deserialize *)
Definition str_in (s : string) (l : list string) : bool := existsb (String.eqb s) l.

(* api.get_arch on an id string: unknown name -> KeyError, unknown option -> AssertionError *)
Definition get_arch (j : json) : result string :=
  s <- as_str j ;;
  if str_in s arch_ids then Ok s else Internal KeyError.

Definition des_section (j : json) : result section :=
  n <- jget "name" j ;; name <- as_str n ;;
  a <- jget "address" j ;; address <- make_num_j a ;;
  d <- jget "data" j ;; data <- asc2bin d ;;
  al <- jget "alignment" j ;; alignment <- make_num_j al ;;
  Ok (mkSection name address alignment data).

(* RelocationEntry(...) ; obj.add_relocation : assert self.has_section(reloc.section) *)
Definition des_reloc (secnames : list string) (j : json) : result reloc :=
  t <- jget "type" j ;; typ <- as_str t ;;
  i <- jget "symbol_id" j ;; sid <- as_int i ;;
  s <- jget "section" j ;; sec <- as_str s ;;
  o <- jget "offset" j ;; off <- make_num_j o ;;
  a <- jget "addend" j ;; add <- make_num_j a ;;
  if str_in sec secnames then Ok (mkReloc typ sid sec off add) else Internal AssertionError.

Definition is_global (y : symbol) : bool := String.eqb (sym_binding y) "global".

(* ObjectFile.add_symbol: a second *global* symbol of the same name is a CompilerError (Diag),
   a repeated id fails an assert *)
Definition add_symbol (syms : list symbol) (y : symbol) : result (list symbol) :=
  if is_global y && existsb (fun s => is_global s && String.eqb (sym_name s) (sym_name y)) syms
  then Diag 1
  else if existsb (fun s => sym_id s =? sym_id y) syms then Internal AssertionError
  else Ok (syms ++ [y])%list.

Definition des_symbol (j : json) : result symbol :=
  vs <- (if jhas "value" j
         then v <- jget "value" j ;; value <- make_num_j v ;;
              s <- jget "section" j ;; sec <- as_opt_str s ;; Ok (Some value, sec)
         else Ok (None, None)) ;;
  i <- jget "id" j ;; id <- as_int i ;;
  n <- jget "name" j ;; name <- as_str n ;;
  b <- jget "binding" j ;; binding <- as_str b ;;
  t <- jget "typ" j ;; typ <- as_opt_str t ;;
  z <- jget "size" j ;; size <- as_opt_int z ;;
  Ok (mkSymbol id name binding (fst vs) (snd vs) typ size).

Fixpoint des_symbols (acc : list symbol) (l : list json) : result (list symbol) :=
  match l with
  | [] => Ok acc
  | j :: r => y <- des_symbol j ;; acc' <- add_symbol acc y ;; des_symbols acc' r
  end.

(* Image(name, address); for each section name: assert obj.has_section(name) *)
Definition des_image (secnames : list string) (j : json) : result image :=
  n <- jget "name" j ;; name <- as_str n ;;
  a <- jget "address" j ;; address <- make_num_j a ;;
  s <- jget "sections" j ;; sl <- as_list s ;;
  names <- mapM (fun x => nm <- as_str x ;;
                          if str_in nm secnames then Ok nm else Internal AssertionError) sl ;;
  Ok (mkImage name address names).

(* everything of objectfile.deserialize except the final `if "debug" in data` *)
Definition deserialize_core (data : json) : result objectfile :=
  a <- jget "arch" data ;; arch <- get_arch a ;;
  entry <- (if jhas "entry_symbol_id" data
            then e <- jget "entry_symbol_id" data ;; as_opt_int e
            else Ok None) ;;
  s <- jget "sections" data ;; sl <- as_list s ;;
  sections <- mapM des_section sl ;;
  let secnames := map sec_name sections in
  r <- jget "relocations" data ;; rl <- as_list r ;;
  relocs <- mapM (des_reloc secnames) rl ;;
  y <- jget "symbols" data ;; yl <- as_list y ;;
  symbols <- des_symbols [] yl ;;
  i <- jget "images" data ;; il <- as_list i ;;
  images <- mapM (des_image secnames) il ;;
  Ok (mkObj arch sections symbols relocs images entry).

(* objects without debug info (debug info: Model/ObjectFileFull.v) *)
Definition deserialize (data : json) : result objectfile :=
  o <- deserialize_core data ;;
  if jhas "debug" data then Internal NotImplemented else Ok o.

(* ------------------------------------------------------------------ archive.py *)
Definition archive_save (objs : list objectfile) : json :=
  JObj [("objects", JList (map serialize objs))].
Definition archive_load (d : json) : result (list objectfile) :=
  o <- jget "objects" d ;; ol <- as_list o ;; mapM deserialize ol.

(* ------------------------------------------------------------------ well-formed objects *)
(* what the ObjectFile API builds: bytes are bytes, symbol ids unique, global names unique,
   undefined symbols carry no section, section names unique, relocations and images refer to
   existing sections, the architecture is one of ppci's targets (canonical id string). *)
Fixpoint nodupb {A} (eqb : A -> A -> bool) (l : list A) : bool :=
  match l with
  | [] => true
  | x :: r => negb (existsb (eqb x) r) && nodupb eqb r
  end.

Definition wf_section (s : section) : bool := all_byte (sec_data s).
Definition wf_symbol (y : symbol) : bool :=
  match sym_value y with Some _ => true | None => match sym_section y with None => true | _ => false end end.

Definition wf_objb (o : objectfile) : bool :=
  let secnames := map sec_name (obj_sections o) in
  str_in (obj_arch o) arch_ids
  && forallb wf_section (obj_sections o)
  && nodupb String.eqb secnames
  && forallb wf_symbol (obj_symbols o)
  && nodupb Z.eqb (map sym_id (obj_symbols o))
  && nodupb String.eqb (map sym_name (filter is_global (obj_symbols o)))
  && forallb (fun r => str_in (rel_section r) secnames) (obj_relocations o)
  && forallb (fun i => forallb (fun n => str_in n secnames) (img_sections i)) (obj_images o).
Definition wf_obj (o : objectfile) : Prop := wf_objb o = true.

(* ------------------------------------------------------------------ ToVal (correspondence) *)
#[global] Instance ToVal_section : ToVal section :=
  fun s => VT [toval (sec_name s); toval (sec_address s); toval (sec_alignment s); toval (sec_data s)].
#[global] Instance ToVal_symbol : ToVal symbol :=
  fun y => VT [toval (sym_id y); toval (sym_name y); toval (sym_binding y); toval (sym_value y);
               toval (sym_section y); toval (sym_typ y); toval (sym_size y)].
#[global] Instance ToVal_reloc : ToVal reloc :=
  fun r => VT [toval (rel_type r); toval (rel_symbol_id r); toval (rel_section r);
               toval (rel_offset r); toval (rel_addend r)].
#[global] Instance ToVal_image : ToVal image :=
  fun i => VT [toval (img_name i); toval (img_address i); toval (img_sections i)].
#[global] Instance ToVal_objectfile : ToVal objectfile :=
  fun o => VT [toval (obj_arch o); toval (obj_sections o); toval (obj_symbols o);
               toval (obj_relocations o); toval (obj_images o); toval (obj_entry o)].
