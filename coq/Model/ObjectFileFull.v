(* Model/ObjectFileFull.v — objectfile.serialize / deserialize and Archive.save / load for objects
   WITH debug information: Model/ObjectFile.v (everything else) + Model/DebugInfo.v.
   `if x.debug_info: res["debug"] = debuginfo.serialize(x.debug_info)` sits between "images" and
   "arch" (a DebugInfo object is always truthy, also when all its lists are empty);
   `if "debug" in data: obj.debug_info = debuginfo.deserialize(data["debug"])` is the last step.
   [dbg_deserialize] (repaired loader) or [dbg_deserialize_v1] (loader before
   fixes/C14-debug-recursive-pointer.diff) is a parameter. *)
From PV Require Import Lib.Py Lib.Val Lib.Json Gen.objarch Model.ObjectFile Model.DebugInfo.
From Coq Require Import String Ascii.
Open Scope string_scope.
Open Scope Z_scope.

Record objfull := mkFull { of_obj : objectfile; of_debug : option debuginfo }.

Definition serialize_full (x : objfull) : json :=
  let o := of_obj x in
  JObj ([("sections", JList (map ser_section (obj_sections o)));
         ("symbols", JList (map ser_symbol (obj_symbols o)));
         ("relocations", JList (map ser_reloc (obj_relocations o)));
         ("images", JList (map ser_image (obj_images o)))]
        ++ match of_debug x with Some d => [("debug", dbg_serialize d)] | None => [] end
        ++ [("arch", JStr (obj_arch o))]
        ++ match obj_entry o with Some e => [("entry_symbol_id", JNum e)] | None => [] end)%list.

Definition deserialize_full_with (dd : json -> result debuginfo) (data : json) : result objfull :=
  o <- deserialize_core data ;;
  if jhas "debug" data
  then j <- jget "debug" data ;; d <- dd j ;; Ok (mkFull o (Some d))
  else Ok (mkFull o None).

Definition deserialize_full := deserialize_full_with dbg_deserialize.
Definition deserialize_full_v1 := deserialize_full_with dbg_deserialize_v1.

Definition archive_save_full (objs : list objfull) : json :=
  JObj [("objects", JList (map serialize_full objs))].
Definition archive_load_full (d : json) : result (list objfull) :=
  o <- jget "objects" d ;; ol <- as_list o ;; mapM deserialize_full ol.
Definition archive_load_full_v1 (d : json) : result (list objfull) :=
  o <- jget "objects" d ;; ol <- as_list o ;; mapM deserialize_full_v1 ol.

Definition wf_fullb (x : objfull) : bool :=
  wf_objb (of_obj x) && match of_debug x with Some d => wf_dbgb d | None => true end.
Definition wf_full (x : objfull) : Prop := wf_fullb x = true.

#[global] Instance ToVal_objfull : ToVal objfull :=
  fun x => VT [toval (of_obj x); toval (of_debug x)].
