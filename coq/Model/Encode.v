(* Model/Encode.v — C08: generic model of ppci instruction encoding (tie I).
   Mirrors ppci/arch/encoding.py (Instruction.encode, Constructor.set_patterns,
   TokenSequence.set_field/encode) and ppci/arch/token.py (Token.__setitem__ on a slice,
   bit_range / bit_concat setters, Token.pack / unpack) over *descriptors* exported from the
   real instruction classes (tools/props/c08.py).  A descriptor lists, in execution order, the
   slice writes  token[lo : lo+width] = value  that encode() performs, where value is a constant
   or  (T(operand) >> shift) [& (2^width - 1)]  with T(v) = v // div - sub  (Transform.forwards,
   register .num).  No proofs here. *)
From PV Require Import Lib.Py.
From Coq Require Import String.
Open Scope Z_scope.

Inductive okind :=
  | KReg (nums : list Z)      (* register operand: the numbers of cls.all_registers() *)
  | KImm (signed : bool)      (* integer operand, view as signed/unsigned o_width-bit value *)
  | KLabel.                   (* str operand: not encoded (relocation) *)

Record operand := mkOp {
  o_name : string; o_kind : okind;
  o_width : Z;                (* number of bits of T(v) that reach the tokens *)
  o_div : Z; o_sub : Z }.     (* T(v) = v / o_div - o_sub *)

Inductive wsrc := SConst (c : Z) | SOp (i : nat) (shift : Z) (masked : bool).

Record write := mkW { w_tok : nat; w_lo : Z; w_width : Z; w_src : wsrc }.

Record tokdesc := mkTok { t_size : Z; t_big : bool }.

Record instr_desc := mkDesc {
  d_class : string;           (* Python class name *)
  d_variant : string;         (* chosen constructor classes of composite operands, "/"-joined *)
  d_syntax : list string;     (* syntax elements; operands as "%name" *)
  d_tokens : list tokdesc;    (* in emitted order (precodes first) *)
  d_writes : list write;      (* in execution order *)
  d_ops : list operand }.     (* leaf operands in syntax order *)

(* ---- operand values ---- *)
Definition opval (o : operand) (v : Z) : Z := v / o_div o - o_sub o.

Definition src_value (d : instr_desc) (ops : list Z) (w : write) : result Z :=
  match w_src w with
  | SConst c => Ok c
  | SOp i sh m =>
      match nth_error ops i, nth_error (d_ops d) i with
      | Some v, Some o =>
          let t := Z.shiftr (opval o v) sh in
          Ok (if m then Z.land t (Z.ones (w_width w)) else t)
      | _, _ => Internal IndexError
      end
  end.

(* Token.__setitem__(slice(lo, lo+width), value): range check and negative wrap *)
Definition norm_value (width v : Z) : result Z :=
  let limit := 2 ^ width in
  if limit <=? v then Diag 1
  else let v' := if v <? 0 then limit + v else v in
       if (0 <=? v') && (v' <? limit) then Ok v' else Internal AssertionError.

(* ... and the update of bit_value:  mask = self.mask ^ ((limit-1) << start);
       bit_value &= mask; bit_value |= value << start *)
Definition apply1 (size bv lo width v : Z) : Z :=
  Z.lor (Z.land bv (Z.lxor (Z.ones size) (Z.shiftl (2 ^ width - 1) lo))) (Z.shiftl v lo).

(* an evaluated write *)
Record ewrite := mkE { e_tok : nat; e_lo : Z; e_width : Z; e_val : Z }.

Fixpoint eval_writes (d : instr_desc) (ops : list Z) (ws : list write) : result (list ewrite) :=
  match ws with
  | [] => Ok []
  | w :: r =>
      v <- src_value d ops w ;;
      v' <- norm_value (w_width w) v ;;
      es <- eval_writes d ops r ;;
      Ok (mkE (w_tok w) (w_lo w) (w_width w) v' :: es)
  end.

Definition step (size : Z) (k : nat) (bv : Z) (e : ewrite) : Z :=
  if Nat.eqb (e_tok e) k then apply1 size bv (e_lo e) (e_width e) (e_val e) else bv.

Definition tokval (size : Z) (k : nat) (es : list ewrite) : Z := fold_left (step size k) es 0.

Fixpoint tokvals_from (k : nat) (ts : list tokdesc) (es : list ewrite) : list Z :=
  match ts with
  | [] => []
  | t :: r => tokval (t_size t) k es :: tokvals_from (S k) r es
  end.

(* token values after all writes (the error behaviour of a write does not depend on the token
   state, so errors are decided first, in execution order) *)
Definition encode_tokens (d : instr_desc) (ops : list Z) : result (list Z) :=
  es <- eval_writes d ops (d_writes d) ;;
  Ok (tokvals_from 0 (d_tokens d) es).

(* ---- Token.pack / unpack ---- *)
Fixpoint le_bytes (n : nat) (v : Z) : list Z :=
  match n with O => [] | S n' => Z.land v 255 :: le_bytes n' (Z.shiftr v 8) end.

Definition pack (t : tokdesc) (v : Z) : list Z :=
  let l := le_bytes (Z.to_nat (t_size t / 8)) v in
  if t_big t then rev l else l.

Fixpoint le_value (l : list Z) : Z :=
  match l with [] => 0 | b :: r => b + 256 * le_value r end.

Definition unpack (t : tokdesc) (l : list Z) : Z :=
  le_value (if t_big t then rev l else l).

Fixpoint pack_all (ts : list tokdesc) (vs : list Z) : list Z :=
  match ts, vs with
  | t :: tr, v :: vr => pack t v ++ pack_all tr vr
  | _, _ => []
  end.

Definition encode_instr (d : instr_desc) (ops : list Z) : result (list Z) :=
  tv <- encode_tokens d ops ;;
  Ok (pack_all (d_tokens d) tv).

(* ---- decoding ---- *)
Fixpoint unpack_all (ts : list tokdesc) (bytes : list Z) : result (list Z) :=
  match ts with
  | [] => match bytes with [] => Ok [] | _ => Diag 2 end
  | t :: tr =>
      let n := Z.to_nat (t_size t / 8) in
      if Nat.ltb (List.length bytes) n then Diag 3
      else r <- unpack_all tr (skipn n bytes) ;;
           Ok (unpack t (firstn n bytes) :: r)
  end.

(* where does bit k of T(operand i) live?  first write that carries it *)
Fixpoint find_bit (ws : list write) (i : nat) (k : Z) : option (nat * Z) :=
  match ws with
  | [] => None
  | w :: r =>
      match w_src w with
      | SOp j sh _ =>
          if Nat.eqb j i && (sh <=? k) && (k <? sh + w_width w)
          then Some (w_tok w, w_lo w + (k - sh))
          else find_bit r i k
      | SConst _ => find_bit r i k
      end
  end.

Definition read_bit (d : instr_desc) (tv : list Z) (i : nat) (k : Z) : bool :=
  match find_bit (d_writes d) i k with
  | Some (t, p) => Z.testbit (nth t tv 0) p
  | None => false
  end.

(* value of bits 0..n-1 *)
Fixpoint read_bits (d : instr_desc) (tv : list Z) (i : nat) (n : nat) : Z :=
  match n with
  | O => 0
  | S n' => read_bits d tv i n' + (if read_bit d tv i (Z.of_nat n') then 2 ^ Z.of_nat n' else 0)
  end.

Definition decode_op (d : instr_desc) (tv : list Z) (i : nat) (o : operand) : Z :=
  match o_kind o with
  | KLabel => 0
  | KReg _ => (read_bits d tv i (Z.to_nat (o_width o)) + o_sub o) * o_div o
  | KImm sg =>
      let t := read_bits d tv i (Z.to_nat (o_width o)) in
      let t' := if sg && (2 ^ (o_width o - 1) <=? t) then t - 2 ^ o_width o else t in
      (t' + o_sub o) * o_div o
  end.

Fixpoint decode_ops_from (d : instr_desc) (tv : list Z) (i : nat) (os : list operand) : list Z :=
  match os with
  | [] => []
  | o :: r => decode_op d tv i o :: decode_ops_from d tv (S i) r
  end.

Definition decode_fields (d : instr_desc) (bytes : list Z) : result (list Z) :=
  tv <- unpack_all (d_tokens d) bytes ;;
  Ok (decode_ops_from d tv 0 (d_ops d)).

(* ---- operand ranges ---- *)
Definition op_in_range (o : operand) (v : Z) : bool :=
  match o_kind o with
  | KReg nums => existsb (Z.eqb v) nums
  | KImm sg =>
      (v mod o_div o =? 0) &&
      (if sg then (- 2 ^ (o_width o - 1) <=? opval o v) && (opval o v <? 2 ^ (o_width o - 1))
       else (0 <=? opval o v) && (opval o v <? 2 ^ o_width o))
  | KLabel => v =? 0
  end.

Fixpoint in_range_l (os : list operand) (ops : list Z) : bool :=
  match os, ops with
  | [], [] => true
  | o :: r, v :: vr => op_in_range o v && in_range_l r vr
  | _, _ => false
  end.

Definition in_range (d : instr_desc) (ops : list Z) : bool := in_range_l (d_ops d) ops.

(* ---- well-formedness of a descriptor (decidable) ---- *)
Definition tok_ok (t : tokdesc) : bool := (0 <? t_size t) && (t_size t mod 8 =? 0).

Definition write_ok (d : instr_desc) (w : write) : bool :=
  match nth_error (d_tokens d) (w_tok w) with
  | None => false
  | Some t =>
      (0 <=? w_lo w) && (0 <? w_width w) && (w_lo w + w_width w <=? t_size t) &&
      match w_src w with
      | SConst c => (0 <=? c) && (c <? 2 ^ w_width w)
      | SOp i sh m =>
          match nth_error (d_ops d) i with
          | None => false
          | Some o => (0 <=? sh) && (m || (o_width o <=? sh + w_width w)) &&
                      match o_kind o with KLabel => false | _ => true end
          end
      end
  end.

Definition disjoint_w (a b : write) : bool :=
  negb (Nat.eqb (w_tok a) (w_tok b)) ||
  (w_lo a + w_width a <=? w_lo b) || (w_lo b + w_width b <=? w_lo a).

Fixpoint pairwise_disjoint (ws : list write) : bool :=
  match ws with
  | [] => true
  | w :: r => forallb (disjoint_w w) r && pairwise_disjoint r
  end.

Fixpoint all_below (n : nat) (p : Z -> bool) : bool :=
  match n with O => true | S n' => p (Z.of_nat n') && all_below n' p end.

Definition operand_ok (d : instr_desc) (i : nat) (o : operand) : bool :=
  (0 <? o_div o) && (0 <=? o_width o) &&
  all_below (Z.to_nat (o_width o))
    (fun k => match find_bit (d_writes d) i k with Some _ => true | None => false end) &&
  match o_kind o with
  | KReg nums =>
      forallb (fun v => (v mod o_div o =? 0) && (0 <=? opval o v) && (opval o v <? 2 ^ o_width o)) nums
  | KImm sg => negb sg || (1 <=? o_width o)
  | KLabel => o_width o =? 0
  end.

Fixpoint operands_ok_from (d : instr_desc) (i : nat) (os : list operand) : bool :=
  match os with
  | [] => true
  | o :: r => operand_ok d i o && operands_ok_from d (S i) r
  end.

Definition wf_desc (d : instr_desc) : bool :=
  forallb tok_ok (d_tokens d) &&
  forallb (write_ok d) (d_writes d) &&
  pairwise_disjoint (d_writes d) &&
  operands_ok_from d 0 (d_ops d).

(* ---- the fixed (opcode) bits of a class ---- *)
(* every token bit that no variable write reaches is fixed: constant writes give its value,
   untouched bits stay 0 (Token.__init__) *)
Definition fixed_step (size : Z) (k : nat) (acc : Z * Z) (w : write) : Z * Z :=
  if Nat.eqb (w_tok w) k then
    match w_src w with
    | SConst c => (fst acc, apply1 size (snd acc) (w_lo w) (w_width w) c)
    | SOp _ _ _ => (Z.lor (fst acc) (Z.shiftl (2 ^ w_width w - 1) (w_lo w)), snd acc)
    end
  else acc.

(* (mask of fixed bits, their values) of token k *)
Definition fixed_of_token (d : instr_desc) (size : Z) (k : nat) : Z * Z :=
  let r := fold_left (fixed_step size k) (d_writes d) (0, 0) in
  let m := Z.lxor (Z.ones size) (fst r) in
  (m, Z.land (snd r) m).

Fixpoint fixed_from (d : instr_desc) (k : nat) (ts : list tokdesc) : list (Z * Z) :=
  match ts with
  | [] => []
  | t :: r => fixed_of_token d (t_size t) k :: fixed_from d (S k) r
  end.

(* Token.__getitem__(slice(lo, lo+width)) *)
Definition extract (x lo width : Z) : Z :=
  Z.shiftr (Z.land x (Z.shiftl (2 ^ width - 1) lo)) lo.

(* the emitted bytes carry the class's opcode bits: every fixed field reads back its constant
   (the FixedPattern test of Constructor.from_tokens) *)
Definition fixed_ok (d : instr_desc) (bytes : list Z) : bool :=
  match unpack_all (d_tokens d) bytes with
  | Ok tv =>
      forallb (fun w => match w_src w with
                        | SConst c => extract (nth (w_tok w) tv 0) (w_lo w) (w_width w) =? c
                        | SOp _ _ _ => true
                        end) (d_writes d)
  | _ => false
  end.

(* byte-level view of the fixed bits, for comparing classes with different token layouts *)
Definition fixed_mask_bytes (d : instr_desc) : list Z :=
  pack_all (d_tokens d) (map fst (fixed_from d 0 (d_tokens d))).
Definition fixed_bits_bytes (d : instr_desc) : list Z :=
  pack_all (d_tokens d) (map snd (fixed_from d 0 (d_tokens d))).

(* two classes are compatible when no fixed bit distinguishes them on their common prefix *)
Fixpoint compat_bytes (m1 b1 m2 b2 : list Z) : bool :=
  match m1, b1, m2, b2 with
  | x1 :: m1', y1 :: b1', x2 :: m2', y2 :: b2' =>
      (Z.land (Z.land x1 x2) (Z.lxor y1 y2) =? 0) && compat_bytes m1' b1' m2' b2'
  | _, _, _, _ => true
  end.

Definition compatible (d1 d2 : instr_desc) : bool :=
  compat_bytes (fixed_mask_bytes d1) (fixed_bits_bytes d1) (fixed_mask_bytes d2) (fixed_bits_bytes d2).

Definition desc_key (d : instr_desc) : string * string := (d_class d, d_variant d).

(* ---- pairs of table entries that the fixed bits do not tell apart ---- *)
Definition fsig := (list Z * list Z)%type.
Definition fixed_sig (d : instr_desc) : fsig := (fixed_mask_bytes d, fixed_bits_bytes d).
Definition compat_sig (a b : fsig) : bool := compat_bytes (fst a) (snd a) (fst b) (snd b).
(* pure data directives (db/dw/dd ...: no constant field at all) are not instructions *)
Definition is_data (d : instr_desc) : bool :=
  forallb (fun w => match w_src w with SConst _ => false | SOp _ _ _ => true end) (d_writes d).

Fixpoint pairs_with (i : nat) (a : fsig) (j : nat) (r : list (bool * fsig)) : list (nat * nat) :=
  match r with
  | [] => []
  | (dj, b) :: r' => (if negb dj && compat_sig a b then [(i, j)] else []) ++ pairs_with i a (S j) r'
  end.

Fixpoint overlap_pairs_from (i : nat) (l : list (bool * fsig)) : list (nat * nat) :=
  match l with
  | [] => []
  | (di, a) :: r => (if di then [] else pairs_with i a (S i) r) ++ overlap_pairs_from (S i) r
  end.

Definition overlap_pairs (l : list instr_desc) : list (nat * nat) :=
  overlap_pairs_from 0 (map (fun d => (is_data d, fixed_sig d)) l).

Definition empty_desc : instr_desc := mkDesc "" "" [] [] [] [].
Definition desc_at (l : list instr_desc) (n : nat) : instr_desc := nth n l empty_desc.
Definition mnemonic (d : instr_desc) : string := match d_syntax d with m :: _ => m | [] => "" end.
