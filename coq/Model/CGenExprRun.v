(* Model/CGenExprRun.v — entry points used by the correspondence cases of tools/props/c01.py. NO proofs. *)
From PV Require Import Lib.Py Lib.Val Spec.CIntSpec Spec.CExprSpec Model.CEval Model.CGenExpr
                       Spec.IRSyntax Spec.IRSem.
Open Scope Z_scope.

(* value returned by `rt f(te...) { return e; }` according to the lowered tree, run with IRSem arithmetic *)
Definition tree_result (sv : semv) (g : cgen) (te : tenv) (rt : ity) (e : cx) (args : list Z) : outcome Z :=
  '(v, _) <~ xrun default_cfg (c_tree sv g te rt e) args ;; ODone v.

(* the C value according to Spec/CExprSpec.v *)
Definition spec_result (dm : datamodel) (te : tenv) (args : list Z) (e : cx) : option Z :=
  option_map fst (ceval dm te args e).
