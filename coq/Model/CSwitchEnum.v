(* Model/CSwitchEnum.v — hand model (tie H) for C28 of the places of the C front-end where a constant is
   demanded and a python exception could escape:
     - ConstantExpressionEvaluator.eval_binop with the guards of fixes/C28-const-division-by-zero.diff
       ([eval_expr_f true]; [eval_expr_f false] is Model.CEval.eval_expr, the code without the guards),
     - CSemantics.on_case / on_default (CSwitchContext) and CCodeGenerator.gen_case / gen_range_case / gen_default,
     - CContext._calculate_enum_values with the range check of fixes/C28-enum-range.diff ([fixed = true]) and the
       packing of an enumerator used as initialiser (CContext.pack: struct.pack of the int format).
   The flag [fixed] is chosen per run by tools/props/c28.py from the source under check. NO proofs here. *)
From PV Require Import Lib.Py Lib.Val Spec.CIntSpec Gen.ceval Model.CEval.
From Coq Require Import String.
Open Scope Z_scope.

(* ---- the trees the parser + CSemantics can build: operators of the grammar only ---- *)
Definition is_some {A} (o : option A) : bool := match o with Some _ => true | None => false end.
Definition un_known (op : string) : bool := String.eqb op "-" || String.eqb op "~" || String.eqb op "!".
Definition bin_known (op : string) : bool :=
  String.eqb op "&&" || String.eqb op "||" || is_some (lookup op binop_table).

Fixpoint ops_known (e : cexpr) : bool :=
  match e with
  | NumLit _ _ => true
  | CastE a _ => ops_known a
  | UnOp op a _ => un_known op && ops_known a
  | BinOp a op b _ => bin_known op && ops_known a && ops_known b
  | TernOp a b d _ => ops_known a && ops_known b && ops_known d
  end.

Definition is_divop (op : string) : bool := String.eqb op "/" || String.eqb op "%".
Definition is_shiftop (op : string) : bool := String.eqb op "<<" || String.eqb op ">>".

(* eval_expr; with [fixed] the two guards in eval_binop: CompilerError = Diag *)
Fixpoint eval_expr_f (fixed : bool) (c : cctx) (e : cexpr) : result Z :=
  match e with
  | NumLit v _ => Ok v
  | CastE a t => v <- eval_expr_f fixed c a ;; convert_m c t v
  | UnOp op a t =>
      if String.eqb op "-" || String.eqb op "~" || String.eqb op "!" then
        v <- eval_expr_f fixed c a ;;
        match lookup op unop_table with
        | None => Internal KeyError
        | Some f => r <- f v ;; convert_m c t r
        end
      else Internal NotImplemented
  | BinOp a op b t =>
      if String.eqb op "&&" then
        va <- eval_expr_f fixed c a ;;
        if va =? 0 then Ok 0 else vb <- eval_expr_f fixed c b ;; Ok (Py.b2z (negb (vb =? 0)))
      else if String.eqb op "||" then
        va <- eval_expr_f fixed c a ;;
        if negb (va =? 0) then Ok 1 else vb <- eval_expr_f fixed c b ;; Ok (Py.b2z (negb (vb =? 0)))
      else
        lhs <- eval_expr_f fixed c a ;;
        rhs <- eval_expr_f fixed c b ;;
        if fixed && is_divop op && (rhs =? 0) then Diag 1
        else if fixed && is_shiftop op && (rhs <? 0) then Diag 2
        else
        match lookup op binop_table with
        | None => Internal KeyError
        | Some f => r <- f lhs rhs ;; convert_m c t r
        end
  | TernOp a b d _ =>
      va <- eval_expr_f fixed c a ;;
      if negb (va =? 0) then eval_expr_f fixed c b else eval_expr_f fixed c d
  end.

(* gen_global_initialize_expression *)
Definition global_init_f (fixed : bool) (c : cctx) (t : ity) (e : cexpr) : result (list Z) :=
  v <- eval_expr_f fixed c e ;; pack c t v.

(* ---- switch ---- *)
Inductive elabel := ECase (e : cexpr) | ERange (e1 e2 : cexpr) | EDefault.

Definition label_known (l : elabel) : bool :=
  match l with ECase e => ops_known e | ERange a b => ops_known a && ops_known b | EDefault => true end.

(* CSwitchContext: the IntegerSet of seen values, kept as the list of inserted intervals *)
Record swst := mksw { sw_vals : list (Z * Z); sw_default : bool }.

Definition overlaps (lo hi : Z) (s : list (Z * Z)) : bool :=
  existsb (fun p => (fst p <=? hi) && (lo <=? snd p)) s.

(* CSemantics.on_case / on_default *)
Definition on_label (fixed : bool) (c : cctx) (st : swst) (l : elabel) : result swst :=
  match l with
  | ECase e =>
      v <- eval_expr_f fixed c e ;;
      if overlaps v v (sw_vals st) then Diag 11 else Ok (mksw ((v, v) :: sw_vals st) (sw_default st))
  | ERange e1 e2 =>
      v1 <- eval_expr_f fixed c e1 ;;
      v2 <- eval_expr_f fixed c e2 ;;
      if v1 >? v2 then Diag 12
      else if overlaps v1 v2 (sw_vals st) then Diag 13
      else Ok (mksw ((v1, v2) :: sw_vals st) (sw_default st))
  | EDefault =>
      if sw_default st then Diag 14 else Ok (mksw (sw_vals st) true)
  end.

Fixpoint on_labels (fixed : bool) (c : cctx) (st : swst) (ls : list elabel) : result swst :=
  match ls with
  | [] => Ok st
  | l :: r => st' <- on_label fixed c st l ;; on_labels fixed c st' r
  end.

(* CCodeGenerator.gen_case / gen_range_case / gen_default: the dict switch_options (keys only) *)
Fixpoint cg_range (vs : list Z) (opts : list Z) : result (list Z) :=
  match vs with
  | [] => Ok opts
  | v :: r => if existsb (Z.eqb v) opts then Diag 15 else cg_range r (v :: opts)
  end.

Definition cg_label (fixed : bool) (c : cctx) (opts : list Z) (l : elabel) : result (list Z) :=
  match l with
  | ECase e =>
      v <- eval_expr_f fixed c e ;;
      if existsb (Z.eqb v) opts then Diag 15 else Ok (v :: opts)
  | ERange e1 e2 =>
      v1 <- eval_expr_f fixed c e1 ;;
      v2 <- eval_expr_f fixed c e2 ;;
      cg_range (rangeZ v1 (v2 + 1)) opts
  | EDefault => Ok opts
  end.

Fixpoint cg_labels (fixed : bool) (c : cctx) (opts : list Z) (ls : list elabel) : result (list Z) :=
  match ls with
  | [] => Ok opts
  | l :: r => o <- cg_label fixed c opts l ;; cg_labels fixed c o r
  end.

(* parse (semantic actions) of the whole switch body, then code generation *)
Definition switch_model (fixed : bool) (c : cctx) (ls : list elabel) : result Z :=
  _ <- on_labels fixed c (mksw [] false) ls ;;
  _ <- cg_labels fixed c [] ls ;;
  Ok 0.

(* ---- enum ---- *)
Definition in_int_range (c : cctx) (v : Z) : bool :=
  (- 2 ^ (8 * int_size c - 1) <=? v) && (v <? 2 ^ (8 * int_size c - 1)).

(* CContext._calculate_enum_values: [next] is the implicit value of the next enumerator *)
Fixpoint enum_values (fixed : bool) (c : cctx) (next : Z) (l : list (option cexpr)) : result (list Z) :=
  match l with
  | [] => Ok []
  | o :: r =>
      v <- match o with Some e => eval_expr_f fixed c e | None => Ok next end ;;
      if fixed && negb (in_int_range c v) then Diag 21
      else vs <- enum_values fixed c (v + 1) r ;; Ok (v :: vs)
  end.

(* `enum E { ... }; enum E g = <last enumerator>;` : CContext.pack(EnumType) uses the format of int *)
Definition enum_model (fixed : bool) (c : cctx) (l : list (option cexpr)) : result Z :=
  vs <- enum_values fixed c 0 l ;;
  _ <- pack c TInt (last vs 0) ;;
  Ok 0.

(* ---- literal-level helpers for the correspondence case files (x86_64: int 4, long 8, little endian) ---- *)
Definition ctx64 : cctx := mkctx 4 8 8 true.
Inductive slabel := LCase (v : Z) | LRange (a b : Z) | LDefault.
Definition to_elabel (l : slabel) : elabel :=
  match l with
  | LCase v => ECase (NumLit v TInt) | LRange a b => ERange (NumLit a TInt) (NumLit b TInt) | LDefault => EDefault
  end.
Definition switch_outcome (ls : list slabel) : result Z := switch_model false ctx64 (map to_elabel ls).
Definition enum_outcome_f (fixed : bool) (l : list (option Z)) : result Z :=
  enum_model fixed ctx64 (map (fun o => match o with Some v => Some (NumLit v TLong) | None => None end) l).
(* `int g = a op b;` with int literals *)
Definition binop_outcome_f (fixed : bool) (op : string) (a b : Z) : result Z :=
  _ <- global_init_f fixed ctx64 TInt (BinOp (NumLit a TInt) op (NumLit b TInt) TInt) ;; Ok 0.

(* ---- CContext.pack with fixes/C28-pack-integer-conversion.diff: the integer formats first reduce the value
        modulo 2^N (eval.c_wrap), so struct.pack cannot raise struct.error any more ---- *)
Definition pack_w (c : cctx) (t : ity) (v : Z) : result (list Z) :=
  w <- convert_m c t v ;; pack c t w.

(* gen_global_initialize_expression on the repaired tree: guards in eval_binop + wrapping pack *)
Definition global_init_w (c : cctx) (t : ity) (e : cexpr) : result (list Z) :=
  v <- eval_expr_f true c e ;; pack_w c t v.
