(* Model/CEvalOrig.v — hand model (tie H, frozen) of ppci/lang/c/eval.py and the typing of
   ppci/lang/c/semantics.py as they were BEFORE fixes/C27-*.diff (ppci commit 1a712d0). Only used by
   the *_refuted theorems of Props/C27.v, which record the defects; cross-checked against the
   implementation while the tree is unfixed. NO proofs. *)
From PV Require Import Lib.Py Spec.CIntSpec Model.CEval.
From Coq Require Import String.
Open Scope Z_scope.

Definition unop_table0 : list (string * (Z -> result Z)) :=
  [("-"%string, fun x => Ok (- x)); ("~"%string, fun x => Ok (Z.lnot x))].

(* op_map of eval_binop for expr.typ.is_integer *)
Definition binop_table0 : list (string * (Z -> Z -> result Z)) :=
  [("+"%string, fun x y => Ok (x + y)); ("-"%string, fun x y => Ok (x - y));
   ("*"%string, fun x y => Ok (x * y));
   ("/"%string, fun x y => guard (negb (y =? 0)) (Internal ZeroDiv) (Ok (x / y)));   (* x // y : floor *)
   (">>"%string, fun x y => guard (0 <=? y) (Internal ValueErrorI) (Ok (Z.shiftr x y)));
   ("<<"%string, fun x y => guard (0 <=? y) (Internal ValueErrorI) (Ok (Z.shiftl x y)));
   ("|"%string, fun x y => Ok (Z.lor x y)); ("&"%string, fun x y => Ok (Z.land x y));
   ("^"%string, fun x y => Ok (Z.lxor x y))].

Fixpoint eval_expr0 (e : cexpr) : result Z :=
  match e with
  | NumLit v _ => Ok v
  | CastE a t => eval_expr0 a                          (* int(value): no conversion *)
  | UnOp op a t =>
      if String.eqb op "-" || String.eqb op "~" then
        v <- eval_expr0 a ;;
        match lookup op unop_table0 with None => Internal KeyError | Some f => f v end
      else Internal NotImplemented
  | BinOp a op b t =>
      lhs <- eval_expr0 a ;;
      rhs <- eval_expr0 b ;;
      match lookup op binop_table0 with None => Internal KeyError | Some f => f lhs rhs end
  | TernOp _ _ _ _ => Internal NotImplemented         (* eval_expr: no case for TernaryOperator *)
  end.

Definition global_init0 (c : cctx) (t : ity) (e : cexpr) : result (list Z) :=
  v <- eval_expr0 e ;; pack c t v.

(* typing before fixes/C27-sema-promotions.diff *)
Definition coerce0 (e : cexpr) (t : ity) : cexpr := if ity_eqb (typ_of e) t then e else CastE e t.
Definition promote0 (e : cexpr) : cexpr :=
  match typ_of e with TChar | TUChar | TShort | TUShort => coerce0 e TInt | _ => e end.
Definition rank0 (t : ity) : Z :=
  match t with
  | TChar => 30 | TUChar => 31 | TShort => 40 | TUShort => 41 | TInt => 50 | TUInt => 51
  | TLong => 60 | TULong => 61 | TLLong => 70 | TULLong => 71
  end.
Definition common0 (a b : ity) : ity := if rank0 a <? rank0 b then b else a.
Definition opstr (op : binop) : string :=
  match op with
  | BAdd => "+" | BSub => "-" | BMul => "*" | BDiv => "/" | BMod => "%" | BShl => "<<" | BShr => ">>"
  | BAnd => "&" | BOr => "|" | BXor => "^" | BLt => "<" | BGt => ">" | BLe => "<=" | BGe => ">="
  | BEq => "==" | BNe => "!=" | BLAnd => "&&" | BLOr => "||"
  end.

Fixpoint elab0 (e : expr) : cexpr :=
  match e with
  | ELit t v => NumLit v t
  | ECast t a => CastE (elab0 a) t
  | EUn ULNot a => UnOp "!" (elab0 a) TInt
  | EUn UPlus a => elab0 a
  | EUn UNeg a => UnOp "-" (elab0 a) (typ_of (elab0 a))
  | EUn UCompl a => UnOp "~" (elab0 a) (typ_of (elab0 a))
  | EBin op a b =>
      let a' := elab0 a in
      let b' := elab0 b in
      match op with
      | BLAnd | BLOr => BinOp a' (opstr op) b' TInt
      | BLt | BGt | BLe | BGe | BEq | BNe =>
          let t := common0 (typ_of a') (typ_of b') in
          BinOp (coerce0 a' t) (opstr op) (coerce0 b' t) TInt
      | _ =>
          let a2 := promote0 a' in
          let b2 := promote0 b' in
          let t := common0 (typ_of a2) (typ_of b2) in
          BinOp (coerce0 a2 t) (opstr op) (coerce0 b2 t) t
      end
  | ECond c a b =>
      let t := common0 (typ_of (elab0 a)) (typ_of (elab0 b)) in
      TernOp (coerce0 (elab0 c) TInt) (coerce0 (elab0 a) t) (coerce0 (elab0 b) t) t
  end.
Definition elab_init0 (t : ity) (e : expr) : cexpr := coerce0 (elab0 e) t.
