(* Model/WasmTypes.v — C21: vocabulary shared by the exported tables (Gen/Tab_wasm_opcodes.v) and the
   hand model (Model/WasmBin.v). Definitions only. *)
From PV Require Import Lib.Py.
From Coq Require Import String.
Open Scope Z_scope.

(* operand kinds of ppci.wasm.opcodes: every member of ArgType plus the two string kinds *)
Inductive akind :=
  | KType | KHeapType | KU8 | KU32 | KI32 | KI64 | KF32 | KF64 | KU8x16
  | KTypeIdx | KTableIdx | KLocalIdx | KBlockIdx | KFuncIdx | KLabelIdx | KGlobalIdx
  | KElemIdx | KDataIdx
  | KBrTable | KResultTypes.

(* the BinaryFileWriter method a [wfm] entry of binary/writer.py calls on its argument *)
Inductive wmeth := WType | WByte | WVu32 | WRef | WVs32 | WVs64 | WF32 | WF64.

(* the BinaryFileReader method a [rfm] entry of binary/reader.py calls *)
Inductive rmeth :=
  | RType | RByte | RUint | RInt | RSpaceRef (space : string) | RF32 | RF64 | RExactly (n : Z).

(* value of OPCODES[mnemonic]: an int, or a tuple (prefix, sub-opcode) *)
Definition code := (Z * option Z)%type.

Definition akind_tag (k : akind) : Z :=
  match k with
  | KType => 1 | KHeapType => 2 | KU8 => 3 | KU32 => 4 | KI32 => 10 | KI64 => 11 | KF32 => 12
  | KF64 => 13 | KU8x16 => 14 | KTypeIdx => 20 | KTableIdx => 21 | KLocalIdx => 22
  | KBlockIdx => 23 | KFuncIdx => 24 | KLabelIdx => 25 | KGlobalIdx => 26 | KElemIdx => 27
  | KDataIdx => 28 | KBrTable => 100 | KResultTypes => 101
  end.
Definition akind_eqb (a b : akind) : bool := akind_tag a =? akind_tag b.

Definition optz_eqb (a b : option Z) : bool :=
  match a, b with
  | None, None => true
  | Some x, Some y => x =? y
  | _, _ => false
  end.
Definition code_eqb (a b : code) : bool := (fst a =? fst b) && optz_eqb (snd a) (snd b).

(* Python dict lookup on an association list with unique keys *)
Fixpoint assoc {K A : Type} (eqb : K -> K -> bool) (l : list (K * A)) (k : K) : option A :=
  match l with
  | [] => None
  | (k', a) :: r => if eqb k' k then Some a else assoc eqb r k
  end.
