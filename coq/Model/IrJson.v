(* Model/IrJson.v — hand model (tie H) of ppci/irutils/io.py: DictWriter (module -> JSON value)
   and DictReader (JSON value -> module, with forward-reference patching through
   undefined_values / Value.replace_by).  Executable Gallina, NO proofs (see Proofs/C16_irjson.v).

   The text layer (json.dumps / json.loads) is not modelled: the model starts and ends at the
   JSON value (Lib/Json.v).  A JSON float (ir.Const with a Python float) is carried as
   [JFloat bits] = JObj [("$float64", JNum bits)], bits = IEEE-754 binary64 pattern.

   [jcfg] selects, per defect found in /repo, between the code AS IT IS ([cfg_orig]) and the code
   with the proposed fix applied ([cfg_fixed], /verif/fixes/C16-*.diff):
     fix_value     Variable.value is written and read back          (orig: silently dropped)
     fix_volatile  Load/Store "volatile" is read back               (orig: written, never read)
     fix_copyblob  ir.CopyBlob has a writer and a reader case        (orig: NotImplementedError)
     fix_undefined ir.Undefined has a writer and a reader case       (orig: NotImplementedError)
     fix_fwdtype   the placeholder for a value defined later in the subroutine gets that value's
                   type, found by a pre-scan of the subroutine's JSON (orig: ptr, or the phi's
                   type, so ir.Binop/ir.Unop/ir.AddressOf/Phi.set_incoming raise whenever an
                   operand of another type is defined later in print order)

   Three more switches select the behaviour of ppci/ir.py replace_use, which DictReader reaches
   through register_value -> Value.replace_by when it patches forward references:
     fix_ru_generic Instruction.replace_use releases the old use once        (orig: KeyError when
                    the old value fills two operand slots of one instruction; commit 2d6a9c1)
     fix_ru_phi     Phi.replace_use releases the old use once                (orig: KeyError when
                    the old value comes in through two branches; commit e4350a7)
     fix_ru_call    FunctionCall/ProcedureCall.replace_use replace every matching argument
                    (orig: only the first one, leaving a dangling placeholder, and KeyError
                    when the callee is the old value too; commit 283ca09)

   How Python objects are modelled over the id-based syntax of Spec/IRSyntax.v
   * a registered value object = its [vref] (+ its ir type, needed by the constructor checks);
     vids are handed out in registration order, which is print order;
   * a placeholder ir.Undefined(name, ty) kept in DictReader.undefined_values = [Unres name];
     there is at most one per name at a time, so the name identifies it;
     Value.replace_by / Instruction.replace_use (and the overrides in Phi, FunctionCall,
     ProcedureCall) are modelled as they are, including: KeyError when the placeholder occurs in
     two operand slots of one instruction (second del_use), and calls replacing only the FIRST
     matching argument;
   * a Block object = its name inside the function scope (DictReader keeps one object per name);
     bids are positions in the list of block definitions, computed by a pre-scan of the JSON
     block list (equivalent to creating objects on demand and numbering them in print order, as
     tools/irimport.py does).  Deviations, all outside the image of the writer on well-formed
     modules: a jump to a block name that is never defined gives Internal (OtherI 78) (Python
     silently builds a dangling Block); a block/value name clash that would make
     SubRoutine.make_unique_name rename something gives Internal (OtherI 77);
   * constructor checks of ppci.ir (operand type checks, Alloc amount 0, closed block...) are
     modelled as Internal errors; which Python exception class is raised is not distinguished
     beyond Lib.Py.ierr.  Ill-typed JSON gives Internal TypeError where Python would carry the
     ill-typed value along. *)
From PV Require Import Lib.Py Lib.Val Lib.Json Spec.IRSyntax.
From Coq Require Import String Ascii.
Local Open Scope string_scope.
Local Open Scope list_scope.
Open Scope Z_scope.

Record jcfg := mk_jcfg { fix_value : bool; fix_volatile : bool; fix_copyblob : bool;
                         fix_undefined : bool; fix_fwdtype : bool;
                         fix_ru_generic : bool; fix_ru_phi : bool; fix_ru_call : bool }.
Definition cfg_orig := mk_jcfg false false false false false false false false.
Definition cfg_fixed := mk_jcfg true true true true true true true true.

Definition JFloat (bits : Z) : json := JObj [("$float64", JNum bits)].

(* ------------------------------------------------------------------ binascii / bin2asc *)
Definition hexdigit (n : Z) : ascii :=
  match n with
  | 0 => "0" | 1 => "1" | 2 => "2" | 3 => "3" | 4 => "4" | 5 => "5" | 6 => "6" | 7 => "7"
  | 8 => "8" | 9 => "9" | 10 => "a" | 11 => "b" | 12 => "c" | 13 => "d" | 14 => "e" | _ => "f"
  end%char.
Definition unhexdigit (c : ascii) : option Z :=
  match c with
  | "0" => Some 0 | "1" => Some 1 | "2" => Some 2 | "3" => Some 3 | "4" => Some 4
  | "5" => Some 5 | "6" => Some 6 | "7" => Some 7 | "8" => Some 8 | "9" => Some 9
  | "a" | "A" => Some 10 | "b" | "B" => Some 11 | "c" | "C" => Some 12
  | "d" | "D" => Some 13 | "e" | "E" => Some 14 | "f" | "F" => Some 15
  | _ => None
  end%char.
Fixpoint hexlify (l : list Z) : string :=
  match l with
  | [] => EmptyString
  | b :: r => String (hexdigit (b / 16)) (String (hexdigit (b mod 16)) (hexlify r))
  end.
Fixpoint unhexlify (s : string) : result (list Z) :=
  match s with
  | EmptyString => Ok []
  | String c1 (String c2 r) =>
      match unhexdigit c1, unhexdigit c2 with
      | Some h, Some l => bs <- unhexlify r ;; Ok (16 * h + l :: bs)
      | _, _ => Internal ValueErrorI
      end
  | String _ EmptyString => Internal ValueErrorI
  end.
(* ppci.utils.chunk.chunks(data, 30) *)
Fixpoint chunks30 (fuel : nat) (l : list Z) : list (list Z) :=
  match fuel with
  | O => []
  | S n => match l with
           | [] => []
           | _ => firstn 30 l :: chunks30 n (skipn 30 l)
           end
  end.
Definition bin2asc (d : list Z) : json :=
  if 30 <? len d then JList (map (fun p => JStr (hexlify p)) (chunks30 (List.length d) d))
  else JStr (hexlify d).
Definition asc2bin (j : json) : result (list Z) :=
  match j with
  | JStr s => unhexlify s
  | JList l => parts <- mapM (fun p => s <- as_str p ;; unhexlify s) l ;; Ok (List.concat parts)
  | _ => Internal NotImplemented
  end.

(* ------------------------------------------------------------------ DictWriter *)
Definition write_type (t : ty) : json :=
  match t with
  | Blob s a => JObj [("kind", JStr "blob"); ("size", JNum s); ("alignment", JNum a)]
  | _ => JObj [("kind", JStr "basic"); ("name", JStr (ty_name t))]
  end.

(* value.name *)
Definition ref_name (f : func) (r : vref) : string :=
  match r with
  | Loc v => match find_def f v with Some d => def_name d | None => "" end
  | Param n => match nth_error (f_params f) n with Some p => fst p | None => "" end
  | Glob s => s
  | Unres s => s
  end.
Definition block_name (f : func) (b : bid) : string :=
  match find_block f b with Some k => b_name k | None => "" end.

Definition write_const (c : cst) : json :=
  match c with CInt z => JNum z | CFloat b => JFloat b end.

Definition write_instruction (cfg : jcfg) (f : func) (i : instr) : result json :=
  let vr := fun r => JStr (ref_name f r) in
  let br := fun b => JStr (block_name f b) in
  match i with
  | ILoad _ n t a vol =>
      Ok (JObj [("kind", JStr "load"); ("name", JStr n); ("type", write_type t);
                ("address", vr a); ("volatile", JBool vol)])
  | IStore x a vol =>
      Ok (JObj [("kind", JStr "store"); ("address", vr a); ("value", vr x); ("volatile", JBool vol)])
  | IAlloc _ n s al =>
      Ok (JObj [("kind", JStr "alloc"); ("type", write_type (Blob s al)); ("size", JNum s);
                ("alignment", JNum al); ("name", JStr n)])
  | IBinop _ n t o a b =>
      Ok (JObj [("kind", JStr "binop"); ("name", JStr n); ("type", write_type t); ("a", vr a);
                ("operation", JStr (binop_name o)); ("b", vr b)])
  | IUnop _ n t o a =>
      Ok (JObj [("kind", JStr "unop"); ("name", JStr n); ("type", write_type t); ("a", vr a);
                ("operation", JStr (unop_name o))])
  | IAddrOf _ n a =>
      Ok (JObj [("kind", JStr "addressof"); ("name", JStr n); ("type", write_type Ptr); ("src", vr a)])
  | IExit => Ok (JObj [("kind", JStr "exit")])
  | IReturn a => Ok (JObj [("kind", JStr "return"); ("result", vr a)])
  | IJump b => Ok (JObj [("kind", JStr "jump"); ("target", br b)])
  | ICJump a c b y n =>
      Ok (JObj [("kind", JStr "cjump"); ("a", vr a); ("b", vr b); ("condition", JStr (cond_name c));
                ("yes_block", br y); ("no_block", br n)])
  | ICast _ n t a =>
      Ok (JObj [("kind", JStr "cast"); ("name", JStr n); ("type", write_type t); ("value", vr a)])
  | IConst _ n t c =>
      Ok (JObj [("kind", JStr "const"); ("name", JStr n); ("type", write_type t);
                ("value", write_const c)])
  | ILit _ n d =>
      Ok (JObj [("kind", JStr "literaldata"); ("name", JStr n); ("data", bin2asc d)])
  | ICallP c args =>
      Ok (JObj [("kind", JStr "procedurecall"); ("callee", vr c); ("arguments", JList (map vr args))])
  | ICallF _ n t c args =>
      Ok (JObj [("kind", JStr "functioncall"); ("name", JStr n); ("type", write_type t);
                ("callee", vr c); ("arguments", JList (map vr args))])
  | IPhi _ n t ins =>
      Ok (JObj [("kind", JStr "phi"); ("name", JStr n); ("type", write_type t);
                ("inputs", JList (map (fun p => JObj [("block", br (fst p)); ("value", vr (snd p))]) ins))])
  | ICopyBlob d s n =>
      if fix_copyblob cfg
      then Ok (JObj [("kind", JStr "copyblob"); ("dst", vr d); ("src", vr s); ("amount", JNum n)])
      else Internal NotImplemented
  | IUndef _ n t =>
      if fix_undefined cfg
      then Ok (JObj [("kind", JStr "undefined"); ("name", JStr n); ("type", write_type t)])
      else Internal NotImplemented
  end.

Definition write_block (cfg : jcfg) (f : func) (k : block) : result json :=
  ins <- mapM (write_instruction cfg f) (b_ins k) ;;
  Ok (JObj [("name", JStr (b_name k)); ("instructions", JList ins)]).

Definition write_subroutine (cfg : jcfg) (f : func) : result json :=
  let params := map (fun p => JObj [("name", JStr (fst p)); ("type", write_type (snd p))]) (f_params f) in
  blocks <- mapM (write_block cfg f) (f_blocks f) ;;
  let base := [("binding", JStr (binding_name (f_binding f))); ("name", JStr (f_name f));
               ("parameters", JList params); ("blocks", JList blocks)] in
  match f_ret f with
  | Some rt => Ok (JObj (base ++ [("kind", JStr "function"); ("return_type", write_type rt)]))
  | None => Ok (JObj (base ++ [("kind", JStr "procedure")]))
  end.

Definition write_external (e : ext) : json :=
  match e with
  | EVar n => JObj [("kind", JStr "variable"); ("name", JStr n)]
  | EFunc n args rt =>
      JObj [("kind", JStr "function"); ("name", JStr n);
            ("parameter_types", JList (map write_type args)); ("return_type", write_type rt)]
  | EProc n args =>
      JObj [("kind", JStr "procedure"); ("name", JStr n);
            ("parameter_types", JList (map write_type args))]
  end.

Definition write_init (i : init) : json :=
  match i with
  | InitBytes d => JObj [("kind", JStr "bytes"); ("data", bin2asc d)]
  | InitRef t s => JObj [("kind", JStr "label"); ("type", write_type t); ("name", JStr s)]
  end.
Definition write_variable (cfg : jcfg) (g : gvar) : json :=
  let base := [("name", JStr (g_name g)); ("binding", JStr (binding_name (g_binding g)));
               ("amount", JNum (g_amount g)); ("alignment", JNum (g_align g))] in
  if fix_value cfg
  then JObj (base ++ [("value", match g_value g with
                                | None => JNull
                                | Some l => JList (map write_init l)
                                end)])
  else JObj base.

Definition to_dict (cfg : jcfg) (m : modul) : result json :=
  subs <- mapM (write_subroutine cfg) (m_funcs m) ;;
  Ok (JObj [("name", JStr (m_name m)); ("externals", JList (map write_external (m_externals m)));
            ("variables", JList (map (write_variable cfg) (m_vars m))); ("subroutines", JList subs)]).

(* ------------------------------------------------------------------ DictReader *)
Definition vmap := list (string * (vref * ty)).
Fixpoint vlookup (s : string) (l : vmap) : option (vref * ty) :=
  match l with [] => None | (k, v) :: r => if String.eqb s k then Some v else vlookup s r end.
Fixpoint plookup (s : string) (l : list (string * ty)) : option ty :=
  match l with [] => None | (k, v) :: r => if String.eqb s k then Some v else plookup s r end.
Fixpoint premove (s : string) (l : list (string * ty)) : list (string * ty) :=
  match l with [] => [] | (k, v) :: r => if String.eqb s k then r else (k, v) :: premove s r end.
Fixpoint blookup (s : string) (l : list (string * bid)) : option bid :=
  match l with [] => None | (k, v) :: r => if String.eqb s k then Some v else blookup s r end.

Record rst := mk_rst {
  rs_glob : vmap;                  (* scopes[0].value_map *)
  rs_loc : vmap;                   (* scopes[1].value_map while inside a subroutine *)
  rs_infun : bool;
  rs_pend : list (string * ty);    (* undefined_values: name -> type of the placeholder *)
  rs_next : positive;              (* next vid of the current subroutine *)
  rs_bmap : list (string * bid);   (* block objects of the current subroutine *)
  rs_funcs : list func;            (* subroutines already added to the module *)
  rs_blocks : list block;          (* blocks already added to the current subroutine *)
  rs_ins : list instr }.           (* instructions already added to the current block *)
Definition rst0 := mk_rst [] [] false [] 1 [] [] [] [].

(* ---- Value.replace_by: old = the placeholder called [name] *)
Definition is_old (name : string) (r : vref) : bool :=
  match r with Unres s => String.eqb s name | _ => false end.
Definition sub1 (name : string) (new r : vref) : vref := if is_old name r then new else r.
Definition count_old (name : string) (l : list vref) : nat := List.length (filter (is_old name) l).
Fixpoint replace_first (name : string) (new : vref) (l : list vref) : list vref :=
  match l with
  | [] => []
  | r :: rest => if is_old name r then new :: rest else r :: replace_first name new rest
  end.
Definition map_refs (g : vref -> vref) (i : instr) : instr :=
  match i with
  | IBinop v n t o a b => IBinop v n t o (g a) (g b)
  | IUnop v n t o a => IUnop v n t o (g a)
  | ICast v n t a => ICast v n t (g a)
  | ILoad v n t a vol => ILoad v n t (g a) vol
  | IStore x a vol => IStore (g x) (g a) vol
  | IAddrOf v n a => IAddrOf v n (g a)
  | ICopyBlob d s n => ICopyBlob (g d) (g s) n
  | IPhi v n t ins => IPhi v n t (map (fun p => (fst p, g (snd p))) ins)
  | ICallF v n t c args => ICallF v n t (g c) (map g args)
  | ICallP c args => ICallP (g c) (map g args)
  | ICJump a c b y n => ICJump (g a) c (g b) y n
  | IReturn a => IReturn (g a)
  | IConst _ _ _ _ | IAlloc _ _ _ _ | ILit _ _ _ | IUndef _ _ _ | IJump _ | IExit => i
  end.
(* use.replace_use(old, new) for one user *)
Definition patch_instr (cfg : jcfg) (name : string) (new : vref) (i : instr) : result instr :=
  let call := fun (c : vref) (args : list vref) (mk : vref -> list vref -> instr) =>
    if fix_ru_call cfg then Ok (mk (sub1 name new c) (map (sub1 name new) args))
    else if is_old name c
    then (if existsb (is_old name) args then Internal KeyError else Ok (mk new args))
    else Ok (mk c (replace_first name new args)) in
  match i with
  | ICallF v n t c args => call c args (ICallF v n t)
  | ICallP c args => call c args ICallP
  | IPhi _ _ _ _ =>
      if negb (fix_ru_phi cfg) && Nat.leb 2 (count_old name (instr_uses i)) then Internal KeyError
      else Ok (map_refs (sub1 name new) i)
  | _ => if negb (fix_ru_generic cfg) && Nat.leb 2 (count_old name (instr_uses i)) then Internal KeyError
         else Ok (map_refs (sub1 name new) i)
  end.
Definition patch_block (cfg : jcfg) (name : string) (new : vref) (k : block) : result block :=
  ins <- mapM (patch_instr cfg name new) (b_ins k) ;; Ok (mk_block (b_id k) (b_name k) ins).
Definition patch_func (cfg : jcfg) (name : string) (new : vref) (f : func) : result func :=
  bl <- mapM (patch_block cfg name new) (f_blocks f) ;;
  Ok (mk_func (f_name f) (f_binding f) (f_ret f) (f_params f) bl).

(* DictReader.register_value; [self] = the instruction being registered (not yet in its block) *)
Definition register (cfg : jcfg) (name : string) (r : vref) (t : ty) (self : option instr) (st : rst)
  : result (option instr * rst) :=
  '(self1, st1) <-
    match plookup name (rs_pend st) with
    | None => Ok (self, st)
    | Some _ =>
        fs <- mapM (patch_func cfg name r) (rs_funcs st) ;;
        bs <- mapM (patch_block cfg name r) (rs_blocks st) ;;
        ins <- mapM (patch_instr cfg name r) (rs_ins st) ;;
        s1 <- match self with
              | None => Ok None
              | Some i => i' <- patch_instr cfg name r i ;; Ok (Some i')
              end ;;
        Ok (s1, mk_rst (rs_glob st) (rs_loc st) (rs_infun st) (premove name (rs_pend st))
                       (rs_next st) (rs_bmap st) fs bs ins)
    end ;;
  let scope := if rs_infun st1 then rs_loc st1 else rs_glob st1 in
  match vlookup name scope with
  | Some _ => Internal AssertionError
  | None =>
      if rs_infun st1
      then Ok (self1, mk_rst (rs_glob st1) ((name, (r, t)) :: rs_loc st1) true (rs_pend st1)
                             (rs_next st1) (rs_bmap st1) (rs_funcs st1) (rs_blocks st1) (rs_ins st1))
      else Ok (self1, mk_rst ((name, (r, t)) :: rs_glob st1) (rs_loc st1) false (rs_pend st1)
                             (rs_next st1) (rs_bmap st1) (rs_funcs st1) (rs_blocks st1) (rs_ins st1))
  end.

(* DictReader.get_value_ref(name, ty=ir.ptr) *)
Definition get_value_ref (name : string) (dty : ty) (st : rst) : (vref * ty) * rst :=
  match (if rs_infun st then vlookup name (rs_loc st) else None) with
  | Some x => (x, st)
  | None =>
      match vlookup name (rs_glob st) with
      | Some x => (x, st)
      | None =>
          match plookup name (rs_pend st) with
          | Some t => ((Unres name, t), st)
          | None => ((Unres name, dty),
                     mk_rst (rs_glob st) (rs_loc st) (rs_infun st) ((name, dty) :: rs_pend st)
                            (rs_next st) (rs_bmap st) (rs_funcs st) (rs_blocks st) (rs_ins st))
          end
      end
  end.
Definition get_block_ref (name : string) (st : rst) : result bid :=
  match blookup name (rs_bmap st) with Some b => Ok b | None => Internal (OtherI 78) end.

Definition basic_of_name (s : string) : option ty :=
  find (fun t => String.eqb (ty_name t) s) basic_types.
Definition get_type (j : json) : result ty :=
  k <- jget "kind" j ;; k <- as_str k ;;
  if String.eqb k "basic" then
    n <- jget "name" j ;; n <- as_str n ;;
    match basic_of_name n with Some t => Ok t | None => Internal KeyError end
  else if String.eqb k "blob" then
    s <- jget "size" j ;; s <- as_int s ;;
    a <- jget "alignment" j ;; a <- as_int a ;;
    Ok (Blob s a)
  else Internal NotImplemented.

Definition jstr (k : string) (j : json) : result string := v <- jget k j ;; as_str v.
Definition jint (k : string) (j : json) : result Z := v <- jget k j ;; as_int v.
Definition jbool (k : string) (j : json) : result bool :=
  v <- jget k j ;; match v with JBool b => Ok b | _ => Internal TypeError end.
Definition jvol (cfg : jcfg) (j : json) : result bool :=
  if fix_volatile cfg then jbool "volatile" j else Ok false.
Definition binop_of_name (s : string) : option binop :=
  find (fun o => String.eqb (binop_name o) s) all_binops.
Definition unop_of_name (s : string) : option unop :=
  find (fun o => String.eqb (unop_name o) s) all_unops.
Definition cond_of_name (s : string) : option cond :=
  find (fun o => String.eqb (cond_name o) s) all_conds.
Definition read_const (j : json) : result cst :=
  match j with
  | JNum z => Ok (CInt z)
  | JObj [(k, JNum b)] => if String.eqb k "$float64" then Ok (CFloat b) else Internal AssertionError
  | _ => Internal AssertionError
  end.
Definition check (c : bool) (e : ierr) : result unit := if c then Ok tt else Internal e.

Definition with_next (st : rst) : rst :=
  mk_rst (rs_glob st) (rs_loc st) (rs_infun st) (rs_pend st) (Pos.succ (rs_next st)) (rs_bmap st)
         (rs_funcs st) (rs_blocks st) (rs_ins st).
Definition block_names_of (l : list block) : list string := map b_name l.

(* block.add_instruction *)
Definition add_instruction (i : instr) (st : rst) : result rst :=
  _ <- check (negb (match List.rev (rs_ins st) with x :: _ => is_terminator x | [] => false end))
             AssertionError ;;
  _ <- check (match instr_def i with
              | Some d => negb (mem_str (def_name d) (block_names_of (rs_blocks st)))
              | None => true
              end) (OtherI 77) ;;
  Ok (mk_rst (rs_glob st) (rs_loc st) (rs_infun st) (rs_pend st) (rs_next st) (rs_bmap st)
             (rs_funcs st) (rs_blocks st) (rs_ins st ++ [i])).

(* register a freshly built value-defining instruction, then add it to the block *)
Definition finish_value (cfg : jcfg) (i : instr) (st : rst) : result rst :=
  match instr_def i with
  | None => Internal AssertionError
  | Some (v, n, t) =>
      '(self, st1) <- register cfg n (Loc v) t (Some i) st ;;
      match self with
      | Some i' => add_instruction i' (with_next st1)
      | None => Internal AssertionError
      end
  end.

(* fix C16-5: types of the values defined in a subroutine, collected from its JSON before the
   blocks are constructed; a placeholder for a later-defined value gets its real type *)
Definition gvr (vt : list (string * ty)) (name : string) (dty : ty) (st : rst) : (vref * ty) * rst :=
  get_value_ref name (match plookup name vt with Some t => t | None => dty end) st.
Definition scan_instr_type (j : json) : result (list (string * ty)) :=
  match j with
  | JObj l =>
      match jlookup "name" l, jlookup "kind" l with
      | Some (JStr n), Some (JStr k) =>
          if String.eqb k "alloc" then
            s <- jint "size" j ;; a <- jint "alignment" j ;; Ok [(n, Blob s a)]
          else if String.eqb k "literaldata" then
            dj <- jget "data" j ;; d <- asc2bin dj ;; Ok [(n, Blob (len d) 1)]
          else if String.eqb k "addressof" then Ok [(n, Ptr)]
          else match jlookup "type" l with
               | Some tj => t <- get_type tj ;; Ok [(n, t)]
               | None => Ok []
               end
      | _, _ => Ok []
      end
  | _ => Ok []
  end.
Definition scan_value_types (blocks : list json) : result (list (string * ty)) :=
  per <- mapM (fun b => ij <- jget "instructions" b ;; il <- as_list ij ;;
                        ts <- mapM scan_instr_type il ;; Ok (List.concat ts)) blocks ;;
  Ok (List.concat per).

Fixpoint get_args (vt : list (string * ty)) (l : list json) (st : rst) : result (list vref * rst) :=
  match l with
  | [] => Ok ([], st)
  | j :: r => n <- as_str j ;;
              let '((a, _), st1) := gvr vt n Ptr st in
              '(rest, st2) <- get_args vt r st1 ;; Ok (a :: rest, st2)
  end.
Fixpoint get_phi_inputs (vt : list (string * ty)) (t : ty) (l : list json) (acc : list (bid * vref)) (st : rst)
  : result (list (bid * vref) * rst) :=
  match l with
  | [] => Ok (acc, st)
  | j :: r =>
      bn <- jstr "block" j ;; b <- get_block_ref bn st ;;
      vn <- jstr "value" j ;;
      let '((a, ta), st1) := gvr vt vn t st in
      _ <- check (ty_eqb ta t) ValueErrorI ;;
      (* Phi.set_incoming: inputs is a dict keyed by block *)
      let acc' := if mem_pos b (map fst acc)
                  then map (fun p => if Pos.eqb (fst p) b then (b, a) else p) acc
                  else acc ++ [(b, a)] in
      get_phi_inputs vt t r acc' st1
  end.

Definition construct_instruction (cfg : jcfg) (vt : list (string * ty)) (j : json) (st : rst) : result rst :=
  k <- jstr "kind" j ;;
  let v := rs_next st in
  if String.eqb k "load" then
    n <- jstr "name" j ;; tj <- jget "type" j ;; t <- get_type tj ;;
    an <- jstr "address" j ;; let '((a, ta), st1) := gvr vt an Ptr st in
    vol <- jvol cfg j ;;
    _ <- check (ty_eqb ta Ptr) AssertionError ;;
    _ <- check (negb (ty_is_blob t)) ValueErrorI ;;
    finish_value cfg (ILoad v n t a vol) st1
  else if String.eqb k "store" then
    xn <- jstr "value" j ;; let '((x, _), st1) := gvr vt xn Ptr st in
    an <- jstr "address" j ;; let '((a, ta), st2) := gvr vt an Ptr st1 in
    vol <- jvol cfg j ;;
    _ <- check (ty_eqb ta Ptr) TypeError ;;
    add_instruction (IStore x a vol) st2
  else if String.eqb k "alloc" then
    n <- jstr "name" j ;; s <- jint "size" j ;; al <- jint "alignment" j ;;
    _ <- check (negb (s =? 0)) ValueErrorI ;;
    finish_value cfg (IAlloc v n s al) st
  else if String.eqb k "addressof" then
    n <- jstr "name" j ;; tj <- jget "type" j ;; _ <- get_type tj ;;
    sn <- jstr "src" j ;; let '((a, ta), st1) := gvr vt sn Ptr st in
    _ <- check (ty_is_blob ta) TypeError ;;
    finish_value cfg (IAddrOf v n a) st1
  else if String.eqb k "binop" then
    n <- jstr "name" j ;; tj <- jget "type" j ;; t <- get_type tj ;;
    an <- jstr "a" j ;; let '((a, ta), st1) := gvr vt an Ptr st in
    on <- jstr "operation" j ;;
    bn <- jstr "b" j ;; let '((b, tb), st2) := gvr vt bn Ptr st1 in
    match binop_of_name on with
    | None => Internal TypeError
    | Some o =>
        _ <- check (ty_eqb ta t) TypeError ;; _ <- check (ty_eqb tb t) TypeError ;;
        finish_value cfg (IBinop v n t o a b) st2
    end
  else if String.eqb k "unop" then
    n <- jstr "name" j ;; tj <- jget "type" j ;; t <- get_type tj ;;
    an <- jstr "a" j ;; let '((a, ta), st1) := gvr vt an Ptr st in
    on <- jstr "operation" j ;;
    match unop_of_name on with
    | None => Internal TypeError
    | Some o => _ <- check (ty_eqb ta t) TypeError ;; finish_value cfg (IUnop v n t o a) st1
    end
  else if String.eqb k "cast" then
    n <- jstr "name" j ;; tj <- jget "type" j ;; t <- get_type tj ;;
    an <- jstr "value" j ;; let '((a, _), st1) := gvr vt an Ptr st in
    finish_value cfg (ICast v n t a) st1
  else if String.eqb k "const" then
    n <- jstr "name" j ;; tj <- jget "type" j ;; t <- get_type tj ;;
    cj <- jget "value" j ;; c <- read_const cj ;;
    finish_value cfg (IConst v n t c) st
  else if String.eqb k "literaldata" then
    n <- jstr "name" j ;; dj <- jget "data" j ;; d <- asc2bin dj ;;
    finish_value cfg (ILit v n d) st
  else if String.eqb k "phi" then
    n <- jstr "name" j ;; tj <- jget "type" j ;; t <- get_type tj ;;
    ij <- jget "inputs" j ;; il <- as_list ij ;;
    '(ins, st1) <- get_phi_inputs vt t il [] st ;;
    finish_value cfg (IPhi v n t ins) st1
  else if String.eqb k "jump" then
    tn <- jstr "target" j ;; b <- get_block_ref tn st ;;
    add_instruction (IJump b) st
  else if String.eqb k "cjump" then
    an <- jstr "a" j ;; let '((a, _), st1) := gvr vt an Ptr st in
    cn <- jstr "condition" j ;;
    bn <- jstr "b" j ;; let '((b, _), st2) := gvr vt bn Ptr st1 in
    yn <- jstr "yes_block" j ;; y <- get_block_ref yn st2 ;;
    nn <- jstr "no_block" j ;; no <- get_block_ref nn st2 ;;
    match cond_of_name cn with
    | None => Internal ValueErrorI
    | Some c => add_instruction (ICJump a c b y no) st2
    end
  else if String.eqb k "procedurecall" then
    cn <- jstr "callee" j ;; let '((c, tc), st1) := gvr vt cn Ptr st in
    aj <- jget "arguments" j ;; al <- as_list aj ;;
    '(args, st2) <- get_args vt al st1 ;;
    _ <- check (ty_eqb tc Ptr) ValueErrorI ;;
    add_instruction (ICallP c args) st2
  else if String.eqb k "functioncall" then
    n <- jstr "name" j ;; tj <- jget "type" j ;; t <- get_type tj ;;
    cn <- jstr "callee" j ;; let '((c, tc), st1) := gvr vt cn Ptr st in
    aj <- jget "arguments" j ;; al <- as_list aj ;;
    '(args, st2) <- get_args vt al st1 ;;
    _ <- check (ty_eqb tc Ptr) ValueErrorI ;;
    finish_value cfg (ICallF v n t c args) st2
  else if String.eqb k "exit" then add_instruction IExit st
  else if String.eqb k "return" then
    rn <- jstr "result" j ;; let '((a, _), st1) := gvr vt rn Ptr st in
    add_instruction (IReturn a) st1
  else if fix_copyblob cfg && String.eqb k "copyblob" then
    dn <- jstr "dst" j ;; let '((d, _), st1) := gvr vt dn Ptr st in
    sn <- jstr "src" j ;; let '((s, _), st2) := gvr vt sn Ptr st1 in
    n <- jint "amount" j ;;
    add_instruction (ICopyBlob d s n) st2
  else if fix_undefined cfg && String.eqb k "undefined" then
    n <- jstr "name" j ;; tj <- jget "type" j ;; t <- get_type tj ;;
    finish_value cfg (IUndef v n t) st
  else Internal NotImplemented.

Fixpoint construct_instructions (cfg : jcfg) (vt : list (string * ty)) (l : list json) (st : rst) : result rst :=
  match l with
  | [] => Ok st
  | j :: r => st1 <- construct_instruction cfg vt j st ;; construct_instructions cfg vt r st1
  end.

Definition construct_block (cfg : jcfg) (vt : list (string * ty)) (j : json) (st : rst) : result rst :=
  name <- jstr "name" j ;;
  ij <- jget "instructions" j ;; il <- as_list ij ;;
  b <- get_block_ref name st ;;
  let st0 := mk_rst (rs_glob st) (rs_loc st) (rs_infun st) (rs_pend st) (rs_next st) (rs_bmap st)
                    (rs_funcs st) (rs_blocks st) [] in
  st1 <- construct_instructions cfg vt il st0 ;;
  (* subroutine.add_block -> make_unique_name(block) *)
  _ <- check (negb (mem_str name (block_names_of (rs_blocks st1)
                                  ++ map def_name (instrs_defs (flat_map b_ins (rs_blocks st1) ++ rs_ins st1)))))
             (OtherI 77) ;;
  Ok (mk_rst (rs_glob st1) (rs_loc st1) (rs_infun st1) (rs_pend st1) (rs_next st1) (rs_bmap st1)
             (rs_funcs st1) (rs_blocks st1 ++ [mk_block b name (rs_ins st1)]) []).
Fixpoint construct_blocks (cfg : jcfg) (vt : list (string * ty)) (l : list json) (st : rst) : result rst :=
  match l with
  | [] => Ok st
  | j :: r => st1 <- construct_block cfg vt j st ;; construct_blocks cfg vt r st1
  end.

Definition construct_binding (s : string) : result binding :=
  if String.eqb s "local" then Ok BLocal
  else if String.eqb s "global" then Ok BGlobal else Internal KeyError.

Fixpoint number_blocks (p : positive) (l : list string) : list (string * bid) :=
  match l with [] => [] | s :: r => (s, p) :: number_blocks (Pos.succ p) r end.

Fixpoint construct_params (cfg : jcfg) (l : list json) (k : nat) (acc : list (string * ty)) (st : rst)
  : result (list (string * ty) * rst) :=
  match l with
  | [] => Ok (acc, st)
  | j :: r =>
      n <- jstr "name" j ;; tj <- jget "type" j ;; t <- get_type tj ;;
      '(_, st1) <- register cfg n (Param k) t None st ;;
      construct_params cfg r (S k) (acc ++ [(n, t)]) st1
  end.

Definition construct_subroutine (cfg : jcfg) (j : json) (st : rst) : result rst :=
  name <- jstr "name" j ;;
  bj <- jget "blocks" j ;; bl <- as_list bj ;;
  pj <- jget "parameters" j ;; pl <- as_list pj ;;
  bs <- jstr "binding" j ;; binding <- construct_binding bs ;;
  stype <- jstr "kind" j ;;
  ret <- (if String.eqb stype "function" then
            rj <- jget "return_type" j ;; t <- get_type rj ;; Ok (Some t)
          else if String.eqb stype "procedure" then Ok None
          else Internal NotImplemented) ;;
  '(_, st1) <- register cfg name (Glob name) Ptr None st ;;
  bnames <- mapM (jstr "name") bl ;;
  _ <- check (nodup_str bnames) AssertionError ;;
  let st2 := mk_rst (rs_glob st1) [] true (rs_pend st1) 1 (number_blocks 1 bnames)
                    (rs_funcs st1) [] [] in
  '(params, st3) <- construct_params cfg pl O [] st2 ;;
  vt <- (if fix_fwdtype cfg then scan_value_types bl else Ok []) ;;
  st4 <- construct_blocks cfg vt bl st3 ;;
  Ok (mk_rst (rs_glob st4) [] false (rs_pend st4) 1 []
             (rs_funcs st4 ++ [mk_func name binding ret params (rs_blocks st4)]) [] []).
Fixpoint construct_subroutines (cfg : jcfg) (l : list json) (st : rst) : result rst :=
  match l with
  | [] => Ok st
  | j :: r => st1 <- construct_subroutine cfg j st ;; construct_subroutines cfg r st1
  end.

Definition construct_external (cfg : jcfg) (j : json) (st : rst) : result (ext * rst) :=
  etype <- jstr "kind" j ;; name <- jstr "name" j ;;
  e <- (if String.eqb etype "variable" then Ok (EVar name)
        else if String.eqb etype "function" then
          pj <- jget "parameter_types" j ;; pl <- as_list pj ;; tys <- mapM get_type pl ;;
          rj <- jget "return_type" j ;; rt <- get_type rj ;; Ok (EFunc name tys rt)
        else if String.eqb etype "procedure" then
          pj <- jget "parameter_types" j ;; pl <- as_list pj ;; tys <- mapM get_type pl ;;
          Ok (EProc name tys)
        else Internal NotImplemented) ;;
  '(_, st1) <- register cfg name (Glob name) Ptr None st ;;
  Ok (e, st1).
Fixpoint construct_externals (cfg : jcfg) (l : list json) (st : rst) : result (list ext * rst) :=
  match l with
  | [] => Ok ([], st)
  | j :: r => '(e, st1) <- construct_external cfg j st ;;
              '(es, st2) <- construct_externals cfg r st1 ;; Ok (e :: es, st2)
  end.

Definition read_init (j : json) : result init :=
  k <- jstr "kind" j ;;
  if String.eqb k "bytes" then dj <- jget "data" j ;; d <- asc2bin dj ;; Ok (InitBytes d)
  else if String.eqb k "label" then
    tj <- jget "type" j ;; t <- get_type tj ;; n <- jstr "name" j ;; Ok (InitRef t n)
  else Internal NotImplemented.
Definition construct_variable (cfg : jcfg) (j : json) (st : rst) : result (gvar * rst) :=
  name <- jstr "name" j ;;
  bs <- jstr "binding" j ;; binding <- construct_binding bs ;;
  amount <- jint "amount" j ;; alignment <- jint "alignment" j ;;
  value <- (if fix_value cfg then
              vj <- jget "value" j ;;
              match vj with
              | JNull => Ok None
              | JList l => parts <- mapM read_init l ;; Ok (Some parts)
              | _ => Internal TypeError
              end
            else Ok None) ;;
  '(_, st1) <- register cfg name (Glob name) Ptr None st ;;
  Ok (mk_gvar name binding amount alignment value, st1).
Fixpoint construct_variables (cfg : jcfg) (l : list json) (st : rst) : result (list gvar * rst) :=
  match l with
  | [] => Ok ([], st)
  | j :: r => '(g, st1) <- construct_variable cfg j st ;;
              '(gs, st2) <- construct_variables cfg r st1 ;; Ok (g :: gs, st2)
  end.

(* DictReader.construct, after json.loads *)
Definition from_dict (cfg : jcfg) (d : json) : result modul :=
  name <- jstr "name" d ;;
  ej <- jget "externals" d ;; el <- as_list ej ;;
  vj <- jget "variables" d ;; vl <- as_list vj ;;
  sj <- jget "subroutines" d ;; sl <- as_list sj ;;
  '(exts, st1) <- construct_externals cfg el rst0 ;;
  '(vars, st2) <- construct_variables cfg vl st1 ;;
  st3 <- construct_subroutines cfg sl st2 ;;
  _ <- check (match rs_pend st3 with [] => true | _ => false end) AssertionError ;;
  Ok (mk_modul name exts vars (rs_funcs st3)).

(* from_json (to_json m) with the text layer removed *)
Definition roundtrip (cfg : jcfg) (m : modul) : result modul :=
  d <- to_dict cfg m ;; from_dict cfg d.
