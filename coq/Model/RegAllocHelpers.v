(* Model/RegAllocHelpers.v — C06: hand models (tie H) of the allocator's two helper algorithms,
   FlowGraph.calculate_liveness (node-level fixed-point iteration, in place, layout order) and
   InterferenceGraph.calculate_interference.  Executable, no proofs. *)
From Coq Require Import ZArith List Bool Arith.
From PV Require Import Spec.RegAllocSpec Model.RegAllocCheck.
Import ListNotations.
Open Scope Z_scope.

(* ---------------------------------------------------------------- calculate_liveness *)
Record fnode := mkNode { n_gen : list reg; n_kill : list reg; n_succ : list nat }.
Definition lstate := nat -> (list reg * list reg).      (* node -> (live_in, live_out) *)

Definition seteq (a b : list reg) : bool := subset a b && subset b a.
Definition upd (st : lstate) (k : nat) (v : list reg * list reg) : lstate :=
  fun j => if (j =? k)%nat then v else st j.

(*  for node in cfg_nodes:
        _in, _out = node.live_in, node.live_out
        node.live_in = node.gen | (node.live_out - node.kill)
        node.live_out = union(s.live_in for s in node.successors)   (or empty)
        change = change or _in != node.live_in or _out != node.live_out          *)
Fixpoint sweep (nodes : nat -> fnode) (ks : list nat) (st : lstate) (ch : bool) : lstate * bool :=
  match ks with
  | [] => (st, ch)
  | k :: r =>
      let nd := nodes k in
      let i := fst (st k) in
      let o := snd (st k) in
      let i' := n_gen nd ++ filter (fun x => negb (memz x (n_kill nd))) o in
      let st1 := upd st k (i', o) in
      let o' := concat (map (fun s => fst (st1 s)) (n_succ nd)) in
      sweep nodes r (upd st k (i', o')) (ch || negb (seteq i i') || negb (seteq o o'))
  end.

(*  change = True
    while change: change = False; <sweep>                                        *)
Fixpoint liveness_iter (nodes : nat -> fnode) (ks : list nat) (fuel : nat) (st : lstate)
  : option lstate :=
  match fuel with
  | O => None
  | S f => let '(st', ch) := sweep nodes ks st false in
           if ch then liveness_iter nodes ks f st' else Some st'
  end.

Definition liveness_model (nl : list fnode) (fuel : nat) : option lstate :=
  liveness_iter (fun k => nth k nl (mkNode [] [] [])) (seq 0 (length nl)) fuel (fun _ => ([], [])).

(* correspondence helper: the model's result equals, as sets, the implementation's per-node sets *)
Definition liveness_agrees (nl : list fnode) (fuel : nat) (impl : list (list reg * list reg)) : bool :=
  match liveness_model nl fuel with
  | None => false
  | Some st => forallb (fun k => seteq (fst (st k)) (fst (nth k impl ([], [])))
                                 && seteq (snd (st k)) (snd (nth k impl ([], []))))
                       (seq 0 (length nl))
               && (length impl =? length nl)%nat
  end.

(* ---------------------------------------------------------------- calculate_interference *)
(*  live_and_def = ins.live_out | ins.kill
    for tmp in live_and_def:
        for tmp2 in live_and_def - {tmp}: add_edge(tmp, tmp2)
        for tmp2 in ins.clobbers:         add_edge(tmp, tmp2)                     *)
Definition edges_of (i : instr) (lo : list reg) : list (reg * reg) :=
  let lad := lo ++ i_defs i in
  flat_map (fun a => map (fun b => (a, b)) (filter (fun b => negb (b =? a)) lad)
                     ++ map (fun c => (a, c)) (i_clob i)) lad.

Fixpoint interference_model (prog : list instr) (live : list (list reg)) : list (reg * reg) :=
  match prog with
  | [] => []
  | i :: p => edges_of i (hd [] live) ++ interference_model p (tl live)
  end.

Definition has_edge (g : list (reg * reg)) (a b : reg) : bool :=
  existsb (fun e => ((fst e =? a) && (snd e =? b)) || ((fst e =? b) && (snd e =? a))) g.

(* correspondence helper: same undirected edge set as the implementation's graph (self loops ignored) *)
Definition interference_agrees (prog : list instr) (live : list (list reg)) (impl : list (reg * reg))
  : bool :=
  let g := interference_model prog live in
  forallb (fun e => (fst e =? snd e) || has_edge impl (fst e) (snd e)) g
  && forallb (fun e => (fst e =? snd e) || has_edge g (fst e) (snd e)) impl.
