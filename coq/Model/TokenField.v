(* Model/TokenField.v — hand model (tie H) of ppci/arch/token.py: Token.__getitem__/__setitem__ on a
   slice, and the setters/getters made by bit_range and bit_concat. A token is its Info.size (bits) and
   its bit_value. No proofs here. Checked against the implementation by tools/props/c10.py on every run. *)
From PV Require Import Lib.Py.
Open Scope Z_scope.

(* Token.__getitem__(slice(start, stop)) *)
Definition tok_getitem (bit_value start stop : Z) : result Z :=
  let bits := stop - start in
  guard (bits >? 0) (Internal AssertionError) (
  let limit := Z.shiftl 1 bits in
  guard (0 <=? start) (Internal ValueErrorI) (      (* negative shift count *)
  let mask := Z.shiftl (limit - 1) start in
  Ok (Z.shiftr (Z.land bit_value mask) start))).

(* Token.__setitem__(slice(start, stop), value); returns the new bit_value.
   size = Info.size; self.mask = (1 << size) - 1 *)
Definition tok_setitem (size bit_value start stop value : Z) : result Z :=
  let bits := stop - start in
  guard (bits >? 0) (Internal AssertionError) (
  let limit := Z.shiftl 1 bits in
  if value >=? limit then Diag 1                     (* raise ValueError("... cannot be fit ...") *)
  else
    let value := if value <? 0 then limit + value else value in
    guard ((value >=? 0) && (value <? limit)) (Internal AssertionError) (
    guard (0 <=? start) (Internal ValueErrorI) (
    let tmask := Z.shiftl 1 size - 1 in
    let mask := Z.lxor tmask (Z.shiftl (limit - 1) start) in
    Ok (Z.lor (Z.land bit_value mask) (Z.shiftl value start))))).

(* bit_range(b, e, signed) *)
Inductive part := Part (b e : Z) (signed : bool).
Definition psize (p : part) : Z := let 'Part b e _ := p in e - b.
Definition psigned (p : part) : bool := let 'Part _ _ s := p in s.
Definition pmask (p : part) : Z := Z.shiftl 1 (psize p) - 1.          (* _p2._mask *)
Definition part_set (size bv : Z) (p : part) (v : Z) : result Z :=
  let 'Part b e _ := p in tok_setitem size bv b e v.
Definition part_get (bv : Z) (p : part) : result Z :=
  let 'Part b e _ := p in tok_getitem bv b e.

(* a field: bit_range, or bit_concat of bit_ranges (nested concats are flattened by the exporter:
   setter and getter of a nested concat act on the flattened list in the same way) *)
Inductive field := FRange (p : part) | FConcat (ps : list part).

Fixpoint widths (ps : list part) : Z := match ps with [] => 0 | p :: r => psize p + widths r end.
Definition fwidth (f : field) : Z := match f with FRange p => psize p | FConcat ps => widths ps end.
Definition fsigned (f : field) : bool :=
  match f with FRange p => psigned p | FConcat ps => match ps with p :: _ => psigned p | [] => false end end.

(* bit_concat setter:  for at in reversed(partials): at.__set__(s, v & at._mask); v = v >> at._bitsize
   written structurally on the list: the tail is processed first, the head then receives v shifted by the
   total width of the tail *)
Fixpoint concat_set (size bv : Z) (ps : list part) (v : Z) : result Z :=
  match ps with
  | [] => Ok bv
  | p :: r =>
      bv' <- concat_set size bv r v ;;
      part_set size bv' p (Z.land (Z.shiftr v (widths r)) (pmask p))
  end.

(* bit_concat getter:  v = 0; for at in partials: v = v << at._bitsize; v = v | (at.__get__(s) & at._mask) *)
Fixpoint concat_get (bv : Z) (ps : list part) (v : Z) : result Z :=
  match ps with
  | [] => Ok v
  | p :: r =>
      x <- part_get bv p ;;
      concat_get bv r (Z.lor (Z.shiftl v (psize p)) (Z.land x (pmask p)))
  end.

Definition field_set (size bv : Z) (f : field) (v : Z) : result Z :=
  match f with FRange p => part_set size bv p v | FConcat ps => concat_set size bv ps v end.
Definition field_get (bv : Z) (f : field) : result Z :=
  match f with FRange p => part_get bv p | FConcat ps => concat_get bv ps 0 end.

(* write, then read back: (new bit_value, value read) — used by the correspondence cases *)
Definition field_set_get (size bv : Z) (f : field) (v : Z) : result (Z * Z) :=
  bv' <- field_set size bv f v ;; t <- field_get bv' f ;; Ok (bv', t).
