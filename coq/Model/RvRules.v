(* Model/RvRules.v — C05 (tie I + H): the instruction-selection rules of the riscv ISA as data, and how a
   rule body becomes RV32 instructions.
   A rule = one @isa.pattern registration of ppci/arch/riscv/instructions.py, obtained by EXECUTING the
   pattern function on a dummy tree with symbolic operands and a recording context (tools/props/c05.py):
     r_tree   the tree pattern (operator name split into operator / result type / source type of casts)
     r_cond   the condition lambda (parsed from its source text: value < hi / value in range(lo, hi))
     r_body   emitted instructions: (printed mnemonic, operands) in emission order
     r_result what the function returns: [] (statement), [reg] or [base; offset] (mem)
   Symbolic operands: SChild k = register returned for the k-th nonterminal child, SFresh k = k-th
   context.new_reg, SPhys n = fixed register xn, SConst path = .value of the constant node at that child
   path, SLit z = integer literal, SValue = tree.value (a register for MOV/REG trees).
   H part: [li_expand] mirrors Li.render (the large-immediate split), [to_rv] maps a printed instruction to
   the base RV32 instruction through C08's expectation table (pseudo forms mv/li).  No proofs. *)
From Coq Require Import ZArith List String Bool.
From PV Require Import Spec.RV32Decode Spec.RV32Exec.
Import ListNotations.
Open Scope Z_scope.

Inductive sopnd := SChild (k : nat) | SFresh (k : nat) | SPhys (n : Z) | SConst (path : list nat)
                 | SLit (z : Z) | SValue | SOther (what : string).
Inductive cond := CTrue | CLt (path : list nat) (hi : Z) | CRange (path : list nat) (lo hi : Z)
                | COther (src : string).
Inductive tree := TNT (nt : string) | TOp (op ty from : string) (kids : list tree).

Record rule := mkRule {
  r_fn : string; r_nt : string; r_tree : tree; r_text : string; r_cond : cond;
  r_body : list (string * list sopnd); r_result : list sopnd }.

Record env := mkEnv {
  e_child : list Z; e_fresh : list Z; e_const : list (list nat * Z); e_value : Z }.

Fixpoint path_eqb (a b : list nat) : bool :=
  match a, b with
  | [], [] => true
  | x :: a', y :: b' => Nat.eqb x y && path_eqb a' b'
  | _, _ => false
  end.

Fixpoint const_at (l : list (list nat * Z)) (p : list nat) : option Z :=
  match l with
  | [] => None
  | (q, v) :: r => if path_eqb q p then Some v else const_at r p
  end.

Definition opnd_val (e : env) (o : sopnd) : option Z :=
  match o with
  | SChild k => nth_error (e_child e) k
  | SFresh k => nth_error (e_fresh e) k
  | SPhys n => Some n
  | SConst p => const_at (e_const e) p
  | SLit z => Some z
  | SValue => Some (e_value e)
  | SOther _ => None
  end.

Fixpoint opnds_val (e : env) (l : list sopnd) : option (list Z) :=
  match l with
  | [] => Some []
  | o :: r => match opnd_val e o, opnds_val e r with
              | Some v, Some vs => Some (v :: vs)
              | _, _ => None
              end
  end.

Definition inrange12 (v : Z) : bool := (-2048 <=? v) && (v <? 2048).

(* Li.render: addi rd, x0, imm when the immediate fits 12 bits; otherwise lui + addi with the 0x800 carry.
   (Lui.encode masks its operand with 0xFFFFF; Addi masks with 0xFFF.) *)
Definition li_expand (rd imm : Z) : list (string * list Z) :=
  if inrange12 imm then [("addi"%string, [rd; 0; imm])]
  else let imm' := if Z.land imm 2048 =? 0 then imm else imm + 4096 in
       [("lui"%string, [rd; Z.land (Z.shiftr imm' 12) 1048575]);
        ("addi"%string, [rd; rd; Z.land imm' 4095])].

Definition expand_item (mn : string) (ops : list Z) : list (string * list Z) :=
  if String.eqb mn "li" then match ops with [rd; imm] => li_expand rd imm | _ => [(mn, ops)] end
  else [(mn, ops)].

(* printed (mnemonic, operands) -> base instruction, via the expectation table shared with C08 *)
Definition to_rv (it : string * list Z) : option rvinstr :=
  match rv_expect (fst it) (List.length (snd it)) with
  | Some (mn, vs) => of_decoded (mn, map (apply_vsel (snd it)) vs)
  | None => None
  end.

Fixpoint to_rv_all (l : list (string * list Z)) : option (list rvinstr) :=
  match l with
  | [] => Some []
  | it :: r => match to_rv it, to_rv_all r with
               | Some i, Some is => Some (i :: is)
               | _, _ => None
               end
  end.

Fixpoint body_items (e : env) (b : list (string * list sopnd)) : option (list (string * list Z)) :=
  match b with
  | [] => Some []
  | (mn, os) :: r => match opnds_val e os, body_items e r with
                     | Some vs, Some l => Some (List.app (expand_item mn vs) l)
                     | _, _ => None
                     end
  end.

Definition instantiate (r : rule) (e : env) : option (list rvinstr) :=
  match body_items e (r_body r) with
  | Some l => to_rv_all l
  | None => None
  end.
