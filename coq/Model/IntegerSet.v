(* Model/IntegerSet.v — hand model (tie H) of ppci/utils/integer_set.py, function by function.
   No proofs here.  Checked against the implementation on every run by tools/props/c33.py.

   Representation: an IntegerSet object is its [ranges] attribute, a list of pairs (a, b) : Z * Z
   (Python: tuple of 2-tuples of int; Python int = Z).

   Modelling decisions (all stated in TRUSTED of the check module):
   * sorted(...) on 2-tuples of ints is modelled by insertion sort with Python's lexicographic
     tuple order [tuple_le]; for a total order the sorted result is unique up to equal elements,
     and equal pairs of ints are indistinguishable.
   * bisect.bisect(ranges, (value,)) is modelled by its documented contract on a sorted list: the
     index i with all(e <= x for e in a[:i]) and all(x < e for e in a[i:]), computed by a linear
     scan [bisect_right].  The comparison is Python's tuple order between the 1-tuple (value,)
     and a 2-tuple (a, b):  (value,) < (a, b)  iff  value < a or (value == a and 1 < 2),
     i.e. value <= a.  The binary search of Lib/bisect.py itself is modelled separately as
     [bisect_bs] (fuelled) and proved equal to [bisect_right] on sorted input in the proofs.
   * iterator state: "r = next(i, None)" with r the current range and i the iterator over the
     remaining ranges is modelled as the list  r :: remaining  ([] when r is None).  A 2-tuple is
     always truthy, so "while r" = "list is non-empty".
   * the two while loops take fuel; they return OutOfFuel when it runs out. *)
From PV Require Import Lib.Py.
Open Scope Z_scope.

Definition rng := (Z * Z)%type.

(* constructor arguments: an int v or a tuple (a, b) of ints *)
Inductive value := IInt (v : Z) | IRange (a b : Z).

Definition to_range (v : value) : rng :=
  match v with
  | IInt v => (v, v)          (* isinstance(value, int): ranges.append((value, value)) *)
  | IRange a b => (a, b)      (* tuple: (int(value[0]), int(value[1])) *)
  end.

(* ---- sorted() on pairs: Python tuple order, insertion sort ---- *)
Definition tuple_le (r s : rng) : bool :=
  (fst r <? fst s) || ((fst r =? fst s) && (snd r <=? snd s)).

Fixpoint insert (r : rng) (l : list rng) : list rng :=
  match l with
  | [] => [r]
  | s :: t => if tuple_le r s then r :: s :: t else s :: insert r t
  end.

Fixpoint sorted (l : list rng) : list rng :=
  match l with [] => [] | r :: t => insert r (sorted t) end.

(* ---- merge_overlapping_intervals(ranges): the generator's yields, in order ---- *)
(* loop state: current r, remaining ranges[1:] *)
Fixpoint merge_loop (r : rng) (l : list rng) : list rng :=
  match l with
  | [] => [r]                                         (* final  yield r *)
  | s :: t =>
      if fst s >? snd r + 1                           (* if s[0] > r[1] + 1: *)
      then r :: merge_loop s t                        (*     yield r; r = s  *)
      else merge_loop (fst r, Z.max (snd r) (snd s)) t (* r = (r[0], max(r[1], s[1])) *)
  end.

Definition merge_overlapping_intervals (ranges : list rng) : list rng :=
  match ranges with
  | [] => []                                          (* if ranges: ... (nothing yielded) *)
  | r :: t => merge_loop r t
  end.

(* ---- IntegerSet.__init__ ---- *)
Definition nonempty_range (r : rng) : bool := fst r <=? snd r.   (* lambda r: r[0] <= r[1] *)

(* from a list of pairs (what union/intersection/difference pass: IntegerSet( *ranges)) *)
Definition mk (ranges : list rng) : list rng :=
  merge_overlapping_intervals (sorted (filter nonempty_range ranges)).

(* from ints and tuples *)
Definition ctor (values : list value) : list rng := mk (map to_range values).

(* ---- __bool__ / empty ---- *)
Definition empty (rs : list rng) : bool := match rs with [] => true | _ => false end.

(* ---- cardinality / __len__ ---- *)
Definition cardinality (rs : list rng) : Z :=
  fold_left (fun total r => total + (snd r - fst r + 1)) rs 0.

(* ---- __iter__: the yielded values, in order ---- *)
Definition iter (rs : list rng) : list Z :=
  flat_map (fun r => rangeZ (fst r) (snd r + 1)) rs.

(* ---- contains ---- *)
(* (value,) < e   for a 2-tuple e *)
Definition key_lt (value : Z) (e : rng) : bool := value <=? fst e.

(* contract of bisect.bisect_right(a, x) for sorted a: number of leading elements e with not (x < e) *)
Fixpoint bisect_right (value : Z) (l : list rng) : nat :=
  match l with
  | [] => O
  | e :: t => if key_lt value e then O else S (bisect_right value t)
  end.

(* Lib/bisect.py bisect_right: lo, hi = 0, len(a); while lo < hi: mid = (lo+hi)//2;
   if x < a[mid]: hi = mid else: lo = mid + 1; return lo *)
Fixpoint bisect_bs_loop (fuel : nat) (value : Z) (l : list rng) (lo hi : nat) : result nat :=
  match fuel with
  | O => OutOfFuel
  | S f =>
      if (lo <? hi)%nat then
        let mid := ((lo + hi) / 2)%nat in
        match nth_error l mid with
        | None => Internal IndexError
        | Some e => if key_lt value e then bisect_bs_loop f value l lo mid
                    else bisect_bs_loop f value l (mid + 1)%nat hi
        end
      else Ok lo
  end.
Definition bisect_bs (fuel : nat) (value : Z) (l : list rng) : result nat :=
  bisect_bs_loop fuel value l O (length l).

Definition get (l : list rng) (n : nat) : result rng :=
  match nth_error l n with Some r => Ok r | None => Internal IndexError end.

Definition contains (rs : list rng) (value : Z) : result bool :=
  let index := bisect_right value rs in
  (* index < len(self.ranges) and value == self.ranges[index][0] *)
  c1 <- (if (index <? length rs)%nat then r <- get rs index ;; Ok (value =? fst r) else Ok false) ;;
  if c1 then Ok true
  else
    (* index > 0 and self.ranges[index-1][0] <= value <= self.ranges[index-1][1] *)
    if (0 <? index)%nat
    then r <- get rs (index - 1)%nat ;; Ok ((fst r <=? value) && (value <=? snd r))
    else Ok false.

(* ---- union ---- *)
Definition union (a b : list rng) : list rng := mk (a ++ b).

(* ---- intersection ---- *)
(* l1 = r :: rest of iterator i,  l2 = s :: rest of iterator j,  acc = ranges *)
Fixpoint inter_loop (fuel : nat) (l1 l2 acc : list rng) : result (list rng) :=
  match fuel with
  | O => OutOfFuel
  | S f =>
      match l1, l2 with
      | r :: i, s :: j =>                                   (* while r and s: *)
          let x := Z.max (fst r) (fst s) in
          let y := Z.min (snd r) (snd s) in
          let acc' := if x <=? y then acc ++ [(x, y)] else acc in
          let l1' := if snd r <=? y then i else l1 in        (* r = next(i, None) *)
          let l2' := if snd s <=? y then j else l2 in        (* s = next(j, None) *)
          inter_loop f l1' l2' acc'
      | _, _ => Ok acc
      end
  end.

Definition intersection (fuel : nat) (a b : list rng) : result (list rng) :=
  ranges <- inter_loop fuel a b [] ;; Ok (mk ranges).

(* ---- difference ---- *)
Fixpoint diff_loop (fuel : nat) (l1 l2 acc : list rng) : result (list rng) :=
  match fuel with
  | O => OutOfFuel
  | S f =>
      match l1 with
      | [] => Ok acc                                         (* while r: *)
      | r :: i =>
          match l2 with
          | s :: j =>                                        (* if s: *)
              if fst r >? snd s then diff_loop f l1 j acc    (* s before r: s = next(j, None) *)
              else if snd r <? fst s
              then diff_loop f i l2 (acc ++ [r])             (* s after r: append r; r = next(i) *)
              else
                let acc' := if fst r <? fst s then acc ++ [(fst r, fst s - 1)] else acc in
                if snd r >? snd s
                then diff_loop f ((snd s + 1, snd r) :: i) j acc'   (* r = (s[1]+1, r[1]); s = next(j) *)
                else diff_loop f i l2 acc'                   (* r = next(i, None) *)
          | [] => diff_loop f i [] (acc ++ [r])              (* else: append r; r = next(i) *)
          end
      end
  end.

Definition difference (fuel : nat) (a b : list rng) : result (list rng) :=
  ranges <- diff_loop fuel a b [] ;; Ok (mk ranges).

(* ---- symmetric_difference: (self - other) | (other - self) ---- *)
Definition symmetric_difference (fuel : nat) (a b : list rng) : result (list rng) :=
  d1 <- difference fuel a b ;;
  d2 <- difference fuel b a ;;
  Ok (union d1 d2).

(* ---- __eq__ between two IntegerSets: self.ranges == other.ranges ---- *)
Fixpoint ranges_eqb (a b : list rng) : bool :=
  match a, b with
  | [], [] => true
  | r :: a', s :: b' => (fst r =? fst s) && (snd r =? snd s) && ranges_eqb a' b'
  | _, _ => false
  end.
