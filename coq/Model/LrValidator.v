(* Model/LrValidator.v — property C32.
   (1) hand model (tie H) of ppci/lang/tools/lr.py LrParser.parse: table-driven LR parser with
       interleaved state/symbol stack and a value stack, values = parse trees (each production's
       semantic action is modelled as "build Node p args").
   (2) the validator [tables_ok] (V): a decidable check on exported action/goto tables that is
       sufficient for soundness of the parser on these tables (Proofs/C32_sound.v).
   No proofs here. *)
From PV Require Import Lib.Py Lib.Val Spec.CfgGrammarSpec.
Open Scope Z_scope.

Definition EOF : Z := 0.   (* baselex.EOF *)
Definition EPS : Z := 1.   (* baselex.EPS *)

Inductive action := Shift (s : Z) | Reduce (p : Z) | Accept (p : Z).

(* the two dicts of LrParser; keys are unique in a Python dict, lookup = first match *)
Record tables := mkTables {
  actions : list ((Z * Z) * action);    (* (state, terminal) -> action *)
  gotos : list ((Z * Z) * Z) }.         (* (state, nonterminal) -> state *)

Definition key_eqb (a b : Z * Z) : bool := (fst a =? fst b) && (snd a =? snd b).

Fixpoint lookup {A} (k : Z * Z) (l : list ((Z * Z) * A)) : option A :=
  match l with
  | [] => None
  | (k', v) :: r => if key_eqb k k' then Some v else lookup k r
  end.

(* ------------------------------------------------------------------ parser model *)
(* one stack entry = the pair pushed on [stack] (symbol, state) + the entry of [r_data_stack] *)
Definition entry := (Z * Z * tree)%type.
Definition e_sym (e : entry) : Z := fst (fst e).
Definition e_state (e : entry) : Z := snd (fst e).
Definition e_val (e : entry) : tree := snd e.
Definition stack := list entry.   (* top first; the bottom [0] of the Python stack is implicit *)

Definition top_state (st : stack) : Z :=
  match st with [] => 0 | e :: _ => e_state e end.

(* productions[i] with Python index semantics; returns the resolved index *)
Definition get_prod (g : grammar) (p : Z) : option (nat * (Z * list Z)) :=
  let n := len (prods g) in
  let i := if p <? 0 then n + p else p in
  if (i <? 0) || (n <=? i) then None
  else match nth_error (prods g) (Z.to_nat i) with
       | Some pr => Some (Z.to_nat i, pr)
       | None => None
       end.

Definition next_token (rest : list Z) : Z * list Z :=
  match rest with [] => (EOF, []) | a :: r => (a, r) end.

(* loop condition of parse: stack != [0, start_symbol, 0] *)
Definition at_exit_shape (g : grammar) (st : stack) : bool :=
  match st with
  | [e] => (e_sym e =? start g) && (e_state e =? 0)
  | _ => false
  end.

(* [fix_accept = false]: lr.py as it is (an Accept action always returns).
   [fix_accept = true]: repaired parse: an Accept action returns only when the stack is back at
   the bottom, otherwise it acts as the reduction it is. *)
Fixpoint run (fix_accept : bool) (fuel : nat) (g : grammar) (T : tables)
             (st : stack) (la : Z) (rest : list Z) : result tree :=
  match fuel with
  | O => OutOfFuel
  | S fuel' =>
    if at_exit_shape g st then Internal (OtherI 1)     (* ret_val unbound: UnboundLocalError *)
    else
    match lookup (top_state st, la) (actions T) with
    | None => Diag 1                                    (* ParserException *)
    | Some (Shift s') =>
        let '(la', rest') := next_token rest in
        run fix_accept fuel' g T ((la, s', Leaf la) :: st) la' rest'
    | Some (Reduce p) =>
        match get_prod g p with
        | None => Internal IndexError
        | Some (i, (X, rhs)) =>
          let n := length rhs in
          if (length st <? n)%nat then Internal IndexError else
          let args := rev (map e_val (firstn n st)) in
          let st' := skipn n st in
          match lookup (top_state st', X) (gotos T) with
          | None => Internal KeyError
          | Some s' => run fix_accept fuel' g T ((X, s', Node i args) :: st') la rest
          end
        end
    | Some (Accept p) =>
        match get_prod g p with
        | None => Internal IndexError
        | Some (i, (X, rhs)) =>
          let n := length rhs in
          if (length st <? n)%nat then Internal IndexError else
          let args := rev (map e_val (firstn n st)) in
          let st' := skipn n st in
          if negb fix_accept then Ok (Node i args)
          else match st' with
               | [] => Ok (Node i args)
               | _ =>
                 match lookup (top_state st', X) (gotos T) with
                 | None => Internal KeyError
                 | Some s' => run fix_accept fuel' g T ((X, s', Node i args) :: st') la rest
                 end
               end
        end
    end
  end.

(* LrParser.parse on the token types w followed by EOF for ever *)
Definition parse_model (fix_accept : bool) (fuel : nat) (g : grammar) (T : tables) (w : list Z)
  : result tree :=
  let '(la, rest) := next_token w in run fix_accept fuel g T [] la rest.

(* ------------------------------------------------------------------ validator *)
(* edges of the automaton: s0 --X--> s by a Shift entry or a goto entry *)
Definition preds (T : tables) (s : Z) : list (Z * Z) :=
  flat_map (fun e => match e with
                     | ((s0, X), Shift s') => if s' =? s then [(s0, X)] else []
                     | _ => []
                     end) (actions T)
  ++ flat_map (fun e => let '((s0, X), s') := e in if s' =? s then [(s0, X)] else []) (gotos T).

(* every path of |rrhs| edges into s spells rev rrhs, never starts below the bottom state,
   and starts in a state satisfying [final] *)
Fixpoint back (pr : Z -> list (Z * Z)) (final : Z -> bool) (rrhs : list Z) (s : Z) : bool :=
  match rrhs with
  | [] => final s
  | X :: r => negb (s =? 0) &&
              forallb (fun e => (snd e =? X) && back pr final r (fst e)) (pr s)
  end.

Definition mem_z (x : Z) (l : list Z) : bool := existsb (Z.eqb x) l.

Definition action_ok (fix_accept : bool) (g : grammar) (T : tables) (e : (Z * Z) * action) : bool :=
  let '((s, t), a) := e in
  match a with
  | Shift s' => mem_z t (terminals g) && negb (t =? EOF) && negb (s' =? 0)
  | Reduce p =>
      (0 <=? p) &&
      match get_prod g p with
      | None => false
      | Some (_, (X, rhs)) =>
          back (preds T) (fun s0 => match lookup (s0, X) (gotos T) with Some _ => true | None => false end)
               (rev rhs) s
      end
  | Accept p =>
      (0 <=? p) && (t =? EOF) &&
      match get_prod g p with
      | None => false
      | Some (_, (X, rhs)) =>
          (X =? start g) &&
          if fix_accept then
            back (preds T) (fun s0 => (s0 =? 0) ||
                     match lookup (s0, X) (gotos T) with Some _ => true | None => false end)
                 (rev rhs) s
          else back (preds T) (fun s0 => s0 =? 0) (rev rhs) s
      end
  end.

Definition goto_ok (e : (Z * Z) * Z) : bool := negb (snd e =? 0).

(* the validator *)
Definition tables_ok (fix_accept : bool) (g : grammar) (T : tables) : bool :=
  forallb (action_ok fix_accept g T) (actions T) && forallb goto_ok (gotos T).

(* ------------------------------------------------------------------ termination certificate *)
(* a weight for every state and a rank for every (state, look-ahead); absent = 0.  The potential of a
   configuration is  sum of the weights of the stack states + rank (top state, look-ahead);
   [term_ok] checks that every reduction strictly decreases it. *)
Record tcert := mkTcert { cw : list (Z * nat); cr : list ((Z * Z) * nat) }.
Definition getw (c : tcert) (s : Z) : nat :=
  match find (fun e => fst e =? s) (cw c) with Some e => snd e | None => 0%nat end.
Definition getr (c : tcert) (s t : Z) : nat :=
  match lookup (s, t) (cr c) with Some n => n | None => 0%nat end.

Fixpoint back_w (pr : Z -> list (Z * Z)) (wt : Z -> nat) (check : Z -> nat -> bool)
                (rrhs : list Z) (s : Z) (acc : nat) : bool :=
  match rrhs with
  | [] => check s acc
  | _ :: r => forallb (fun e => back_w pr wt check r (fst e) (acc + wt s)%nat) (pr s)
  end.

Definition reduce_decreases (T : tables) (c : tcert) (X s t : Z) (s0 : Z) (acc : nat) : bool :=
  match lookup (s0, X) (gotos T) with
  | None => true
  | Some s2 => (getw c s2 + getr c s2 t + 1 <=? acc + getr c s t)%nat
  end.

Definition term_action_ok (fix_accept : bool) (g : grammar) (T : tables) (c : tcert)
                          (e : (Z * Z) * action) : bool :=
  let '((s, t), a) := e in
  match a with
  | Shift _ => true
  | Reduce p =>
      match get_prod g p with
      | None => true
      | Some (_, (X, rhs)) => back_w (preds T) (getw c) (reduce_decreases T c X s t) (rev rhs) s 0
      end
  | Accept p =>
      if fix_accept then
        match get_prod g p with
        | None => true
        | Some (_, (X, rhs)) =>
            back_w (preds T) (getw c) (fun s0 acc => (s0 =? 0) || reduce_decreases T c X s t s0 acc)
                   (rev rhs) s 0
        end
      else true
  end.

Definition term_ok (fix_accept : bool) (g : grammar) (T : tables) (c : tcert) : bool :=
  forallb (term_action_ok fix_accept g T c) (actions T).

Definition cert_bound (c : tcert) : nat :=
  (list_max (map snd (cw c)) + list_max (map snd (cr c)))%nat.
(* fuel that suffices for an input of n tokens *)
Definition fuel_for (c : tcert) (n : nat) : nat := ((n + 1) * (cert_bound c + 1))%nat.

(* ------------------------------------------------------------------ rendering for correspondence *)
Fixpoint tree_val (t : tree) : val :=
  match t with
  | Leaf a => VZ a
  | Node p cs => VT [VZ (Z.of_nat p); VL (map tree_val cs)]
  end.
#[global] Instance ToVal_tree : ToVal tree := tree_val.
