(* Model/SpillCheck.v — C06: validator for one spill rewriting round (rewrite_program).
   Input: the rewritten program xp (inserted instructions marked, the slot loads/stores among them
   tagged), the program before the round P, and a certificate: for every point of xp the facts
   "register/slot l holds the value of P's register r" that the simulation maintains there. *)
From Coq Require Import ZArith List Bool Arith.
From PV Require Import Spec.RegAllocSpec Spec.SpillSpec Model.RegAllocCheck.
Import ListNotations.
Open Scope Z_scope.

Definition loc_eqb (a b : loc) : bool :=
  match a, b with
  | LReg x, LReg y => x =? y
  | LSlot x, LSlot y => x =? y
  | _, _ => false
  end.
Definition fact_eqb (a b : fact) : bool := loc_eqb (fst a) (fst b) && (snd a =? snd b).
Definition memf (f : fact) (F : list fact) : bool := existsb (fact_eqb f) F.

Section Check.
Variables (physl special : list reg) (alias : reg -> reg -> bool).
(* spilled or fresh register of this round: virtual, hence alias-free *)
Definition sp (r : reg) : bool := memz r special && negb (isphys physl r).
Definition keepf (r : reg) : bool := negb (memz r special).
(* [dirty] = physical registers that inserted spill code has overwritten (e.g. an address scratch
   register) and that have not been rewritten since: they need not agree *)
Definition kclean (dirty : list reg) (r : reg) : bool := keepf r && negb (memz r dirty).

Definition fact_ok (f : fact) : bool :=
  sp (snd f) && match fst f with LReg q => sp q | LSlot _ => true end.

(* effect of writing d' (rewritten) / d (original) with the same value on the facts *)
Definition pair_write (F : list fact) (d' d : reg) : option (list fact) :=
  let F1 := filter (fun f => negb (loc_eqb (fst f) (LReg d')) && negb (snd f =? d)) F in
  if (d' =? d) && keepf d then Some F1
  else if sp d' && sp d then Some ((LReg d', d) :: F1)
  else None.

Fixpoint pair_writes (F : list fact) (W' W : list reg) : option (list fact) :=
  match W', W with
  | [], [] => Some F
  | d' :: a, d :: b => match pair_write F d' d with
                       | Some F1 => pair_writes F1 a b
                       | None => None
                       end
  | _, _ => None
  end.

Fixpoint uses_ok (D : list reg) (F : list fact) (us' us : list reg) : bool :=
  match us', us with
  | [], [] => true
  | u' :: a, u :: b => (((u' =? u) && kclean D u) || memf (LReg u', u) F) && uses_ok D F a b
  | _, _ => false
  end.

Variables (xp : list xinstr) (marks : list bool) (P : list instr) (facts : list (list fact))
          (dirty : list (list reg)).
Definition dirty_at (pc : nat) : list reg := nth pc dirty [].

Definition facts_at (pc : nat) : list fact := nth pc facts [].
(* the facts claimed at point s all follow from [post] *)
Definition succ_ok (s : nat) (post : list fact) : bool :=
  forallb (fun f => memf f post) (facts_at s).

Definition check_point (pc : nat) : bool :=
  let F := facts_at pc in
  let D := dirty_at pc in
  match nth_error xp pc with
  | None => true
  | Some x =>
    if nth pc marks false then
      match x with
      | XI j =>
          match i_clob j, i_jumps j with
          | [], [] => forallb (fun d => sp d || (isphys physl d && keepf d)) (i_defs j)
                      && subset (D ++ filter (fun r => memz r (i_defs j)
                                                       || existsb (fun d => alias d r) (i_defs j)) physl)
                                (dirty_at (S pc))
                      && succ_ok (S pc) (filter (fun f => match fst f with
                                                          | LReg q => negb (memz q (i_defs j))
                                                          | LSlot _ => true end) F)
          | _, _ => false
          end
      | XLoad d s =>
          sp d && subset D (dirty_at (S pc)) && succ_ok (S pc)
                    (map (fun f => (LReg d, snd f)) (filter (fun f => loc_eqb (fst f) (LSlot s)) F)
                     ++ filter (fun f => negb (loc_eqb (fst f) (LReg d))) F)
      | XStore s r =>
          subset D (dirty_at (S pc)) && succ_ok (S pc)
                  (map (fun f => (LSlot s, snd f)) (filter (fun f => loc_eqb (fst f) (LReg r)) F)
                   ++ filter (fun f => negb (loc_eqb (fst f) (LSlot s))) F)
      end
    else
      match x, nth_error P (cntb marks pc) with
      | XI i', Some i =>
          Bool.eqb (i_move i') (i_move i)
          && list_eqb Nat.eqb (map (cntb marks) (i_jumps i')) (i_jumps i)
          && uses_ok D F (i_uses i') (i_uses i)
          && match pair_writes F (i_defs i' ++ i_clob i') (i_defs i ++ i_clob i) with
             | Some post => forallb (fun s => succ_ok s post
                                              && subset (filter (fun r => negb (memz r (i_defs i' ++ i_clob i'))) D)
                                                        (dirty_at s))
                                    (match i_jumps i' with [] => [S pc] | js => js end)
             | None => false
             end
      | _, _ => false
      end
  end.

Definition check_spill : bool :=
  (length marks =? length xp)%nat
  && forallb (fun F => forallb fact_ok F) facts
  && forallb check_point (seq 0 (length xp)).

End Check.

(* spill slots (id, offset, size) of distinct spilled nodes do not overlap *)
Fixpoint slots_disjoint (l : list (Z * Z * Z)) : bool :=
  match l with
  | [] => true
  | (_, o, sz) :: t =>
      (0 <? sz) && forallb (fun x => let '(_, o2, s2) := x in (o + sz <=? o2) || (o2 + s2 <=? o)) t
      && slots_disjoint t
  end.
