(* Model/LrComplete.v — property C32: completeness certificate check (Jourdan-Pottier-Leroy style).
   The certificate is the LR(1) item set of every state (exported from the real builder) plus
   nullable / FIRST hints.  [complete_cert] checks: the hints are closed under the grammar rules;
   state 0 holds the start items; every state is closed; every item is served by the tables (shift /
   goto into a state holding the advanced item, reduce or accept on the item's look-ahead).
   No proofs here. *)
From PV Require Import Lib.Py Spec.CfgGrammarSpec Model.LrValidator.
Open Scope Z_scope.

Definition citem := (nat * nat * Z)%type.    (* production index, dot, look-ahead *)
Record ccert := mkCcert {
  c_items : list (Z * list citem);
  c_nullable : list Z;
  c_first : list (Z * list Z) }.

Definition citem_eqb (a b : citem) : bool :=
  Nat.eqb (fst (fst a)) (fst (fst b)) && Nat.eqb (snd (fst a)) (snd (fst b)) && (snd a =? snd b).
Definition items_of (I : ccert) (s : Z) : list citem :=
  match find (fun e => fst e =? s) (c_items I) with Some e => snd e | None => [] end.
Definition has_item (I : ccert) (s : Z) (it : citem) : bool := existsb (citem_eqb it) (items_of I s).

Definition nullable_sym (I : ccert) (X : Z) : bool := mem_z X (c_nullable I).
Definition first_sym (g : grammar) (I : ccert) (X : Z) : list Z :=
  (if mem_z X (terminals g) then [X] else []) ++
  match find (fun e => fst e =? X) (c_first I) with Some e => snd e | None => [] end.
Fixpoint fseq (g : grammar) (I : ccert) (al : list Z) : list Z :=
  match al with
  | [] => []
  | Y :: r => first_sym g I Y ++ (if nullable_sym I Y then fseq g I r else [])
  end.
Definition fseq_la (g : grammar) (I : ccert) (al : list Z) (a : Z) : list Z :=
  fseq g I al ++ (if forallb (nullable_sym I) al then [a] else []).

(* hints closed under the rules *)
Definition hints_ok (g : grammar) (I : ccert) : bool :=
  forallb (fun pr =>
     (negb (forallb (nullable_sym I) (snd pr)) || nullable_sym I (fst pr)) &&
     forallb (fun c => mem_z c (first_sym g I (fst pr))) (fseq g I (snd pr)) &&
     negb (mem_z (fst pr) (terminals g))) (prods g).

Definition prod_indices (g : grammar) (X : Z) : list nat :=
  map fst (filter (fun e => fst (snd e) =? X) (combine (seq 0 (length (prods g))) (prods g))).

Definition item_ok (g : grammar) (T : tables) (I : ccert) (s : Z) (it : citem) : bool :=
  let '(p, d, a) := it in
  match nth_error (prods g) p with
  | None => false
  | Some (A, rhs) =>
    match nth_error rhs d with
    | None =>
        Nat.eqb d (length rhs) &&
        match lookup (s, a) (actions T) with
        | Some (Accept p') => (p' =? Z.of_nat p) && (A =? start g) && (a =? EOF)
        | Some (Reduce p') => (p' =? Z.of_nat p) && negb ((A =? start g) && (a =? EOF))
        | _ => false
        end
    | Some Y =>
        let follow := fseq_la g I (skipn (S d) rhs) a in
        (if mem_z Y (terminals g) then
           match lookup (s, Y) (actions T) with
           | Some (Shift s') => has_item I s' (p, S d, a)
           | _ => false
           end
         else
           match lookup (s, Y) (gotos T) with
           | Some s' => has_item I s' (p, S d, a)
           | None => false
           end &&
           forallb (fun q => forallb (fun b => has_item I s (q, O, b)) follow) (prod_indices g Y)) &&
        negb ((s =? 0) && (Y =? start g) && mem_z EOF follow)
    end
  end.

Definition complete_cert (g : grammar) (T : tables) (I : ccert) : bool :=
  hints_ok g I && negb (mem_z (start g) (terminals g)) &&
  forallb (fun q => has_item I 0 (q, O, EOF)) (prod_indices g (start g)) &&
  forallb (fun e => forallb (item_ok g T I (fst e)) (snd e)) (c_items I).
