(* Model/DomTree.v — hand models (tie H) of ppci/graph/cfg.py and
   ppci/graph/algorithm/fixed_point_dominator.py.  Definitions only, mirroring the Python
   statement by statement; proofs in Proofs/C25_intervals.v / C25_bounded.v.
   Nodes are nat; Python dicts are association lists (latest binding first);
   Python sets are duplicate-free lists (the results do not depend on iteration order,
   which the model fixes to insertion order). *)
From PV Require Import Lib.Py.
From PV Require Import Spec.CfgSpec Model.DomRef.
Close Scope Z_scope.
Open Scope nat_scope.

Fixpoint alookup {A} (k : nat) (m : list (nat * A)) : option A :=
  match m with
  | [] => None
  | (k', v) :: r => if k =? k' then Some v else alookup k r
  end.

(* ---------------------------------------------------------------- cfg.py: DomTreeNode *)
(* below_or_same(self, other): other.interval[0] <= self.interval[0] and self.interval[1] <= other.interval[1] *)
Definition below_or_same (self other : nat * nat) : bool :=
  (fst other <=? fst self) && (snd self <=? snd other).
Definition below (self other : nat * nat) : bool :=
  (fst other <? fst self) && (snd self <? snd other).

(* ---------------------------------------------------------------- _number_dominator_tree
     t = 0; worklist = [root]; discovered = {}
     while worklist:
         node = worklist[-1]
         if node.node in discovered: node.interval = (discovered[node.node], t); worklist.pop()
         else: discovered[node.node] = t; for child in node.children: worklist.append(child)
         t += 1
   The worklist is modelled with its top at the head of the list. *)
Fixpoint number_loop (fuel : nat) (t : nat) (stack : list dtree)
         (disc : list (nat * nat)) (iv : list (nat * (nat * nat)))
  : result (list (nat * (nat * nat))) :=
  match fuel with
  | O => OutOfFuel
  | S f =>
    match stack with
    | [] => Ok iv
    | DNode x cs :: rest =>
      match alookup x disc with
      | Some d => number_loop f (t + 1) rest disc ((x, (d, t)) :: iv)
      | None => number_loop f (t + 1) (rev cs ++ stack) ((x, t) :: disc) iv
      end
    end
  end.

Definition number_tree (fuel : nat) (root : dtree) : result (list (nat * (nat * nat))) :=
  number_loop fuel 0 [root] [] [].

(* ---------------------------------------------------------------- _calculate_dominator_tree
   children lists in node order (self.nodes is insertion ordered), then the object graph
   reachable from tree_map[entry] as a rose tree (fuel = depth bound) *)
Definition children_of (n : nat) (idom : pmap) (x : nat) : list nat :=
  filter (fun w => match pget idom w with Some p => p =? x | None => false end) (seq 0 n).

Fixpoint build_tree (fuel : nat) (n : nat) (idom : pmap) (x : nat) : dtree :=
  match fuel with
  | O => DNode x []
  | S f => DNode x (map (build_tree f n idom) (children_of n idom x))
  end.

(* ---------------------------------------------------------------- bottom_up(tree)
     worklist = [tree]; visited = set()
     while worklist:
         node = worklist[-1]
         if id(node) in visited: worklist.pop(); yield node
         else: visited.add(id(node)); for child in node.children: worklist.append(child) *)
Fixpoint bottom_up_loop (fuel : nat) (stack : list dtree) (visited : list nat) (out : list dtree)
  : result (list dtree) :=
  match fuel with
  | O => OutOfFuel
  | S f =>
    match stack with
    | [] => Ok (rev out)
    | DNode x cs :: rest =>
      if mem x visited then bottom_up_loop f rest visited (DNode x cs :: out)
      else bottom_up_loop f (rev cs ++ stack) (x :: visited) out
    end
  end.

Definition set_add (x : nat) (s : list nat) : list nat := if mem x s then s else s ++ [x].

(* ---------------------------------------------------------------- calculate_dominance_frontier
     for x in bottom_up(root_tree):
         df[x] = set()
         for y in successors(x): if idom(y) != x: df[x].add(y)
         for z in children(x): for y in df[z]: if idom(y) != x: df[x].add(y) *)
Definition idom_is (idom : pmap) (y x : nat) : bool :=
  match pget idom y with Some p => p =? x | None => false end.

Definition df_step (g : graph) (idom : pmap) (df : list (nat * list nat)) (tr : dtree)
  : list (nat * list nat) :=
  match tr with
  | DNode x cs =>
    let s1 := fold_left (fun s y => if idom_is idom y x then s else set_add y s) (succs g x) [] in
    let s2 := fold_left (fun s z =>
                fold_left (fun s y => if idom_is idom y x then s else set_add y s)
                          (match alookup (match z with DNode zl _ => zl end) df with
                           | Some l => l | None => [] end) s)
              cs s1 in
    (x, s2) :: df
  end.

Definition cytron_df (fuel : nat) (g : graph) (e : nat) (idom : pmap)
  : result (list (nat * list nat)) :=
  match bottom_up_loop fuel [build_tree (length g) (length g) idom e] [] [] with
  | Ok order => Ok (fold_left (df_step g idom) order [])
  | Diag c => Diag c
  | Internal err => Internal err
  | OutOfFuel => OutOfFuel
  end.

(* ---------------------------------------------------------------- calculate_post_dominators
     _pdom[n] = {n} if n is exit else set(nodes)
     change = True
     while change:
         change = False
         for node in nodes:
             succ_pdoms = [_pdom[s] for s in node.successors]
             if succ_pdoms:
                 new = {node} | intersection(succ_pdoms)
                 if new != _pdom[node]: change = True; _pdom[node] = new
   sets are kept as sorted duplicate-free sublists of 0..n-1, so set equality is list equality *)
Definition inter_all (n : nat) (ls : list (list nat)) : list nat :=
  filter (fun d => forallb (mem d) ls) (seq 0 n).

Fixpoint list_eqb (a b : list nat) : bool :=
  match a, b with
  | [], [] => true
  | x :: a', y :: b' => (x =? y) && list_eqb a' b'
  | _, _ => false
  end.

Fixpoint set_nth {A} (i : nat) (v : A) (l : list A) : list A :=
  match l, i with
  | [], _ => []
  | _ :: r, O => v :: r
  | x :: r, S j => x :: set_nth j v r
  end.

Definition pdom_sweep (g : graph) (st : list (list nat) * bool) (node : nat)
  : list (list nat) * bool :=
  let '(pd, change) := st in
  let n := length g in
  match succs g node with
  | [] => (pd, change)
  | ss =>
    let sp := map (fun s => nth s pd []) ss in
    let new := filter (fun d => (d =? node) || forallb (mem d) sp) (seq 0 n) in
    if list_eqb new (nth node pd []) then (pd, change) else (set_nth node new pd, true)
  end.

Fixpoint pdom_loop (fuel : nat) (g : graph) (pd : list (list nat)) : result (list (list nat)) :=
  match fuel with
  | O => OutOfFuel
  | S f =>
    let '(pd', change) := fold_left (pdom_sweep g) (seq 0 (length g)) (pd, false) in
    if change then pdom_loop f g pd' else Ok pd'
  end.

Definition post_dominators (fuel : nat) (g : graph) (x : nat) : result (list (list nat)) :=
  let n := length g in
  pdom_loop fuel g (map (fun w => if w =? x then [w] else seq 0 n) (seq 0 n)).

(* calculate_reach: _reach[n] = successors(n); repeat _reach[n] |= union of _reach[m], m in succ(n) *)
Definition reach_sweep (g : graph) (st : list (list nat) * bool) (node : nat)
  : list (list nat) * bool :=
  let '(rs, change) := st in
  let n := length g in
  let old := nth node rs [] in
  let new := filter (fun d => mem d old || existsb (fun m => mem d (nth m rs [])) (succs g node))
                    (seq 0 n) in
  if list_eqb new old then (rs, change) else (set_nth node new rs, true).

Fixpoint reach_loop (fuel : nat) (g : graph) (rs : list (list nat)) : result (list (list nat)) :=
  match fuel with
  | O => OutOfFuel
  | S f =>
    let '(rs', change) := fold_left (reach_sweep g) (seq 0 (length g)) (rs, false) in
    if change then reach_loop f g rs' else Ok rs'
  end.

Definition calculate_reach (fuel : nat) (g : graph) : result (list (list nat)) :=
  let n := length g in
  reach_loop fuel g (map (fun u => filter (fun d => mem d (succs g u)) (seq 0 n)) (seq 0 n)).

(* ---------------------------------------------------------------- dominates / strictly_dominates
   self.tree_map[other].below_or_same(self.tree_map[one]) after _calculate_dominator_info *)
Definition tree_intervals (g : graph) (e : nat) (idom : pmap)
  : result (list (nat * (nat * nat))) :=
  number_tree (2 * length g + 2) (build_tree (length g) (length g) idom e).

Definition intervals_by_node (g : graph) (e : nat) (idom : pmap)
  : result (list (option (nat * nat))) :=
  match tree_intervals g e idom with
  | Ok iv => Ok (map (fun a => alookup a iv) (seq 0 (length g)))
  | Diag c => Diag c
  | Internal err => Internal err
  | OutOfFuel => OutOfFuel
  end.

Definition query_rows (test : nat * nat -> nat * nat -> bool) (n : nat)
           (iv : list (nat * (nat * nat))) : list (list nat) :=
  map (fun one => filter (fun other =>
         match alookup other iv, alookup one iv with
         | Some io, Some i1 => test io i1
         | _, _ => false
         end) (seq 0 n)) (seq 0 n).

(* canonical (sorted) form of a set of nodes, to compare with Python sets *)
Definition canon (n : nat) (s : list nat) : list nat := filter (fun y => mem y s) (seq 0 n).

Definition df_by_node (g : graph) (e : nat) (idom : pmap) : result (list (option (list nat))) :=
  match cytron_df (2 * length g + 2) g e idom with
  | Ok df => Ok (map (fun x => match alookup x df with
                               | Some s => Some (canon (length g) s)
                               | None => None end) (seq 0 (length g)))
  | Diag c => Diag c
  | Internal err => Internal err
  | OutOfFuel => OutOfFuel
  end.
