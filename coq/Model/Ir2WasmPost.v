(* Model/Ir2WasmPost.v — the re-wrapping sequence that do_tree (IrToWasmCompiler.emit_wrap, present
   after fixes/C23-rewrap-narrow.diff) appends to + - * << on types narrower than their wasm
   container, and the cast selection of do_tree (cast_operators / cast_operators2).  No proofs. *)
From Coq Require Import ZArith List Bool.
Import ListNotations.
From PV Require Import Spec.IRSyntax Spec.IRSem Spec.WasmNumSpec Model.Ir2WasmOps.
Open Scope Z_scope.

Inductive post :=
| PNone
| PSext8      (* i32.const 24; i32.shl; i32.const 24; i32.shr_s *)
| PSext16     (* i32.const 16; i32.shl; i32.const 16; i32.shr_s *)
| PMask8      (* i32.const 255; i32.and *)
| PMask16     (* i32.const 65535; i32.and *)
| PMask32.    (* i64.const 4294967295; i64.and *)

Definition post_sem (p : post) (x : Z) : Z :=
  match p with
  | PNone => x
  | PSext8 => ishr_s 32 (ishl 32 x 24) 24
  | PSext16 => ishr_s 32 (ishl 32 x 16) 16
  | PMask8 => iand 32 x 255
  | PMask16 => iand 32 x 65535
  | PMask32 => iand 64 x 4294967295
  end.

Definition wrap_post (t : ty) : post :=
  match t with
  | I8 => PSext8 | I16 => PSext16 | U8 => PMask8 | U16 => PMask16 | U32 => PMask32
  | _ => PNone
  end.

Definition post_eqb (a b : post) : bool :=
  match a, b with
  | PNone, PNone | PSext8, PSext8 | PSext16, PSext16 | PMask8, PMask8 | PMask16, PMask16
  | PMask32, PMask32 => true
  | _, _ => false
  end.

(* the opcode followed by the re-wrapping computes the IR result exactly *)
Definition exact_post_row (c : cfg) (r : IRSyntax.binop * ty * wop * post) : Prop :=
  let '(o, t, w, p) := r in
  exists cw, container t = Some cw /\
  forall a b z, in_range_ty c t a -> in_range_ty c t b ->
    eval_binop c t o a b = ODone z ->
    exists x, wop_sem w [rep cw a; rep cw b] = Some x /\ post_sem p x = rep cw z.

(* ---- casts.  A cast is: nothing / one conversion opcode, then the re-wrapping of the
   destination type (the re-wrapping only after the fix). *)
Inductive conv := CvNone | CvWrap | CvExtS | CvExtU.   (* -, i32.wrap_i64, i64.extend_i32_s/u *)
Definition conv_sem (cv : conv) (x : Z) : Z :=
  match cv with
  | CvNone => x | CvWrap => wrap_i64 x | CvExtS => extend_i32_s x | CvExtU => extend_i32_u x
  end.

(* cast_operators (no code) and cast_operators2, integer part; None = not implemented (rejected) *)
Definition select_cast (from to : ty) : option conv :=
  match from, to with
  | I64, I64 | I64, U64 | U64, I64 | U64, U64 => Some CvNone
  | U32, I64 | U32, U64 => Some CvNone
  | U64, U32 | I64, U32 => Some CvNone
  | I32, I32 | U32, U32 | I8, I8 | U8, U8 | I16, I16 | U16, U16 => Some CvNone
  | I8, U8 | U8, I8 | I16, U16 | U16, I16 => Some CvNone     (* same size: no CAST tree at all *)
  | I32, I8 | I8, I32 | I32, U8 | U8, I32 => Some CvNone
  | I32, I16 | I16, I32 | I32, U16 | U16, I32 => Some CvNone
  | I32, I64 => Some CvExtS
  | I32, U64 => Some CvExtU
  | U64, I32 | I64, I32 => Some CvWrap
  | I32, U32 => Some CvExtS
  | U32, I32 => Some CvWrap
  | U32, I8 | U32, U8 | U32, I16 | U32, U16 => Some CvWrap
  | I8, U32 | I16, U32 => Some CvExtS
  | U8, U32 | U16, U32 => Some CvExtU
  | _, _ => None
  end.

(* the cast computes the IR cast (wrap to the destination type) on the representation *)
Definition cast_row (c : cfg) (from to : ty) (cv : conv) (p : post) : Prop :=
  exists cf ct, container from = Some cf /\ container to = Some ct /\
  forall a z, in_range_ty c from a -> wrap_ty c to a = Some z ->
    post_sem p (conv_sem cv (rep cf a)) = rep ct z.

(* casts that are right without any re-wrapping (the value always fits the destination, or the
   destination fills its container) *)
Definition cast_exact_bare (from to : ty) : bool :=
  match from, to with
  | I64, I64 | I64, U64 | U64, I64 | U64, U64 | U32, I64 | U32, U64 | I32, I32 | U32, U32
  | I8, I32 | U8, I32 | I16, I32 | U16, I32 | I32, I64 | U64, I32 | I64, I32 | U32, I32
  | U8, U32 | U16, U32 | I8, I8 | U8, U8 | I16, I16 | U16, U16 => true
  | _, _ => false
  end.
