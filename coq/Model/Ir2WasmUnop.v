(* Model/Ir2WasmUnop.v — unary operators of ppci2wasm.do_tree: only NEG of i8/i16/i32/i64 (and ptr,
   selected as i32) is implemented, as  iN.const 0 ; x ; iN.sub  followed by the re-wrapping of the
   type (emit_wrap).  INV and NEG of unsigned types raise NotImplementedError.  No proofs. *)
From Coq Require Import ZArith List Bool.
Import ListNotations.
From PV Require Import Spec.IRSyntax Spec.IRSem Spec.WasmNumSpec Model.Ir2WasmOps Model.Ir2WasmPost.
Open Scope Z_scope.

Definition unop_rowT := (ty * width * post)%type.     (* NEG rows: type, width of const/sub, re-wrap *)

(* the emitted sequence leaves the representation of IRSem's  - a  (canonical form of the type) *)
Definition unop_row (c : cfg) (r : unop_rowT) : Prop :=
  let '(t, w, p) := r in
  container t = Some w /\
  forall a z, in_range_ty c t a -> eval_unop c t Neg a = ODone z ->
    post_sem p (isub (bits w) 0 (rep w a)) = rep w z.

Definition neg_supported (t : ty) : bool :=
  match t with I8 | I16 | I32 | I64 | Ptr => true | _ => false end.
Definition unop_good (r : unop_rowT) : bool :=
  let '(t, w, p) := r in
  neg_supported t && post_eqb p (wrap_post t)
  && match container t with
     | Some w' => match w, w' with W32, W32 | W64, W64 => true | _, _ => false end
     | None => false
     end.
