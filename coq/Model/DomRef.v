(* Model/DomRef.v — executable reference for dominators (property C25) and the certificate
   checker for an immediate-dominator map.  Definitions only; proofs in Proofs/C25_ref.v and
   Proofs/C25_cert.v.  None of this mirrors ppci: it is the trusted-by-proof oracle the
   implementation's answers are compared with. *)
From Coq Require Import List Arith Bool.
From PV Require Import Spec.CfgSpec.
Import ListNotations.

Definition succs (g : graph) (u : nat) : list nat :=
  filter (fun v => v <? length g) (nth u g []).

Definition mem (x : nat) (l : list nat) : bool := existsb (Nat.eqb x) l.

Fixpoint dedup (l : list nat) : list nat :=
  match l with
  | [] => []
  | x :: r => if mem x r then dedup r else x :: dedup r
  end.

(* successors of the frontier that are allowed and not yet visited *)
Definition expand (g : graph) (ok : nat -> bool) (frontier visited : list nat) : list nat :=
  dedup (filter (fun v => ok v && negb (mem v visited)) (flat_map (succs g) frontier)).

(* breadth-first closure; fuel = number of rounds *)
Fixpoint closure (fuel : nat) (g : graph) (ok : nat -> bool) (frontier visited : list nat)
  : list nat :=
  match fuel with
  | O => visited
  | S f => match expand g ok frontier visited with
           | [] => visited
           | nw => closure f g ok nw (nw ++ visited)
           end
  end.

(* nodes reachable from e by walks all of whose vertices satisfy ok *)
Definition reach_set (g : graph) (ok : nat -> bool) (e : nat) : list nat :=
  if ok e then closure (S (length g)) g ok [e] [e] else [].

Definition reach_from (g : graph) (u : nat) : list nat := reach_set g (fun _ => true) u.
Definition reachable_ref (g : graph) (u v : nat) : bool := mem v (reach_from g u).
Definition reach_plus_ref (g : graph) (u v : nat) : bool :=
  existsb (fun s => reachable_ref g s v) (succs g u).

(* d dominates w  <->  w is not reachable from e once d is removed *)
Definition dom_ref (g : graph) (e d w : nat) : bool :=
  negb (mem w (reach_set g (fun v => negb (v =? d)) e)).

(* table of the n avoid-sets, so that all-pairs queries cost n searches *)
Definition avoid_tab (g : graph) (e : nat) : list (list nat) :=
  map (fun d => reach_set g (fun v => negb (v =? d)) e) (seq 0 (length g)).
Definition dom_tab (T : list (list nat)) (d w : nat) : bool := negb (mem w (nth d T [])).

(* immediate dominator by definition, from a dominance test [domb] and a reachability test *)
Definition idom_of (n : nat) (domb : nat -> nat -> bool) (reachb : nat -> bool) (e w : nat)
  : option nat :=
  if reachb w && negb (w =? e) then
    find (fun d => negb (d =? w) && domb d w &&
                   forallb (fun d' => implb (negb (d' =? w) && domb d' w) (domb d' d)) (seq 0 n))
         (seq 0 n)
  else None.

Definition idom_ref (g : graph) (e w : nat) : option nat :=
  idom_of (length g) (dom_ref g e) (reachable_ref g e) e w.

(* all nodes at once, through the table *)
Definition idom_list (g : graph) (e : nat) : list (option nat) :=
  let T := avoid_tab g e in
  let R := reach_from g e in
  map (idom_of (length g) (dom_tab T) (fun w => mem w R) e) (seq 0 (length g)).

(* dominance matrix restricted to reachable targets: row d = list of w (reachable) dominated by d *)
Definition dom_rows (g : graph) (e : nat) : list (list nat) :=
  let T := avoid_tab g e in
  let R := reach_from g e in
  map (fun d => filter (fun w => mem w R && dom_tab T d w) (seq 0 (length g))) (seq 0 (length g)).

(* dominance frontier by definition *)
Definition df_ref_with (g : graph) (domb : nat -> nat -> bool) (reachb : nat -> bool) (x : nat)
  : list nat :=
  filter (fun y => existsb (fun p => reachb p && mem y (succs g p) && domb x p) (seq 0 (length g))
                   && negb (domb x y && negb (x =? y)))
         (seq 0 (length g)).
Definition df_ref (g : graph) (e x : nat) : list nat :=
  df_ref_with g (dom_ref g e) (reachable_ref g e) x.
Definition df_list (g : graph) (e : nat) : list (list nat) :=
  let T := avoid_tab g e in
  let R := reach_from g e in
  map (df_ref_with g (dom_tab T) (fun w => mem w R)) (seq 0 (length g)).

(* post-dominance: d post-dominates w <-> exit not reachable from w once d is removed *)
Definition pdom_ref (g : graph) (x d w : nat) : bool :=
  negb (mem x (reach_set g (fun v => negb (v =? d)) w)).
(* row w = list of d that post-dominate w *)
Definition pdom_rows (g : graph) (x : nat) : list (list nat) :=
  map (fun w => filter (fun d => pdom_ref g x d w) (seq 0 (length g))) (seq 0 (length g)).

Definition ipdom_ref (g : graph) (x w : nat) : option nat :=
  let n := length g in
  find (fun d => negb (d =? w) && pdom_ref g x d w &&
                 forallb (fun d' => implb (negb (d' =? w) && pdom_ref g x d' w) (pdom_ref g x d' d))
                         (seq 0 n))
       (seq 0 n).

(* ------------------------------------------------------------------ certificate checker *)
Fixpoint anc_b (fuel : nat) (t : pmap) (a w : nat) : bool :=
  (a =? w) ||
  match fuel with
  | O => false
  | S f => match pget t w with Some p => anc_b f t a p | None => false end
  end.

Definition in_tree (t : pmap) (e u : nat) : bool :=
  (u =? e) || match pget t u with Some _ => true | None => false end.

(* parent property: the entry has no parent; the tree domain is closed under successors; for
   every edge (u,v) with u in the tree, v = entry or parent(v) is an ancestor-or-self of u *)
Definition check_parent (g : graph) (e : nat) (t : pmap) : bool :=
  let n := length g in
  match pget t e with None => true | Some _ => false end &&
  forallb (fun u =>
    implb (in_tree t e u)
      (forallb (fun v => in_tree t e v &&
                  ((v =? e) || match pget t v with
                               | Some p => anc_b n t p u
                               | None => false
                               end))
               (succs g u)))
    (seq 0 n).

Definition opt_eqb (a b : option nat) : bool :=
  match a, b with
  | Some x, Some y => x =? y
  | None, None => true
  | _, _ => false
  end.

(* full check: parent property (cheap, structural) and exactness by comparison with the
   reference immediate dominators *)
Definition check_idom (g : graph) (e : nat) (t : pmap) : bool :=
  let L := idom_list g e in
  check_parent g e t &&
  forallb (fun w => opt_eqb (pget t w) (nth w L None)) (seq 0 (length g)).

(* ------------------------------------------------------------------ answer tables (for the checks) *)
Definition sdom_rows (g : graph) (e : nat) : list (list nat) :=
  map (fun p => filter (fun w => negb (w =? fst p)) (snd p))
      (combine (seq 0 (length g)) (dom_rows g e)).

Definition reach_rows (g : graph) : list (list nat) :=
  let T := map (reach_from g) (seq 0 (length g)) in
  map (fun u => filter (fun v => existsb (fun s => mem v (nth s T [])) (succs g u)) (seq 0 (length g)))
      (seq 0 (length g)).

(* immediate post dominators of all nodes from the table of post-dominator rows *)
Definition ipdom_list (g : graph) (x : nat) : list (option nat) :=
  let rows := pdom_rows g x in
  map (fun w =>
         let sp := filter (fun d => negb (d =? w)) (nth w rows []) in
         find (fun d => forallb (fun d' => mem d' (nth d rows [])) sp) sp)
      (seq 0 (length g)).

Definition mask_opt (m : list bool) (l : list (option nat)) : list (option nat) :=
  map (fun p : bool * option nat => if fst p then snd p else None) (combine m l).

(* every graph on n nodes with duplicate-free sorted successor lists: (2^n)^n graphs *)
Fixpoint sublists (l : list nat) : list (list nat) :=
  match l with
  | [] => [[]]
  | x :: r => let s := sublists r in s ++ map (cons x) s
  end.

Fixpoint lists_of {A} (k : nat) (choices : list A) : list (list A) :=
  match k with
  | O => [[]]
  | S k' => flat_map (fun c => map (cons c) (lists_of k' choices)) choices
  end.

Definition all_graphs (n : nat) : list graph := lists_of n (sublists (seq 0 n)).
