(* Model/IntegerSetObs.v — correspondence harness for C33 (no proofs, not used by any theorem):
   all observations of one ordered pair (A, B) of constructor argument lists, as one [val], in the
   order tools/props/c33.py renders the implementation's results. *)
From PV Require Import Lib.Py Lib.Val Model.IntegerSet.
Open Scope Z_scope.

Definition obs (with_iter : bool) (A B : list value) (zs : list Z) : val :=
  let a := ctor A in
  let b := ctor B in
  VT ([toval a; toval b; toval (union a b); toval (intersection FUEL a b); toval (difference FUEL a b);
       toval (symmetric_difference FUEL a b); toval (ranges_eqb a b); toval (empty a);
       toval (cardinality a); toval (map (contains a) zs)]
      ++ (if with_iter then [toval (iter a)] else [])).
