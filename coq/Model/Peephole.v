(* Model/Peephole.v — hand model (tie H) of ppci/codegen/peephole.py: PeepHoleStream.
   Definitions only; proofs are in Proofs/C04_peephole.v.

   Python:
       def do_emit(self, item):
           self._window.append(item)
           self.clip_window(2)
           if len(self._window) == 2:
               a, b = self._window
               if hasattr(a, "effect") and hasattr(b, "effect"):
                   if a.effect() == b.effect():
                       if not isinstance(a, Label):
                           self._window.pop(0)
       def clip_window(self, size):
           while len(self._window) > size:
               self._downstream.emit(self._window.pop(0))
       def flush(self):
           self.clip_window(0)
   An instruction is abstracted to what the filter looks at: whether it has an `effect` method and
   what that returns ([effect i : option E], compared with [eqE]), and isinstance(i, Label). *)
From Coq Require Import List Arith Bool.
Import ListNotations.

Section Stream.
  Context {I E : Type}.
  Variable effect : I -> option E.
  Variable eqE : E -> E -> bool.
  Variable is_label : I -> bool.

  Record pstate := mkps { window : list I; down : list I (* emitted downstream, oldest first *) }.

  (* clip_window: the while loop pops window[0] as long as len(window) > size (structural in the
     window, so no fuel is needed) *)
  Fixpoint clip (size : nat) (w d : list I) : list I * list I :=
    match w with
    | [] => (w, d)
    | x :: w' => if size <? length w then clip size w' (d ++ [x]) else (w, d)
    end.

  Definition do_emit (st : pstate) (item : I) : pstate :=
    let '(w, d) := clip 2 (window st ++ [item]) (down st) in
    match w with
    | [a; b] =>
        match effect a, effect b with
        | Some ea, Some eb =>
            if eqE ea eb then
              if negb (is_label a) then mkps [b] d else mkps w d
            else mkps w d
        | _, _ => mkps w d
        end
    | _ => mkps w d
    end.

  Definition flush (st : pstate) : pstate :=
    let '(w, d) := clip 0 (window st) (down st) in mkps w d.

  (* emit every item of [l] into a fresh PeepHoleStream, flush, and look at the downstream *)
  Definition peephole (l : list I) : list I :=
    down (flush (fold_left do_emit l (mkps [] []))).

  (* what it amounts to: an item is dropped iff the NEXT emitted item has an equal effect and the
     item is not a Label (proved equal to [peephole] in Proofs/C04_peephole.v) *)
  Definition drops (a b : I) : bool :=
    match effect a, effect b with
    | Some ea, Some eb => eqE ea eb && negb (is_label a)
    | _, _ => false
    end.
  Definition drops_hd (a : I) (tl : list I) : bool :=
    match tl with b :: _ => drops a b | [] => false end.
  Fixpoint peep (l : list I) : list I :=
    match l with
    | [] => []
    | a :: tl => if drops_hd a tl then peep tl else a :: peep tl
    end.
End Stream.

(* ---- encoding for the model/implementation comparison (tools/props/c04.py): an item is
   (unique id, effect rendering or None, isinstance Label) *)
From PV Require Import Lib.Py Lib.Val.
From Coq Require Import ZArith String.
Definition item := (Z * option string * bool)%type.
Definition item_effect (i : item) : option string := snd (fst i).
Definition item_is_label (i : item) : bool := snd i.
Definition case_peephole (l : list item) : val :=
  VL (map (fun i : item => VZ (fst (fst i))) (peephole item_effect String.eqb item_is_label l)).
