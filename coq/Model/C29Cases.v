(* C29 — helpers for the correspondence cases of tools/props/c29.py (no proofs) *)
From Coq Require Import String List.
From PV Require Import Spec.BurgCoverSpec Spec.IRTrees Spec.C29Known Model.BurgCover
  Gen.Tab_burg_x86_64 Gen.Tab_burg_arm Gen.Tab_burg_thumb Gen.Tab_burg_riscv Gen.Tab_burg_riscv_rvc.
Import ListNotations.
Local Open Scope string_scope.

Definition G_x86_64 := irtrees desc_x86_64 [].      Definition U_x86_64 := usable assume_x86_64 rules_x86_64.
Definition G_arm := irtrees desc_arm [].            Definition U_arm := usable assume_arm rules_arm.
Definition G_thumb := irtrees desc_thumb [].        Definition U_thumb := usable assume_thumb rules_thumb.
Definition G_riscv := irtrees desc_riscv [].        Definition U_riscv := usable assume_riscv rules_riscv.
Definition G_riscv_rvc := irtrees desc_riscv_rvc []. Definition U_riscv_rvc := usable assume_riscv_rvc rules_riscv_rvc.

(* (tree is in the hand-modelled language, non-terminals the labeller model derives at the root) *)
Definition case_of (G : list prod) (U : list rule) (t : tree) : bool * list string :=
  (in_langb G t "S", label U t).
Definition case_x86_64 := case_of G_x86_64 U_x86_64.
Definition case_arm := case_of G_arm U_arm.
Definition case_thumb := case_of G_thumb U_thumb.
Definition case_riscv := case_of G_riscv U_riscv.
Definition case_riscv_rvc := case_of G_riscv_rvc U_riscv_rvc.

(* diagnosis when a closure lemma no longer holds: minimal uncovered trees of the proven language *)
Definition diag (U : list rule) (G : list prod) : list string :=
  map show_tree (uncovered U G "S" "stm" (reach U G 40 [])).
Definition diag_x86_64 := diag U_x86_64 (irtrees desc_x86_64 excl_x86_64).
Definition diag_arm := diag U_arm (irtrees desc_arm excl_arm).
Definition diag_thumb := diag U_thumb (irtrees desc_thumb excl_thumb).
Definition diag_riscv := diag U_riscv (irtrees desc_riscv excl_riscv).
Definition diag_riscv_rvc := diag U_riscv_rvc (irtrees desc_riscv_rvc excl_riscv_rvc).
(* stale exclusions: operators of excl that the current table does cover *)
Definition full_x86_64 := diag U_x86_64 G_x86_64.
Definition full_arm := diag U_arm G_arm.
Definition full_thumb := diag U_thumb G_thumb.
Definition full_riscv := diag U_riscv G_riscv.
Definition full_riscv_rvc := diag U_riscv_rvc G_riscv_rvc.
