(* Model/CGenExpr.v — hand model (tie H) of the integer-expression path of ppci's C front-end. NO proofs.

   1. typing (ppci/lang/c/semantics.py): [elab] mirrors CSemantics.on_number / on_variable_access /
      on_cast / on_unop / on_binop / on_ternop / on_return with coerce, promote, get_common_type,
      check_condition, from a source expression (Spec.CExprSpec.cx) to the typed AST [texpr]
      (Cast and ImplicitCast are both TCast).  The two typing helpers exist in two variants [semv]:
        sem_orig  : promote = always int, get_common_type = max by basic_ranks   (/repo before commit c83990b)
        sem_c11   : the code since c83990b = fixes/C01-common-type.diff (6.3.1.1p2 / 6.3.1.8 via sizeof)
      tools/props/c01.py probes the real CSemantics and uses the matching variant.
   2. lowering (ppci/lang/c/codegenerator.py): [low] mirrors CCodeGenerator.gen_expr(rvalue=True) /
      gen_binop / gen_unop / gen_cast / gen_ternop / gen_condition / check_non_zero /
      gen_condition_to_integer / get_ir_type as a pair (value tree, condition tree):
        irx : Const | Load of a local's alloca | Binop | Unop | Cast | CondInt (phi of 1/0 over a
              condition) | Phi (?:) | Seq (comma) | Store | Rmw (x op= e)
        irc : Cmp (CJump a op b) | NonZero (CJump v == 0 ? no : yes) | And | Or | Not (block swap)
      [xrun]/[crun] run such a tree with Spec.IRSem's eval_binop/eval_unop/eval_cast/eval_const/
      eval_cond on a store holding the locals.
   3. [emit_fn] linearises the same trees into the exact ppci CFG (entry block with the allocas,
      blocks in creation order, phis, vids in print order) for `T f(T0 a0, ...) { return e; }`;
      the check compares it structurally with irimport(c_to_ir(...)) and runs it with IRSem. *)
From PV Require Import Lib.Py Lib.Val Spec.CIntSpec Spec.CExprSpec Gen.ceval Model.CEval
                       Spec.IRSyntax Spec.IRSem.
From Coq Require Import String.
Open Scope Z_scope.

(* ------------------------------------------------------------------ typed AST *)
Inductive tbop := OBin (op : CIntSpec.binop) | OComma | OAssign | OAssignOp (op : CIntSpec.binop).
Inductive tuop := OUn (op : CIntSpec.unop).

Inductive texpr :=
  | TNum (v : Z) (t : ity)                               (* NumericLiteral *)
  | TVar (n : nat) (t : ity)                             (* VariableAccess (lvalue) *)
  | TCast (e : texpr) (t : ity)                          (* Cast / ImplicitCast *)
  | TUn (op : CIntSpec.unop) (a : texpr) (t : ity)       (* UnaryOperator - ~ ! *)
  | TBin (a : texpr) (op : tbop) (b : texpr) (t : ity)   (* BinaryOperator *)
  | TTern (a b c : texpr) (t : ity).                     (* TernaryOperator *)

Definition ttyp (e : texpr) : ity :=
  match e with
  | TNum _ t | TVar _ t | TCast _ t | TUn _ _ t | TBin _ _ _ t | TTern _ _ _ t => t
  end.

(* ------------------------------------------------------------------ CSemantics *)
Record semv := mk_semv { v_promote : ity -> ity;            (* type promote() coerces a promotable type to *)
                         v_common : ity -> ity -> ity;      (* get_common_type *)
                         v_cassign : bool }.                (* `x op= e`: true = rhs promoted and coerced to the type
                                                               of `x op e` (fixes/C01-compound-assign.diff),
                                                               false = rhs coerced to the type of x *)

(* /repo before commit c83990b (kept for the historical _refuted theorems) *)
(* max([t1, t2], key=rank): the first maximal element *)
Definition orig_common_type (a b : ity) : ity := if basic_rank a <? basic_rank b then b else a.
Definition sem_orig : semv := mk_semv (fun _ => TInt) orig_common_type false.

(* the current code (commit c83990b = fixes/C01-common-type.diff) *)
Definition c11_promote (c : cctx) (t : ity) : ity :=
  if negb (is_signed_m t) && (int_size c <=? sizeof c t) then TUInt else TInt.
Definition c11_common (c : cctx) (a b : ity) : ity :=
  let ra := basic_rank a / 10 in
  let rb := basic_rank b / 10 in
  if Bool.eqb (is_signed_m a) (is_signed_m b) then (if ra <? rb then b else a)
  else
    let s := if is_signed_m a then a else b in
    let u := if is_signed_m a then b else a in
    let rs := if is_signed_m a then ra else rb in
    let ru := if is_signed_m a then rb else ra in
    if rs <=? ru then u
    else if sizeof c u <? sizeof c s then s
    else to_unsigned s.
Definition sem_c11 (c : cctx) : semv := mk_semv (c11_promote c) (c11_common c) false.
(* ... with fixes/C01-compound-assign.diff *)
Definition sem_c11a (c : cctx) : semv := mk_semv (c11_promote c) (c11_common c) true.

Section Elab.
  Variable sv : semv.
  Variable te : tenv.

  Definition coerce (e : texpr) (t : ity) : texpr :=
    if ity_eqb (ttyp e) t then e else TCast e t.
  Definition promote_m (e : texpr) : texpr :=
    if mem_ty (ttyp e) promotable_types then coerce e (v_promote sv (ttyp e)) else e.
  (* CSemantics._promoted_type *)
  Definition ptype (t : ity) : ity := if mem_ty t promotable_types then v_promote sv t else t.

  Fixpoint elab (e : cx) : texpr :=
    match e with
    | XLit t v => TNum v t
    | XVar n => TVar n (tvar te n)
    | XCast t a => TCast (elab a) t
    | XUn ULNot a => TUn ULNot (elab a) TInt                 (* check_condition keeps integer types *)
    | XUn UPlus a => promote_m (elab a)
    | XUn op a => let a' := promote_m (elab a) in TUn op a' (ttyp a')
    | XBin op a b =>
        let a' := elab a in
        let b' := elab b in
        match op with
        | BLAnd | BLOr => TBin a' (OBin op) b' TInt
        | BShl | BShr =>
            let a2 := promote_m a' in
            let b2 := promote_m b' in
            TBin a2 (OBin op) (coerce b2 (ttyp a2)) (ttyp a2)
        | _ =>
            let a2 := promote_m a' in
            let b2 := promote_m b' in
            let t := v_common sv (ttyp a2) (ttyp b2) in
            TBin (coerce a2 t) (OBin op) (coerce b2 t) (if is_int_result op then TInt else t)
        end
    | XCond c a b =>
        let a2 := promote_m (elab a) in
        let b2 := promote_m (elab b) in
        let t := v_common sv (ttyp a2) (ttyp b2) in
        TTern (elab c) (coerce a2 t) (coerce b2 t) t
    | XComma a b => let b' := elab b in TBin (elab a) OComma b' (ttyp b')
    | XAssign n a => TBin (TVar n (tvar te n)) OAssign (coerce (elab a) (tvar te n)) (tvar te n)
    | XAssignOp op n a =>
        let tx := tvar te n in
        let rhs :=
          if v_cassign sv then                             (* the type of the rhs = the type of `x op e` *)
            let b2 := promote_m (elab a) in
            match op with
            | BShl | BShr => coerce b2 (ptype tx)
            | _ => coerce b2 (v_common sv (ptype tx) (ttyp b2))
            end
          else coerce (elab a) tx in                       (* rhs coerced to the type of the lhs, no promotion *)
        TBin (TVar n tx) (OAssignOp op) rhs tx
    end.

  (* `T f(...) { return e; }` : on_return coerces to the return type *)
  Definition elab_ret (rt : ity) (e : cx) : texpr := coerce (elab e) rt.
End Elab.

(* where the typing helpers of a variant give the C11 types (node by node); compound assignment is
   computed by ppci in the type of the left operand, which is the C meaning only when that type is
   the common type (no promotion of x, x op e has x's type) *)
Section Agrees.
  Variable sv : semv.
  Variable dm : datamodel.
  Variable te : tenv.
  Definition pp_v (t : ity) : ity := if mem_ty t promotable_types then v_promote sv t else t.
  Definition agree_p (t : ity) : bool := ity_eqb (pp_v t) (promote dm t).
  Definition agree_c (a b : ity) : bool :=
    ity_eqb (v_common sv (promote dm a) (promote dm b)) (uac dm (promote dm a) (promote dm b)).
  Definition cassign_ok (op : CIntSpec.binop) (tx tb : ity) : bool :=
    ity_eqb (promote dm tx) tx &&
    (if is_shift op then true else ity_eqb (uac dm (promote dm tx) (promote dm tb)) tx).
  (* the compound assignments of e are of that kind *)
  Fixpoint cassign_all (fl : bool) (e : cx) : bool :=       (* fl = v_cassign: nothing to require *)
    match e with
    | XLit _ _ | XVar _ => true
    | XCast _ a | XUn _ a | XAssign _ a => cassign_all fl a
    | XBin _ a b | XComma a b => cassign_all fl a && cassign_all fl b
    | XCond c a b => cassign_all fl c && cassign_all fl a && cassign_all fl b
    | XAssignOp op n a => cassign_all fl a && (fl || cassign_ok op (tvar te n) (xtype_of dm te a))
    end.
  Fixpoint agrees (e : cx) : bool :=
    match e with
    | XLit _ _ | XVar _ => true
    | XCast _ a => agrees a
    | XUn ULNot a => agrees a
    | XUn _ a => agrees a && agree_p (xtype_of dm te a)
    | XBin op a b =>
        agrees a && agrees b &&
        match op with
        | BLAnd | BLOr => true
        | BShl | BShr => agree_p (xtype_of dm te a) && agree_p (xtype_of dm te b)
        | _ => agree_p (xtype_of dm te a) && agree_p (xtype_of dm te b) &&
               agree_c (xtype_of dm te a) (xtype_of dm te b)
        end
    | XCond c a b =>
        agrees c && agrees a && agrees b &&
        agree_p (xtype_of dm te a) && agree_p (xtype_of dm te b) &&
        agree_c (xtype_of dm te a) (xtype_of dm te b)
    | XComma a b => agrees a && agrees b
    | XAssign _ a => agrees a
    | XAssignOp op n a =>
        agrees a &&
        (if v_cassign sv
         then agree_p (tvar te n) && agree_p (xtype_of dm te a) &&
              (if is_shift op then true else agree_c (tvar te n) (xtype_of dm te a))
         else cassign_ok op (tvar te n) (xtype_of dm te a))
    end.
End Agrees.

(* ------------------------------------------------------------------ CCodeGenerator: IR types *)
(* ir_type_map: int_types = {2: i16, 4: i32, 8: i64}, uint_types = {2: i16 (sic), 4: u32, 8: u64};
   a missing key is a KeyError in __init__ (modelled as the blob type, which no theorem accepts) *)
Definition int_types (sz : Z) : ty :=
  if sz =? 2 then I16 else if sz =? 4 then I32 else if sz =? 8 then I64 else Blob 0 0.
Definition uint_types (u16 : ty) (sz : Z) : ty :=
  if sz =? 2 then u16 else if sz =? 4 then U32 else if sz =? 8 then U64 else Blob 0 0.
(* [u16] = the entry uint_types[2] read from the source by the check (ir.i16 today) *)
Record cgen := mk_cgen { cg_ctx : cctx; cg_u16 : ty; cg_ialign : Z; cg_lalign : Z }.
(* CContext.alignment of the basic integer types (type_size_map) *)
Definition alignof (g : cgen) (t : ity) : Z :=
  match t with
  | TChar | TUChar => 1 | TShort | TUShort => 2
  | TInt | TUInt => cg_ialign g | TLong | TULong => Z.max (cg_ialign g) (cg_lalign g)
  | TLLong | TULLong => Z.max (cg_ialign g) 8
  end.
Definition irty (g : cgen) (t : ity) : ty :=
  match t with
  | TChar => I8 | TUChar => U8 | TShort => I16 | TUShort => U16
  | TInt => int_types (int_size (cg_ctx g)) | TUInt => uint_types (cg_u16 g) (int_size (cg_ctx g))
  | TLong => int_types (long_size (cg_ctx g)) | TULong => uint_types (cg_u16 g) (long_size (cg_ctx g))
  | TLLong => I64 | TULLong => U64
  end.

Definition ir_binop (op : CIntSpec.binop) : option IRSyntax.binop :=
  match op with
  | BAdd => Some Add | BSub => Some Sub | BMul => Some Mul | BDiv => Some Div | BMod => Some Rem
  | BShl => Some Shl | BShr => Some Shr | BAnd => Some And | BOr => Some Or | BXor => Some Xor
  | _ => None
  end.
Definition ir_cond (op : CIntSpec.binop) : option cond :=
  match op with
  | BLt => Some Clt | BGt => Some Cgt | BLe => Some Cle | BGe => Some Cge | BEq => Some Ceq | BNe => Some Cne
  | _ => None
  end.

(* ------------------------------------------------------------------ lowered trees *)
Inductive irx :=
  | XConst (t : ty) (z : Z)
  | XLoad (t : ty) (n : nat)
  | XBinop (t : ty) (o : IRSyntax.binop) (a b : irx)
  | XUnop (t : ty) (o : IRSyntax.unop) (a : irx)
  | XCastI (t : ty) (a : irx)
  | XCondInt (t : ty) (c : irc)
  | XPhi (t : ty) (c : irc) (a b : irx)
  | XSeq (a b : irx)
  | XStore (n : nat) (a : irx)
  | XRmw (t : ty) (o : IRSyntax.binop) (n : nat) (rhs : irx)
  | XRmwC (tx top : ty) (o : IRSyntax.binop) (n : nat) (rhs : irx)   (* x op= e computed in type top *)
  | XBad                                   (* outside the modelled fragment *)
with irc :=
  | CCmp (c : cond) (a b : irx)
  | CNonZero (t : ty) (a : irx)
  | CAnd (a b : irc)
  | COr (a b : irc)
  | CNot (a : irc).

Section Lower.
  Variable g : cgen.

  (* (gen_expr e rvalue=True, gen_condition e) *)
  Fixpoint low (e : texpr) : irx * irc :=
    let nz := fun (t : ity) (x : irx) => (x, CNonZero (irty g t) x) in
    match e with
    | TNum v t => nz t (XConst (irty g t) v)
    | TVar n t => nz t (XLoad (irty g t) n)
    | TCast a t => nz t (XCastI (irty g t) (fst (low a)))
    | TUn ULNot a t => let c := CNot (snd (low a)) in (XCondInt (irty g t) c, c)
    | TUn UNeg a t => nz t (XUnop (irty g t) Neg (fst (low a)))
    | TUn UCompl a t => nz t (XUnop (irty g t) Inv (fst (low a)))
    | TUn UPlus a t => nz t XBad                         (* never built: + is elaborated away *)
    | TBin a op b t =>
        match op with
        | OBin BLAnd => let c := CAnd (snd (low a)) (snd (low b)) in (XCondInt (irty g t) c, c)
        | OBin BLOr => let c := COr (snd (low a)) (snd (low b)) in (XCondInt (irty g t) c, c)
        | OBin o =>
            match ir_binop o, ir_cond o with
            | Some i, _ => nz t (XBinop (irty g t) i (fst (low a)) (fst (low b)))
            | None, Some cc => let c := CCmp cc (fst (low a)) (fst (low b)) in (XCondInt (irty g t) c, c)
            | None, None => nz t XBad
            end
        | OComma => nz t (XSeq (fst (low a)) (fst (low b)))
        | OAssign =>
            match a with
            | TVar n _ => nz t (XStore n (fst (low b)))
            | _ => nz t XBad                              (* other lvalues: not modelled *)
            end
        | OAssignOp o =>
            match a, ir_binop o with
            | TVar n _, Some i => nz t (XRmwC (irty g t) (irty g (ttyp b)) i n (fst (low b)))
            | _, _ => nz t XBad
            end
        end
    | TTern a b c t => nz t (XPhi (irty g t) (snd (low a)) (fst (low b)) (fst (low c)))
    end.
  Definition lower (e : texpr) : irx := fst (low e).
  Definition lcond (e : texpr) : irc := snd (low e).
End Lower.

(* ------------------------------------------------------------------ running a tree with IRSem's arithmetic *)
Section Run.
  Variable c : cfg.
  Definition as_int (o : outcome value) : outcome Z :=
    v <~ o ;; match v with Vint z => ODone z | Vflt _ => OUnsupported | _ => OStuck end.
  Definition load_slot (t : ty) (st : store) (n : nat) : outcome Z :=
    match nth_error st n with
    | Some z => of_opt (wrap_ty c t z) OStuck          (* load_val: wrap_ty of the stored bytes *)
    | None => OStuck
    end.
  Fixpoint xrun (x : irx) (st : store) : outcome (Z * store) :=
    match x with
    | XConst t z => v <~ as_int (eval_const c t (CInt z)) ;; ODone (v, st)
    | XLoad t n => v <~ load_slot t st n ;; ODone (v, st)
    | XBinop t o a b =>
        '(va, s1) <~ xrun a st ;; '(vb, s2) <~ xrun b s1 ;;
        r <~ eval_binop c t o va vb ;; ODone (r, s2)
    | XUnop t o a => '(va, s1) <~ xrun a st ;; r <~ eval_unop c t o va ;; ODone (r, s1)
    | XCastI t a => '(va, s1) <~ xrun a st ;; r <~ as_int (eval_cast c t (Vint va)) ;; ODone (r, s1)
    | XCondInt t k =>
        '(b, s1) <~ crun k st ;;
        r <~ as_int (eval_const c t (CInt (if b then 1 else 0))) ;; ODone (r, s1)
    | XPhi t k a b => '(bv, s1) <~ crun k st ;; if bv then xrun a s1 else xrun b s1
    | XSeq a b => '(_, s1) <~ xrun a st ;; xrun b s1
    | XStore n a => '(v, s1) <~ xrun a st ;; ODone (v, upd s1 n v)
    | XRmw t o n rhs =>
        '(vb, s1) <~ xrun rhs st ;; va <~ load_slot t s1 n ;;
        r <~ eval_binop c t o va vb ;; ODone (r, upd s1 n r)
    | XRmwC tx top o n rhs =>
        '(vb, s1) <~ xrun rhs st ;; va <~ load_slot tx s1 n ;;
        va' <~ (if ty_eqb top tx then ODone va else as_int (eval_cast c top (Vint va))) ;;
        r <~ eval_binop c top o va' vb ;;
        r' <~ (if ty_eqb top tx then ODone r else as_int (eval_cast c tx (Vint r))) ;;
        ODone (r', upd s1 n r')
    | XBad => OUnsupported
    end
  with crun (k : irc) (st : store) : outcome (bool * store) :=
    match k with
    | CCmp cc a b => '(va, s1) <~ xrun a st ;; '(vb, s2) <~ xrun b s1 ;; ODone (eval_cond cc va vb, s2)
    | CNonZero t a =>
        '(v, s1) <~ xrun a st ;; z <~ as_int (eval_const c t (CInt 0)) ;;
        ODone (negb (eval_cond Ceq v z), s1)            (* CJump(value == zero, no_block, yes_block) *)
    | CAnd a b => '(x, s1) <~ crun a st ;; if x then crun b s1 else ODone (false, s1)
    | COr a b => '(x, s1) <~ crun a st ;; if x then ODone (true, s1) else crun b s1
    | CNot a => '(x, s1) <~ crun a st ;; ODone (negb x, s1)
    end.
End Run.

(* ------------------------------------------------------------------ linearisation to the ppci CFG *)
(* instructions carry temporary ids in creation order; blocks are numbered in creation order
   (block 0 = entry with the allocas, block 1 = first code block); [renumber] then assigns the
   print-order vids of Spec.IRSyntax. *)
Record estate := mk_es { es_blocks : list (list instr);      (* by block number, instructions reversed *)
                         es_cur : nat; es_next : positive }.
Definition add_ins (s : estate) (i : instr) : estate :=
  mk_es (let fix go (l : list (list instr)) (k : nat) :=
           match l, k with
           | [], _ => []
           | b :: r, O => (i :: b) :: r
           | b :: r, S k' => b :: go r k'
           end in go (es_blocks s) (es_cur s))
        (es_cur s) (es_next s).
Definition new_val (s : estate) (mk : vid -> instr) : vref * estate :=
  let v := es_next s in
  let s' := add_ins s (mk v) in
  (Loc v, mk_es (es_blocks s') (es_cur s') (Pos.succ v)).
Definition new_block (s : estate) : nat * estate :=
  (List.length (es_blocks s), mk_es (es_blocks s ++ [[]]) (es_cur s) (es_next s)).
Definition set_block (s : estate) (b : nat) : estate := mk_es (es_blocks s) b (es_next s).
Definition bid_of (n : nat) : bid := Pos.of_succ_nat n.

Section Emit.
  (* address (vref of the alloca_addr) of local n *)
  Variable slots : list vref.
  Definition slot (n : nat) : vref := nth n slots (Unres "noslot").

  Fixpoint emit_x (x : irx) (s : estate) : vref * estate :=
    match x with
    | XConst t z => new_val s (fun v => IConst v "num" t (CInt z))
    | XLoad t n => new_val s (fun v => ILoad v "tmp_load" t (slot n) false)
    | XBinop t o a b =>
        let '(ra, s1) := emit_x a s in
        let '(rb, s2) := emit_x b s1 in
        new_val s2 (fun v => IBinop v "tmp" t o ra rb)
    | XUnop t o a =>
        let '(ra, s1) := emit_x a s in new_val s1 (fun v => IUnop v "unop" t o ra)
    | XCastI t a =>
        let '(ra, s1) := emit_x a s in new_val s1 (fun v => ICast v "typecast" t ra)
    | XCondInt t k =>
        let '(yes, s1) := new_block s in
        let '(no, s2) := new_block s1 in
        let '(fin, s3) := new_block s2 in
        let s4 := emit_c k yes no s3 in
        let '(ry, s5) := new_val (set_block s4 yes) (fun v => IConst v "num" t (CInt 1)) in
        let s6 := add_ins s5 (IJump (bid_of fin)) in
        let '(rn, s7) := new_val (set_block s6 no) (fun v => IConst v "num" t (CInt 0)) in
        let s8 := add_ins s7 (IJump (bid_of fin)) in
        new_val (set_block s8 fin) (fun v => IPhi v "phi" t [(bid_of yes, ry); (bid_of no, rn)])
    | XPhi t k a b =>
        let '(yes, s1) := new_block s in
        let '(no, s2) := new_block s1 in
        let '(fin, s3) := new_block s2 in
        let s4 := emit_c k yes no s3 in
        let '(ry, s5) := emit_x a (set_block s4 yes) in
        let fy := es_cur s5 in
        let s6 := add_ins s5 (IJump (bid_of fin)) in
        let '(rn, s7) := emit_x b (set_block s6 no) in
        let fn := es_cur s7 in
        let s8 := add_ins s7 (IJump (bid_of fin)) in
        new_val (set_block s8 fin) (fun v => IPhi v "phi" t [(bid_of fy, ry); (bid_of fn, rn)])
    | XSeq a b => let '(_, s1) := emit_x a s in emit_x b s1
    | XStore n a =>
        let '(ra, s1) := emit_x a s in (ra, add_ins s1 (IStore ra (slot n) false))
    | XRmw t o n rhs =>
        let '(rb, s1) := emit_x rhs s in
        let '(ra, s2) := new_val s1 (fun v => ILoad v "tmp_load" t (slot n) false) in
        let '(rr, s3) := new_val s2 (fun v => IBinop v "tmp" t o ra rb) in
        (rr, add_ins s3 (IStore rr (slot n) false))
    | XRmwC tx top o n rhs =>
        let '(rb, s1) := emit_x rhs s in
        let '(ra, s2) := new_val s1 (fun v => ILoad v "tmp_load" tx (slot n) false) in
        if ty_eqb top tx then
          let '(rr, s3) := new_val s2 (fun v => IBinop v "tmp" tx o ra rb) in
          (rr, add_ins s3 (IStore rr (slot n) false))
        else
          let '(rc, s3) := new_val s2 (fun v => ICast v "typecast" top ra) in
          let '(rr, s4) := new_val s3 (fun v => IBinop v "tmp" top o rc rb) in
          let '(rd, s5) := new_val s4 (fun v => ICast v "typecast" tx rr) in
          (rd, add_ins s5 (IStore rd (slot n) false))
    | XBad => (Unres "bad", s)
    end
  with emit_c (k : irc) (yes no : nat) (s : estate) : estate :=
    match k with
    | CCmp cc a b =>
        let '(ra, s1) := emit_x a s in
        let '(rb, s2) := emit_x b s1 in
        add_ins s2 (ICJump ra cc rb (bid_of yes) (bid_of no))
    | CNonZero t a =>
        let '(ra, s1) := emit_x a s in
        let '(rz, s2) := new_val s1 (fun v => IConst v "num" t (CInt 0)) in
        add_ins s2 (ICJump ra Ceq rz (bid_of no) (bid_of yes))
    | CAnd a b =>
        let '(mid, s1) := new_block s in
        let s2 := emit_c a mid no s1 in
        emit_c b yes no (set_block s2 mid)
    | COr a b =>
        let '(mid, s1) := new_block s in
        let s2 := emit_c a yes mid s1 in
        emit_c b yes no (set_block s2 mid)
    | CNot a => emit_c a no yes s
    end.
End Emit.

(* print-order renumbering of the temporary ids *)
Definition ren_ref (m : list (positive * positive)) (r : vref) : vref :=
  match r with
  | Loc v => match find (fun p => Pos.eqb (fst p) v) m with Some p => Loc (snd p) | None => Unres "unbound" end
  | _ => r
  end.
Definition ren_vid (m : list (positive * positive)) (v : vid) : vid :=
  match find (fun p => Pos.eqb (fst p) v) m with Some p => snd p | None => v end.
Definition ren_instr (m : list (positive * positive)) (i : instr) : instr :=
  let r := ren_ref m in
  let d := ren_vid m in
  match i with
  | IConst v n t k => IConst (d v) n t k
  | IBinop v n t o a b => IBinop (d v) n t o (r a) (r b)
  | IUnop v n t o a => IUnop (d v) n t o (r a)
  | ICast v n t a => ICast (d v) n t (r a)
  | ILoad v n t a vol => ILoad (d v) n t (r a) vol
  | IStore x a vol => IStore (r x) (r a) vol
  | IAlloc v n sz al => IAlloc (d v) n sz al
  | IAddrOf v n a => IAddrOf (d v) n (r a)
  | IPhi v n t ins => IPhi (d v) n t (map (fun p => (fst p, r (snd p))) ins)
  | ICJump a cc b y n => ICJump (r a) cc (r b) y n
  | IReturn a => IReturn (r a)
  | other => other
  end.
Definition renumber (blocks : list (list instr)) : list (list instr) :=
  let defs := flat_map (fun b => flat_map (fun i => match instr_def i with Some d => [fst (fst d)] | None => [] end) b) blocks in
  let m := combine defs (map Pos.of_succ_nat (seq 0 (List.length defs))) in
  map (map (ren_instr m)) blocks.

Fixpoint show_dec (fuel : nat) (z : Z) (acc : string) : string :=
  match fuel with
  | O => acc
  | S f => let d := String (Ascii.ascii_of_nat (48 + Z.to_nat (z mod 10))) acc in
           if z <? 10 then d else show_dec f (z / 10) d
  end.
Definition show_nat (n : nat) : string := show_dec 20 (Z.of_nat n) EmptyString.

(* `rt f(params) { return e; }` : gen_function_def + gen_return.  Parameter k gets
   alloca (size, alignment = sizeof) + alloca_addr in the entry block and a store in block 1. *)
Definition emit_fn (g : cgen) (name : string) (params : list (string * ity)) (rt : ity) (body : irx) : func :=
  let n := List.length params in
  let allocs := flat_map (fun k =>
                  let t := snd (nth k params (EmptyString, TInt)) in
                  let sz := sizeof (cg_ctx g) t in
                  [IAlloc (Pos.of_succ_nat (2 * k)) "alloca" sz (alignof g t);
                   IAddrOf (Pos.of_succ_nat (2 * k + 1)) "alloca_addr" (Loc (Pos.of_succ_nat (2 * k)))])
                (seq 0 n) in
  let slots := map (fun k => Loc (Pos.of_succ_nat (2 * k + 1))) (seq 0 n) in
  let stores := map (fun k => IStore (Param k) (nth k slots (Unres "noslot")) false) (seq 0 n) in
  let s0 := mk_es [rev (allocs ++ [IJump (bid_of 1)]); rev stores] 1 (Pos.of_succ_nat (2 * n)) in
  let '(r, s1) := emit_x slots body s0 in
  let s2 := add_ins s1 (IReturn r) in
  let blocks := renumber (map (@rev instr) (es_blocks s2)) in
  mk_func name BGlobal (Some (irty g rt)) (map (fun p => (fst p, irty g (snd p))) params)
          (map (fun kb => mk_block (bid_of (fst kb)) (name ++ "_block" ++ show_nat (fst kb)) (snd kb))
               (combine (seq 0 (List.length blocks)) blocks)).

(* the whole front-end path for an integer return expression *)
Definition c_fn (sv : semv) (g : cgen) (name : string) (params : list (string * ity)) (rt : ity) (e : cx) : func :=
  emit_fn g name params rt (lower g (elab_ret sv (map snd params) rt e)).
Definition c_tree (sv : semv) (g : cgen) (te : tenv) (rt : ity) (e : cx) : irx :=
  lower g (elab_ret sv te rt e).

(* rendering of the typed AST for the correspondence with the real CSemantics output *)
Definition unop_str (op : CIntSpec.unop) : string :=
  match op with UNeg => "-" | UCompl => "~" | ULNot => "!" | UPlus => "+" end.
Definition binop_str (op : CIntSpec.binop) : string :=
  match op with
  | BAdd => "+" | BSub => "-" | BMul => "*" | BDiv => "/" | BMod => "%" | BShl => "<<" | BShr => ">>"
  | BAnd => "&" | BOr => "|" | BXor => "^" | BLt => "<" | BGt => ">" | BLe => "<=" | BGe => ">="
  | BEq => "==" | BNe => "!=" | BLAnd => "&&" | BLOr => "||"
  end.
Definition tbop_str (o : tbop) : string :=
  match o with
  | OBin op => binop_str op | OComma => "," | OAssign => "="
  | OAssignOp op => binop_str op ++ "="
  end.
Fixpoint texpr_val (e : texpr) : val :=
  match e with
  | TNum v t => VT [VS "lit"; VZ v; VZ (ity_tag t)]
  | TVar n t => VT [VS "var"; VZ (Z.of_nat n); VZ (ity_tag t)]
  | TCast a t => VT [VS "cast"; texpr_val a; VZ (ity_tag t)]
  | TUn op a t => VT [VS "un"; VS (unop_str op); texpr_val a; VZ (ity_tag t)]
  | TBin a op b t => VT [VS "bin"; texpr_val a; VS (tbop_str op); texpr_val b; VZ (ity_tag t)]
  | TTern a b d t => VT [VS "tern"; texpr_val a; texpr_val b; texpr_val d; VZ (ity_tag t)]
  end.
#[global] Instance ToVal_texpr : ToVal texpr := texpr_val.
