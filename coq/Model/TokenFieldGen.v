(* Model/TokenFieldGen.v — helper for the correspondence cases of C10: write-then-read through the REGENERATED
   closures (Gen.token_fields) of a field given in the exported form. Definitions only, no proofs. *)
From PV Require Import Lib.Py Model.TokenField.
From PV Require Gen.token_fields.
Open Scope Z_scope.

Definition part_b (p : part) : Z := let 'Part b _ _ := p in b.
Definition part_e (p : part) : Z := let 'Part _ e _ := p in e.

Definition gen_field_set_get (size bv : Z) (f : field) (v : Z) : result (Z * Z) :=
  match f with
  | FRange (Part b e _) =>
      bv' <- token_fields.range_set size bv b e v ;; t <- token_fields.range_get bv' b e ;; Ok (bv', t)
  | FConcat ps =>
      bv' <- token_fields.concat_set size bv (map part_b ps) (map part_e ps) v ;;
      t <- token_fields.concat_get bv' (map part_b ps) (map part_e ps) ;; Ok (bv', t)
  end.
Definition gen_field_set (size bv : Z) (f : field) (v : Z) : result Z :=
  match f with
  | FRange (Part b e _) => token_fields.range_set size bv b e v
  | FConcat ps => token_fields.concat_set size bv (map part_b ps) (map part_e ps) v
  end.
