(* Model/Rsp.v — hand model (tie H) of /repo/ppci/binutils/dbg/gdb/rsp.py.  NO proofs here.

   str = list Z of code points (ASCII: 0..127), bytes = list Z.

   [cfg] selects, per defect, the code as found at ppci 1a712d0 ([false]) or the code with the
   corresponding fixes/C35-*.diff applied ([true]):
     nak_fix   decoder recognises '-' outside a packet            (C35-decoder-nak.diff)
     esc_fix   a raw '#' always ends the packet; rsp_unpack undoes the '}' escaping
                                                                  (C35-unescape-terminator.diff)
     retry_fix retry budget is checked before retransmitting      (C35-retry-off-by-one.diff)
   [orig] is the faithful model of the unfixed code, [fixed3] of the code with these three repairs
   (in /repo since 838b710), [fixed] of the code with the four second-round repairs as well (see
   below).  The check module (tools/props/c35.py) probes the implementation for the second-round
   repairs and runs the correspondence against the configuration the implementation has.

   Threads: the receiver thread (transport -> _process_byte) and the sender thread (sendpkt) are
   interleavings of the labelled transitions [step]; queue.Queue(maxsize=1) is [q] plus the one
   possibly blocked producer [blk]; the 0.5 s timeouts of Queue.get / Queue.put are the
   nondeterministic labels [LTimeout] / [LPutTimeout]. *)
From PV Require Import Lib.Py.
Open Scope Z_scope.

Record cfg := { nak_fix : bool; esc_fix : bool; retry_fix : bool;
                 full_fix : bool; stale_fix : bool; dec_fix : bool; hex_fix : bool }.
(* second round of repairs:
     full_fix  _process_byte never blocks on a full _ack_queue (put_nowait, surplus ack dropped)
                                                                  (C35-ack-queue-full.diff)
     stale_fix sendpkt discards acks that arrived while nothing was sent
                                                                  (C35-stale-ack.diff)
     dec_fix   decoder decodes the packet as latin-1 (every byte value) instead of ascii
                                                                  (C35-decoder-non-ascii.diff)
     hex_fix   rsp_unpack accepts only two hexadecimal check digits (C35-checksum-digits.diff) *)
Definition orig : cfg :=
  {| nak_fix := false; esc_fix := false; retry_fix := false;
     full_fix := false; stale_fix := false; dec_fix := false; hex_fix := false |}.
(* ppci with the first three fixes (commit 838b710 and later) *)
Definition fixed3 : cfg :=
  {| nak_fix := true; esc_fix := true; retry_fix := true;
     full_fix := false; stale_fix := false; dec_fix := false; hex_fix := false |}.
Definition fixed : cfg :=
  {| nak_fix := true; esc_fix := true; retry_fix := true;
     full_fix := true; stale_fix := true; dec_fix := true; hex_fix := true |}.

(* ---------------------------------------------------------------- Python helpers *)
(* l[i] with Python's negative indexing; None = IndexError *)
Definition idx (l : list Z) (i : Z) : option Z :=
  let j := if i <? 0 then len l + i else i in
  if j <? 0 then None else nth_error l (Z.to_nat j).

(* l[a:b] with Python's clamping of negative / too large bounds *)
Definition norm_bound (n x : Z) : Z := if x <? 0 then Z.max (n + x) 0 else Z.min x n.
Definition py_slice (l : list Z) (a b : Z) : list Z :=
  let lo := norm_bound (len l) a in
  let hi := norm_bound (len l) b in
  firstn (Z.to_nat (hi - lo)) (skipn (Z.to_nat lo) l).
Definition py_slice_from (l : list Z) (a : Z) : list Z :=
  skipn (Z.to_nat (norm_bound (len l) a)) l.

Definition is_ascii_b (c : Z) : bool := (0 <=? c) && (c <? 128).

(* f"{v:02X}" for 0 <= v < 256 *)
Definition hexchar (d : Z) : Z := if d <? 10 then 48 + d else 55 + d.
Definition fmt_02X (v : Z) : list Z := [hexchar (v / 16); hexchar (v mod 16)].

(* int(s, 16) for a two-character string s = [a; b] of code points 0..255 (None = ValueError):
   CPython strips white space (also U+0085, U+00A0) on both sides and accepts a leading sign. *)
Definition hexv (c : Z) : option Z :=
  if (48 <=? c) && (c <=? 57) then Some (c - 48)
  else if (65 <=? c) && (c <=? 70) then Some (c - 55)
  else if (97 <=? c) && (c <=? 102) then Some (c - 87)
  else None.
Definition is_ws (c : Z) : bool :=
  ((9 <=? c) && (c <=? 13)) || (c =? 32) || (c =? 133) || (c =? 160).
Definition int16_2 (a b : Z) : option Z :=
  match hexv a, hexv b with
  | Some x, Some y => Some (16 * x + y)
  | Some x, None => if is_ws b then Some x else None
  | None, Some y =>
      if is_ws a || (a =? 43) then Some y else if a =? 45 then Some (- y) else None
  | None, None => None
  end.

Definition is_hexdigit (c : Z) : bool := match hexv c with Some _ => true | None => false end.

(* ---------------------------------------------------------------- rsp_pack *)
(* data.replace(a, "}" + chr(ord(a) ^ 0x20)) for a one-character pattern *)
Definition replace1 (a : Z) (data : list Z) : list Z :=
  flat_map (fun c => if c =? a then [125; Z.lxor a 32] else [c]) data.

Definition rsp_pack (data : list Z) : list Z :=
  let data := fold_left (fun d a => replace1 a d) [125; 42; 35; 36] data in
  let crc := sumZ data mod 256 in
  [36] ++ data ++ [35] ++ fmt_02X crc.

(* ---------------------------------------------------------------- rsp_unpack *)
(* the unescape loop added by C35-unescape-terminator.diff *)
Fixpoint unesc_loop (l : list Z) (escaped : bool) (data : list Z) : result (list Z) :=
  match l with
  | [] => if escaped then Diag 3 else Ok data
  | c :: r =>
      if escaped then unesc_loop r false (data ++ [Z.lxor c 32])
      else if c =? 125 then unesc_loop r true data
      else unesc_loop r false (data ++ [c])
  end.

Definition rsp_unpack (cf : cfg) (pkt : list Z) : result (list Z) :=
  match idx pkt 0 with
  | None => Internal IndexError
  | Some c0 =>
    if negb (c0 =? 36) then Diag 1 else
    match idx pkt (-3) with
    | None => Internal IndexError
    | Some c3 =>
      if negb (c3 =? 35) then Diag 1 else
      let body := py_slice pkt 1 (-3) in
      let crc := sumZ body mod 256 in
      match py_slice_from pkt (-2) with
      | [a; b] =>
          if hex_fix cf && negb (is_hexdigit a && is_hexdigit b) then Diag 2 else
          match int16_2 a b with
          | None => Diag 2
          | Some crc2 =>
              if negb (crc =? crc2) then Diag 2
              else if esc_fix cf then unesc_loop body false [] else Ok body
          end
      | _ => Internal ValueErrorI   (* unreachable: len pkt >= 3 here *)
      end
    end
  end.

(* ---------------------------------------------------------------- decoder (generator) *)
(* control points of the generator: the [yield] at which it is suspended *)
Inductive dstate :=
  | DIdle                      (* outer loop, waiting for the next byte *)
  | DPkt (res : list Z)        (* inner loop [byte = yield] after '$' *)
  | DCk1 (res : list Z)        (* after the terminating '#', first check digit *)
  | DCk2 (res : list Z)        (* second check digit *)
  | DDead.                     (* generator finished by an exception (UnicodeDecodeError) *)

Inductive dout := DNone | DMsg (m : list Z) | DCrash.

Definition dec_step (cf : cfg) (st : dstate) (b : Z) : dstate * dout :=
  match st with
  | DIdle =>
      if b =? 36 then (DPkt [36], DNone)
      else if (b =? 43) || (nak_fix cf && (b =? 45)) then (DIdle, DMsg [b])
      else (DIdle, DNone)
  | DPkt res =>
      let res := res ++ [b] in
      let not_quote := match idx res (-2) with Some 39 => false | _ => true end in
      if (b =? 35) && (esc_fix cf || not_quote) then (DCk1 res, DNone) else (DPkt res, DNone)
  | DCk1 res => (DCk2 (res ++ [b]), DNone)
  | DCk2 res =>
      let res := res ++ [b] in
      if dec_fix cf || forallb is_ascii_b res then (DIdle, DMsg res) else (DDead, DCrash)
  | DDead => (DDead, DCrash)
  end.

(* ---------------------------------------------------------------- _process_byte / decodepkt *)
(* what the receiver thread does with one byte *)
Inductive rxev :=
  | RNone
  | RAck (c : Z)                 (* _ack_queue.put(c) *)
  | RDeliver (payload : list Z)  (* send("+"); on_message(payload) *)
  | RNak                         (* send("-") *)
  | RDiscard                     (* logged and dropped (message not starting with '$') *)
  | RCrash.                      (* exception escapes _process_byte *)

Definition decodepkt (cf : cfg) (m : list Z) : rxev :=
  match m with
  | 36 :: _ =>
      match rsp_unpack cf m with
      | Ok payload => RDeliver payload
      | Diag _ => RNak
      | _ => RCrash
      end
  | _ => RDiscard
  end.

Definition is_ack_msg (m : list Z) : option Z :=
  match m with
  | [c] => if (c =? 43) || (c =? 45) then Some c else None
  | _ => None
  end.

Definition process_byte (cf : cfg) (d : dstate) (b : Z) : dstate * rxev :=
  let '(d', o) := dec_step cf d b in
  match o with
  | DNone => (d', RNone)
  | DCrash => (d', RCrash)
  | DMsg m =>
      match is_ack_msg m with
      | Some c => (d', RAck c)
      | None => (d', decodepkt cf m)
      end
  end.

(* feed a byte string, collecting one event per byte *)
Fixpoint rx_feed (cf : cfg) (d : dstate) (bs : list Z) : dstate * list rxev :=
  match bs with
  | [] => (d, [])
  | b :: r =>
      let '(d1, e) := process_byte cf d b in
      let '(d2, es) := rx_feed cf d1 r in
      (d2, e :: es)
  end.

(* the transport delivers the stream in arbitrary chunks (socket reads); each chunk is handed to
   on_byte byte by byte: events of a chunked stream *)
Definition feed_chunks (cf : cfg) (d : dstate) (chunks : list (list Z)) : dstate * list rxev :=
  fold_left (fun acc ch => let '(d1, e1) := rx_feed cf (fst acc) ch in (d1, snd acc ++ e1))
            chunks (d, []).

(* ---------------------------------------------------------------- sendpkt *)
Inductive sender :=
  | SIdle
  | SWait (wire : list Z) (retries : Z) (first : bool).  (* blocked in _ack_queue.get *)

Inductive outcome := Acked | RetryFail | TimedOut | EncodeErr.

(* the sender thread continues after [get] returned [c]:
   inl outcome = sendpkt returns/raises;  inr (retries', first') = it sent [wire] again and
   blocks in [get] once more *)
Definition snd_get (cf : cfg) (retries : Z) (first : bool) (c : Z) : outcome + (Z * bool) :=
  if retry_fix cf then
    if c =? 43 then inl Acked
    else if retries <=? 0 then inl RetryFail
    else inr (retries - 1, false)
  else if first then
    if c =? 43 then inl Acked else inr (retries, false)
  else
    let retries := retries - 1 in
    if retries =? 0 then inl RetryFail
    else if c =? 43 then inl Acked
    else inr (retries, false).

(* sendpkt driven by a given sequence of queue items; (outcome if it finished, transmissions) *)
Fixpoint acks_run (cf : cfg) (retries : Z) (first : bool) (acks : list Z) : option outcome * nat :=
  match acks with
  | [] => (None, 1%nat)
  | c :: rest =>
      match snd_get cf retries first c with
      | inl o => (Some o, 1%nat)
      | inr (r', f') => let '(o, n) := acks_run cf r' f' rest in (o, S n)
      end
  end.

(* ---------------------------------------------------------------- the whole handler as an LTS *)
Record st := {
  dec : dstate;               (* _packet_decoder *)
  q : option Z;               (* _ack_queue (maxsize 1) *)
  blk : option Z;             (* receiver thread blocked in _ack_queue.put(item) *)
  dead : bool;                (* receiver thread terminated by an exception *)
  snd_ : sender;              (* sender thread; the lock admits one sendpkt at a time *)
  out : list Z;               (* bytes written to the transport, in order *)
  dlv : list (list Z);        (* messages passed to on_message, in order *)
  results : list outcome;     (* how each finished sendpkt call ended *)
  (* ghost *)
  rxlog : list Z;             (* bytes consumed by the receiver thread *)
  rxout : list Z;             (* bytes written by the receiver thread *)
  sent : nat                  (* number of packet transmissions by the sender thread *)
}.

Definition init : st :=
  {| dec := DIdle; q := None; blk := None; dead := false; snd_ := SIdle; out := [];
     dlv := []; results := []; rxlog := []; rxout := []; sent := O |}.

Inductive label :=
  | LSend (payload : list Z) (retries : Z)  (* a client thread calls sendpkt *)
  | LRecv (b : Z)                           (* transport hands one byte to _process_byte *)
  | LGet                                    (* _ack_queue.get returns an item *)
  | LTimeout                                (* _ack_queue.get times out: queue.Empty *)
  | LPutTimeout.                            (* _ack_queue.put times out: queue.Full *)

Definition upd_rx (s : st) (d : dstate) (b : Z) : st :=
  {| dec := d; q := q s; blk := blk s; dead := dead s; snd_ := snd_ s; out := out s;
     dlv := dlv s; results := results s; rxlog := rxlog s ++ [b]; rxout := rxout s;
     sent := sent s |}.

Definition step (cf : cfg) (s : st) (l : label) : option st :=
  match l with
  | LSend payload retries =>
      match snd_ s with
      | SIdle =>
          let q0 := if stale_fix cf then None else q s in
          let b0 := if stale_fix cf then None else blk s in
          if forallb is_ascii_b payload then
            let wire := rsp_pack payload in
            Some {| dec := dec s; q := q0; blk := b0; dead := dead s;
                    snd_ := SWait wire retries true; out := out s ++ wire; dlv := dlv s;
                    results := results s; rxlog := rxlog s; rxout := rxout s;
                    sent := S (sent s) |}
          else
            Some {| dec := dec s; q := q0; blk := b0; dead := dead s; snd_ := SIdle;
                    out := out s; dlv := dlv s; results := results s ++ [EncodeErr];
                    rxlog := rxlog s; rxout := rxout s; sent := sent s |}
      | SWait _ _ _ => None
      end
  | LRecv b =>
      if dead s then None else
      match blk s with
      | Some _ => None
      | None =>
          let '(d', e) := process_byte cf (dec s) b in
          let s1 := upd_rx s d' b in
          match e with
          | RNone | RDiscard => Some s1
          | RCrash =>
              Some {| dec := dec s1; q := q s1; blk := blk s1; dead := true; snd_ := snd_ s1;
                      out := out s1; dlv := dlv s1; results := results s1; rxlog := rxlog s1;
                      rxout := rxout s1; sent := sent s1 |}
          | RAck c =>
              match q s1 with
              | None =>
                  Some {| dec := dec s1; q := Some c; blk := None; dead := dead s1;
                          snd_ := snd_ s1; out := out s1; dlv := dlv s1; results := results s1;
                          rxlog := rxlog s1; rxout := rxout s1; sent := sent s1 |}
              | Some _ =>
                  if full_fix cf then Some s1 else   (* surplus ack dropped *)
                  Some {| dec := dec s1; q := q s1; blk := Some c; dead := dead s1;
                          snd_ := snd_ s1; out := out s1; dlv := dlv s1; results := results s1;
                          rxlog := rxlog s1; rxout := rxout s1; sent := sent s1 |}
              end
          | RDeliver p =>
              Some {| dec := dec s1; q := q s1; blk := blk s1; dead := dead s1; snd_ := snd_ s1;
                      out := out s1 ++ [43]; dlv := dlv s1 ++ [p]; results := results s1;
                      rxlog := rxlog s1; rxout := rxout s1 ++ [43]; sent := sent s1 |}
          | RNak =>
              Some {| dec := dec s1; q := q s1; blk := blk s1; dead := dead s1; snd_ := snd_ s1;
                      out := out s1 ++ [45]; dlv := dlv s1; results := results s1;
                      rxlog := rxlog s1; rxout := rxout s1 ++ [45]; sent := sent s1 |}
          end
      end
  | LGet =>
      match snd_ s, q s with
      | SWait wire r f, Some c =>
          (* the slot is freed; a producer blocked in put completes *)
          let q' := blk s in
          match snd_get cf r f c with
          | inl o =>
              Some {| dec := dec s; q := q'; blk := None; dead := dead s; snd_ := SIdle;
                      out := out s; dlv := dlv s; results := results s ++ [o];
                      rxlog := rxlog s; rxout := rxout s; sent := sent s |}
          | inr (r', f') =>
              Some {| dec := dec s; q := q'; blk := None; dead := dead s;
                      snd_ := SWait wire r' f'; out := out s ++ wire; dlv := dlv s;
                      results := results s; rxlog := rxlog s; rxout := rxout s;
                      sent := S (sent s) |}
          end
      | _, _ => None
      end
  | LTimeout =>
      match snd_ s, q s with
      | SWait _ _ _, None =>
          Some {| dec := dec s; q := None; blk := blk s; dead := dead s; snd_ := SIdle;
                  out := out s; dlv := dlv s; results := results s ++ [TimedOut];
                  rxlog := rxlog s; rxout := rxout s; sent := sent s |}
      | _, _ => None
      end
  | LPutTimeout =>
      match blk s with
      | Some _ =>
          Some {| dec := dec s; q := q s; blk := None; dead := true; snd_ := snd_ s;
                  out := out s; dlv := dlv s; results := results s; rxlog := rxlog s;
                  rxout := rxout s; sent := sent s |}
      | None => None
      end
  end.

(* a label that is not enabled leaves the state unchanged (the scheduler cannot choose it) *)
Definition step_or_skip (cf : cfg) (s : st) (l : label) : st :=
  match step cf s l with Some s' => s' | None => s end.
Definition run (cf : cfg) (s : st) (tr : list label) : st := fold_left (step_or_skip cf) tr s.

(* ---------------------------------------------------------------- observation (correspondence) *)
Definition outcome_code (o : outcome) : Z :=
  match o with Acked => 0 | RetryFail => 1 | TimedOut => 2 | EncodeErr => 3 end.
(* the local variable [retries] of a suspended sendpkt is not observable from outside *)
Definition sender_code (s : sender) : list Z :=
  match s with SIdle => [] | SWait _ _ _ => [1] end.
Definition optz (o : option Z) : Z := match o with Some c => c | None => -1 end.

Definition observe (s : st) : list Z * list (list Z) * list Z * list Z * list Z :=
  (out s, dlv s, map outcome_code (results s), sender_code (snd_ s),
   [optz (q s); optz (blk s); b2z (dead s)]).

(* events of a byte string, rendered for the correspondence: per byte a code *)
Definition rxev_code (e : rxev) : list Z :=
  match e with
  | RNone => [0] | RAck c => [1; c] | RDeliver p => 2 :: p | RNak => [3] | RDiscard => [4]
  | RCrash => [5]
  end.
Definition rx_codes (cf : cfg) (bs : list Z) : list (list Z) :=
  map rxev_code (snd (rx_feed cf DIdle bs)).

Definition acks_obs (cf : cfg) (retries : Z) (acks : list Z) : list Z :=
  let '(o, n) := acks_run cf retries true acks in
  [match o with Some x => outcome_code x | None => -1 end; Z.of_nat n].

(* every pair of characters 0..255 accepted by int(s, 16), with its value *)
Definition int16_accepted : list (list Z) :=
  flat_map (fun a => flat_map (fun b => match int16_2 a b with Some v => [[a; b; v]] | None => [] end)
                              (rangeZ 0 256)) (rangeZ 0 256).
