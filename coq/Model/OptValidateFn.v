(* Model/OptValidateFn.v — whole-function validator for block-local optimizer passes (C02, layer B).
   See Proofs/C02_local.v for the soundness theorem. Executable definitions only. *)
From PV Require Import Lib.Py Lib.Val Spec.IRSyntax Spec.IRSem Model.OptValidate.
From Coq Require Import String.
Open Scope Z_scope.

(* the instruction loop of IRSem.exec_block with the continuation made explicit *)
Section Go.
  Variable c : cfg.
  Variable m : modul.
  Variable ge : list (string * Z).
  Variable rec : func -> list value -> st -> outcome (option value * st).
  Variable K : bid -> env -> st -> outcome (option value * st).
  Variable f : func.
  Variable args : list value.
  Fixpoint go (l : list instr) (e : env) (s : st) {struct l} : outcome (option value * st) :=
    match l with
    | [] => OStuck
    | i :: r =>
      match i with
      | IJump t => K t e s
      | ICJump x cc y yes no =>
          xv <~ eval_int m ge e args x ;; yv <~ eval_int m ge e args y ;;
          K (if eval_cond cc xv yv then yes else no) e s
      | IReturn a => v <~ eval_ref m ge false e args a ;; ODone (Some v, s)
      | IExit => ODone (None, s)
      | ICallF v _ _ callee cargs =>
          vs <~ omap (eval_ref m ge false e args) cargs ;;
          '(rv, s') <~ do_call m rec true callee vs s ;;
          match rv with Some x => go r ((v, x) :: e) s' | None => OStuck end
      | ICallP callee cargs =>
          vs <~ omap (eval_ref m ge false e args) cargs ;;
          '(_, s') <~ do_call m rec false callee vs s ;;
          go r e s'
      | _ => '(e', s') <~ step_simple c m ge f args e s i ;; go r e' s'
      end
    end.
End Go.

Definition rec_of (c : cfg) (m : modul) (ge : list (string * Z)) (n : nat)
  : func -> list value -> st -> outcome (option value * st) :=
  fun g vs s0 => match entry_bid g with
                 | Some eb => exec_block c m ge n g vs None eb [] s0
                 | None => OStuck
                 end.

Lemma exec_block_S c m ge n f args pred b e s :
  exec_block c m ge (S n) f args pred b e s =
  match find_block f b with
  | None => OStuck
  | Some blk =>
      ph <~ eval_phis m ge pred e args (b_ins blk) ;;
      go c m ge (rec_of c m ge n) (fun t e1 s1 => exec_block c m ge n f args (Some b) t e1 s1) f args
         (b_ins blk) (ph ++ e) s
  end.
Proof. reflexivity. Qed.

(* ------------------------------------------------------------------ the validator *)
Definition is_call (i : instr) : bool :=
  match i with ICallF _ _ _ _ _ | ICallP _ _ => true | _ => false end.
Definition is_simple (i : instr) : bool := negb (is_terminator i) && negb (is_call i).

Fixpoint take_simple (l : list instr) : list instr * list instr :=
  match l with
  | [] => ([], [])
  | i :: r => if is_simple i then let '(a, b) := take_simple r in (i :: a, b) else ([], l)
  end.

Definition defs_of (l : list instr) : list vid := map def_id (instrs_defs l).
Definition name_vid (f : func) (n : string) : option vid :=
  match find (fun d => String.eqb (def_name d) n) (func_defs f) with
  | Some d => Some (def_id d) | None => None end.
(* after vid -> before vid, by value name *)
Definition mk_rho (f f' : func) : list (vid * vid) :=
  flat_map (fun d' => match name_vid f (def_name d') with Some v => [(def_id d', v)] | None => [] end)
           (func_defs f').

Section CheckFn.
  Variable c : cfg.
  Variable f f' : func.
  Variable rho : list (vid * vid).

  (* references related by the renaming (used for phi inputs) *)
  Definition ref_rel (r r' : vref) : bool :=
    match r, r' with
    | Loc v, Loc v' => match rget rho v' with Some w => Pos.eqb w v | None => false end
    | Param n, Param n' => Nat.eqb n n'
    | Glob a, Glob b => String.eqb a b
    | _, _ => false
    end.

  (* pairs (before, after) of the values defined in both lists *)
  Definition outs_defs (l' : list instr) : list (vref * vref) :=
    flat_map (fun v' => match rget rho v' with Some v => [(Loc v, Loc v')] | None => [] end) (defs_of l').

  Definition callee_eqb (a b : vref) : bool :=
    match a, b with Glob x, Glob y => String.eqb x y | _, _ => false end.

  (* the final instruction *)
  Definition term_ok (tr : bid -> bid -> bool) (t t' : instr) : option (list (vref * vref)) :=
    match t, t' with
    | IJump b, IJump b' => if tr b b' then Some [] else None
    | ICJump x cc y yes no, ICJump x' cc' y' yes' no' =>
        if dec2b cond_eq_dec cc cc' && tr yes yes' && tr no no' then Some [(x, x'); (y, y')] else None
    | IReturn a, IReturn a' => Some [(a, a')]
    | IExit, IExit => Some []
    | _, _ => None
    end.

  (* a value and its partner are defined in corresponding places *)
  Definition place_ok (ds ds' : list vid) : bool :=
    forallb (fun p => Bool.eqb (mem_pos (fst p) ds') (mem_pos (snd p) ds)) rho.

  Fixpoint check_body (tr : bid -> bid -> bool) (fuel : nat) (l l' : list instr) : bool :=
    match fuel with
    | O => false
    | S n =>
      let '(seg, rest) := take_simple l in
      let '(seg', rest') := take_simple l' in
      match rest, rest' with
      | i :: r, i' :: r' =>
        place_ok (defs_of seg) (defs_of seg') &&
        match i, i' with
        | ICallF v _ _ cal cargs, ICallF v' _ _ cal' cargs' =>
            check_block c f false f' rho seg seg' (outs_defs seg' ++ combine cargs cargs')
            && callee_eqb cal cal' && Nat.eqb (List.length cargs) (List.length cargs')
            && match rget rho v' with Some w => Pos.eqb w v | None => false end
            && check_body tr n r r'
        | ICallP cal cargs, ICallP cal' cargs' =>
            check_block c f false f' rho seg seg' (outs_defs seg' ++ combine cargs cargs')
            && callee_eqb cal cal' && Nat.eqb (List.length cargs) (List.length cargs')
            && check_body tr n r r'
        | _, _ =>
            match term_ok tr i i' with
            | Some ps => check_block c f false f' rho seg seg' (outs_defs seg' ++ ps)
            | None => false
            end
        end
      | _, _ => false
      end
    end.

  (* phis: every phi of the after block has a partner with related inputs for the same predecessors *)
  Definition find_phi (l : list instr) (v : vid) : option (list (bid * vref)) :=
    match find (fun i => match i with IPhi w _ _ _ => Pos.eqb w v | _ => false end) l with
    | Some (IPhi _ _ _ ins) => Some ins | _ => None end.
  Definition check_ins (ins ins' : list (bid * vref)) : bool :=
    forallb (fun q' => match find (fun q => Pos.eqb (fst q) (fst q')) ins with
                       | Some q => ref_rel (snd q) (snd q') | None => false end) ins'
    && forallb (fun q => existsb (fun q' => Pos.eqb (fst q') (fst q)) ins') ins.
  Definition phi_vids (l : list instr) : list vid :=
    flat_map (fun i => match i with IPhi v _ _ _ => [v] | _ => [] end) l.
  Definition check_phis (l l' : list instr) : bool :=
    forallb (fun i' => match i' with
                       | IPhi v' _ _ ins' =>
                           match rget rho v' with
                           | Some v => match find_phi l v with Some ins => check_ins ins ins' | None => false end
                           | None => false
                           end
                       | _ => true end) l'.

  Definition check_blockpair (k k' : block) : bool :=
    Pos.eqb (b_id k) (b_id k')
    && place_ok (phi_vids (b_ins k)) (phi_vids (b_ins k'))
    && check_phis (b_ins k) (b_ins k')
    && check_body Pos.eqb (S (List.length (b_ins k) + List.length (b_ins k'))) (b_ins k) (b_ins k').

  Fixpoint check_blocks (l l' : list block) : bool :=
    match l, l' with
    | [], [] => true
    | k :: r, k' :: r' => check_blockpair k k' && check_blocks r r'
    | _, _ => false
    end.
End CheckFn.

Definition params_eqb (a b : list (string * ty)) : bool := dec2b (list_eq_dec param_eq_dec) a b.
Definition check_local (c : cfg) (f f' : func) : bool :=
  let rho := mk_rho f f' in
  String.eqb (f_name f) (f_name f') && params_eqb (f_params f) (f_params f')
  && nodup_pos (map fst rho) && nodup_pos (map snd rho)
  && nodup_pos (map b_id (f_blocks f))
  && check_blocks c f f' rho (f_blocks f) (f_blocks f').

Fixpoint check_funcs (c : cfg) (l l' : list func) : bool :=
  match l, l' with
  | [], [] => true
  | f :: r, f' :: r' => check_local c f f' && check_funcs c r r'
  | _, _ => false
  end.
Definition check_modul (c : cfg) (m m' : modul) : bool :=
  dec2b (list_eq_dec ext_eq_dec) (m_externals m) (m_externals m')
  && dec2b (list_eq_dec gvar_eq_dec) (m_vars m) (m_vars m')
  && nodup_str (map f_name (m_funcs m))
  && check_funcs c (m_funcs m) (m_funcs m').
