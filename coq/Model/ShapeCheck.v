(* Model/ShapeCheck.v — the structuring validator of C23 (no proofs here).

   [check_shape g s] decides, by one abstract pass over the shape tree, that the structured
   program s follows exactly the edges of the control flow graph g:
     entry s nx c   the first block that s executes when what follows s is nx and the enclosing
                    loops are c = [(header, follow); ...] innermost first (TBad = not known / none)
     check g s nx c every block inside s is left towards its CFG successor(s), through
                    fallthrough (nx), break (follow) or continue (header) targets
   A loop header is the entry of the loop body computed while the loop's own header is still
   unknown (TBad), so `loop (continue 0)` and similar unproductive shapes are rejected.

   Also here: the model of the control skeleton emitted by ppci2wasm.do_shape (tie H). *)
From Coq Require Import List Bool Arith ZArith.
Import ListNotations.
From PV Require Import Spec.StructSpec.

Definition tgt_eqb (a b : tgt) : bool :=
  match a, b with
  | TNode x, TNode y => Nat.eqb x y
  | THalt, THalt | TEnd, TEnd => true
  | _, _ => false            (* TBad equals nothing *)
  end.

Definition ctx := list (tgt * tgt).
Definition hdr (c : ctx) (k : nat) : tgt := match nth_error c k with Some (h, _) => h | None => TBad end.
Definition flw (c : ctx) (k : nat) : tgt := match nth_error c k with Some (_, f) => f | None => TBad end.

Fixpoint entry (s : shape) (nx : tgt) (c : ctx) : tgt :=
  match s with
  | SNone => nx
  | SBasic b => TNode b
  | SIf b _ _ => TNode b
  | SSeq l => fold_right (fun s1 acc => entry s1 acc c) nx l
  | SLoop body => entry body nx ((TBad, nx) :: c)
  | SBreak k => flw c k
  | SContinue k => hdr c k
  end.

Definition check_seq (chk : shape -> tgt -> bool) (ent : shape -> tgt -> tgt)
         : list shape -> tgt -> bool :=
  fix cs (l : list shape) (nx : tgt) {struct l} : bool :=
    match l with
    | [] => true
    | s :: r => chk s (fold_right ent nx r) && cs r nx
    end.

Fixpoint check (g : cfg) (s : shape) (nx : tgt) (c : ctx) : bool :=
  match s with
  | SNone | SBreak _ | SContinue _ => true
  | SBasic b =>
      match term_of g b with
      | Some TRet => true
      | Some (TJmp t) => tgt_eqb nx (TNode t)
      | Some (TBr y n) => Nat.eqb y n && tgt_eqb nx (TNode y)
      | None => false
      end
  | SIf b y n =>
      match term_of g b with
      | Some (TBr ty tn) =>
          tgt_eqb (entry y nx c) (TNode ty) && tgt_eqb (entry n nx c) (TNode tn)
          && check g y nx c && check g n nx c
      | _ => false
      end
  | SSeq l => check_seq (fun s1 nx1 => check g s1 nx1 c) (fun s1 acc => entry s1 acc c) l nx
  | SLoop body =>
      match entry body nx ((TBad, nx) :: c) with
      | TNode hd => check g body nx ((TNode hd, nx) :: c)
      | _ => false
      end
  end.

Definition check_shape (g : cfg) (s : shape) : bool :=
  tgt_eqb (entry s TEnd []) (TNode 0) && check g s TEnd [].

(* ---- model of ppci2wasm.IrToWasmCompiler.do_shape: the control skeleton it emits.
   CCode b stands for the instructions of block b (do_block); labels are wasm relative depths.
   _get_block_level() = number of `if` frames above the nearest `loop` frame of _block_stack;
   None (no enclosing loop) makes the label arithmetic raise TypeError = CErr. *)
Inductive ctl :=
| CCode (b : nat) | CIf | CElse | CEnd | CBlock | CLoopI | CBr (depth : nat) | CErr.

Inductive frame := FIf | FLoop.
Fixpoint block_level (st : list frame) : option nat :=
  match st with
  | [] => None
  | FLoop :: _ => Some 0
  | FIf :: r => match block_level r with Some i => Some (S i) | None => None end
  end.

Fixpoint do_shape (st : list frame) (s : shape) : list ctl :=
  match s with
  | SNone => [CErr]                       (* do_shape(None) raises NotImplementedError *)
  | SBasic b => [CCode b]
  | SSeq l => flat_map (fun s1 => match s1 with SNone => [] | _ => do_shape st s1 end) l
  | SIf b y n =>
      [CCode b; CIf]
      ++ match y with SNone => [] | _ => do_shape (FIf :: st) y end
      ++ match n with SNone => [] | _ => CElse :: do_shape (FIf :: st) n end
      ++ [CEnd]
  | SLoop body => [CBlock; CLoopI] ++ do_shape (FLoop :: st) body ++ [CEnd; CEnd]
  | SBreak k =>
      match k with
      | O => match block_level st with Some i => [CBr (S i)] | None => [CErr] end
      | _ => [CErr]
      end
  | SContinue k =>
      match k with
      | O => match block_level st with Some i => [CBr i] | None => [CErr] end
      | _ => [CErr]
      end
  end.

(* numeric rendering of the skeleton for the correspondence test (tools/props/c23.py CTL) *)
Definition ctl_code (c : ctl) : Z :=
  match c with
  | CCode b => Z.of_nat b
  | CIf => (-1)%Z | CElse => (-2)%Z | CEnd => (-3)%Z | CBlock => (-4)%Z | CLoopI => (-5)%Z
  | CBr d => (-100 - Z.of_nat d)%Z
  | CErr => (-99)%Z
  end.
