(* Model/AsmSyntax.v — C09 hand model (tie H), no proofs.

   Printed side  : ppci/arch/encoding.py  Syntax.render / Constructor.__str__  — the text of an
                   instruction is the concatenation of its syntax elements (literal strings, whitespace,
                   str(operand value)); composite operands (tuples of Constructor classes) are
                   flattened: one [sentry] per choice of alternatives.
   Grammar side  : ppci/binutils/assembler.py  BaseAssembler.generate_syntax_rule / resolve_rhs /
                   get_parameter_nt / make_register_rule_function — one production per instruction
                   class, whitespace elements dropped, literals become keyword terminals, int operands
                   the non-terminal $int$ (NUMBER | - NUMBER), str operands $str$ (ID | any keyword),
                   register operands one production per register name / aka.
   Lexer         : AsmLexer — a word token has terminal type lower(word) if that is a keyword, else ID;
                   numbers are NUMBER tokens with their value; glyphs are their own terminal.
   The model works on the token sequence of the printed text; that the real lexer splits the real
   text into exactly these tokens is validated by correspondence only (tools/props/c09.py). *)
From PV Require Import Lib.Py.
From Coq Require Import String Ascii.
Open Scope Z_scope.

Inductive token := TWord (s : string) | TNum (n : Z) | TGlyph (s : string).

(* flat syntax atoms; ASp (whitespace element) occurs on the printed side only *)
Inductive atom := ASp | ALit (w : string) | AGl (g : string) | AReg (c : nat) | AImm | ALab | AOther.

(* rc_regs: all_registers() as (printed name, num); rc_rules: the productions of the register
   non-terminal in grammar order as (terminal word, index into rc_regs) *)
Record regclass := mkRC { rc_name : string; rc_regs : list (string * Z); rc_rules : list (string * nat) }.

(* s_syn: printed side (with whitespace); s_rule: grammar side (production read back from the assembler) *)
Record sentry := mkS { s_cls : string; s_variant : string; s_prio : Z; s_syn : list atom; s_rule : list atom }.

(* operand values: register = index into all_registers() of its class *)
Inductive opv := VReg (k : nat) | VImm (z : Z) | VLabel (s : string).

(* ---------------------------------------------------------------- strings *)
Definition lower_ascii (c : ascii) : ascii :=
  let n := nat_of_ascii c in
  if (Nat.leb 65 n && Nat.leb n 90)%bool then ascii_of_nat (n + 32) else c.

Fixpoint lower (s : string) : string :=
  match s with
  | EmptyString => EmptyString
  | String c r => String (lower_ascii c) (lower r)
  end.

Fixpoint smem (w : string) (l : list string) : bool :=
  match l with
  | [] => false
  | x :: r => if String.eqb w x then true else smem w r
  end.

Definition is_alpha_ (c : ascii) : bool :=
  let n := nat_of_ascii c in
  ((Nat.leb 65 n && Nat.leb n 90) || (Nat.leb 97 n && Nat.leb n 122) || Nat.eqb n 95)%bool.
Definition is_digit (c : ascii) : bool :=
  let n := nat_of_ascii c in (Nat.leb 48 n && Nat.leb n 57)%bool.
Fixpoint all_idchar (s : string) : bool :=
  match s with
  | EmptyString => true
  | String c r => ((is_alpha_ c || is_digit c) && all_idchar r)%bool
  end.
(* id_regex [A-Za-z_][A-Za-z\d_]* *)
Definition is_ident (s : string) : bool :=
  match s with
  | EmptyString => false
  | String c r => (is_alpha_ c && all_idchar r)%bool
  end.

(* AsmLexer.handle_id: terminal type of a word token; None = ID *)
Definition word_typ (kws : list string) (s : string) : option string :=
  if smem (lower s) kws then Some (lower s) else None.

(* ---------------------------------------------------------------- printed side *)
Definition rc_at (regs : list regclass) (c : nat) : regclass := nth c regs (mkRC "" [] []).

Definition render_atom (regs : list regclass) (a : atom) (ops : list opv) : option (list token * list opv) :=
  match a with
  | ASp => Some ([], ops)
  | ALit w => Some ([TWord w], ops)
  | AGl g => Some ([TGlyph g], ops)
  | AReg c =>
      match ops with
      | VReg k :: r =>
          match nth_error (rc_regs (rc_at regs c)) k with
          | Some (nm, _) => Some ([TWord nm], r)
          | None => None
          end
      | _ => None
      end
  | AImm =>
      match ops with
      | VImm z :: r => Some (if z <? 0 then [TGlyph "-"; TNum (- z)] else [TNum z], r)
      | _ => None
      end
  | ALab =>
      match ops with
      | VLabel s :: r => Some ([TWord s], r)
      | _ => None
      end
  | AOther => None
  end.

(* token sequence of str(instruction) *)
Fixpoint render (regs : list regclass) (syn : list atom) (ops : list opv) : option (list token) :=
  match syn with
  | [] => match ops with [] => Some [] | _ => None end
  | a :: r =>
      match render_atom regs a ops with
      | Some (ts, ops') =>
          match render regs r ops' with
          | Some ts' => Some (ts ++ ts')
          | None => None
          end
      | None => None
      end
  end.

(* ---------------------------------------------------------------- grammar side *)
Fixpoint find_word (w : string) (rules : list (string * nat)) : option nat :=
  match rules with
  | [] => None
  | (x, k) :: r => if String.eqb w x then Some k else find_word w r
  end.

(* one right-hand-side symbol against the head of the token list: consumed operand (if any), rest *)
(* kwl = what the semantic action of `$str$ -> <keyword>` returns: true = the (lower-case) keyword
   (add_keyword: `lambda rhs: keyword`), false = the text as written; exported per ISA by probing the
   real production *)
Definition match_atom (kwl : bool) (kws : list string) (regs : list regclass) (a : atom) (toks : list token)
  : option (option opv * list token) :=
  match a with
  | ASp => None
  | ALit w =>
      match toks with
      | TWord s :: r =>
          match word_typ kws s with
          | Some t => if String.eqb t w then Some (None, r) else None
          | None => None
          end
      | _ => None
      end
  | AGl g =>
      match toks with
      | TGlyph s :: r => if String.eqb s g then Some (None, r) else None
      | _ => None
      end
  | AReg c =>
      match toks with
      | TWord s :: r =>
          match word_typ kws s with
          | Some t =>
              match find_word t (rc_rules (rc_at regs c)) with
              | Some k => Some (Some (VReg k), r)
              | None => None
              end
          | None => None
          end
      | _ => None
      end
  | AImm =>                                 (* $int$ -> NUMBER | - NUMBER *)
      match toks with
      | TNum n :: r => Some (Some (VImm n), r)
      | TGlyph g :: TNum n :: r => if String.eqb g "-" then Some (Some (VImm (- n)), r) else None
      | _ => None
      end
  | ALab =>                                 (* $str$ -> ID | <keyword>  (a keyword yields the keyword itself) *)
      match toks with
      | TWord s :: r =>
          match word_typ kws s with
          | Some t => Some (Some (VLabel (if kwl then t else s)), r)
          | None => Some (Some (VLabel s), r)
          end
      | _ => None
      end
  | AOther => None
  end.

(* the deterministic recogniser of one flat production: the whole token list must be consumed *)
Fixpoint matches (kwl : bool) (kws : list string) (regs : list regclass) (rule : list atom) (toks : list token)
  : option (list opv) :=
  match rule with
  | [] => match toks with [] => Some [] | _ => None end
  | a :: r =>
      match match_atom kwl kws regs a toks with
      | Some (o, toks') =>
          match matches kwl kws regs r toks' with
          | Some os => Some (match o with Some v => v :: os | None => os end)
          | None => None
          end
      | None => None
      end
  end.

(* ---------------------------------------------------------------- operand domain *)
(* labels: identifiers that are not (case-insensitively) keywords of the assembler *)
Definition label_ok (kws : list string) (s : string) : bool :=
  (is_ident s && negb (smem (lower s) kws))%bool.

Fixpoint ops_ok (kws : list string) (regs : list regclass) (rule : list atom) (ops : list opv) : bool :=
  match rule with
  | [] => match ops with [] => true | _ => false end
  | a :: r =>
      match a with
      | AReg c =>
          match ops with
          | VReg k :: ops' => (Nat.ltb k (List.length (rc_regs (rc_at regs c))) && ops_ok kws regs r ops')%bool
          | _ => false
          end
      | AImm => match ops with VImm _ :: ops' => ops_ok kws regs r ops' | _ => false end
      | ALab => match ops with VLabel s :: ops' => (label_ok kws s && ops_ok kws regs r ops')%bool | _ => false end
      | AOther => false
      | _ => ops_ok kws regs r ops
      end
  end.

(* ---------------------------------------------------------------- well-formedness of a table entry *)
Definition atom_eqb (a b : atom) : bool :=
  match a, b with
  | ASp, ASp => true
  | ALit x, ALit y => String.eqb x y
  | AGl x, AGl y => String.eqb x y
  | AReg x, AReg y => Nat.eqb x y
  | AImm, AImm => true
  | ALab, ALab => true
  | AOther, AOther => true
  | _, _ => false
  end.

Fixpoint atoms_eqb (x y : list atom) : bool :=
  match x, y with
  | [], [] => true
  | a :: x', b :: y' => (atom_eqb a b && atoms_eqb x' y')%bool
  | _, _ => false
  end.

(* Syntax.get_args: whitespace elements are not part of the production *)
Fixpoint strip_sp (syn : list atom) : list atom :=
  match syn with
  | [] => []
  | ASp :: r => strip_sp r
  | a :: r => a :: strip_sp r
  end.

Definition wordish (a : atom) : bool :=
  match a with ALit _ | AReg _ | AImm | ALab => true | _ => false end.

(* adjacent printed elements the lexer would glue or read differently: word/number next to word/number
   without whitespace or glyph in between; "%" directly before a number (BINNUMBER); "." next to a number (REAL) *)
Definition glue_pair (x y : atom) : bool :=
  match x, y with
  | AGl g, AImm => (String.eqb g "%" || String.eqb g ".")%bool
  | AImm, AGl g => String.eqb g "."
  | _, _ => (wordish x && wordish y)%bool
  end.

Fixpoint glue_ok (syn : list atom) : bool :=
  match syn with
  | x :: ((y :: _) as r) => (negb (glue_pair x y) && glue_ok r)%bool
  | _ => true
  end.

Fixpoint regs_found (kws : list string) (rules : list (string * nat)) (k : nat) (rs : list (string * Z)) : bool :=
  match rs with
  | [] => true
  | (nm, _) :: r =>
      (smem (lower nm) kws && match find_word (lower nm) rules with Some k' => Nat.eqb k' k | None => false end
       && regs_found kws rules (S k) r)%bool
  end.

(* every register is recognised under its printed name; every production word is a lower-case keyword
   and names one register only *)
Definition reg_ok (kws : list string) (rc : regclass) : bool :=
  (regs_found kws (rc_rules rc) 0 (rc_regs rc) &&
   forallb (fun p => smem (fst p) kws && String.eqb (lower (fst p)) (fst p) &&
                     match find_word (fst p) (rc_rules rc) with Some k => Nat.eqb k (snd p) | None => false end)
           (rc_rules rc))%bool.

Definition atom_ok (kws : list string) (regs : list regclass) (a : atom) : bool :=
  match a with
  | ASp => false
  | ALit w => (smem w kws && String.eqb (lower w) w)%bool
  | AGl _ => true
  | AReg c => (Nat.ltb c (List.length regs) && reg_ok kws (rc_at regs c))%bool
  | AImm => true
  | ALab => true
  | AOther => false
  end.

(* the production is what generate_syntax_rule makes of the syntax; the printed text lexes element-wise *)
Definition wf_entry (kws : list string) (regs : list regclass) (e : sentry) : bool :=
  (atoms_eqb (strip_sp (s_syn e)) (s_rule e) && glue_ok (s_syn e) && forallb (atom_ok kws regs) (s_rule e))%bool.

Definition wf_rule (kws : list string) (regs : list regclass) (e : sentry) : bool :=
  forallb (atom_ok kws regs) (s_rule e).

(* ---------------------------------------------------------------- unification of two productions *)
Fixpoint words_meet (a b : list (string * nat)) : bool :=
  match a with
  | [] => false
  | (w, _) :: r => match find_word w b with Some _ => true | None => words_meet r b end
  end.

Definition has_word (w : string) (rules : list (string * nat)) : bool :=
  match find_word w rules with Some _ => true | None => false end.

(* can production t recognise the printed form of some instance of production s?
   (labels of s range over non-keywords; over-approximation otherwise) *)
Fixpoint unify_dir (regs : list regclass) (s t : list atom) {struct s} : bool :=
  match s with
  | [] => match t with [] => true | _ => false end
  | a :: s' =>
      match t with
      | [] => false
      | b :: t' =>
          match a, b with
          | ALit w, ALit w' => (String.eqb w w' && unify_dir regs s' t')%bool
          | ALit w, AReg c' => (has_word w (rc_rules (rc_at regs c')) && unify_dir regs s' t')%bool
          | ALit _, ALab => unify_dir regs s' t'
          | AReg c, ALit w' => (has_word w' (rc_rules (rc_at regs c)) && unify_dir regs s' t')%bool
          | AReg c, AReg c' => (words_meet (rc_rules (rc_at regs c)) (rc_rules (rc_at regs c')) && unify_dir regs s' t')%bool
          | AReg _, ALab => unify_dir regs s' t'
          | ALab, ALab => unify_dir regs s' t'
          | AGl g, AGl g' => (String.eqb g g' && unify_dir regs s' t')%bool
          | AGl g, AImm =>          (* "-" NUMBER printed by s read as a negative $int$ by t *)
              (String.eqb g "-" && match s' with AImm :: s'' => unify_dir regs s'' t' | _ => false end)%bool
          | AImm, AImm => unify_dir regs s' t'
          | AImm, AGl g' =>         (* negative number printed by s read as "-" $int$ by t *)
              (String.eqb g' "-" && match t' with AImm :: t'' => unify_dir regs s' t'' | _ => false end)%bool
          | _, _ => false
          end
      end
  end.

Definition unify (regs : list regclass) (s t : list atom) : bool :=
  (unify_dir regs s t || unify_dir regs t s)%bool.

Definition entry_at (l : list sentry) (n : nat) : sentry := nth n l (mkS "" "" 0 [AOther] [AOther]).

Fixpoint amb_with (regs : list regclass) (i : nat) (a : list atom) (j : nat) (r : list sentry) : list (nat * nat) :=
  match r with
  | [] => []
  | e :: r' => (if unify regs a (s_rule e) then [(i, j)] else []) ++ amb_with regs i a (S j) r'
  end.

Fixpoint amb_from (regs : list regclass) (i : nat) (l : list sentry) : list (nat * nat) :=
  match l with
  | [] => []
  | e :: r => amb_with regs i (s_rule e) (S i) r ++ amb_from regs (S i) r
  end.

(* all index pairs i < j whose productions unify *)
Definition ambiguous_pairs (regs : list regclass) (l : list sentry) : list (nat * nat) := amb_from regs 0 l.

Definition pair_eqb (p q : nat * nat) : bool := (Nat.eqb (fst p) (fst q) && Nat.eqb (snd p) (snd q))%bool.
Fixpoint pairs_eqb (x y : list (nat * nat)) : bool :=
  match x, y with
  | [], [] => true
  | p :: x', q :: y' => (pair_eqb p q && pairs_eqb x' y')%bool
  | _, _ => false
  end.

Definition in_pairs (n : nat) (l : list (nat * nat)) : bool :=
  existsb (fun p => Nat.eqb (fst p) n || Nat.eqb (snd p) n)%bool l.

(* operand view for the C08 encoder model: register -> num, label -> 0 *)
Definition zop (regs : list regclass) (a : atom) (v : opv) : Z :=
  match a, v with
  | AReg c, VReg k => snd (nth k (rc_regs (rc_at regs c)) (""%string, 0))
  | _, VImm z => z
  | _, _ => 0
  end.

Fixpoint zops (regs : list regclass) (rule : list atom) (ops : list opv) : list Z :=
  match rule with
  | [] => []
  | a :: r =>
      match a with
      | AReg _ | AImm | ALab =>
          match ops with
          | v :: ops' => zop regs a v :: zops regs r ops'
          | [] => []
          end
      | _ => zops regs r ops
      end
  end.

(* ---------------------------------------------------------------- values for the correspondence *)
From PV Require Import Lib.Val.
#[global] Instance ToVal_token : ToVal token := fun t =>
  match t with
  | TWord s => VT [VS "w"; VS s]
  | TNum n => VT [VS "n"; VZ n]
  | TGlyph s => VT [VS "g"; VS s]
  end.
#[global] Instance ToVal_opv : ToVal opv := fun v =>
  match v with
  | VReg k => VT [VS "r"; VZ (Z.of_nat k)]
  | VImm z => VT [VS "i"; VZ z]
  | VLabel s => VT [VS "l"; VS s]
  end.

(* all entries of l (with index from i) whose production recognises toks, with the operands recovered *)
Fixpoint matching_from (kwl : bool) (kws : list string) (regs : list regclass) (i : nat) (l : list sentry) (toks : list token)
  : list (nat * list opv) :=
  match l with
  | [] => []
  | e :: r =>
      match matches kwl kws regs (s_rule e) toks with
      | Some ops => (i, ops) :: matching_from kwl kws regs (S i) r toks
      | None => matching_from kwl kws regs (S i) r toks
      end
  end.
