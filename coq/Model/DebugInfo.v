(* Model/DebugInfo.v — hand model (tie H) of ppci/binutils/debuginfo.py :
     DictSerializer (serialize, serialize_location/_type/_variable/_function/_argument,
                     write_source_location, write_address, get_type_id)
     DictDeserializer (deserialize, read_source_location, read_address, read_variable,
                       read_formal_parameter, get_type)
   Executable Gallina, NO proofs.  Correspondence: tools/props/c14.py (both directions, on compiler
   output with debug=True and on hand-built DebugInfo objects of every record kind).

   Representation.  Python's DebugInfo is an object graph: types are objects compared by identity,
   registered in the list DebugInfo.types, and referred to by variables, parameters, functions and
   other types.  The model refers to a type by its POSITION in DebugInfo.types (a nat).  A reference
   >= length types stands for a type object that is not registered (the serializer gives it an id
   but never writes it; loading then fails with KeyError — mirrored).

   Type ids.  DictSerializer.get_type_id numbers type objects in the order of their first use:
   type_ids[typ] = len(type_ids).  [visit_order] lists the get_type_id calls in the order the code
   makes them (types: own id first, then field / element / pointed types; then the global variables;
   then per function: parameters, local variables, return type) and [dedup_acc] is the dictionary
   filling; the id of a type is its index in the resulting list.

   Loading.  get_type(idx) builds types lazily from a worklist with a memo:
   * [dbg_deserialize_v1] mirrors the code before the repair fixes/C14-debug-recursive-pointer.diff:
     struct types are memoised before their fields are resolved, pointer and array types only
     after their target — a target chain that comes back to a pointer/array under construction
     pops an id that is no longer in the worklist: KeyError.  [v1_sim] replays exactly that
     bookkeeping (memo, worklist); when it succeeds the resulting graph is the one of
     [dbg_deserialize].
   * [dbg_deserialize] mirrors the repaired code (every type is memoised before its references are
     resolved), where get_type fails only for an id that is not in the table. *)
From PV Require Import Lib.Py Lib.Val Lib.Json.
From Coq Require Import String Ascii.
Open Scope string_scope.
Open Scope Z_scope.

(* ------------------------------------------------------------------ records *)
Record srcloc := mkLoc {            (* SourceLocation(filename, row, col, length) *)
  sl_file : option string; sl_row : Z; sl_col : Z; sl_len : Z }.

Inductive daddr :=
  | AFixed (symbol_id : Z)          (* DebugAddress *)
  | AFprel (offset size : Z)        (* FpOffsetAddress(StackLocation(offset, size)) *)
  | AUnknown.                       (* UnknownAddress *)

Record dfield := mkField { fld_name : string; fld_typ : nat; fld_offset : Z }.

Inductive dtype :=
  | TBase (name : string) (size encoding : Z)   (* DebugBaseType *)
  | TStruct (fields : list dfield)              (* DebugStructType *)
  | TArray (element : nat) (size : Z)           (* DebugArrayType *)
  | TPointer (pointed : nat).                   (* DebugPointerType *)

Record dvar := mkVar {              (* DebugVariable *)
  dv_name : string; dv_typ : nat; dv_loc : srcloc; dv_addr : daddr }.
Record dparam := mkParam { dp_name : string; dp_typ : nat }.   (* DebugParameter *)
Record dfunc := mkFunc {            (* DebugFunction *)
  df_name : string; df_loc : srcloc; df_ret : nat; df_args : list dparam;
  df_begin : daddr; df_end : daddr; df_vars : list dvar }.
Record dlocation := mkDLoc { dl_loc : srcloc; dl_addr : daddr }.   (* DebugLocation *)

Record debuginfo := mkDbg {         (* DebugInfo *)
  dbg_locations : list dlocation; dbg_functions : list dfunc;
  dbg_types : list dtype; dbg_variables : list dvar }.

(* Python class of each constructor (used by c14_debug_classes_covered) *)
Definition dtype_class (t : dtype) : string :=
  match t with
  | TBase _ _ _ => "DebugBaseType" | TStruct _ => "DebugStructType"
  | TArray _ _ => "DebugArrayType" | TPointer _ => "DebugPointerType"
  end.
Definition daddr_class (a : daddr) : string :=
  match a with
  | AFixed _ => "DebugAddress" | AFprel _ _ => "FpOffsetAddress" | AUnknown => "UnknownAddress"
  end.
(* the record kinds of the model *)
Definition record_classes : list string :=
  ["DebugLocation"; "DebugVariable"; "DebugFunction"; "DebugParameter"].

(* ------------------------------------------------------------------ type ids *)
Definition type_refs (t : dtype) : list nat :=
  match t with
  | TBase _ _ _ => []
  | TStruct fs => map fld_typ fs
  | TArray e _ => [e]
  | TPointer p => [p]
  end.

Fixpoint visit_types (p : nat) (ts : list dtype) : list nat :=
  match ts with
  | [] => []
  | t :: r => (p :: type_refs t ++ visit_types (S p) r)%list
  end.

Definition visit_func (f : dfunc) : list nat :=
  (map dp_typ (df_args f) ++ map dv_typ (df_vars f) ++ [df_ret f])%list.

Definition visit_order (d : debuginfo) : list nat :=
  (visit_types 0 (dbg_types d) ++ map dv_typ (dbg_variables d)
   ++ List.concat (map visit_func (dbg_functions d)))%list.

(* the type_ids dictionary after the given sequence of get_type_id calls (keys in id order) *)
Fixpoint dedup_acc (acc : list nat) (l : list nat) : list nat :=
  match l with
  | [] => acc
  | x :: r => if existsb (Nat.eqb x) acc then dedup_acc acc r else dedup_acc (acc ++ [x])%list r
  end.

Fixpoint index_of (x : nat) (l : list nat) : option nat :=
  match l with
  | [] => None
  | y :: r => if Nat.eqb x y then Some O
              else match index_of x r with Some i => Some (S i) | None => None end
  end.

Definition idof (sigma : list nat) (p : nat) : Z :=
  match index_of p sigma with Some i => Z.of_nat i | None => Z.of_nat (List.length sigma) end.

(* ------------------------------------------------------------------ serialize *)
Definition ser_srcloc (l : srcloc) : json :=
  JObj [("filename", jopt_str (sl_file l)); ("row", JNum (sl_row l));
        ("column", JNum (sl_col l)); ("length", JNum (sl_len l))].

Definition ser_addr (a : daddr) : json :=
  match a with
  | AFixed s => JObj [("kind", JStr "fixed"); ("symbol_id", JNum s)]
  | AFprel o z => JObj [("kind", JStr "fprel"); ("offset", JNum o); ("size", JNum z)]
  | AUnknown => JObj [("kind", JStr "unknown")]
  end.

Definition ser_dlocation (l : dlocation) : json :=
  JObj [("source", ser_srcloc (dl_loc l)); ("address", ser_addr (dl_addr l))].

Section WithIds.
  Variable f : nat -> Z.             (* get_type_id *)

  Definition ser_field (x : dfield) : json :=
    JObj [("name", JStr (fld_name x)); ("type", JNum (f (fld_typ x))); ("offset", JNum (fld_offset x))].

  Definition ser_type (p : nat) (t : dtype) : json :=
    match t with
    | TBase n s e => JObj [("id", JNum (f p)); ("kind", JStr "base"); ("name", JStr n);
                           ("size", JNum s); ("encoding", JNum e)]
    | TStruct fs => JObj [("id", JNum (f p)); ("kind", JStr "struct");
                          ("fields", JList (map ser_field fs))]
    | TArray e s => JObj [("id", JNum (f p)); ("kind", JStr "array");
                          ("element_type", JNum (f e)); ("size", JNum s)]
    | TPointer q => JObj [("id", JNum (f p)); ("kind", JStr "pointer");
                          ("pointed_type", JNum (f q))]
    end.

  Fixpoint ser_types (p : nat) (ts : list dtype) : list json :=
    match ts with
    | [] => []
    | t :: r => ser_type p t :: ser_types (S p) r
    end.

  Definition ser_var (v : dvar) : json :=
    JObj [("source", ser_srcloc (dv_loc v)); ("name", JStr (dv_name v));
          ("type", JNum (f (dv_typ v))); ("address", ser_addr (dv_addr v))].

  Definition ser_param (a : dparam) : json :=
    JObj [("name", JStr (dp_name a)); ("type", JNum (f (dp_typ a)))].

  Definition ser_func (fn : dfunc) : json :=
    JObj [("source", ser_srcloc (df_loc fn)); ("function_name", JStr (df_name fn));
          ("return_type", JNum (f (df_ret fn)));
          ("arguments", JList (map ser_param (df_args fn)));
          ("begin", ser_addr (df_begin fn)); ("end", ser_addr (df_end fn));
          ("variables", JList (map ser_var (df_vars fn)))].

  Definition render (d : debuginfo) : json :=
    JObj [("locations", JList (map ser_dlocation (dbg_locations d)));
          ("types", JList (ser_types 0 (dbg_types d)));
          ("variables", JList (map ser_var (dbg_variables d)));
          ("functions", JList (map ser_func (dbg_functions d)))].
End WithIds.

Definition type_ids (d : debuginfo) : list nat := dedup_acc [] (visit_order d).
(* debuginfo.serialize *)
Definition dbg_serialize (d : debuginfo) : json := render (idof (type_ids d)) d.

(* ------------------------------------------------------------------ deserialize *)
Definition read_srcloc (x : json) : result srcloc :=
  a <- jget "filename" x ;; file <- as_opt_str a ;;
  b <- jget "row" x ;; row <- as_int b ;;
  c <- jget "column" x ;; col <- as_int c ;;
  e <- jget "length" x ;; ln <- as_int e ;;
  Ok (mkLoc file row col ln).

(* x.get(k, default) *)
Definition jget_default (k : string) (x : json) (dflt : json) : result json :=
  match x with
  | JObj l => match jlookup k l with Some v => Ok v | None => Ok dflt end
  | _ => Internal TypeError
  end.

Definition read_addr (x : json) : result daddr :=
  k <- jget "kind" x ;; kind <- as_str k ;;
  if String.eqb kind "fixed" then s <- jget "symbol_id" x ;; sid <- as_int s ;; Ok (AFixed sid)
  else if String.eqb kind "fprel" then
    o <- jget "offset" x ;; off <- as_int o ;;
    z <- jget_default "size" x (JNum 1) ;; size <- as_int z ;; Ok (AFprel off size)
  else if String.eqb kind "unknown" then Ok AUnknown
  else Internal NotImplemented.

Definition read_dlocation (x : json) : result dlocation :=
  s <- jget "source" x ;; loc <- read_srcloc s ;;
  a <- jget "address" x ;; addr <- read_addr a ;;
  Ok (mkDLoc loc addr).

(* a type entry as written in the file: references are ids *)
Record rfield := mkRField { rf_name : string; rf_typ : Z; rf_offset : Z }.
Inductive rtype :=
  | RBase (name : string) (size encoding : Z)
  | RStruct (fields : list rfield)
  | RArray (element : Z) (size : Z)
  | RPointer (pointed : Z).

Definition parse_field (x : json) : result rfield :=
  n <- jget "name" x ;; name <- as_str n ;;
  o <- jget "offset" x ;; off <- as_int o ;;
  t <- jget "type" x ;; tid <- as_int t ;;
  Ok (mkRField name tid off).

Definition parse_type (x : json) : result (Z * rtype) :=
  i <- jget "id" x ;; id <- as_int i ;;
  k <- jget "kind" x ;; kind <- as_str k ;;
  if String.eqb kind "base" then
    n <- jget "name" x ;; name <- as_str n ;;
    s <- jget "size" x ;; size <- as_int s ;;
    e <- jget_default "encoding" x (JNum 1) ;; enc <- as_int e ;;
    Ok (id, RBase name size enc)
  else if String.eqb kind "struct" then
    fl <- jget "fields" x ;; l <- as_list fl ;; fs <- mapM parse_field l ;;
    Ok (id, RStruct fs)
  else if String.eqb kind "pointer" then
    t <- jget "pointed_type" x ;; tid <- as_int t ;; Ok (id, RPointer tid)
  else if String.eqb kind "array" then
    t <- jget "element_type" x ;; tid <- as_int t ;;
    s <- jget "size" x ;; size <- as_int s ;; Ok (id, RArray tid size)
  else Internal NotImplemented.

Fixpoint index_ofZ (x : Z) (l : list Z) : option nat :=
  match l with
  | [] => None
  | y :: r => if x =? y then Some O
              else match index_ofZ x r with Some i => Some (S i) | None => None end
  end.

(* the type object of an id = the object built for the table entry with that id; its position in
   DebugInfo.types is the position of the entry.  Unknown id: worklist.pop(idx) -> KeyError *)
Definition resolve (ids : list Z) (j : Z) : result nat :=
  match index_ofZ j ids with Some k => Ok k | None => Internal KeyError end.

Definition resolve_field (ids : list Z) (x : rfield) : result dfield :=
  t <- resolve ids (rf_typ x) ;; Ok (mkField (rf_name x) t (rf_offset x)).

Definition resolve_type (ids : list Z) (r : Z * rtype) : result dtype :=
  match snd r with
  | RBase n s e => Ok (TBase n s e)
  | RStruct fs => l <- mapM (resolve_field ids) fs ;; Ok (TStruct l)
  | RArray e s => t <- resolve ids e ;; Ok (TArray t s)
  | RPointer q => t <- resolve ids q ;; Ok (TPointer t)
  end.

Definition read_var (ids : list Z) (x : json) : result dvar :=
  n <- jget "name" x ;; name <- as_str n ;;
  s <- jget "source" x ;; loc <- read_srcloc s ;;
  t <- jget "type" x ;; tid <- as_int t ;; typ <- resolve ids tid ;;
  a <- jget "address" x ;; addr <- read_addr a ;;
  Ok (mkVar name typ loc addr).

Definition read_param (ids : list Z) (x : json) : result dparam :=
  n <- jget "name" x ;; name <- as_str n ;;
  t <- jget "type" x ;; tid <- as_int t ;; typ <- resolve ids tid ;;
  Ok (mkParam name typ).

Definition read_func (ids : list Z) (x : json) : result dfunc :=
  s <- jget "source" x ;; loc <- read_srcloc s ;;
  r <- jget "return_type" x ;; rid <- as_int r ;; ret <- resolve ids rid ;;
  al <- jget "arguments" x ;; l <- as_list al ;; args <- mapM (read_param ids) l ;;
  b <- jget "begin" x ;; bg <- read_addr b ;;
  e <- jget "end" x ;; en <- read_addr e ;;
  vl <- jget "variables" x ;; l2 <- as_list vl ;; vars <- mapM (read_var ids) l2 ;;
  n <- jget "function_name" x ;; name <- as_str n ;;
  Ok (mkFunc name loc ret args bg en vars).

(* common part: parse the four lists; [check] is run on the type table before it is resolved *)
Definition dbg_deserialize_with (check : list (Z * rtype) -> result unit) (x : json)
  : result debuginfo :=
  ll <- jget "locations" x ;; l1 <- as_list ll ;; locs <- mapM read_dlocation l1 ;;
  tl <- jget "types" x ;; l2 <- as_list tl ;; raws <- mapM parse_type l2 ;;
  _ <- check raws ;;
  let ids := map fst raws in
  types <- mapM (resolve_type ids) raws ;;
  vl <- jget "variables" x ;; l3 <- as_list vl ;; vars <- mapM (read_var ids) l3 ;;
  fl <- jget "functions" x ;; l4 <- as_list fl ;; funcs <- mapM (read_func ids) l4 ;;
  Ok (mkDbg locs funcs types vars).

(* debuginfo.deserialize, repaired code *)
Definition dbg_deserialize (x : json) : result debuginfo :=
  dbg_deserialize_with (fun _ => Ok tt) x.

(* ---- the lazy construction of the unrepaired code: memo [built], worklist [work] *)
Definition memZ (x : Z) (l : list Z) : bool := existsb (Z.eqb x) l.
Definition removeZ (x : Z) (l : list Z) : list Z := filter (fun y => negb (x =? y)) l.
Fixpoint lookupZ {A} (x : Z) (l : list (Z * A)) : option A :=
  match l with
  | [] => None
  | (k, v) :: r => if x =? k then Some v else lookupZ x r
  end.

Fixpoint get_type_sim (fuel : nat) (raws : list (Z * rtype)) (idx : Z) (st : list Z * list Z)
  : result (list Z * list Z) :=
  match fuel with
  | O => OutOfFuel
  | S fu =>
      let built := fst st in
      let work := snd st in
      if memZ idx built then Ok st                       (* if idx in self.types *)
      else if negb (memZ idx work) then Internal KeyError (* self.type_worklist.pop(idx) *)
      else
        let work' := removeZ idx work in
        match lookupZ idx raws with
        | None => Internal KeyError
        | Some (RBase _ _ _) => Ok (idx :: built, work')
        | Some (RStruct fs) =>                            (* memoised before the fields *)
            fold_left (fun acc fl => s <- acc ;; get_type_sim fu raws (rf_typ fl) s) fs
                      (Ok (idx :: built, work'))
        | Some (RPointer q) =>                            (* memoised after the target *)
            s <- get_type_sim fu raws q (built, work') ;; Ok (idx :: fst s, snd s)
        | Some (RArray e _) =>
            s <- get_type_sim fu raws e (built, work') ;; Ok (idx :: fst s, snd s)
        end
  end.

Definition v1_sim (raws : list (Z * rtype)) : result unit :=
  r <- fold_left (fun acc t => s <- acc ;; get_type_sim (S (List.length raws)) raws (fst t) s) raws
                 (Ok ([], map fst raws)) ;;
  Ok tt.

(* debuginfo.deserialize before fixes/C14-debug-recursive-pointer.diff *)
Definition dbg_deserialize_v1 (x : json) : result debuginfo := dbg_deserialize_with v1_sim x.

(* ------------------------------------------------------------------ well-formed debug info *)
(* every referenced type is registered in DebugInfo.types *)
Definition wf_dbgb (d : debuginfo) : bool :=
  let n := List.length (dbg_types d) in
  let okr := fun p => Nat.ltb p n in
  forallb (fun t => forallb okr (type_refs t)) (dbg_types d)
  && forallb (fun v => okr (dv_typ v)) (dbg_variables d)
  && forallb (fun fn => okr (df_ret fn) && forallb (fun a => okr (dp_typ a)) (df_args fn)
                        && forallb (fun v => okr (dv_typ v)) (df_vars fn)) (dbg_functions d).
Definition wf_dbg (d : debuginfo) : Prop := wf_dbgb d = true.

(* ------------------------------------------------------------------ ToVal (correspondence) *)
#[global] Instance ToVal_srcloc : ToVal srcloc :=
  fun l => VT [toval (sl_file l); toval (sl_row l); toval (sl_col l); toval (sl_len l)].
#[global] Instance ToVal_daddr : ToVal daddr :=
  fun a => match a with
           | AFixed s => VT [VS "fixed"; VZ s]
           | AFprel o z => VT [VS "fprel"; VZ o; VZ z]
           | AUnknown => VT [VS "unknown"]
           end.
#[global] Instance ToVal_dfield : ToVal dfield :=
  fun x => VT [toval (fld_name x); toval (fld_typ x); toval (fld_offset x)].
#[global] Instance ToVal_dtype : ToVal dtype :=
  fun t => match t with
           | TBase n s e => VT [VS "base"; VS n; VZ s; VZ e]
           | TStruct fs => VT [VS "struct"; toval fs]
           | TArray e s => VT [VS "array"; toval e; VZ s]
           | TPointer q => VT [VS "pointer"; toval q]
           end.
#[global] Instance ToVal_dvar : ToVal dvar :=
  fun v => VT [toval (dv_name v); toval (dv_typ v); toval (dv_loc v); toval (dv_addr v)].
#[global] Instance ToVal_dparam : ToVal dparam :=
  fun a => VT [toval (dp_name a); toval (dp_typ a)].
#[global] Instance ToVal_dfunc : ToVal dfunc :=
  fun fn => VT [toval (df_name fn); toval (df_loc fn); toval (df_ret fn); toval (df_args fn);
                toval (df_begin fn); toval (df_end fn); toval (df_vars fn)].
#[global] Instance ToVal_dlocation : ToVal dlocation :=
  fun l => VT [toval (dl_loc l); toval (dl_addr l)].
#[global] Instance ToVal_debuginfo : ToVal debuginfo :=
  fun d => VT [toval (dbg_locations d); toval (dbg_functions d); toval (dbg_types d);
               toval (dbg_variables d)].
