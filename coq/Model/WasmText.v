(* Model/WasmText.v — C21 hand model (tie H) of the INSTRUCTION level of the text form:
   TextWriter.write_instruction / write_block_instruction (ppci/wasm/text/writer.py) and
   WatParser._load_instruction restricted to what that writer emits (numeric indices, no $ids, no
   inline signatures; flat block/loop/if ... end). Definitions only.
   * The writer's string is modelled as the list of lexical pieces it consists of ("(" ")" and
     whitespace separated words); the S-expression lexer's chunking is trusted, its conversion of
     numeric words to ints is modelled ([lex_word]); hexadecimal ints are never written.
   * Python's float spelling (repr) and float() are parameters [fs] of the model: a float operand
     is its raw bytes, [repr] its spelling, [parse] = struct.pack(float(spelling)). *)
From PV Require Import Lib.Py Model.WasmTypes Gen.Tab_wasm_opcodes Gen.Tab_wasm_text Model.WasmBin.
From Coq Require Import String Ascii DecimalString DecimalZ.
Local Open Scope string_scope.
Local Open Scope list_scope.
Open Scope Z_scope.

Inductive piece := PL | PR | PW (s : string).
Inductive tok := TLpar | TRpar | TWord (s : string) | TInt (z : Z).

Record fspell := {
  repr32 : bytes -> string; parse32 : string -> option bytes;
  repr64 : bytes -> string; parse64 : string -> option bytes }.

(* str(int) / int(str) *)
Definition dec (z : Z) : string := NilZero.string_of_int (Z.to_int z).
Definition undec (s : string) : option Z := option_map Z.of_int (NilZero.int_of_string s).

(* ---- lexer: conversion of words ---- *)
Definition numeric_first (s : string) : bool :=
  match s with
  | EmptyString => false
  | String c _ =>
      let n := Z.of_nat (nat_of_ascii c) in
      (n =? 45) || (n =? 43) || (n =? 46) || ((48 <=? n) && (n <=? 57))
  end.
Fixpoint has_dot_e (s : string) : bool :=
  match s with
  | EmptyString => false
  | String c r =>
      let n := Z.of_nat (nat_of_ascii c) in
      (n =? 46) || (n =? 101) || (n =? 69) || has_dot_e r
  end.
Definition lex_word (s : string) : tok :=
  if numeric_first s && negb (has_dot_e s)
  then match undec s with Some z => TInt z | None => TWord s end
  else TWord s.
Definition lex_piece (p : piece) : tok :=
  match p with PL => TLpar | PR => TRpar | PW s => lex_word s end.
Definition lex (l : list piece) : list tok := map lex_piece l.

(* ---- writer ---- *)
Definition slen (s : string) : Z := Z.of_nat (String.length s).
Definition is_block_op (op : string) : bool :=
  String.eqb op "block" || String.eqb op "loop" || String.eqb op "if".

(* one printed argument: (number of characters of its text, its pieces) *)
Definition word_arg (s : string) : Z * list piece := (slen s, [PW s]).
Definition group_arg (kw : string) (s : string) : Z * list piece :=
  (slen kw + slen s + 3, [PL; PW kw; PW s; PR]).        (* "(kw s)" *)

Definition print_arg (fs : fspell) (a : arg) : result (Z * list piece) :=
  match a with
  | AInt z => Ok (word_arg (dec z))
  | ARef _ i => Ok (word_arg (dec i))
  | AStr s => Ok (word_arg s)
  | AFloat raw => Ok (word_arg (if len raw =? 4 then repr32 fs raw else repr64 fs raw))
  | _ => Internal NotImplemented
  end.

Fixpoint print_args (fs : fspell) (l : list arg) : result (list (Z * list piece)) :=
  match l with
  | [] => Ok []
  | a :: r => x <- print_arg fs a ;; y <- print_args fs r ;; Ok (x :: y)
  end.

Definition instr_args_text (fs : fspell) (i : instr) : result (list (Z * list piece)) :=
  let op := i_op i in
  match assoc String.eqb text_mem op with
  | Some dflt =>
      match i_args i with
      | [AInt align; AInt offset] =>
          match dflt with
          | None => Internal KeyError
          | Some d =>
              Ok ((if offset =? 0 then [] else [word_arg ("offset=" ++ dec offset)]) ++
                  (if align =? d then [] else [word_arg ("align=" ++ dec (2 ^ align))]))
          end
      | _ => Internal ValueErrorI
      end
  | None =>
      if String.eqb op "br_table" then
        match i_args i with
        | ARefs l :: _ => Ok (map (fun r => word_arg (dec (snd r))) l)
        | _ => Internal TypeError
        end
      else if String.eqb op "memory.size" || String.eqb op "memory.grow" then Ok []
      else if String.eqb op "call_indirect" then
        match i_args i with
        | [ARef _ ty; ARef _ tb] =>
            if tb =? 0 then Ok [group_arg "type" (dec ty)]
            else if text_ci_table_first then Ok [word_arg (dec tb); group_arg "type" (dec ty)]
            else Ok [group_arg "type" (dec ty); group_arg "const.i64" (dec tb)]
        | _ => Internal TypeError
        end
      else if String.eqb op "select" then
        match i_args i with
        | AStrs ts :: _ => Ok (map (group_arg "result") ts)
        | _ => Internal TypeError
        end
      else print_args fs (i_args i)
  end.

Definition print_instr (fs : fspell) (i : instr) : result (list piece) :=
  if is_block_op (i_op i) then
    match i_args i with
    | AStr t :: _ =>
        Ok (PW (i_op i) :: (if String.eqb t "emptyblock" then [] else [PL; PW "result"; PW t; PR]))
    | _ => Internal IndexError
    end
  else
    args <- instr_args_text fs i ;;
    let charcount := sumZ (map fst args) in
    let pieces := List.concat (map snd args) in
    if 70 <? charcount then Ok ([PL; PW (i_op i)] ++ pieces ++ [PR])
    else Ok (PW (i_op i) :: pieces).

Definition print_instrs (fs : fspell) (l : list instr) : result (list piece) :=
  (fix go l := match l with
               | [] => Ok []
               | i :: r => a <- print_instr fs i ;; b <- go r ;; Ok (a ++ b)
               end) l.

(* ---- parser (restricted to the writer's output) ---- *)
Definition treader (A : Type) := list tok -> result (A * list tok).
Definition is_dollar (s : string) : bool :=
  match s with String c _ => Z.of_nat (nat_of_ascii c) =? 36 | _ => false end.
Fixpoint has_eq (s : string) : bool :=
  match s with
  | EmptyString => false
  | String c r => (Z.of_nat (nat_of_ascii c) =? 61) || has_eq r
  end.
(* key, value = arg.split("=", 1) *)
Fixpoint split_eq (s : string) : string * string :=
  match s with
  | EmptyString => (EmptyString, EmptyString)
  | String c r =>
      if Z.of_nat (nat_of_ascii c) =? 61 then (EmptyString, r)
      else let p := split_eq r in (String c (fst p), snd p)
  end.

(* _parse_ref(space, default): numeric references only *)
Definition parse_ref (space : string) (default : option Z) : treader arg :=
  fun ts =>
    match ts with
    | TInt z :: r => Ok (ARef space z, r)
    | TWord w :: r =>
        if is_dollar w then Internal NotImplemented
        else match default with Some d => Ok (ARef space d, ts) | None => Diag 10 end
    | _ => match default with Some d => Ok (ARef space d, ts) | None => Diag 10 end
    end.

(* make_int(tok, bits) *)
Definition make_int (bits : Z) : treader arg :=
  fun ts =>
    match ts with
    | TInt z :: r => Ok (AInt (if 2 ^ (bits - 1) <=? z then z - 2 ^ bits else z), r)
    | _ => Internal NotImplemented
    end.

Definition make_float (parse : string -> option bytes) : treader arg :=
  fun ts =>
    match ts with
    | TWord s :: r => match parse s with Some raw => Ok (AFloat raw, r) | None => Internal ValueErrorI end
    | TInt z :: r => match parse (dec z) with Some raw => Ok (AFloat raw, r) | None => Internal ValueErrorI end
    | _ => Internal NotImplemented
    end.

(* while self._at_ref(): targets.append(self._parse_ref("label")) *)
Fixpoint parse_labels (ts : list tok) : list ref * list tok :=
  match ts with
  | TInt z :: r => let p := parse_labels r in (("label", z) :: fst p, snd p)
  | _ => ([], ts)
  end.

Definition parse_operand (fs : fspell) (k : akind) : treader arg :=
  fun ts =>
    match k with
    | KLabelIdx => parse_ref "label" None ts
    | KLocalIdx => parse_ref "local" None ts
    | KGlobalIdx => parse_ref "global" None ts
    | KFuncIdx => parse_ref "func" None ts
    | KTypeIdx => parse_ref "type" None ts
    | KTableIdx => parse_ref "table" (Some 0) ts
    | KI32 => make_int 32 ts
    | KI64 => make_int 64 ts
    | KF32 => make_float (parse32 fs) ts
    | KF64 => make_float (parse64 fs) ts
    | KU32 => match ts with TInt z :: r => Ok (AInt z, r) | _ => Internal NotImplemented end
    | KBrTable => let p := parse_labels ts in Ok (ARefs (fst p), snd p)
    | KU8 =>
        if text_u8_consumes then
          match ts with TInt z :: r => Ok (AInt z, r) | _ => Ok (AInt 0, ts) end
        else Ok (AInt 0, ts)
    | _ => Internal NotImplemented
    end.

Fixpoint parse_operands (fs : fspell) (ks : list akind) : treader (list arg) :=
  fun ts =>
    match ks with
    | [] => Ok ([], ts)
    | k :: ks' => '(a, r) <- parse_operand fs k ts ;; '(l, r') <- parse_operands fs ks' r ;; Ok (a :: l, r')
    end.

(* keyword arguments of load/store: key=value words; values are decimal *)
Fixpoint parse_kwargs (fuel : nat) (ts : list tok) (offset align : option Z) : result (option Z * option Z * list tok) :=
  match fuel with
  | O => Ok (offset, align, ts)
  | S f =>
      match ts with
      | TWord w :: r =>
          if has_eq w then
            let kv := split_eq w in
            match undec (snd kv) with
            | None => Internal ValueErrorI
            | Some v =>
                if String.eqb (fst kv) "offset" then
                  match offset with Some _ => Internal AssertionError | None => parse_kwargs f r (Some v) align end
                else if String.eqb (fst kv) "align" then
                  match align with Some _ => Internal AssertionError | None => parse_kwargs f r offset (Some v) end
                else parse_kwargs f r offset align
            end
          else Ok (offset, align, ts)
      | _ => Ok (offset, align, ts)
      end
  end.

(* (result t ...)* of select *)
Fixpoint parse_words_until_rpar (fuel : nat) (ts : list tok) : result (list string * list tok) :=
  match fuel with
  | O => OutOfFuel
  | S f =>
      match ts with
      | TRpar :: r => Ok ([], ts)
      | TWord w :: r => '(l, r') <- parse_words_until_rpar f r ;; Ok (w :: l, r')
      | _ => Internal NotImplemented
      end
  end.
Fixpoint parse_result_list (fuel : nat) (ts : list tok) : result (list string * list tok) :=
  match fuel with
  | O => OutOfFuel
  | S f =>
      match ts with
      | TLpar :: TWord w :: r =>
          if String.eqb w "result" then
            '(l, r1) <- parse_words_until_rpar (S (List.length r)) r ;;
            match r1 with
            | TRpar :: r2 => '(l', r3) <- parse_result_list f r2 ;; Ok (l ++ l', r3)
            | _ => Diag 11
            end
          else Ok ([], ts)
      | _ => Ok ([], ts)
      end
  end.

Definition gather_arguments (fs : fspell) (op : string) : treader (list arg) :=
  fun ts =>
    match assoc String.eqb text_mem op with
    | Some dflt =>
        '(oa, r) <- parse_kwargs 3 ts None None ;;
        let offset := match fst oa with Some v => v | None => 0 end in
        match snd oa with
        | Some v =>
            match assoc Z.eqb log2_table v with
            | Some a => Ok ([AInt a; AInt offset], r)
            | None => Internal KeyError
            end
        | None =>
            match dflt with
            | Some d => Ok ([AInt d; AInt offset], r)
            | None => Internal KeyError
            end
        end
    | None =>
        if String.eqb op "call_indirect" then
          '(tb, r) <- parse_ref "table" (Some 0) ts ;;
          match r with
          | TLpar :: TWord w :: TInt ty :: TRpar :: r1 =>
              if String.eqb w "type" then
                match r1 with
                | TLpar :: TWord w' :: _ =>
                    if String.eqb w' "param" || String.eqb w' "result" then Internal NotImplemented
                    else Ok ([ARef "type" ty; tb], r1)
                | _ => Ok ([ARef "type" ty; tb], r1)
                end
              else Internal NotImplemented
          | _ => Internal NotImplemented
          end
        else if String.eqb op "select" then
          '(l, r) <- parse_result_list (S (List.length ts)) ts ;; Ok ([AStrs l], r)
        else
          match assoc String.eqb operands op with
          | Some ks => parse_operands fs ks ts
          | None => Internal KeyError
          end
    end.

Definition parse_block_type : treader arg :=
  fun ts =>
    match ts with
    | TWord w :: r => if String.eqb w "emptyblock" then Ok (AStr "emptyblock", r) else Ok (AStr "emptyblock", ts)
    | TLpar :: TWord w :: TWord t :: TRpar :: r =>
        if String.eqb w "result" then Ok (AStr t, r)
        else if String.eqb w "type" || String.eqb w "param" then Internal NotImplemented
        else Ok (AStr "emptyblock", ts)
    | TLpar :: TWord w :: _ =>
        if String.eqb w "result" || String.eqb w "type" || String.eqb w "param" then Internal NotImplemented
        else Ok (AStr "emptyblock", ts)
    | _ => Ok (AStr "emptyblock", ts)
    end.

Definition parse_instr (fs : fspell) : treader instr :=
  fun ts =>
    let '(braced, ts1) := match ts with TLpar :: r => (true, r) | _ => (false, ts) end in
    match ts1 with
    | TWord op :: r =>
        if is_block_op op then
          if braced then Internal NotImplemented
          else match r with
               | TWord w :: _ => if is_dollar w then Internal NotImplemented
                                 else '(bt, r1) <- parse_block_type r ;; Ok (Instr op [bt], r1)
               | _ => '(bt, r1) <- parse_block_type r ;; Ok (Instr op [bt], r1)
               end
        else
          match assoc String.eqb opcodes op with
          | None => Diag 12                           (* "Expected instruction" *)
          | Some _ =>
              if (String.eqb op "else" || String.eqb op "end") &&
                 match r with TWord w :: _ => is_dollar w | _ => false end
              then Internal NotImplemented
              else
                '(args, r1) <- gather_arguments fs op r ;;
                if braced then
                  match r1 with
                  | TRpar :: r2 => Ok (Instr op args, r2)
                  | TLpar :: _ => Internal NotImplemented   (* nested folded instructions *)
                  | _ => Diag 13
                  end
                else Ok (Instr op args, r1)
          end
    | _ => Diag 12
    end.

Fixpoint parse_instrs (fs : fspell) (fuel : nat) (ts : list tok) : result (list instr) :=
  match fuel with
  | O => OutOfFuel
  | S f =>
      match ts with
      | [] => Ok []
      | _ => '(i, r) <- parse_instr fs ts ;; l <- parse_instrs fs f r ;; Ok (i :: l)
      end
  end.

(* ---- rendering for the correspondence case files ---- *)
From PV Require Import Lib.Val Model.WasmBinVal.
Definition tok_val (t : tok) : val :=
  match t with TLpar => VS "(" | TRpar => VS ")" | TWord s => VS s | TInt z => VZ z end.

(* float spelling given as finite tables by the case file *)
Definition bytes_eqb (a b : bytes) : bool := (len a =? len b) && forallb (fun p => fst p =? snd p) (combine a b).
Definition table_fspell (t32 t64 : list (bytes * string)) : fspell :=
  let rp t raw := match assoc bytes_eqb t raw with Some s => s | None => "?" end in
  let ps (t : list (bytes * string)) s :=
    (fix go l := match l with [] => None | (raw, s') :: r => if String.eqb s' s then Some raw else go r end) t in
  Build_fspell (rp t32) (ps t32) (rp t64) (ps t64).

Definition text_print_val (fs : fspell) (l : list instr) : val :=
  match print_instrs fs l with
  | Ok ps => VOk (VL (map tok_val (lex ps)))
  | Diag _ => VDiag | Internal _ => VInternal | OutOfFuel => VFuel
  end.
Definition text_parse_val (fs : fspell) (l : list instr) : val :=
  match print_instrs fs l with
  | Ok ps => match parse_instrs fs (S (List.length ps)) (lex ps) with
             | Ok l' => VOk (VL (map instr_val l'))
             | _ => VInternal
             end
  | _ => VFuel
  end.
