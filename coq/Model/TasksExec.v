(* Model/TasksExec.v — hand model (tie H) of the "Run tasks" loop of TaskRunner.run in
   ppci/build/tasks.py, on top of Model/Tasks.v (which models the order computation):

        for target in target_list:                       # target_list = project.target_order(...)
            for tname, props in target.tasks:
                ...
                task = self.get_task(tname)(target, props)
                task.run()                               # may raise: the exception leaves run()

   Abstraction: a task is a bool — does its run() raise?  (tasks_of tk n) lists the tasks of
   target n in order.  An event (n, i) = "run() of the i-th task of target n was entered".
   The result is the event history and the target whose task raised (None: all targets done).
   tools/props/c34.py (family 'failing') runs the real TaskRunner with tasks that record an
   event and raise TaskError on demand, and compares history and failed target with [run_exec]. *)
From PV Require Import Lib.Py Lib.Val Spec.BuildSpec Model.Tasks.
Open Scope Z_scope.

Definition taskmap := list (name * list bool).
Definition event := (name * Z)%type.

Fixpoint tasks_of (tk : taskmap) (n : name) : list bool :=
  match tk with
  | [] => []
  | (k, ts) :: r => if k =? n then ts else tasks_of r n
  end.

(* the inner loop over target.tasks, i = index of the next task *)
Fixpoint run_tasks (n : name) (ts : list bool) (i : Z) : list event * bool :=
  match ts with
  | [] => ([], false)
  | raises :: r =>
      if (raises : bool) then ([(n, i)], true)
      else let '(e, f) := run_tasks n r (i + 1) in ((n, i) :: e, f)
  end.

(* the outer loop over target_list *)
Fixpoint exec (tk : taskmap) (order : list name) : list event * option name :=
  match order with
  | [] => ([], None)
  | n :: r =>
      let '(e, f) := run_tasks n (tasks_of tk n) 0 in
      if (f : bool) then (e, Some n)
      else let '(e2, f2) := exec tk r in (e ++ e2, f2)
  end.

(* TaskRunner.run with tasks that may raise *)
Definition run_exec_fuel (fuel : nat) (g : graph) (tk : taskmap) (dflt : option name)
           (req : list name) : result (list event * option name) :=
  order <- run_fuel fuel g dflt req ;; Ok (exec tk order).

Definition run_exec (g : graph) (tk : taskmap) (dflt : option name) (req : list name) :=
  run_exec_fuel (S (length g)) g tk dflt req.

(* rendering: ("ok", events, failed target or None) | ("loop") | ("notfound") *)
Definition show_exec (r : result (list event * option name)) : val :=
  match r with
  | Ok (ev, f) => VT [VZ 0; toval ev; toval f]
  | Diag c => VT [VZ c]
  | Internal _ => VInternal
  | OutOfFuel => VFuel
  end.
