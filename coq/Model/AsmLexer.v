(* Model/AsmLexer.v — C09 hand model (tie H), no proofs: the assembler's lexer and the printed TEXT of an instruction.

   ppci/binutils/assembler.py AsmLexer.tok_spec (one regular expression, alternatives tried in this order):
     REAL \d+\.\d+ | BINNUMBER (0b|%)[0-1]+ | HEXNUMBER (0x|\$)[0-9a-fA-F]+ | NUMBER \d+ | ID [A-Za-z_][A-Za-z\d_]*
     | SKIP [ \t] | GLYPH one of Syntax.GLYPHS | STRING '.*?' | COMMENT ;.*
   handle_number: ppci/common.py make_num (0x/$ -> base 16, 0b/% -> base 2, else int(txt)).
   The alternatives are mutually exclusive on the first character except among the number classes and "%", so the
   model dispatches on the first character; inside the digit case the order REAL, BINNUMBER, HEXNUMBER, NUMBER is kept
   ("0b"/"0x" prefix <=> the maximal digit run is "0" and is followed by b/x).  REAL and STRING tokens are outside the
   token vocabulary of Model/AsmSyntax.v: the model lexer returns None for them (as for a lexing error).
   Input is one line (BaseAssembler.assemble splits on newlines); ASCII only (\d also matches non-ASCII digits in
   Python: not modelled).
   ppci/arch/encoding.py Syntax.render: text = concatenation of the elements; str(int) = decimal with leading "-";
   every whitespace element of every exported syntax is " " (checked by the exporter). *)
From PV Require Import Lib.Py Model.AsmSyntax.
From Coq Require Import String Ascii DecimalString DecimalZ.
Open Scope Z_scope.

(* ---------------------------------------------------------------- numbers *)
(* str(z) for a Python int *)
Definition print_number (z : Z) : string := NilZero.string_of_int (Z.to_int z).

(* int(ds) for a non-empty string of ASCII digits *)
Definition dec_val (ds : string) : Z :=
  match NilZero.uint_of_string ds with
  | Some u => Z.of_uint u
  | None => 0
  end.

Definition is_bin (c : ascii) : bool := (Ascii.eqb c "0" || Ascii.eqb c "1")%bool.
Definition is_hex (c : ascii) : bool :=
  let n := nat_of_ascii c in
  (is_digit c || (Nat.leb 65 n && Nat.leb n 70) || (Nat.leb 97 n && Nat.leb n 102))%bool.
Definition hex_digit (c : ascii) : Z :=
  let n := Z.of_nat (nat_of_ascii c) in
  if is_digit c then n - 48 else if (n <=? 70) then n - 55 else n - 87.
Fixpoint radix_val (base : Z) (s : string) (acc : Z) : Z :=
  match s with
  | EmptyString => acc
  | String c r => radix_val base r (acc * base + hex_digit c)
  end.

(* ---------------------------------------------------------------- lexer *)
Fixpoint take_while (p : ascii -> bool) (s : string) : string * string :=
  match s with
  | EmptyString => (EmptyString, EmptyString)
  | String c r => if p c then (let '(a, b) := take_while p r in (String c a, b)) else (EmptyString, s)
  end.

Definition starts_with (p : ascii -> bool) (s : string) : bool :=
  match s with String c _ => p c | EmptyString => false end.

Definition is_idchar (c : ascii) : bool := (is_alpha_ c || is_digit c)%bool.
Definition is_space (c : ascii) : bool := (Ascii.eqb c " " || Nat.eqb (nat_of_ascii c) 9)%bool.

Fixpoint char_in (c : ascii) (s : string) : bool :=
  match s with
  | EmptyString => false
  | String x r => (Ascii.eqb c x || char_in c r)%bool
  end.
(* Syntax.GLYPHS *)
Definition glyph_chars : string := "@&#=,.:()[]{}+-*%".

(* one token (or a skipped piece) from a non-empty input; None = lexing error or a token outside the model *)
Definition lex_step (s : string) : option (option token * string) :=
  match s with
  | EmptyString => None
  | String c r =>
      if is_alpha_ c then                                   (* ID *)
        let '(w, r1) := take_while is_idchar s in Some (Some (TWord w), r1)
      else if is_digit c then
        let '(ds, r1) := take_while is_digit s in
        if (match r1 with String d r2 => (Ascii.eqb d "." && starts_with is_digit r2)%bool | _ => false end) then
          None                                              (* REAL *)
        else if (String.eqb ds "0" && match r1 with String d r2 => (Ascii.eqb d "b" && starts_with is_bin r2)%bool
                                                  | _ => false end)%bool then
          match r1 with
          | String _ r2 => let '(bs, r3) := take_while is_bin r2 in Some (Some (TNum (radix_val 2 bs 0)), r3)
          | _ => None
          end                                               (* BINNUMBER 0b *)
        else if (String.eqb ds "0" && match r1 with String d r2 => (Ascii.eqb d "x" && starts_with is_hex r2)%bool
                                                  | _ => false end)%bool then
          match r1 with
          | String _ r2 => let '(hs, r3) := take_while is_hex r2 in Some (Some (TNum (radix_val 16 hs 0)), r3)
          | _ => None
          end                                               (* HEXNUMBER 0x *)
        else Some (Some (TNum (dec_val ds)), r1)            (* NUMBER *)
      else if (Ascii.eqb c "%" && starts_with is_bin r)%bool then
        let '(bs, r3) := take_while is_bin r in Some (Some (TNum (radix_val 2 bs 0)), r3)     (* BINNUMBER % *)
      else if Ascii.eqb c "$" then
        if starts_with is_hex r then
          let '(hs, r3) := take_while is_hex r in Some (Some (TNum (radix_val 16 hs 0)), r3)  (* HEXNUMBER $ *)
        else None
      else if is_space c then Some (None, r)                (* SKIP *)
      else if char_in c glyph_chars then Some (Some (TGlyph (String c EmptyString)), r)       (* GLYPH *)
      else if Ascii.eqb c ";" then Some (None, EmptyString) (* COMMENT *)
      else None                                             (* STRING or unexpected character *)
  end.

Fixpoint lex_fuel (n : nat) (s : string) : option (list token) :=
  match n with
  | O => None
  | S n' =>
      match s with
      | EmptyString => Some []
      | _ =>
          match lex_step s with
          | Some (ot, r) =>
              match lex_fuel n' r with
              | Some ts => Some (match ot with Some t => t :: ts | None => ts end)
              | None => None
              end
          | None => None
          end
      end
  end.

(* every step consumes at least one character *)
Definition lex (s : string) : option (list token) := lex_fuel (S (String.length s)) s.

(* ---------------------------------------------------------------- printed text *)
Definition atom_text (regs : list regclass) (a : atom) (ops : list opv) : option (string * list opv) :=
  match a with
  | ASp => Some (" "%string, ops)
  | ALit w => Some (w, ops)
  | AGl g => Some (g, ops)
  | AReg c =>
      match ops with
      | VReg k :: r =>
          match nth_error (rc_regs (rc_at regs c)) k with
          | Some (nm, _) => Some (nm, r)
          | None => None
          end
      | _ => None
      end
  | AImm => match ops with VImm z :: r => Some (print_number z, r) | _ => None end
  | ALab => match ops with VLabel s :: r => Some (s, r) | _ => None end
  | AOther => None
  end.

(* Syntax.render: str(instruction) *)
Fixpoint render_text (regs : list regclass) (syn : list atom) (ops : list opv) : option string :=
  match syn with
  | [] => match ops with [] => Some EmptyString | _ => None end
  | a :: r =>
      match atom_text regs a ops with
      | Some (t, ops') =>
          match render_text regs r ops' with
          | Some t' => Some (t ++ t')%string
          | None => None
          end
      | None => None
      end
  end.

(* side conditions of the text level: literals / register names are identifiers, glyphs are single glyph characters *)
Definition glyph_ok (g : string) : bool :=
  match g with
  | String c EmptyString => char_in c glyph_chars
  | _ => false
  end.

Definition text_atom_ok (regs : list regclass) (a : atom) : bool :=
  match a with
  | ALit w => is_ident w
  | AGl g => glyph_ok g
  | AReg c => forallb (fun p => is_ident (fst p)) (rc_regs (rc_at regs c))
  | AOther => false
  | _ => true
  end.

Definition text_entry_ok (regs : list regclass) (e : sentry) : bool := forallb (text_atom_ok regs) (s_syn e).

Definition ops_text_ok (ops : list opv) : bool :=
  forallb (fun v => match v with VLabel s => is_ident s | _ => true end) ops.

(* $int$ reading of a whole text: NUMBER | - NUMBER *)
Definition parse_number (s : string) : option Z :=
  match lex s with
  | Some [TNum n] => Some n
  | Some [TGlyph g; TNum n] => if String.eqb g "-" then Some (- n) else None
  | _ => None
  end.
