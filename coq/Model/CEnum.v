(* Model/CEnum.v — hand model (tie H) of ppci/lang/c/context.py CContext._calculate_enum_values (reached through
   CContext.get_enum_value, i.e. ConstantExpressionEvaluator.eval_enum and every use of an enumeration constant):

       value = 0
       for constant in ctyp.constants:
           if constant.value:
               value = self.eval_expr(constant.value)
           int_bits = 8 * self.type_size_map[BasicType.INT][0]
           if not isinstance(value, int) or not (-(1 << (int_bits - 1)) <= value < (1 << (int_bits - 1))):
               self.error(...)                       # CompilerError
           self._enum_values[constant] = value
           value += 1

   [constant.value] is the typed AST of the defining expression (on_enum_value does not coerce it) or None.
   The result lists _enum_values[constant] in declaration order. NO proofs here. *)
From PV Require Import Lib.Py Lib.Val Spec.CIntSpec Gen.ceval Model.CEval.
Open Scope Z_scope.

Fixpoint enum_values_from (c : cctx) (value : Z) (l : list (option cexpr)) : result (list Z) :=
  match l with
  | [] => Ok []
  | d :: r =>
      value <- (match d with Some e => eval_expr c e | None => Ok value end) ;;
      let int_bits := 8 * int_size c in
      if negb ((- Z.shiftl 1 (int_bits - 1) <=? value) && (value <? Z.shiftl 1 (int_bits - 1))) then Diag 27
      else vs <- enum_values_from c (value + 1) r ;; Ok (value :: vs)
  end.

Definition enum_values (c : cctx) (l : list (option cexpr)) : result (list Z) := enum_values_from c 0 l.
