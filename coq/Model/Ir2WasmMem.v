(* Model/Ir2WasmMem.v — load / store opcode selection of ppci2wasm.do_tree (load_opcodes,
   store_opcodes; static offset 0) as rows (IR type, wasm container, bytes accessed, sign extend),
   and what a row has to satisfy.  No proofs.  The wasm side is Spec/WasmMemSpec.v (C22, read
   only): mem_load / mem_store on a flat little-endian byte memory; the IR side is IRSem's
   load_val / store_val reading: scalar_bytes bytes, le_decode then wrap_ty, le_encode. *)
From Coq Require Import ZArith List Bool.
Import ListNotations.
From PV Require Import Spec.IRSyntax Spec.IRSem Spec.WasmNumSpec Spec.WasmMemSpec Model.Ir2WasmOps.
Open Scope Z_scope.

Definition bytes_of (t : ty) : nat :=
  match t with
  | I8 | U8 => 1 | I16 | U16 => 2 | I32 | U32 | Ptr => 4 | I64 | U64 => 8 | _ => 0
  end%nat.

Definition byte_mem (mem : list Z) : Prop := Forall (fun b => 0 <= b < 256) mem.

Definition load_rowT := (ty * width * nat * bool)%type.
Definition store_rowT := (ty * width * nat)%type.

(* iN.loadK_sx with offset 0 at address a delivers the representation of the value the IR load
   yields from the same bytes *)
Definition load_row (c : cfg) (r : load_rowT) : Prop :=
  let '(t, cw, n, sx) := r in
  scalar_bytes c t = ODone (Z.of_nat n) /\
  forall mem a, byte_mem mem -> 0 <= a -> a + Z.of_nat n <= mlen mem ->
    exists z, wrap_ty c t (le_decode (firstn n (skipn (Z.to_nat a) mem))) = Some z /\
              mem_load mem n sx (bits cw) a 0 = Some (rep cw z).

(* iN.storeK with offset 0 writes exactly the bytes the IR store writes (le_encode of the value) *)
Definition store_row (c : cfg) (r : store_rowT) : Prop :=
  let '(t, cw, n) := r in
  scalar_bytes c t = ODone (Z.of_nat n) /\
  forall mem a v, in_range_ty c t v -> 0 <= a -> a + Z.of_nat n <= mlen mem ->
    mem_store mem n a 0 (rep cw v) =
    Some (firstn (Z.to_nat a) mem ++ le_encode v n ++ skipn (Z.to_nat a + n) mem).

Definition width_eqb (a b : width) : bool :=
  match a, b with W32, W32 | W64, W64 => true | _, _ => false end.

(* rows that are proved: right container, right number of bytes, sign extension as the type's
   signedness unless the access fills the container *)
Definition load_good (r : load_rowT) : bool :=
  let '(t, cw, n, sx) := r in
  match container t with
  | Some cw' =>
      width_eqb cw cw' && Nat.eqb n (bytes_of t) && negb (Nat.eqb n 0)
      && (Bool.eqb sx (ty_signed t) || Z.eqb (8 * Z.of_nat n) (bits cw))
  | None => false
  end.
Definition store_good (r : store_rowT) : bool :=
  let '(t, cw, n) := r in
  match container t with
  | Some cw' => width_eqb cw cw' && Nat.eqb n (bytes_of t) && negb (Nat.eqb n 0)
  | None => false
  end.
