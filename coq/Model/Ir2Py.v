(* Model/Ir2Py.v — hand model (tie H) of the statement generators of
   ppci/lang/python/ir2py.py (gen_binop, Unop case of generate_instruction, gen_cast, fill_phis,
   gen_load/gen_store over the emitted load_/store_/read_mem/write_mem helpers).
   An IR instruction is mapped to the list of Python statements the generator emits, over a small
   Python AST; [show_*] prints the exact emitted text (compared with the real output on every run);
   [exec] gives the statements their CPython meaning, calling the py2coq translation of the emitted
   runtime helpers (Gen.ir2py_runtime).  No proofs here. *)
From PV Require Import Lib.Py Spec.IRSemArith Gen.ir2py_runtime.
From Coq Require Import String DecimalString.
Open Scope Z_scope.

(* ------------------------------------------------------------------ Python values / AST *)
Inductive pyval := PInt (z : Z) | PFloat (x : fl).

Inductive pybin := PAdd | PSub | PMul | POr | PAnd | PXor
                 | PRol | PRor.     (* "a rol b": emitted verbatim, not Python *)
Inductive pyun := PNeg | PInv.

Inductive expr :=
  | EVar (x : string)
  | EBin (o : pybin) (a b : expr)                 (* a <o> b *)
  | EUn (o : pyun) (a : expr)                     (* <o>a *)
  | ECorrect (e : expr) (bits : Z) (sg : bool)    (* rt.correct(e, bits, sg) *)
  | EIdiv (a b : expr) | EIrem (a b : expr)       (* rt.idiv(a, b) *)
  | EIshl (a b : expr) (bits : Z) | EIshr (a b : expr) (bits : Z)
  | EIntRound (e : expr)                          (* int(round(e)) *)
  | EIntTrunc (e : expr).                         (* int(e) *)

Inductive stmt := SAssign (x : string) (e : expr).

Definition pyenv := list (string * pyval).
Fixpoint getv (en : pyenv) (x : string) : result pyval :=
  match en with
  | [] => Internal (OtherI 3)                      (* NameError *)
  | (y, v) :: r => if String.eqb x y then Ok v else getv r x
  end.

(* CPython: round(x) for a float = nearest integer, ties to even; int(x) truncates;
   both raise on inf (OverflowError) / nan (ValueError). Finite float = num/den, den > 0. *)
Definition round_half_even (n d : Z) : Z :=
  let q := n / d in let r := n mod d in
  if 2 * r <? d then q else if d <? 2 * r then q + 1 else if Z.even q then q else q + 1.

Definition as_int (v : pyval) : result Z :=
  match v with PInt z => Ok z | PFloat _ => Internal (OtherI 99) (* float arithmetic: not modelled *) end.

Definition bin_int (o : pybin) (a b : Z) : result Z :=
  match o with
  | PAdd => Ok (a + b) | PSub => Ok (a - b) | PMul => Ok (a * b)
  | POr => Ok (Z.lor a b) | PAnd => Ok (Z.land a b) | PXor => Ok (Z.lxor a b)
  | PRol | PRor => Internal (OtherI 1)            (* SyntaxError when the module is loaded *)
  end.

Fixpoint eval (en : pyenv) (e : expr) : result pyval :=
  match e with
  | EVar x => getv en x
  | EBin o a b => x <- (v <- eval en a ;; as_int v) ;; y <- (v <- eval en b ;; as_int v) ;;
                  r <- bin_int o x y ;; Ok (PInt r)
  | EUn o a => x <- (v <- eval en a ;; as_int v) ;;
               Ok (PInt (match o with PNeg => - x | PInv => Z.lnot x end))
  | ECorrect a bits sg => x <- (v <- eval en a ;; as_int v) ;; r <- correct x bits sg ;; Ok (PInt r)
  | EIdiv a b => x <- (v <- eval en a ;; as_int v) ;; y <- (v <- eval en b ;; as_int v) ;;
                 r <- idiv x y ;; Ok (PInt r)
  | EIrem a b => x <- (v <- eval en a ;; as_int v) ;; y <- (v <- eval en b ;; as_int v) ;;
                 r <- irem x y ;; Ok (PInt r)
  | EIshl a b bits => x <- (v <- eval en a ;; as_int v) ;; y <- (v <- eval en b ;; as_int v) ;;
                      r <- ishl x y bits ;; Ok (PInt r)
  | EIshr a b bits => x <- (v <- eval en a ;; as_int v) ;; y <- (v <- eval en b ;; as_int v) ;;
                      r <- ishr x y bits ;; Ok (PInt r)
  | EIntRound a =>
      v <- eval en a ;;
      match v with
      | PInt z => Ok (PInt z)
      | PFloat (FFinite n d) => Ok (PInt (round_half_even n d))
      | PFloat (FInf _) => Internal OverflowErr
      | PFloat FNaN => Internal ValueErrorI
      end
  | EIntTrunc a =>
      v <- eval en a ;;
      match v with
      | PInt z => Ok (PInt z)
      | PFloat (FFinite n d) => Ok (PInt (Z.quot n d))
      | PFloat (FInf _) => Internal OverflowErr
      | PFloat FNaN => Internal ValueErrorI
      end
  end.

Fixpoint exec (en : pyenv) (ss : list stmt) : result pyenv :=
  match ss with
  | [] => Ok en
  | SAssign x e :: r => v <- eval en e ;; exec ((x, v) :: en) r
  end.

(* run the statements and read an integer variable *)
Definition run_int (ss : list stmt) (en : pyenv) (x : string) : result Z :=
  en' <- exec en ss ;; v <- getv en' x ;; as_int v.

(* ------------------------------------------------------------------ printing (exact emitted text) *)
Definition show_Z (z : Z) : string := NilZero.string_of_int (Z.to_int z).
Definition show_bool (b : bool) : string := if b then "True" else "False".
Definition show_bin (o : pybin) : string :=
  match o with PAdd => "+" | PSub => "-" | PMul => "*" | POr => "|" | PAnd => "&" | PXor => "^"
             | PRol => "rol" | PRor => "ror" end.
Definition show_un (o : pyun) : string := match o with PNeg => "-" | PInv => "~" end.
Fixpoint show_expr (e : expr) : string :=
  match e with
  | EVar x => x
  | EBin o a b => show_expr a ++ " " ++ show_bin o ++ " " ++ show_expr b
  | EUn o a => show_un o ++ show_expr a
  | ECorrect a bits sg => "rt.correct(" ++ show_expr a ++ ", " ++ show_Z bits ++ ", " ++ show_bool sg ++ ")"
  | EIdiv a b => "rt.idiv(" ++ show_expr a ++ ", " ++ show_expr b ++ ")"
  | EIrem a b => "rt.irem(" ++ show_expr a ++ ", " ++ show_expr b ++ ")"
  | EIshl a b bits => "rt.ishl(" ++ show_expr a ++ ", " ++ show_expr b ++ ", " ++ show_Z bits ++ ")"
  | EIshr a b bits => "rt.ishr(" ++ show_expr a ++ ", " ++ show_expr b ++ ", " ++ show_Z bits ++ ")"
  | EIntRound a => "int(round(" ++ show_expr a ++ "))"
  | EIntTrunc a => "int(" ++ show_expr a ++ ")"
  end%string.
Definition show_stmt (s : stmt) : string :=
  match s with SAssign x e => (x ++ " = " ++ show_expr e)%string end.
Definition show_stmts (ss : list stmt) : list string := map show_stmt ss.

(* ------------------------------------------------------------------ the generators *)
(* gen_binop, branch ins.ty.is_integer *)
Definition gen_binop (op : binop) (name a b : string) (t : ity) : list stmt :=
  let first :=
    match op with
    | Div => EIdiv (EVar a) (EVar b)
    | Rem => EIrem (EVar a) (EVar b)
    | Shl => EIshl (EVar a) (EVar b) (bits t)
    | Shr => EIshr (EVar a) (EVar b) (bits t)
    | Add => EBin PAdd (EVar a) (EVar b) | Sub => EBin PSub (EVar a) (EVar b)
    | Mul => EBin PMul (EVar a) (EVar b) | Or => EBin POr (EVar a) (EVar b)
    | And => EBin PAnd (EVar a) (EVar b) | Xor => EBin PXor (EVar a) (EVar b)
    | Rol => EBin PRol (EVar a) (EVar b) | Ror => EBin PRor (EVar a) (EVar b)
    end in
  [SAssign name first; SAssign name (ECorrect (EVar name) (bits t) (signed t))].

(* generate_instruction, ir.Unop with integer type *)
Definition gen_unop (op : unop) (name a : string) (t : ity) : list stmt :=
  [SAssign name (EUn (match op with Neg => PNeg | Inv => PInv end) (EVar a));
   SAssign name (ECorrect (EVar name) (bits t) (signed t))].

(* gen_cast with integer destination type. The /repo version converts with int(round(src));
   the repaired version (fixes/C24-cast-trunc.diff) with int(src). *)
Inductive cast_variant := CastRound | CastTrunc.
Definition gen_cast (cv : cast_variant) (name src : string) (dst : ity) : list stmt :=
  [SAssign name (ECorrect (match cv with CastRound => EIntRound (EVar src) | CastTrunc => EIntTrunc (EVar src) end)
                          (bits dst) (signed dst))].

(* one-instruction programs: operands a, b; result r *)
Definition py_binop (op : binop) (t : ity) (a b : Z) : result Z :=
  run_int (gen_binop op "r" "a" "b" t) [("a", PInt a); ("b", PInt b)]%string "r".
Definition py_unop (op : unop) (t : ity) (a : Z) : result Z :=
  run_int (gen_unop op "r" "a" t) [("a", PInt a)]%string "r".
Definition py_cast_int (cv : cast_variant) (dst : ity) (a : Z) : result Z :=
  run_int (gen_cast cv "r" "a" dst) [("a", PInt a)]%string "r".
Definition py_cast_float (cv : cast_variant) (dst : ity) (x : fl) : result Z :=
  run_int (gen_cast cv "r" "a" dst) [("a", PFloat x)]%string "r".

(* gen_cjump: "if a <cond> b:" on Python ints *)
Definition py_cmp (c : cmpop) (a b : Z) : bool :=
  match c with
  | CEq => a =? b | CLt => a <? b | CGt => b <? a
  | CGe => b <=? a | CLe => a <=? b | CNe => negb (a =? b)
  end.

(* ------------------------------------------------------------------ phis *)
(* Python tuple assignment  t1, ..., tn = s1, ..., sn : all sources are read first, then the
   targets are bound left to right. Variables are numbered. *)
Section PhiModel.
  Context {V : Type}.
  Fixpoint read_all (en : @env V) (srcs : list nat) : result (list V) :=
    match srcs with
    | [] => Ok []
    | s :: r => match lookup en s with
                | None => Internal (OtherI 3)
                | Some v => vs <- read_all en r ;; Ok (v :: vs)
                end
    end.
  Fixpoint bind_all (en : @env V) (tv : list (nat * V)) : @env V :=
    match tv with [] => en | (t, v) :: r => bind_all ((t, v) :: en) r end.
  Definition tuple_assign (pairs : list (nat * nat)) (en : @env V) : result (@env V) :=
    vs <- read_all en (map snd pairs) ;; Ok (bind_all en (combine (map fst pairs) vs)).

  (* fill_phis as in /repo: at the end of the block, ONE tuple assignment for the phis of ALL
     successors (input: for every successor, its (phi, incoming value for this block) pairs) *)
  Definition fill_phis_all (succs : list (list (nat * nat))) (en : @env V) : result (@env V) :=
    tuple_assign (List.concat succs) en.
  (* repaired version (fixes/C24-phi-edge.diff): the assignment for the phis of the successor
     actually jumped to, emitted inside the branch *)
  Definition fill_phis_edge (target : list (nat * nat)) (en : @env V) : result (@env V) :=
    tuple_assign target en.
End PhiModel.

(* ------------------------------------------------------------------ memory helpers *)
(* CPython struct in native mode on a little-endian host, integer formats *)
Definition fmt_info (c : string) : option (Z * bool) :=      (* size, signed *)
  if String.eqb c "b" then Some (1, true) else if String.eqb c "B" then Some (1, false)
  else if String.eqb c "h" then Some (2, true) else if String.eqb c "H" then Some (2, false)
  else if String.eqb c "i" then Some (4, true) else if String.eqb c "I" then Some (4, false)
  else if String.eqb c "q" then Some (8, true) else if String.eqb c "Q" then Some (8, false)
  else None.

Fixpoint pack_le (n : nat) (u : Z) : list Z :=
  match n with O => [] | S k => Z.land u 255 :: pack_le k (Z.shiftr u 8) end.
Fixpoint unpack_le (bs : list Z) : Z :=
  match bs with [] => 0 | b :: r => Z.lor b (Z.shiftl (unpack_le r) 8) end.

Definition struct_pack (c : string) (v : Z) : result (list Z) :=
  match fmt_info c with
  | None => Internal (OtherI 99)                       (* float formats: not modelled *)
  | Some (sz, sg) =>
      let lo := if sg then - 2 ^ (8 * sz - 1) else 0 in
      let hi := if sg then 2 ^ (8 * sz - 1) else 2 ^ (8 * sz) in
      if (lo <=? v) && (v <? hi)
      then Ok (pack_le (Z.to_nat sz) (if v <? 0 then v + 2 ^ (8 * sz) else v))
      else Internal StructError
  end.
Definition struct_unpack (c : string) (data : list Z) : result Z :=
  match fmt_info c with
  | None => Internal (OtherI 99)
  | Some (sz, sg) =>
      if len data =? sz then
        let u := unpack_le data in
        Ok (if sg && (2 ^ (8 * sz - 1) <=? u) then u - 2 ^ (8 * sz) else u)
      else Internal StructError
  end.

(* read_mem / write_mem on one bytearray, address already relative to it (get_memory) and >= 0 *)
Definition read_mem (mem : list Z) (address size : Z) : result (list Z) :=
  guard (address + size <=? len mem) (Internal AssertionError) (Ok (sliceZ mem address (address + size))).
Definition write_mem (mem : list Z) (address : Z) (data : list Z) : result (list Z) :=
  let size := len data in
  guard (address + size <=? len mem) (Internal AssertionError)
        (Ok (app (firstn (Z.to_nat address) mem) (app data (skipn (Z.to_nat (address + size)) mem)))).

(* emitted load_<ty> / store_<ty>, through the exported table Gen.ir2py_runtime.ls_table *)
Definition ls_row (ty : string) : option (string * Z * string) :=
  match find (fun r => String.eqb (fst (fst (fst r))) ty) ls_table with
  | Some (_, lf, sz, sf) => Some (lf, sz, sf)
  | None => None
  end.
Definition load (ty : string) (mem : list Z) (address : Z) : result Z :=
  match ls_row ty with
  | None => Internal (OtherI 4)                        (* AttributeError *)
  | Some (lf, sz, _) => data <- read_mem mem address sz ;; struct_unpack lf data
  end.
Definition store (ty : string) (mem : list Z) (address value : Z) : result (list Z) :=
  match ls_row ty with
  | None => Internal (OtherI 4)
  | Some (_, _, sf) => data <- struct_pack sf value ;; write_mem mem address data
  end.

(* IR integer type names *)
Definition ity_name (t : ity) : string :=
  ((if signed t then "i" else "u") ++ show_Z (bits t))%string.
