(* Model/X86AbiTypes.v — data types shared by the exported tables (Gen/Tab_x86abi.v) and the hand
   model (Model/X86Abi.v) of ppci/arch/x86_64/arch.py. Definitions only. *)
From PV Require Import Lib.Py Lib.Val.
From Coq Require Import String.
Open Scope Z_scope.

(* ppci.ir scalar types that x86_64 determine_arg_locations accepts *)
Inductive ity := I8 | I16 | I32 | I64 | U8 | U16 | U32 | U64 | PTR | F32 | F64.

Definition ity_eqb (a b : ity) : bool :=
  match a, b with
  | I8, I8 | I16, I16 | I32, I32 | I64, I64 | U8, U8 | U16, U16 | U32, U32 | U64, U64
  | PTR, PTR | F32, F32 | F64, F64 => true
  | _, _ => false
  end.
Definition all_ity : list ity := [I8; I16; I32; I64; U8; U16; U32; U64; PTR; F32; F64].

(* ppci register classes of registers.py: Register8/16/32/64, XmmRegisterSingle/Double *)
Inductive rcls := R8c | R16c | R32c | R64c | XSc | XDc.
Definition rcls_eqb (a b : rcls) : bool :=
  match a, b with
  | R8c, R8c | R16c, R16c | R32c, R32c | R64c, R64c | XSc, XSc | XDc, XDc => true
  | _, _ => false
  end.
Definition rcls_bits (c : rcls) : Z :=    (* the bitsize class attribute *)
  match c with R8c => 8 | R16c => 16 | R32c => 32 | R64c => 64 | XSc => 32 | XDc => 64 end.
Definition rcls_tag (c : rcls) : Z :=
  match c with R8c => 8 | R16c => 16 | R32c => 32 | R64c => 64 | XSc => 132 | XDc => 164 end.

(* a ppci Register object: name, num (= color), class *)
Record reg := mkreg { rname : string; rnum : Z; rclass : rcls }.
Definition reg_eqb (a b : reg) : bool :=
  String.eqb (rname a) (rname b) && (rnum a =? rnum b) && rcls_eqb (rclass a) (rclass b).

(* result of determine_arg_locations for one argument: a Register or StackLocation(offset, size) *)
Inductive aloc := LReg (r : reg) | LStack (off size : Z).

(* abstract view of the instruction lists yielded by gen_call / gen_function_enter /
   gen_prologue / gen_epilogue; argument values are referred to by argument index *)
Inductive mop :=
  | MLabel
  | MPush (r : reg)                 (* Push / PushXmmRegister*  of a real register *)
  | MPop (r : reg)
  | MPushArg (i : nat)              (* push of the virtual register holding argument i (via rax for 32 bit) *)
  | MSub (n : Z) | MAdd (n : Z)     (* SubImm(rsp, n) / AddImm(rsp, n) *)
  | MMovFpSp                        (* mov rbp, rsp *)
  | MArgToReg (r : reg) (i : nat)   (* caller: argument i moved into its location register *)
  | MCall
  | MRvFrom (r : reg)               (* caller: result copied out of r *)
  | MArgFromReg (i : nat) (r : reg)        (* callee: parameter i copied out of register r *)
  | MArgFromStack (i : nat) (off : Z) (bits : Z)  (* callee: parameter i loaded from [rbp + off] *)
  | MRet.

(* ---- rendering for correspondence case files (numeric tags: string literals are slow to parse;
   register names are not compared, num and class are) ---- *)
#[global] Instance ToVal_reg : ToVal reg :=
  fun r => VT [VZ (rnum r); VZ (rcls_tag (rclass r))].
#[global] Instance ToVal_aloc : ToVal aloc :=
  fun l => match l with
           | LReg r => VT [VZ 0; toval r]
           | LStack o s => VT [VZ 1; VZ o; VZ s]
           end.
#[global] Instance ToVal_mop : ToVal mop :=
  fun o => match o with
           | MLabel => VT [VZ 0]
           | MPush r => VT [VZ 1; toval r]
           | MPop r => VT [VZ 2; toval r]
           | MPushArg i => VT [VZ 3; VZ (Z.of_nat i)]
           | MSub n => VT [VZ 4; VZ n]
           | MAdd n => VT [VZ 5; VZ n]
           | MMovFpSp => VT [VZ 6]
           | MArgToReg r i => VT [VZ 7; toval r; VZ (Z.of_nat i)]
           | MCall => VT [VZ 8]
           | MRvFrom r => VT [VZ 9; toval r]
           | MArgFromReg i r => VT [VZ 10; VZ (Z.of_nat i); toval r]
           | MArgFromStack i off b => VT [VZ 11; VZ (Z.of_nat i); VZ off; VZ b]
           | MRet => VT [VZ 12]
           end.

(* ---- digest of a rendered value: correspondence cases compare one integer per case instead of a
   large literal (parsing big list literals dominates the run time otherwise). The harness computes
   the same polynomial hash over the implementation's value (tools/props/c40.py: pyhash). ---- *)
Definition hmix (h x : Z) : Z := (h * 1000003 + x + 12345) mod 2305843009213693951.
Fixpoint vhash (h : Z) (v : val) {struct v} : Z :=
  let fix lh (h : Z) (l : list val) {struct l} : Z :=
    match l with
    | [] => hmix h 17
    | x :: r => lh (vhash h x) r
    end in
  match v with
  | VZ z => hmix (hmix h 1) z
  | VB b => hmix (hmix h 2) (if b then 1 else 0)
  | VS _ => hmix h 3
  | VL l => lh (hmix h 4) l
  | VT l => lh (hmix h 5) l
  | VNone => hmix h 6
  | VOk x => vhash (hmix h 7) x
  | VDiag => hmix h 8
  | VInternal => hmix h 9
  | VFuel => hmix h 10
  end.
Definition digest {A} `{ToVal A} (a : A) : Z := vhash 7 (toval a).
