(* Model/PhiCopy.v — hand model (tie H) of the phi lowering of ppci/codegen/irdag.py:
     SelectionGraphBuilder.copy_phis_of_successors   (moves chained at the end of a block)
     SelectionGraphBuilder.do_phi                    (which register the uses of a phi read)
   over a tiny move machine. Definitions only; proofs are in Proofs/C04_phicopy.v.

   Python (irdag.py):
       val_map = {}
       for succ_block in ir_block.successors:            # step 1
           for phi in succ_block.phis:
               from_val = phi.get_value(ir_block)
               val = self.get_value(from_val)
               vreg1 = self.new_vreg(phi.ty)
               MOV vreg1 <- val ; val_map[from_val] = vreg1
       for succ_block in ir_block.successors:            # step 2
           for phi in succ_block.phis:
               vreg = phi_map[phi] ; vreg1 = val_map[phi.get_value(ir_block)]
               MOV vreg <- REG vreg1
   The two loops run over the same flattened list of (successor, phi) pairs: [phis] below. *)
From Coq Require Import ZArith List Bool.
Import ListNotations.
Open Scope Z_scope.

Definition reg := Z.            (* a virtual register (frame.new_reg numbers them) *)
Definition key := Z.            (* identity of an ir.Value: the key of val_map / value_map *)

(* what the selection DAG holds for an IR value (get_value): a register, a constant, or an
   expression tree over registers that is evaluated where it is used *)
Inductive src :=
  | SReg (r : reg)
  | SConst (c : Z)
  | SFun (rs : list reg) (f : list Z -> Z).

Definition rstate := reg -> Z.

Definition reads (s : src) : list reg :=
  match s with SReg r => [r] | SConst _ => [] | SFun rs _ => rs end.

Definition eval (s : src) (e : rstate) : Z :=
  match s with SReg r => e r | SConst c => c | SFun rs f => f (map e rs) end.

Inductive move := Mov (d : reg) (s : src).

Definition upd (e : rstate) (d : reg) (v : Z) : rstate := fun r => if r =? d then v else e r.
Definition exec1 (e : rstate) (m : move) : rstate :=
  match m with Mov d s => upd e d (eval s e) end.
Definition exec (ms : list move) (e : rstate) : rstate := fold_left exec1 ms e.

(* one phi of a successor block, seen from the block that is being lowered *)
Record phi := mkphi {
  p_reg : reg;      (* function_info.phi_map[phi]: written by the predecessors *)
  p_val : reg;      (* the register the uses of the phi read: value_map[phi].vreg
                       (the same register as p_reg in the code as it was found) *)
  p_from : key      (* phi.get_value(ir_block) *)
}.

(* the Python dict val_map: newest binding first *)
Fixpoint lookup (k : key) (m : list (key * reg)) : option reg :=
  match m with
  | [] => None
  | (k', t) :: tl => if k' =? k then Some t else lookup k tl
  end.

(* step 1: temporaries next, next+1, ... in creation order (new_vreg is fresh) *)
Fixpoint step1 (vm : key -> src) (phis : list phi) (next : reg) (vmap : list (key * reg))
  : list move * list (key * reg) :=
  match phis with
  | [] => ([], vmap)
  | p :: tl =>
      let '(ms, vmap') := step1 vm tl (next + 1) ((p_from p, next) :: vmap) in
      (Mov next (vm (p_from p)) :: ms, vmap')
  end.

(* step 2: None = KeyError in val_map[from_val] (proved impossible) *)
Fixpoint step2 (phis : list phi) (vmap : list (key * reg)) : option (list move) :=
  match phis with
  | [] => Some []
  | p :: tl =>
      match lookup (p_from p) vmap, step2 tl vmap with
      | Some t, Some ms => Some (Mov (p_reg p) (SReg t) :: ms)
      | _, _ => None
      end
  end.

Definition copy_phis (vm : key -> src) (phis : list phi) (next : reg) : option (list move) :=
  let '(ms1, vmap) := step1 vm phis next [] in
  match step2 phis vmap with
  | Some ms2 => Some (ms1 ++ ms2)
  | None => None
  end.

(* do_phi at the head of a block: MOV p_val <- REG p_reg for each phi of the block (with
   p_val = p_reg these are the self moves the DAG splitter emits for the code as found) *)
Definition head_moves (ps : list phi) : list move :=
  map (fun p => Mov (p_val p) (SReg (p_reg p))) ps.

(* What the emitted code does on a control-flow edge: all phis of all successors are copied,
   then the terminator evaluates its operand [c], then the taken successor runs its head moves. *)
Definition edge_impl (vm : key -> src) (all taken : list phi) (next : reg) (c : src) (e : rstate)
  : option (Z * rstate) :=
  match copy_phis vm all next with
  | Some ms => let e1 := exec ms e in Some (eval c e1, exec (head_moves taken) e1)
  | None => None
  end.

(* ---- encodings for the model/implementation comparison (tools/props/c04.py) *)
From PV Require Import Lib.Py Lib.Val.
From Coq Require Import String.
Definition src_val (s : src) : val :=
  match s with
  | SReg r => VT [VS "r"; VZ r]
  | SConst c => VT [VS "c"; VZ c]
  | SFun rs _ => VT [VS "f"; VL (map VZ rs)]
  end.
Definition move_val (m : move) : val := match m with Mov d s => VT [VZ d; src_val s] end.
Definition moves_val (o : option (list move)) : val :=
  match o with Some ms => VL (map move_val ms) | None => VInternal end.
(* key -> src as an association list with a default *)
Fixpoint vm_of (l : list (key * src)) (k : key) : src :=
  match l with
  | [] => SConst 0
  | (k', s) :: tl => if k' =? k then s else vm_of tl k
  end.
Definition mkphis (l : list (reg * reg * key)) : list phi :=
  map (fun x => mkphi (fst (fst x)) (snd (fst x)) (snd x)) l.
Definition case_copy (vml : list (key * src)) (l : list (reg * reg * key)) (next : reg) : val :=
  moves_val (copy_phis (vm_of vml) (mkphis l) next).
Definition case_head (l : list (reg * reg * key)) : val :=
  VL (map move_val (head_moves (mkphis l))).
