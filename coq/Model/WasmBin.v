(* Model/WasmBin.v — C21 hand model (tie H) of ppci/wasm/binary/writer.py and reader.py over the
   tables exported into Gen/Tab_wasm_opcodes.v (tie I). Executable Gallina, NO proofs.

   Conventions
   * bytes = list Z; a reader consumes a prefix of its input and returns the rest.
   * Python str in names (import/export/custom) = its UTF-8 bytes; Python float immediates =
     the raw bytes struct.pack('<f'/'<d') produces (CPython's pack/unpack is trusted, see check).
   * Ref = (space, index); names of references and ids of definitions are not part of the
     binary format and are not modelled.
   * LEB128 is written in its recursive arithmetic form ([v mod 128], [v / 128]); the shape of
     ppci/utils/leb128.py (masks, shifts, accumulator) is the subject of C20. The model is
     cross-checked against the real functions by the correspondence of the check.
   * EOFError (reading past the end) = Internal (OtherI 1). *)
From PV Require Import Lib.Py Model.WasmTypes Gen.Tab_wasm_opcodes.
From Coq Require Import String.
Local Open Scope string_scope.
Local Open Scope list_scope.
Open Scope Z_scope.

Definition bytes := list Z.
Definition reader (A : Type) := bytes -> result (A * bytes).
Definition EOF {A} : result A := Internal (OtherI 1).

(* ------------------------------------------------------------------ utils/leb128.py *)
Fixpoint uleb_enc (fuel : nat) (v : Z) : result bytes :=
  match fuel with
  | O => OutOfFuel
  | S f =>
      let byte := v mod 128 in
      let v' := v / 128 in
      if v' =? 0 then Ok [byte]
      else r <- uleb_enc f v' ;; Ok ((byte + 128) :: r)
  end.

Definition unsigned_leb128_encode (fuel : nat) (v : Z) : result bytes :=
  if v <? 0 then Diag 1 else uleb_enc fuel v.

Fixpoint signed_leb128_encode (fuel : nat) (v : Z) : result bytes :=
  match fuel with
  | O => OutOfFuel
  | S f =>
      let byte := v mod 128 in
      let v' := v / 128 in
      let sign_bit := 64 <=? byte in
      if ((v' =? 0) && negb sign_bit) || ((v' =? -1) && sign_bit) then Ok [byte]
      else r <- signed_leb128_encode f v' ;; Ok ((byte + 128) :: r)
  end.

Fixpoint unsigned_leb128_decode (bs : bytes) : result (Z * bytes) :=
  match bs with
  | [] => EOF
  | b :: r =>
      if b <? 128 then Ok (b, r)
      else '(v, r') <- unsigned_leb128_decode r ;; Ok (b - 128 + 128 * v, r')
  end.

Fixpoint signed_leb128_decode (bs : bytes) : result (Z * bytes) :=
  match bs with
  | [] => EOF
  | b :: r =>
      if b <? 128 then Ok ((if 64 <=? b then b - 128 else b), r)
      else '(v, r') <- signed_leb128_decode r ;; Ok (b - 128 + 128 * v, r')
  end.

(* ------------------------------------------------------------------ primitive writers *)
(* more than LEBFUEL bytes would fail every length check below, so OutOfFuel = that failure *)
Definition LEBFUEL : nat := 12%nat.

Definition write_vu32 (x : Z) : result bytes :=
  match unsigned_leb128_encode LEBFUEL x with
  | Ok bb => if len bb <=? 5 then Ok bb else Internal AssertionError
  | OutOfFuel => Internal AssertionError
  | e => e
  end.

Definition write_vu7 (x : Z) : result bytes :=
  match unsigned_leb128_encode LEBFUEL x with
  | Ok bb => if len bb =? 1 then Ok bb else Internal AssertionError
  | OutOfFuel => Internal AssertionError
  | e => e
  end.
Definition write_vu1 := write_vu7.

Definition write_vs32 (x : Z) : result bytes :=
  match signed_leb128_encode LEBFUEL x with
  | Ok bb => if len bb <=? 5 then Ok bb else Diag 2
  | OutOfFuel => Diag 2
  | e => e
  end.

Definition write_vs64 (x : Z) : result bytes :=
  match signed_leb128_encode LEBFUEL x with
  | Ok bb => if len bb <=? 10 then Ok bb else Diag 2
  | OutOfFuel => Diag 2
  | e => e
  end.

Definition write_type (t : string) : result bytes :=
  match assoc String.eqb lang_types t with
  | Some bb => Ok bb
  | None => Internal KeyError
  end.

Definition ref := (string * Z)%type.
Definition write_ref (r : ref) : result bytes := write_vu32 (snd r).

Definition write_str (s : bytes) : result bytes :=
  l <- write_vu32 (len s) ;; Ok (l ++ s).

Definition write_limits (mn : Z) (mx : option Z) : result bytes :=
  match mx with
  | None => a <- write_vu32 mn ;; Ok (0 :: a)
  | Some m => a <- write_vu32 mn ;; b <- write_vu32 m ;; Ok (1 :: a ++ b)
  end.

(* for x in l: write(x) *)
Fixpoint write_all {A} (w : A -> result bytes) (l : list A) : result bytes :=
  match l with
  | [] => Ok []
  | x :: r => a <- w x ;; b <- write_all w r ;; Ok (a ++ b)
  end.

(* ------------------------------------------------------------------ primitive readers *)
Definition read_byte : reader Z :=
  fun bs => match bs with [] => EOF | b :: r => Ok (b, r) end.

Definition read_exactly (n : Z) : reader bytes :=
  fun bs =>
    if n <? 0 then Diag 3
    else if len bs <? n then EOF
    else Ok (firstn (Z.to_nat n) bs, skipn (Z.to_nat n) bs).

Definition read_uint : reader Z := unsigned_leb128_decode.
Definition read_int : reader Z := signed_leb128_decode.

Definition read_length_prefixed_bytes : reader bytes :=
  fun bs => '(n, r) <- read_uint bs ;; read_exactly n r.
Definition read_str : reader bytes := read_length_prefixed_bytes.

Definition read_type : reader string :=
  fun bs =>
    '(b, r) <- read_byte bs ;;
    match assoc Z.eqb lang_types_reverse b with
    | Some t => Ok (t, r)
    | None => Internal KeyError
    end.

Definition read_limits : reader (Z * option Z) :=
  fun bs =>
    '(p, r) <- read_byte bs ;;
    if negb ((p =? 0) || (p =? 1)) then Internal AssertionError
    else
      '(mn, r1) <- read_uint r ;;
      if p =? 0 then Ok ((mn, None), r1)
      else '(mx, r2) <- read_uint r1 ;; Ok ((mn, Some mx), r2).

Definition read_space_ref (space : string) : reader ref :=
  fun bs => '(i, r) <- read_uint bs ;; Ok ((space, i), r).

(* [rd() for _ in range(n)] *)
Fixpoint read_vec {A} (n : nat) (rd : reader A) : reader (list A) :=
  fun bs =>
    match n with
    | O => Ok ([], bs)
    | S n' => '(x, r) <- rd bs ;; '(l, r') <- read_vec n' rd r ;; Ok (x :: l, r')
    end.

(* ------------------------------------------------------------------ instructions *)
Inductive arg :=
  | AInt (z : Z)
  | AStr (s : string)                 (* a value type / block type name *)
  | ARef (space : string) (idx : Z)
  | AFloat (raw : bytes)              (* struct.pack of the Python float *)
  | ARefs (l : list ref)              (* br_table *)
  | AStrs (l : list string)           (* result_types *)
  | ABytes (l : bytes).               (* U8x16 (reader only) *)

Record instr := Instr { i_op : string; i_args : list arg }.

Definition truthy_arg (a : arg) : bool :=
  match a with
  | AInt z => negb (z =? 0)
  | AStr s => negb (String.eqb s "")
  | ARef _ _ => true
  | AFloat _ => true
  | ARefs l => negb (Nat.eqb (List.length l) 0)
  | AStrs l => negb (Nat.eqb (List.length l) 0)
  | ABytes l => negb (Nat.eqb (List.length l) 0)
  end.

(* wfm[o](self, arg) *)
Definition write_meth (m : wmeth) (a : arg) : result bytes :=
  match m, a with
  | WType, AStr s => write_type s
  | WByte, AInt z => if is_byte z then Ok [z] else Diag 5
  | WVu32, AInt z => write_vu32 z
  | WRef, ARef sp i => write_ref (sp, i)
  | WRef, _ => Internal AssertionError
  | WVs32, AInt z => write_vs32 z
  | WVs64, AInt z => write_vs64 z
  | WF32, AFloat raw => if (len raw =? 4) && all_byte raw then Ok raw else Internal StructError
  | WF64, AFloat raw => if (len raw =? 8) && all_byte raw then Ok raw else Internal StructError
  | _, _ => Internal TypeError
  end.

Definition write_arg (eff : code) (k : akind) (a : arg) : result bytes :=
  match assoc akind_eqb wfm k with
  | Some m => write_meth m a
  | None =>
      match k, a with
      | KBrTable, ARefs l =>
          c <- write_vu32 (len l - 1) ;; b <- write_all write_ref l ;; Ok (c ++ b)
      | KResultTypes, AStrs l =>
          if code_eqb eff (28, None) then
            c <- write_vu32 (len l) ;; b <- write_all write_type l ;; Ok (c ++ b)
          else Ok []
      | _, _ => Internal TypeError
      end
  end.

(* for o, arg in zip(operands, args) — the lengths were asserted equal *)
Fixpoint write_args (eff : code) (ks : list akind) (args : list arg) : result bytes :=
  match ks, args with
  | k :: ks', a :: args' => x <- write_arg eff k a ;; y <- write_args eff ks' args' ;; Ok (x ++ y)
  | _, _ => Ok []
  end.

(* the opcode actually written: 0x1C (select with result types) degrades to 0x1B when the
   first argument is falsy *)
Definition effective_code (c : code) (args : list arg) : result code :=
  match c with
  | (b, Some sub) => Ok c
  | (b, None) =>
      if b =? 28 then
        match args with
        | [] => Internal IndexError
        | a :: _ => if truthy_arg a then Ok c else Ok (27, None)
        end
      else Ok c
  end.

Definition write_instruction (i : instr) : result bytes :=
  match assoc String.eqb opcodes (i_op i) with
  | None => Internal KeyError
  | Some c =>
      eff <- effective_code c (i_args i) ;;
      prefix <- match eff with
                | (b, Some sub) => s <- write_vu32 sub ;; Ok (b :: s)
                | (b, None) => Ok [b]
                end ;;
      match assoc String.eqb operands (i_op i) with
      | None => Internal KeyError
      | Some ks =>
          if negb (Nat.eqb (List.length ks) (List.length (i_args i))) then Internal AssertionError
          else body <- write_args eff ks (i_args i) ;; Ok (prefix ++ body)
      end
  end.

Definition write_instructions (l : list instr) : result bytes := write_all write_instruction l.

Definition write_expression (l : list instr) : result bytes :=
  a <- write_instructions l ;; e <- write_instruction (Instr "end" []) ;; Ok (a ++ e).

(* rfm[operand](self) *)
Definition read_meth (m : rmeth) : reader arg :=
  fun bs =>
    match m with
    | RType => '(t, r) <- read_type bs ;; Ok (AStr t, r)
    | RByte => '(b, r) <- read_byte bs ;; Ok (AInt b, r)
    | RUint => '(v, r) <- read_uint bs ;; Ok (AInt v, r)
    | RInt => '(v, r) <- read_int bs ;; Ok (AInt v, r)
    | RSpaceRef sp => '(x, r) <- read_space_ref sp bs ;; Ok (ARef (fst x) (snd x), r)
    | RF32 => '(d, r) <- read_exactly 4 bs ;; Ok (AFloat d, r)
    | RF64 => '(d, r) <- read_exactly 8 bs ;; Ok (AFloat d, r)
    | RExactly n => '(d, r) <- read_exactly n bs ;; Ok (ABytes d, r)
    end.

Definition read_arg (key : code) (k : akind) : reader arg :=
  fun bs =>
    match assoc akind_eqb rfm k with
    | Some m => read_meth m bs
    | None =>
        match k with
        | KBrTable =>
            '(count, r) <- read_uint bs ;;
            '(vec, r') <- read_vec (Z.to_nat (count + 1)) (read_space_ref "label") r ;;
            Ok (ARefs vec, r')
        | KResultTypes =>
            if code_eqb key (28, None) then
              '(count, r) <- read_uint bs ;;
              '(vec, r') <- read_vec (Z.to_nat count) read_type r ;;
              Ok (AStrs vec, r')
            else Ok (AStrs [], bs)
        | _ => Internal NotImplemented
        end
    end.

Fixpoint read_args (key : code) (ks : list akind) : reader (list arg) :=
  fun bs =>
    match ks with
    | [] => Ok ([], bs)
    | k :: ks' => '(a, r) <- read_arg key k bs ;; '(l, r') <- read_args key ks' r ;; Ok (a :: l, r')
    end.

Definition read_instruction : reader instr :=
  fun bs =>
    '(b, r) <- read_byte bs ;;
    '(key, r1) <- (if (b =? 252) || (b =? 253)
                   then '(sub, r') <- read_uint r ;; Ok ((b, Some sub), r')
                   else Ok ((b, None), r)) ;;
    match assoc code_eqb reverz key with
    | None => Internal KeyError
    | Some op =>
        match assoc String.eqb operands op with
        | None => Internal KeyError
        | Some ks => '(args, r2) <- read_args key ks r1 ;; Ok (Instr op args, r2)
        end
    end.

Definition is_end (i : instr) : bool := String.eqb (i_op i) "end".
Definition is_block_start (i : instr) : bool :=
  String.eqb (i_op i) "if" || String.eqb (i_op i) "block" || String.eqb (i_op i) "loop".
Definition blocks_step (blocks : Z) (i : instr) : Z :=
  if is_end i then blocks - 1 else if is_block_start i then blocks + 1 else blocks.

(* read_expression: the do-while loop over read_instruction; returns expr[:-1] *)
Fixpoint read_expression_loop (fuel : nat) (blocks : Z) (expr : list instr) : reader (list instr) :=
  fun bs =>
    match fuel with
    | O => OutOfFuel
    | S f =>
        '(i, r) <- read_instruction bs ;;
        let blocks' := blocks_step blocks i in
        let expr' := expr ++ [i] in
        if blocks' =? 0 then
          (if is_end i then Ok (removelast expr', r) else Internal AssertionError)
        else read_expression_loop f blocks' expr' r
    end.

(* every instruction consumes at least one byte, so the input length bounds the iterations *)
Definition read_expression : reader (list instr) :=
  fun bs => read_expression_loop (S (List.length bs)) 1 [] bs.

(* ------------------------------------------------------------------ definitions *)
Inductive importinfo :=
  | IFunc (r : ref)
  | ITable (kind : string) (mn : Z) (mx : option Z)
  | IMemory (mn : Z) (mx : option Z)
  | IGlobal (typ : string) (mutable : bool).

Inductive defn :=
  | DType (params : list string) (results : list string)
  | DImport (modname name : bytes) (info : importinfo)
  | DTable (kind : string) (mn : Z) (mx : option Z)
  | DMemory (mn : Z) (mx : option Z)
  | DGlobal (typ : string) (mutable : bool) (init : list instr)
  | DExport (name : bytes) (kind : string) (r : ref)
  | DStart (r : ref)
  | DElem (tab : ref) (offset : list instr) (refs : list ref)
  | DFunc (r : ref) (locals : list string) (instructions : list instr)
  | DData (mode : option (ref * list instr)) (data : bytes)
  | DDataCount (n : Z)
  | DCustom (name : bytes) (data : bytes).

(* Definition.__name__ *)
Definition defn_name (d : defn) : string :=
  match d with
  | DType _ _ => "type" | DImport _ _ _ => "import" | DTable _ _ _ => "table"
  | DMemory _ _ => "memory" | DGlobal _ _ _ => "global" | DExport _ _ _ => "export"
  | DStart _ => "start" | DElem _ _ _ => "elem" | DFunc _ _ _ => "func" | DData _ _ => "data"
  | DDataCount _ => "datacount" | DCustom _ _ => "custom"
  end.

Definition export_kinds : list string := ["func"%string; "table"%string; "memory"%string; "global"%string].
Fixpoint index_of (s : string) (l : list string) (i : Z) : option Z :=
  match l with
  | [] => None
  | x :: r => if String.eqb x s then Some i else index_of s r (i + 1)
  end.

(* run-length compression of the locals (collects maximal runs of equal types) *)
Fixpoint local_entries (l : list string) : list (Z * string) :=
  match l with
  | [] => []
  | t :: r =>
      match local_entries r with
      | (c, t') :: es => if String.eqb t t' then (c + 1, t') :: es else (1, t) :: (c, t') :: es
      | [] => [(1, t)]
      end
  end.

Definition write_local_entry (e : Z * string) : result bytes :=
  a <- write_vu32 (fst e) ;; b <- write_type (snd e) ;; Ok (a ++ b).

Definition bool_byte (b : bool) : Z := if b then 1 else 0.

Definition write_definition (d : defn) : result bytes :=
  match d with
  | DType params results =>
      a <- write_vu32 (len params) ;; b <- write_all write_type params ;;
      c <- write_vu1 (len results) ;; e <- write_all write_type results ;;
      Ok (96 :: a ++ b ++ c ++ e)
  | DImport modname name info =>
      a <- write_str modname ;; b <- write_str name ;;
      c <- match info with
           | IFunc r => x <- write_ref r ;; Ok (0 :: x)
           | ITable kind mn mx => x <- write_type kind ;; y <- write_limits mn mx ;; Ok (1 :: x ++ y)
           | IMemory mn mx => y <- write_limits mn mx ;; Ok (2 :: y)
           | IGlobal typ mutable => x <- write_type typ ;; Ok (3 :: x ++ [bool_byte mutable])
           end ;;
      Ok (a ++ b ++ c)
  | DTable kind mn mx => x <- write_type kind ;; y <- write_limits mn mx ;; Ok (x ++ y)
  | DMemory mn mx => write_limits mn mx
  | DGlobal typ mutable init =>
      x <- write_type typ ;; e <- write_expression init ;; Ok (x ++ [bool_byte mutable] ++ e)
  | DExport name kind r =>
      a <- write_str name ;;
      match index_of kind export_kinds 0 with
      | None => Internal KeyError
      | Some id =>
          if negb (String.eqb (fst r) kind) then Internal AssertionError
          else x <- write_ref r ;; Ok (a ++ [id] ++ x)
      end
  | DStart r =>
      if negb (String.eqb (fst r) "func") then Internal AssertionError else write_ref r
  | DElem tab offset refs =>
      if negb (String.eqb (fst tab) "table") then Internal AssertionError
      else
        a <- write_ref tab ;; e <- write_expression offset ;; c <- write_vu32 (len refs) ;;
        if negb (forallb (fun r => String.eqb (fst r) "func") refs) then Internal AssertionError
        else x <- write_all write_ref refs ;; Ok (a ++ e ++ c ++ x)
  | DFunc r locals instructions =>
      let entries := local_entries locals in
      a <- write_vu32 (len entries) ;; b <- write_all write_local_entry entries ;;
      c <- write_instructions instructions ;;
      let body := a ++ b ++ c ++ [11] in
      l <- write_vu32 (len body) ;; Ok (l ++ body)
  | DData mode data =>
      a <- match mode with
           | Some (r, offset) =>
               if negb (String.eqb (fst r) "memory") then Internal AssertionError
               else
                 p <- (if 0 <? snd r then write_vu32 2 else Ok []) ;;
                 x <- write_ref r ;; e <- write_expression offset ;; Ok (p ++ x ++ e)
           | None => write_vu32 1
           end ;;
      l <- write_vu32 (len data) ;; Ok (a ++ l ++ data)
  | DDataCount n => write_vu32 n
  | DCustom name data => a <- write_str name ;; Ok (a ++ data)
  end.

Definition read_type_definition : reader defn :=
  fun bs =>
    '(form, r) <- read_exactly 1 bs ;;
    match form with
    | [96] =>
        '(np, r1) <- read_uint r ;;
        '(params, r2) <- read_vec (Z.to_nat np) read_type r1 ;;
        '(nr, r3) <- read_uint r2 ;;
        '(results, r4) <- read_vec (Z.to_nat nr) read_type r3 ;;
        Ok (DType params results, r4)
    | _ => Internal AssertionError
    end.

Definition read_import_definition : reader defn :=
  fun bs =>
    '(modname, r) <- read_str bs ;;
    '(name, r1) <- read_str r ;;
    '(kind_id, r2) <- read_byte r1 ;;
    if kind_id =? 0 then
      '(x, r3) <- read_space_ref "type" r2 ;; Ok (DImport modname name (IFunc x), r3)
    else if kind_id =? 1 then
      '(k, r3) <- read_type r2 ;; '(lim, r4) <- read_limits r3 ;;
      Ok (DImport modname name (ITable k (fst lim) (snd lim)), r4)
    else if kind_id =? 2 then
      '(lim, r3) <- read_limits r2 ;; Ok (DImport modname name (IMemory (fst lim) (snd lim)), r3)
    else if kind_id =? 3 then
      '(t, r3) <- read_type r2 ;; '(m, r4) <- read_byte r3 ;;
      Ok (DImport modname name (IGlobal t (negb (m =? 0))), r4)
    else Internal NotImplemented.

Definition read_table_definition : reader defn :=
  fun bs =>
    '(k, r) <- read_type bs ;;
    if negb (String.eqb k "funcref") then Internal AssertionError
    else '(lim, r1) <- read_limits r ;; Ok (DTable k (fst lim) (snd lim), r1).

Definition read_memory_definition : reader defn :=
  fun bs => '(lim, r) <- read_limits bs ;; Ok (DMemory (fst lim) (snd lim), r).

Definition read_global_definition : reader defn :=
  fun bs =>
    '(t, r) <- read_type bs ;; '(m, r1) <- read_byte r ;;
    '(init, r2) <- read_expression r1 ;;
    Ok (DGlobal t (negb (m =? 0)) init, r2).

Definition read_export_definition : reader defn :=
  fun bs =>
    '(name, r) <- read_str bs ;; '(kind_id, r1) <- read_byte r ;;
    match nthZ export_kinds kind_id with
    | None => Internal IndexError
    | Some kind => '(x, r2) <- read_space_ref kind r1 ;; Ok (DExport name kind x, r2)
    end.

Definition read_start_definition : reader defn :=
  fun bs => '(x, r) <- read_space_ref "func" bs ;; Ok (DStart x, r).

Definition read_elem_definition : reader defn :=
  fun bs =>
    '(x, r) <- read_uint bs ;;
    if x =? 0 then
      '(offset, r1) <- read_expression r ;;
      '(count, r2) <- read_uint r1 ;;
      '(refs, r3) <- read_vec (Z.to_nat count) (read_space_ref "func") r2 ;;
      Ok (DElem ("table", 0) offset refs, r3)
    else Internal NotImplemented.

Definition read_data_definition : reader defn :=
  fun bs =>
    '(x, r) <- read_uint bs ;;
    '(mode, r1) <- (if x =? 1 then Ok (None, r)
                    else
                      '(rf, r') <- (if x =? 0 then Ok (("memory", 0), r)
                                    else read_space_ref "memory" r) ;;
                      '(offset, r'') <- read_expression r' ;;
                      Ok (Some (rf, offset), r'')) ;;
    '(data, r2) <- read_length_prefixed_bytes r1 ;;
    Ok (DData mode data, r2).

Definition read_data_count_definition : reader defn :=
  fun bs =>
    match datacount_reader with
    | RInt => '(n, r) <- read_int bs ;; Ok (DDataCount n, r)
    | RUint => '(n, r) <- read_uint bs ;; Ok (DDataCount n, r)
    | _ => Internal NotImplemented
    end.

(* read_exactly() without an amount: everything that is left *)
Definition read_custom_definition : reader defn :=
  fun bs => '(name, r) <- read_str bs ;; Ok (DCustom name r, []).

(* localz.extend([(None, t)] * c) *)
Definition expand_local (e : Z * string) : list string := repeat (snd e) (Z.to_nat (fst e)).

Definition read_local_entry : reader (Z * string) :=
  fun bs => '(c, r) <- read_uint bs ;; '(t, r1) <- read_type r ;; Ok ((c, t), r1).

(* push_data: run [rd] on [data]; nothing may remain *)
Definition with_pushed_data {A} (data : bytes) (rd : reader A) : result A :=
  '(x, rest) <- rd data ;;
  match rest with
  | [] => Ok x
  | _ => Internal AssertionError
  end.

Definition read_func_definition (type4func : list Z) (index : nat) : reader defn :=
  fun bs =>
    '(body, r) <- read_length_prefixed_bytes bs ;;
    p <- with_pushed_data body (fun b =>
           '(n, r1) <- read_uint b ;;
           '(entries, r2) <- read_vec (Z.to_nat n) read_local_entry r1 ;;
           '(instructions, r3) <- read_expression r2 ;;
           Ok ((List.concat (map expand_local entries), instructions), r3)) ;;
    match nth_error type4func index with
    | None => Internal KeyError
    | Some t => Ok (DFunc ("type", t) (fst p) (snd p), r)
    end.

(* read_definition(DEFINITION_CLASSES[section_name]) *)
Definition read_definition (section_name : string) : reader defn :=
  fun bs =>
    if String.eqb section_name "type" then read_type_definition bs
    else if String.eqb section_name "import" then read_import_definition bs
    else if String.eqb section_name "table" then read_table_definition bs
    else if String.eqb section_name "memory" then read_memory_definition bs
    else if String.eqb section_name "global" then read_global_definition bs
    else if String.eqb section_name "export" then read_export_definition bs
    else if String.eqb section_name "start" then read_start_definition bs
    else if String.eqb section_name "elem" then read_elem_definition bs
    else if String.eqb section_name "data" then read_data_definition bs
    else Internal KeyError.

(* ------------------------------------------------------------------ module writer *)
Definition has_name (name : string) (d : defn) : bool := String.eqb (defn_name d) name.

Definition func_ref (d : defn) : ref :=
  match d with DFunc r _ _ => r | _ => ("type", 0) end.

Definition wrap_section (id : Z) (payload : bytes) : result bytes :=
  i <- write_vu7 id ;; l <- write_vu32 (len payload) ;; Ok (i ++ l ++ payload).

Definition write_custom_section (id : Z) (d : defn) : result bytes :=
  p <- write_definition d ;; wrap_section id p.

Definition write_section (defs : list defn) (section_name : string) (section_id : Z) : result bytes :=
  if String.eqb section_name "code" then Ok []
  else if String.eqb section_name "function" then
    let fs := filter (has_name "func") defs in
    match fs with
    | [] => Ok []
    | _ =>
        c <- write_vu32 (len fs) ;; x <- write_all (fun d => write_ref (func_ref d)) fs ;;
        wrap_section section_id (c ++ x)
    end
  else
    let ds := filter (has_name section_name) defs in
    match ds with
    | [] => Ok []
    | d0 :: _ =>
        if String.eqb section_name "start" || String.eqb section_name "datacount" then
          if negb (Nat.eqb (List.length ds) 1) then Internal AssertionError
          else p <- write_definition d0 ;; wrap_section section_id p
        else if String.eqb section_name "custom" then
          write_all (write_custom_section section_id) ds
        else
          c <- write_vu32 (len ds) ;; x <- write_all write_definition ds ;;
          wrap_section section_id (c ++ x)
    end.

Definition header : bytes := [0; 97; 115; 109; 1; 0; 0; 0].

Definition write_sections (defs : list defn) (ids : list (string * Z)) : result bytes :=
  write_all (fun p => write_section defs (fst p) (snd p)) ids.

Definition write_module (defs : list defn) : result bytes :=
  s <- write_sections defs section_ids ;; Ok (header ++ s).

(* ------------------------------------------------------------------ module reader *)
(* self._section_id_to_name: later entries of SECTION_IDS win, "code" is skipped *)
Fixpoint section_id_to_name (ids : list (string * Z)) (id : Z) : option string :=
  match ids with
  | [] => None
  | (name, i) :: r =>
      match section_id_to_name r id with
      | Some n => Some n
      | None => if (i =? id) && negb (String.eqb name "code") then Some name else None
      end
  end.

Record rstate := RState { type4func : list Z; definitions : list defn }.

(* for i in range(ndefs): read one definition (funcs need their index) *)
Fixpoint read_defs (n : nat) (i : nat) (section_name : string) (t4f : list Z) : reader (list defn) :=
  fun bs =>
    match n with
    | O => Ok ([], bs)
    | S n' =>
        '(d, r) <- (if String.eqb section_name "func" then read_func_definition t4f i bs
                    else read_definition section_name bs) ;;
        '(l, r') <- read_defs n' (S i) section_name t4f r ;;
        Ok (d :: l, r')
    end.

Definition read_section (section_id : Z) (st : rstate) : reader rstate :=
  fun bs =>
    match section_id_to_name section_ids section_id with
    | None => Internal KeyError
    | Some name =>
        if String.eqb name "function" then
          '(n, r) <- read_uint bs ;;
          '(l, r1) <- read_vec (Z.to_nat n) read_uint r ;;
          Ok (RState (l ++ skipn (List.length l) (type4func st)) (definitions st), r1)
        else if String.eqb name "start" then
          '(d, r) <- read_start_definition bs ;; Ok (RState (type4func st) (definitions st ++ [d]), r)
        else if String.eqb name "custom" then
          '(d, r) <- read_custom_definition bs ;; Ok (RState (type4func st) (definitions st ++ [d]), r)
        else if String.eqb name "datacount" then
          '(d, r) <- read_data_count_definition bs ;; Ok (RState (type4func st) (definitions st ++ [d]), r)
        else
          '(n, r) <- read_uint bs ;;
          '(l, r1) <- read_defs (Z.to_nat n) 0 name (type4func st) r ;;
          Ok (RState (type4func st) (definitions st ++ l), r1)
    end.

Fixpoint read_sections (fuel : nat) (st : rstate) (bs : bytes) : result rstate :=
  match fuel with
  | O => OutOfFuel
  | S f =>
      match bs with
      | [] => Ok st                                  (* EOFError on the section id: done *)
      | section_id :: r =>
          '(data, r1) <- read_length_prefixed_bytes r ;;
          st' <- with_pushed_data data (read_section section_id st) ;;
          read_sections f st' r1
      end
  end.

Definition read_header : reader unit :=
  fun bs =>
    '(magic, r) <- read_exactly 4 bs ;;
    match magic with
    | [0; 97; 115; 109] =>
        '(v, r1) <- read_exactly 4 r ;;
        match v with
        | [1; 0; 0; 0] => Ok (tt, r1)
        | _ => Internal AssertionError
        end
    | _ => Diag 4
    end.

Definition read_module (fuel : nat) (bs : bytes) : result (list defn) :=
  '(_, r) <- read_header bs ;;
  st <- read_sections fuel (RState [] []) r ;;
  Ok (definitions st).

(* what the reader returns for the writer's output: the definitions grouped in the writer's
   section order (Module.get_definitions_per_section + iteration over SECTION_IDS) *)
Definition section_defs (defs : list defn) (name : string) : list defn :=
  if String.eqb name "code" || String.eqb name "function" then []
  else filter (has_name name) defs.
Definition canonical_order (defs : list defn) : list defn :=
  List.concat (map (fun p => section_defs defs (fst p)) section_ids).
