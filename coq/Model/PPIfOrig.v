(* Model/PPIfOrig.v — frozen: OP_MAP entries "/" and "%" before fixes/C26-if-division.diff
   (operator.floordiv, operator.mod); used only by the *_refuted theorem of Props/C26.v. NO proofs. *)
From PV Require Import Lib.Py Gen.ppif Model.PPIf.
From Coq Require Import String.
Open Scope Z_scope.

Definition floordiv (x y : Z) : result Z := guard (negb (y =? 0)) (Internal ZeroDiv) (Ok (x / y)).
Definition pymod (x y : Z) : result Z := guard (negb (y =? 0)) (Internal ZeroDiv) (Ok (x mod y)).
Definition op_map0 : list (string * (Z * bool * option (Z -> Z -> result Z))) :=
  map (fun kv => if String.eqb (fst kv) "/" then (fst kv, (11, false, Some floordiv))
                 else if String.eqb (fst kv) "%" then (fst kv, (11, false, Some pymod)) else kv) op_map.
Definition eval_tree0 := eval_tree_with op_map0.
