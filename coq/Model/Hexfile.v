(* Model/Hexfile.v — hand model (tie H) of ppci/format/hexfile.py, function by function.
   HexLine = (address, typ, data); HexFileRegion = (address, data); HexFile = (regions, start_address).
   Files are lists of lines (print(line, file=f) appends one line; iteration over the open file yields
   the lines). [check]/[save] follow the source with fixes C18-1 and C18-2 applied; [check_orig] and
   [save_orig] are the functions before the fixes. check_orig models the mutation of self.regions
   while iterating over zip(self.regions[:-1], self.regions[1:]) exactly: the zip walks over a snapshot
   of object references; r1.add_data mutates the shared object; list.remove deletes the first element
   that is the object or compares equal to it. *)
From PV Require Import Lib.Py.
From Coq Require Import String Ascii.
Open Scope Z_scope.

(* ---------------- hex text *)
Definition hexdigit_lower (n : Z) : ascii :=
  ascii_of_nat (Z.to_nat (if n <? 10 then 48 + n else 87 + n)).
(* binascii.hexlify(nums).decode("ascii") *)
Fixpoint hexlify (bs : list Z) : string :=
  match bs with
  | [] => EmptyString
  | b :: r => String (hexdigit_lower (b / 16)) (String (hexdigit_lower (b mod 16)) (hexlify r))
  end.

Definition hexval (c : ascii) : option Z :=
  let n := Z.of_nat (nat_of_ascii c) in
  if (48 <=? n) && (n <=? 57) then Some (n - 48)
  else if (97 <=? n) && (n <=? 102) then Some (n - 87)
  else if (65 <=? n) && (n <=? 70) then Some (n - 55)
  else None.
(* bytes.fromhex on a string without embedded white space; None = ValueError *)
Fixpoint fromhex (s : string) : option (list Z) :=
  match s with
  | EmptyString => Some []
  | String a (String b r) =>
      match hexval a, hexval b, fromhex r with
      | Some x, Some y, Some l => Some (x * 16 + y :: l)
      | _, _, _ => None
      end
  | _ => None
  end.

(* ---------------- struct *)
Definition pack_H (v : Z) : result (list Z) :=
  if (0 <=? v) && (v <? 65536) then Ok [v / 256; v mod 256] else Internal StructError.
Definition pack_I (v : Z) : result (list Z) :=
  if (0 <=? v) && (v <? 4294967296)
  then Ok [v / 16777216; (v / 65536) mod 256; (v / 256) mod 256; v mod 256] else Internal StructError.
Definition unpack_H (bs : list Z) : result Z :=
  match bs with [a; b] => Ok (a * 256 + b) | _ => Internal StructError end.
Definition unpack_I (bs : list Z) : result Z :=
  match bs with [a; b; c; d] => Ok (((a * 256 + b) * 256 + c) * 256 + d) | _ => Internal StructError end.

(* ---------------- HexLine *)
Record HexLine := mkHexLine { address : Z; typ : Z; data : list Z }.

Definition to_line (l : HexLine) : result string :=
  let bytecount := len (data l) in
  guard (is_byte bytecount) (Internal ValueErrorI) (          (* nums.append(bytecount) *)
  ab <- pack_H (address l) ;;
  guard (is_byte (typ l)) (Internal ValueErrorI) (            (* nums.append(self.typ) *)
  let nums := [bytecount] ++ ab ++ [typ l] ++ data l in
  let crc := sumZ nums in
  let crc := Z.land (Z.lnot crc + 1) 255 in
  Ok (String ":" (hexlify (nums ++ [crc]))))).

Definition from_line (line : string) : result HexLine :=
  match line with
  | EmptyString => Internal IndexError
  | String c rest =>
      if negb (Ascii.eqb c ":") then Diag 2 else
      match fromhex rest with
      | None => Diag 2
      | Some nums =>
          match nums with
          | [] => Internal IndexError
          | bytecount :: _ =>
              if negb (len nums =? bytecount + 5) then Diag 1
              else if negb (Z.land (sumZ nums) 255 =? 0) then Diag 1
              else
                a <- unpack_H (sliceZ nums 1 3) ;;
                match nthZ nums 3 with
                | None => Internal IndexError
                | Some t => Ok (mkHexLine a t (sliceZ nums 4 (len nums - 1)))
                end
          end
      end
  end.

(* ---------------- regions *)
Notation region := (Z * list Z)%type (only parsing).
Definition r_end (r : region) : Z := fst r + len (snd r).
Fixpoint bytes_eqb (a b : list Z) : bool :=
  match a, b with
  | [], [] => true
  | x :: a', y :: b' => (x =? y) && bytes_eqb a' b'
  | _, _ => false
  end.
Definition region_eqb (a b : region) : bool := (fst a =? fst b) && bytes_eqb (snd a) (snd b).

(* self.regions.sort(key=lambda r: r.address) : stable *)
Fixpoint insert_region (r : region) (l : list region) : list region :=
  match l with
  | [] => [r]
  | x :: t => if fst r <=? fst x then r :: x :: t else x :: insert_region r t
  end.
Fixpoint sort_regions (l : list region) : list region :=
  match l with [] => [] | x :: t => insert_region x (sort_regions t) end.

(* --- check, fixed: the for loop stops (break) after the first merge and the while loop rescans.
   scan = one for loop: None = no change *)
Fixpoint scan (l : list region) : result (option (list region)) :=
  match l with
  | r1 :: tl =>
      match tl with
      | r2 :: rest =>
          if r_end r1 =? fst r2 then Ok (Some ((fst r1, snd r1 ++ snd r2) :: rest))
          else if r_end r1 >? fst r2 then Diag 1
          else x <- scan tl ;; Ok (option_map (cons r1) x)
      | [] => Ok None
      end
  | [] => Ok None
  end.

Fixpoint check_loop (fuel : nat) (l : list region) : result (list region) :=
  match fuel with
  | O => OutOfFuel
  | S f =>
      if len l <=? 1 then Ok l else
      x <- scan l ;;
      match x with None => Ok l | Some l' => check_loop f l' end
  end.

Definition check (l : list region) : result (list region) :=
  check_loop (S (List.length l)) (sort_regions l).

(* --- check, before the fix *)
Definition dflt : region := (0, []).
Definition set_nth (n : nat) (x : region) (l : list region) : list region :=
  firstn n l ++ x :: skipn (S n) l.
Fixpoint remove_first (objs : list region) (target : nat) (live : list nat) : option (list nat) :=
  match live with
  | [] => None
  | id :: t =>
      if Nat.eqb id target || region_eqb (nth id objs dflt) (nth target objs dflt) then Some t
      else option_map (cons id) (remove_first objs target t)
  end.
Fixpoint orig_pass (n i : nat) (objs : list region) (live : list nat) (change : bool)
  : result (list region * list nat * bool) :=
  match n with
  | O => Ok (objs, live, change)
  | S n' =>
      let r1 := nth i objs dflt in
      let r2 := nth (S i) objs dflt in
      if r_end r1 =? fst r2 then
        let objs' := set_nth i (fst r1, snd r1 ++ snd r2) objs in
        match remove_first objs' (S i) live with
        | None => Internal ValueErrorI
        | Some live' => orig_pass n' (S i) objs' live' true
        end
      else if r_end r1 >? fst r2 then Diag 1
      else orig_pass n' (S i) objs live change
  end.
Fixpoint check_orig_loop (fuel : nat) (l : list region) : result (list region) :=
  match fuel with
  | O => OutOfFuel
  | S f =>
      if len l <=? 1 then Ok l else
      st <- orig_pass (List.length l - 1) 0 l (seq 0 (List.length l)) false ;;
      let '(objs, live, change) := st in
      let l' := map (fun id => nth id objs dflt) live in
      if change then check_orig_loop f l' else Ok l'
  end.
Definition check_orig (l : list region) : result (list region) :=
  check_orig_loop (S (List.length l)) (sort_regions l).

(* ---------------- HexFile *)
Record HexFile := mkHexFile { regions : list region; start_address : Z }.
Definition empty_hexfile : HexFile := mkHexFile [] 0.

Definition add_region (hf : HexFile) (a : Z) (d : list Z) : result HexFile :=
  rs <- check (regions hf ++ [(a, d)]) ;; Ok (mkHexFile rs (start_address hf)).
Definition add_region_orig (hf : HexFile) (a : Z) (d : list Z) : result HexFile :=
  rs <- check_orig (regions hf ++ [(a, d)]) ;; Ok (mkHexFile rs (start_address hf)).

(* utils.chunk.chunks(data, size=30) *)
Definition chunks (d : list Z) : list (list Z) :=
  map (fun i => sliceZ d i (i + 30)) (rangeZ_step 0 (len d) 30).

(* the inner for loop of save *)
Fixpoint save_chunks (chs : list (list Z)) (ext addr : Z) : result (list string) :=
  match chs with
  | [] => Ok []
  | c :: r =>
      if addr >=? 65536 then
        e <- pack_H (Z.shiftr (ext + 65536) 16) ;;
        l1 <- to_line (mkHexLine 0 4 e) ;;
        l2 <- to_line (mkHexLine (addr - 65536) 0 c) ;;
        ls <- save_chunks r (ext + 65536) (addr - 65536 + len c) ;;
        Ok (l1 :: l2 :: ls)
      else
        l2 <- to_line (mkHexLine addr 0 c) ;;
        ls <- save_chunks r ext (addr + len c) ;;
        Ok (l2 :: ls)
  end.

Definition save_region (r : region) : result (list string) :=
  let ext := Z.land (fst r) 4294901760 in
  e <- pack_H (Z.shiftr ext 16) ;;
  l0 <- to_line (mkHexLine 0 4 e) ;;
  ls <- save_chunks (chunks (snd r)) ext (fst r - ext) ;;
  Ok (l0 :: ls).

Fixpoint save_regions (rs : list region) : result (list string) :=
  match rs with
  | [] => Ok []
  | r :: t => a <- save_region r ;; b <- save_regions t ;; Ok (a ++ b)
  end.

Definition save (hf : HexFile) : result (list string) :=
  body <- save_regions (regions hf) ;;
  st <- (if negb (start_address hf =? 0)
         then d <- pack_I (start_address hf) ;; l <- to_line (mkHexLine 0 5 d) ;; Ok [l]
         else Ok []) ;;
  e <- to_line (mkHexLine 0 1 []) ;;
  Ok (body ++ st ++ [e]).

Definition save_orig (hf : HexFile) : result (list string) :=
  body <- save_regions (regions hf) ;;
  e <- to_line (mkHexLine 0 1 []) ;;
  Ok (body ++ [e]).

(* ---------------- load *)
Definition is_ws (c : ascii) : bool :=
  let n := Z.of_nat (nat_of_ascii c) in
  (n =? 32) || ((9 <=? n) && (n <=? 13)) || ((28 <=? n) && (n <=? 31)).
Fixpoint lstrip (s : string) : string :=
  match s with String c r => if is_ws c then lstrip r else s | EmptyString => s end.
Fixpoint srev_acc (s acc : string) : string :=
  match s with String c r => srev_acc r (String c acc) | EmptyString => acc end.
Definition strip (s : string) : string :=
  srev_acc (lstrip (srev_acc (lstrip s) EmptyString)) EmptyString.

Fixpoint load_loop (lines : list string) (regs : list region) (start : Z) (eof : bool) (ext : Z)
  : result HexFile :=
  match lines with
  | [] => Ok (mkHexFile regs start)
  | l :: rest =>
      match strip l with
      | EmptyString => load_loop rest regs start eof ext
      | String c _ as line =>
          if negb (Ascii.eqb c ":") then load_loop rest regs start eof ext else
          hl <- from_line line ;;
          if eof then Diag 1
          else if typ hl =? 0 then
            regs' <- check (regs ++ [(address hl + ext, data hl)]) ;;
            load_loop rest regs' start eof ext
          else if typ hl =? 4 then
            v <- unpack_H (sliceZ (data hl) 0 2) ;;
            load_loop rest regs start eof (Z.shiftl v 16)
          else if typ hl =? 1 then
            if negb (len (data hl) =? 0) then Diag 1 else load_loop rest regs start true ext
          else if typ hl =? 5 then
            v <- unpack_I (sliceZ (data hl) 0 4) ;;
            load_loop rest regs v eof ext
          else Internal NotImplemented
      end
  end.

Definition load (lines : list string) : result HexFile := load_loop lines [] 0 false 0.
