(* Model/Ir2PyFunc.v — hand model (tie H) of generate_function / generate_function_fallback /
   generate_block / emit_jump / gen_cjump / gen_jump / gen_const / Return of
   ppci/lang/python/ir2py.py for the integer / branch / phi / return fragment of the IR:
   [compile_func] maps a Spec.IRSyntax.func to the Python function ir2py emits, as a structured
   AST ([pfunc]); [show_func] prints the exact emitted text (compared with the real output for
   generated CFGs on every run); [run_pfunc] is the CPython meaning of that text: the
   `while True:` block dispatcher with the sequential `if _irpy_current_block == "...":` tests,
   straight-line statement lists, the per-edge phi tuple assignment inside the jump, return.
   Outside the fragment (calls, memory, alloc, floats, ptr, rol/ror, undefined, out-of-range
   constants) [compile_func] answers None.  No proofs here. *)
From PV Require Import Lib.Py Spec.IRSyntax Spec.IRSemArith Gen.ir2py_runtime Model.Ir2Py.
From Coq Require Import String.
Open Scope Z_scope.

(* ------------------------------------------------------------------ the emitted function, as an AST *)
(* emit_jump: [phi tuple assignment]; _irpy_prev_block = _irpy_current_block; _irpy_current_block = "t" *)
Inductive pjump := PJ (pairs : list (string * string)) (target : string).
Inductive pitem :=
  | PStmts (ss : list stmt)                 (* the statements of one Binop / Unop / Cast *)
  | PConst (x : string) (z : Z)             (* gen_const:  x = <decimal> *)
  | PJump (j : pjump)                       (* gen_jump *)
  | PCJump (a : string) (c : cmpop) (b : string) (yes no : pjump)   (* gen_cjump *)
  | PRet (freed : Z) (x : string).          (* rt.free(<freed>); return x *)
(* how a return releases the stack: /repo emits rt.free(<static sum>); the repaired generator
   (fixes/C24-free-path.diff) records _irpy_stack_mark on entry and frees down to it. In the modelled
   fragment nothing is allocated, both free nothing; the style only changes the printed text. *)
Inductive free_style := FreeStatic | FreeMark.
Record pfunc := mk_pfunc { pf_name : string; pf_params : list string; pf_entry : string;
                           pf_blocks : list (string * list pitem); pf_style : free_style }.

(* ------------------------------------------------------------------ CPython meaning *)
(* state of the function body: the current-block variable and the other local variables
   (_irpy_prev_block is written but never read) *)
Inductive pctl := PNext (cur : string) (en : pyenv) | PReturn (v : pyval).

Fixpoint read_vars (en : pyenv) (xs : list string) : result (list pyval) :=
  match xs with
  | [] => Ok []
  | x :: r => v <- getv en x ;; vs <- read_vars en r ;; Ok (v :: vs)
  end.
Fixpoint bind_vars (en : pyenv) (tv : list (string * pyval)) : pyenv :=
  match tv with [] => en | (t, v) :: r => bind_vars ((t, v) :: en) r end.
(* t1, ..., tn = s1, ..., sn  (nothing is emitted when there are no phis) *)
Definition tuple_assign_s (pairs : list (string * string)) (en : pyenv) : result pyenv :=
  vs <- read_vars en (map snd pairs) ;; Ok (bind_vars en (combine (map fst pairs) vs)).

Definition run_jump (j : pjump) (en : pyenv) : result (string * pyenv) :=
  match j with PJ pairs t => en' <- tuple_assign_s pairs en ;; Ok (t, en') end.

Definition get_int (en : pyenv) (x : string) : result Z := v <- getv en x ;; as_int v.

Fixpoint run_items (l : list pitem) (cur : string) (en : pyenv) : result pctl :=
  match l with
  | [] => Ok (PNext cur en)
  | PStmts ss :: r => en' <- exec en ss ;; run_items r cur en'
  | PConst x z :: r => run_items r cur ((x, PInt z) :: en)
  | PJump j :: r => '(t, en') <- run_jump j en ;; run_items r t en'
  | PCJump a c b yes no :: r =>
      x <- get_int en a ;; y <- get_int en b ;;
      '(t, en') <- run_jump (if py_cmp c x y then yes else no) en ;; run_items r t en'
  | PRet _ x :: _ => v <- getv en x ;; Ok (PReturn v)     (* rt.free(0) pops nothing *)
  end.

(* one pass over the remaining `if _irpy_current_block == "name":` tests of the loop body;
   [k] = what happens at the end of the body (the next iteration of `while True:`) *)
Fixpoint scan (k : string -> pyenv -> result pyval) (rest : list (string * list pitem))
         (cur : string) (en : pyenv) : result pyval :=
  match rest with
  | [] => k cur en
  | (name, items) :: r =>
      if String.eqb cur name then
        c <- run_items items cur en ;;
        match c with PNext cur' en' => scan k r cur' en' | PReturn v => Ok v end
      else scan k r cur en
  end.
Fixpoint iter (all : list (string * list pitem)) (fuel : nat) (cur : string) (en : pyenv) : result pyval :=
  match fuel with
  | O => OutOfFuel
  | S f => scan (iter all f) all cur en
  end.

Definition run_pfunc (fuel : nat) (pf : pfunc) (args : list Z) : result Z :=
  if negb (Nat.eqb (List.length args) (List.length (pf_params pf))) then Internal TypeError
  else v <- iter (pf_blocks pf) fuel (pf_entry pf)
                 (combine (pf_params pf) (map PInt args)) ;; as_int v.

(* ------------------------------------------------------------------ printing *)
Definition ind (n : nat) (s : string) : string :=
  (fix sp (k : nat) : string := match k with O => s | S k' => ("    " ++ sp k')%string end) n.
Fixpoint join (sep : string) (l : list string) : string :=
  match l with [] => "" | [x] => x | x :: r => (x ++ sep ++ join sep r)%string end.
Definition show_jump (lvl : nat) (j : pjump) : list string :=
  match j with
  | PJ pairs t =>
      (match pairs with
       | [] => []
       | _ => [ind lvl (join ", " (map fst pairs) ++ " = " ++ join ", " (map snd pairs))%string]
       end)
      ++ [ind lvl "_irpy_prev_block = _irpy_current_block";
          ind lvl ("_irpy_current_block = """ ++ t ++ """")%string]
  end.
Definition show_cmp (c : cmpop) : string :=
  match c with CEq => "==" | CLt => "<" | CGt => ">" | CGe => ">=" | CLe => "<=" | CNe => "!=" end.
Definition show_item (st : free_style) (i : pitem) : list string :=
  match i with
  | PStmts ss => map (fun s => ind 3 (show_stmt s)) ss
  | PConst x z => [ind 3 (x ++ " = " ++ show_Z z)%string]
  | PJump j => show_jump 3 j
  | PCJump a c b yes no =>
      [ind 3 ("if " ++ a ++ " " ++ show_cmp c ++ " " ++ b ++ ":")%string] ++ show_jump 4 yes
      ++ [ind 3 "else:"] ++ show_jump 4 no
  | PRet n x => [ind 3 (match st with
                         | FreeStatic => "rt.free(" ++ show_Z n ++ ")"
                         | FreeMark => "rt.free(len(rt.stack) - _irpy_stack_mark)"
                         end)%string; ind 3 ("return " ++ x)%string]
  end.
Definition show_func (pf : pfunc) : list string :=
  [("def " ++ pf_name pf ++ "(" ++ join "," (pf_params pf) ++ "):")%string]
  ++ (match pf_style pf with FreeMark => [ind 1 "_irpy_stack_mark = len(rt.stack)"] | FreeStatic => [] end)
  ++ [ind 1 "_irpy_prev_block = None";
   ind 1 ("_irpy_current_block = '" ++ pf_entry pf ++ "'")%string;
   ind 1 "while True:"]
  ++ flat_map (fun b => ind 2 ("if _irpy_current_block == """ ++ fst b ++ """:")%string
                        :: flat_map (show_item (pf_style pf)) (snd b)) (pf_blocks pf).

(* ------------------------------------------------------------------ the generator *)
Definition ity_of (t : ty) : option ity :=
  match t with
  | I8 => Some i8 | I16 => Some i16 | I32 => Some i32 | I64 => Some i64
  | U8 => Some u8 | U16 => Some u16 | U32 => Some u32 | U64 => Some u64
  | _ => None
  end.
Definition aop (o : IRSyntax.binop) : option IRSemArith.binop :=
  match o with
  | IRSyntax.Add => Some IRSemArith.Add | IRSyntax.Sub => Some IRSemArith.Sub
  | IRSyntax.Mul => Some IRSemArith.Mul | IRSyntax.Div => Some IRSemArith.Div
  | IRSyntax.Rem => Some IRSemArith.Rem | IRSyntax.Or => Some IRSemArith.Or
  | IRSyntax.And => Some IRSemArith.And | IRSyntax.Xor => Some IRSemArith.Xor
  | IRSyntax.Shl => Some IRSemArith.Shl | IRSyntax.Shr => Some IRSemArith.Shr
  | IRSyntax.Rol | IRSyntax.Ror => None            (* emitted as invalid Python: outside the fragment *)
  end.
Definition auop (o : IRSyntax.unop) : IRSemArith.unop :=
  match o with IRSyntax.Neg => IRSemArith.Neg | IRSyntax.Inv => IRSemArith.Inv end.
Definition ccop (c : cond) : cmpop :=
  match c with Ceq => CEq | Clt => CLt | Cgt => CGt | Cge => CGe | Cle => CLe | Cne => CNe end.

(* fetch_value: the Python name of an operand, and its IR type *)
Definition ref_name (f : func) (r : vref) : option (string * ty) :=
  match r with
  | Loc v => match find_def f v with Some d => Some (def_name d, def_ty d) | None => None end
  | Param n => nth_error (f_params f) n
  | _ => None
  end.
(* an operand of integer type *)
Definition int_ref (f : func) (r : vref) : option string :=
  match ref_name f r with
  | Some (n, t) => match ity_of t with Some _ => Some n | None => None end
  | None => None
  end.
(* an operand whose type is t (ir.Binop / ir.Unop / ir.Phi demand it) *)
Definition typed_ref (f : func) (r : vref) (t : ty) : option string :=
  match ref_name f r with
  | Some (n, t') => if ty_eqb t' t then Some n else None
  | None => None
  end.

(* fill_phis (block -> target): (phi name, name of the value incoming from [b]) for every phi of the target *)
Fixpoint phi_pairs (f : func) (b : bid) (l : list instr) : option (list (string * string)) :=
  match l with
  | [] => Some []
  | IPhi _ n t ins :: r =>
      match ity_of t, find (fun q => Pos.eqb (fst q) b) ins with
      | Some _, Some q =>
          match typed_ref f (snd q) t, phi_pairs f b r with
          | Some s, Some rest => Some ((n, s) :: rest)
          | _, _ => None
          end
      | _, _ => None
      end
  | _ :: r => phi_pairs f b r
  end.
Definition jump_of (f : func) (b t : bid) : option pjump :=
  match find_block f t with
  | Some blk => match phi_pairs f b (b_ins blk) with
                | Some pairs => if nodup_str (map fst pairs) then Some (PJ pairs (b_name blk)) else None
                | None => None
                end
  | None => None
  end.

Definition compile_instr (f : func) (b : bid) (i : instr) : option (list pitem) :=
  match i with
  | IConst _ n t (CInt z) =>
      match ity_of t with
      | Some it => if in_rangeb it z then Some [PConst n z] else None
      | None => None
      end
  | IBinop _ n t o x y =>
      match ity_of t, aop o, typed_ref f x t, typed_ref f y t with
      | Some it, Some op, Some nx, Some ny => Some [PStmts (gen_binop op n nx ny it)]
      | _, _, _, _ => None
      end
  | IUnop _ n t o x =>
      match ity_of t, typed_ref f x t with
      | Some it, Some nx => Some [PStmts (gen_unop (auop o) n nx it)]
      | _, _ => None
      end
  | ICast _ n t x =>
      match ity_of t, int_ref f x with
      | Some it, Some nx => Some [PStmts (gen_cast CastTrunc n nx it)]
      | _, _ => None
      end
  | IPhi _ _ t _ => match ity_of t with Some _ => Some [] | None => None end
  | IJump t => match jump_of f b t with Some j => Some [PJump j] | None => None end
  | ICJump x c y yes no =>
      match int_ref f x, int_ref f y, jump_of f b yes, jump_of f b no with
      | Some nx, Some ny, Some jy, Some jn => Some [PCJump nx (ccop c) ny jy jn]
      | _, _, _, _ => None
      end
  | IReturn x => match int_ref f x with Some nx => Some [PRet 0 nx] | None => None end
  | _ => None
  end.
Fixpoint compile_instrs (f : func) (b : bid) (l : list instr) : option (list pitem) :=
  match l with
  | [] => Some []
  | i :: r => if is_terminator i && negb (match r with [] => true | _ => false end) then None
              else match compile_instr f b i, compile_instrs f b r with
                   | Some a, Some c => Some (a ++ c)
                   | _, _ => None
                   end
  end.
Fixpoint compile_blocks (f : func) (l : list block) : option (list (string * list pitem)) :=
  match l with
  | [] => Some []
  | k :: r => match compile_instrs f (b_id k) (b_ins k), compile_blocks f r with
              | Some items, Some rest => Some ((b_name k, items) :: rest)
              | _, _ => None
              end
  end.
Definition params_int (f : func) : bool :=
  forallb (fun p => match ity_of (snd p) with Some _ => true | None => false end) (f_params f).
Definition compile_func_s (st : free_style) (f : func) : option pfunc :=
  match f_blocks f, compile_blocks f (f_blocks f) with
  | k :: _, Some bs =>
      if params_int f then Some (mk_pfunc (f_name f) (map fst (f_params f)) (b_name k) bs st) else None
  | _, _ => None
  end.
Definition compile_func (f : func) : option pfunc := compile_func_s FreeStatic f.

(* computable side conditions of the simulation theorem (all are conjuncts / consequences of
   Spec.IRSyntax.wf_func): distinct local names, distinct value ids, distinct block names *)
Definition names_okb (f : func) : bool :=
  nodup_str (func_local_names f) && nodup_pos (map def_id (func_defs f))
  && nodup_str (map b_name (f_blocks f)).

Definition show_compiled_s (st : free_style) (f : func) : option (list string) :=
  match compile_func_s st f with Some pf => Some (show_func pf) | None => None end.
Definition show_compiled (f : func) : option (list string) := show_compiled_s FreeStatic f.
Definition run_compiled (fuel : nat) (f : func) (args : list Z) : option (result Z) :=
  match compile_func f with Some pf => Some (run_pfunc fuel pf args) | None => None end.
