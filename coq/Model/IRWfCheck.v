(* Model/IRWfCheck.v — executable checker for Spec/IRWf.v (property C03): the verified validator
   that is run on the imported output of every real optimisation pass.
   [wf_function_b m f = true -> wf_function m f] is Proofs/C03_wf.wf_function_b_sound.
   Reachability / dominance come from the reference algorithm of property C25 (Model/DomRef.v:
   reach_set by exploration; proved equivalent to the path definitions in Proofs/C25_ref.v).
   Not a model of ppci code. *)
From PV Require Import Lib.Py Lib.Val Spec.IRSyntax Spec.CfgSpec Spec.IRWf Model.DomRef.
From Coq Require Import String.
Open Scope nat_scope.

Definition opt_ty_eqb (a b : option ty) : bool :=
  match a, b with
  | Some x, Some y => ty_eqb x y
  | None, None => true
  | _, _ => false
  end.

Section CHK.
Variable m : modul.
Variable f : func.

Definition shape_b (l : list instr) : bool :=
  match rev l with
  | [] => false
  | t :: body => is_terminator t && forallb (fun i => negb (is_terminator i)) body
  end.
Definition targets_b : bool :=
  forallb (fun k => forallb (fun b => mem_pos b (map b_id (f_blocks f))) (successors k))
          (f_blocks f).
Definition reachable_b : bool :=
  let r := reach_from (cfg f) 0 in
  forallb (fun n => mem n r) (seq 0 (List.length (f_blocks f))).

Definition ref_ok_b (r : vref) : bool :=
  match r with
  | Loc v => match def_site f v with Some _ => true | None => false end
  | Param n => Nat.ltb n (List.length (f_params f))
  | Glob s => mem_str s (global_names m)
  | Unres _ => false
  end.

(* dominance table: row d = nodes reachable from the entry avoiding d *)
Definition dom_b (T : list (list nat)) (d w : nat) : bool :=
  if Nat.ltb d (List.length (f_blocks f)) then dom_tab T d w else dom_ref (cfg f) 0 d w.

Definition dom_use_b (T : list (list nat)) (s : site) (r : vref) : bool :=
  match r with
  | Loc v => match def_site f v with
             | Some (bj, q, _) =>
                 if Nat.eqb bj (s_bi s) then Nat.ltb q (s_pos s) else dom_b T bj (s_bi s)
             | None => false
             end
  | _ => true
  end.
Definition dom_phi_b (T : list (list nat)) (inp : bid * vref) : bool :=
  match snd inp with
  | Loc w => match def_site f w with
             | Some (bj, _, _) => dom_b T bj (bidx f (fst inp))
             | None => false
             end
  | _ => true
  end.
Definition preds_of (k : block) : list bid :=
  map b_id (filter (fun k' => mem_pos (b_id k) (successors k')) (f_blocks f)).
Definition phi_preds_b (k : block) (ins : list (bid * vref)) : bool :=
  nodup_pos (map fst ins)
  && forallb (fun pb => mem_pos pb (preds_of k)) (map fst ins)
  && forallb (fun pb => mem_pos pb (map fst ins)) (preds_of k).

Definition ty_is (r : vref) (t : ty) : bool := opt_ty_eqb (ty_of f r) (Some t).
Definition call_ok_b (c : vref) (args : list vref) (rt : option ty) : bool :=
  match c with
  | Glob s => match sig_of m s with
              | Some (ats, r) =>
                  opt_ty_eqb r rt && Nat.eqb (List.length args) (List.length ats)
                  && forallb (fun p => ty_is (fst p) (snd p)) (combine args ats)
              | None => true
              end
  | _ => true
  end.
Definition instr_typed_b (i : instr) : bool :=
  match i with
  | IBinop _ _ t _ a b => ty_is a t && ty_is b t
  | IUnop _ _ t _ a => ty_is a t
  | ILoad _ _ _ a _ => ty_is a Ptr
  | IStore _ a _ => ty_is a Ptr
  | ICopyBlob d s _ => ty_is d Ptr && ty_is s Ptr
  | IPhi _ _ t ins => forallb (fun p => ty_is (snd p) t) ins
  | ICJump a _ b _ _ => opt_ty_eqb (ty_of f a) (ty_of f b)
  | IReturn a => match f_ret f with Some t => ty_is a t | None => false end
  | IExit => match f_ret f with None => true | Some _ => false end
  | ICallF _ _ t c args => ty_is c Ptr && call_ok_b c args (Some t)
  | ICallP c args => ty_is c Ptr && call_ok_b c args None
  | _ => true
  end.

Definition site_b (T : list (list nat)) (s : site) : bool :=
  forallb ref_ok_b (instr_uses (s_ins s))
  && match s_ins s with
     | IPhi _ _ _ ins => forallb (dom_phi_b T) ins && phi_preds_b (s_blk s) ins
     | i => forallb (dom_use_b T s) (instr_uses i)
     end
  && instr_typed_b (s_ins s).

Definition wf_function_b : bool :=
  negb (Nat.eqb (List.length (f_blocks f)) 0)
  && nodup_pos (map b_id (f_blocks f))
  && forallb (fun k => shape_b (b_ins k)) (f_blocks f)
  && targets_b
  && reachable_b
  && nodup_pos (map def_id (func_defs f))
  && nodup_str (map b_name (f_blocks f) ++ map def_name (func_defs f))
  && (let T := avoid_tab (cfg f) 0 in forallb (site_b T) (sites f)).
End CHK.

Definition wf_modul_b (m : modul) : bool := forallb (wf_function_b m) (m_funcs m).

(* first function that is not well-formed (diagnostics in the check) *)
Definition wf_modul_why (m : modul) : list string :=
  map f_name (filter (fun f => negb (wf_function_b m f)) (m_funcs m)).
