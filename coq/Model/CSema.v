(* Model/CSema.v — hand model (tie H) of the expression typing of ppci/lang/c/semantics.py
   (CSemantics.on_number/on_cast/on_unop/on_binop/on_ternop, coerce, promote, get_common_type) with
   fixes/C27-sema-promotions.diff applied: from a source expression to the typed AST. NO proofs. *)
From PV Require Import Lib.Py Spec.CIntSpec Gen.ceval Model.CEval.
From Coq Require Import String.
Open Scope Z_scope.

(* coerce: an ImplicitCast unless the types are equal *)
Definition coerce (e : cexpr) (t : ity) : cexpr :=
  if ity_eqb (typ_of e) t then e else CastE e t.

(* promote: small integer types go to int *)
Definition promote_m (e : cexpr) : cexpr :=
  if mem_ty (typ_of e) promotable_types then coerce e TInt else e.

(* get_common_type: max([t1, t2], key=rank) — the first maximal element *)
Definition common_type (a b : ity) : ity := if basic_rank a <? basic_rank b then b else a.

Definition unop_str (op : unop) : string :=
  match op with UNeg => "-" | UCompl => "~" | ULNot => "!" | UPlus => "+" end.
Definition binop_str (op : binop) : string :=
  match op with
  | BAdd => "+" | BSub => "-" | BMul => "*" | BDiv => "/" | BMod => "%" | BShl => "<<" | BShr => ">>"
  | BAnd => "&" | BOr => "|" | BXor => "^" | BLt => "<" | BGt => ">" | BLe => "<=" | BGe => ">="
  | BEq => "==" | BNe => "!=" | BLAnd => "&&" | BLOr => "||"
  end.

Fixpoint elab (e : expr) : cexpr :=
  match e with
  | ELit t v => NumLit v t                                   (* on_number: type from the suffix *)
  | ECast t a => CastE (elab a) t                            (* on_cast *)
  | EUn ULNot a => UnOp "!" (elab a) TInt                    (* check_condition keeps integer types *)
  | EUn UPlus a => promote_m (elab a)
  | EUn op a => let a' := promote_m (elab a) in UnOp (unop_str op) a' (typ_of a')
  | EBin op a b =>
      let a' := elab a in
      let b' := elab b in
      match op with
      | BLAnd | BLOr => BinOp a' (binop_str op) b' TInt
      | BShl | BShr =>
          let a2 := promote_m a' in
          let b2 := promote_m b' in
          BinOp a2 (binop_str op) (coerce b2 (typ_of a2)) (typ_of a2)
      | _ =>
          let a2 := promote_m a' in
          let b2 := promote_m b' in
          let t := common_type (typ_of a2) (typ_of b2) in
          BinOp (coerce a2 t) (binop_str op) (coerce b2 t) (if is_int_result op then TInt else t)
      end
  | ECond c a b =>
      let a2 := promote_m (elab a) in
      let b2 := promote_m (elab b) in
      let t := common_type (typ_of a2) (typ_of b2) in
      TernOp (elab c) (coerce a2 t) (coerce b2 t) t
  end.

(* initializer of `T g = e;` : on_variable_initialization coerces to the declared type *)
Definition elab_init (t : ity) (e : expr) : cexpr := coerce (elab e) t.

(* where ppci's typing coincides with C's: get_common_type (max rank) and promote (always int)
   against the usual arithmetic conversions / integer promotions of the data model *)
Definition pp_t (t : ity) : ity := if mem_ty t promotable_types then TInt else t.
Fixpoint sema_agrees (dm : datamodel) (e : expr) : bool :=
  match e with
  | ELit _ _ => true
  | ECast _ a => sema_agrees dm a
  | EUn ULNot a => sema_agrees dm a
  | EUn _ a => sema_agrees dm a && ity_eqb (pp_t (type_of dm a)) (promote dm (type_of dm a))
  | EBin op a b =>
      sema_agrees dm a && sema_agrees dm b &&
      match op with
      | BLAnd | BLOr => true
      | BShl | BShr =>
          ity_eqb (pp_t (type_of dm a)) (promote dm (type_of dm a)) &&
          ity_eqb (pp_t (type_of dm b)) (promote dm (type_of dm b))
      | _ =>
          ity_eqb (pp_t (type_of dm a)) (promote dm (type_of dm a)) &&
          ity_eqb (pp_t (type_of dm b)) (promote dm (type_of dm b)) &&
          ity_eqb (common_type (pp_t (type_of dm a)) (pp_t (type_of dm b)))
                  (uac dm (promote dm (type_of dm a)) (promote dm (type_of dm b)))
      end
  | ECond c a b =>
      sema_agrees dm c && sema_agrees dm a && sema_agrees dm b &&
      ity_eqb (pp_t (type_of dm a)) (promote dm (type_of dm a)) &&
      ity_eqb (pp_t (type_of dm b)) (promote dm (type_of dm b)) &&
      ity_eqb (common_type (pp_t (type_of dm a)) (pp_t (type_of dm b)))
              (uac dm (promote dm (type_of dm a)) (promote dm (type_of dm b)))
  end.
