(* Model/CSema.v — hand model (tie H) of the expression typing of ppci/lang/c/semantics.py
   (CSemantics.on_number/on_cast/on_unop/on_binop/on_ternop, coerce, promote, get_common_type) with
   fixes/C27-sema-promotions.diff and c83990b (C11 promote / get_common_type, fixes/C01-common-type.diff) applied: from a source expression to the typed AST. NO proofs. *)
From PV Require Import Lib.Py Spec.CIntSpec Gen.ceval Model.CEval.
From Coq Require Import String.
Open Scope Z_scope.

(* coerce: an ImplicitCast unless the types are equal *)
Definition coerce (e : cexpr) (t : ity) : cexpr :=
  if ity_eqb (typ_of e) t then e else CastE e t.

(* get_common_type BEFORE c83990b (and still the rule for non-integer operands):
   max([t1, t2], key=rank) — the first maximal element. Kept under this name: Model/CGenExpr.v
   (C01, sem_orig) and the historical c27_fragment theorems refer to it. *)
Definition common_type (a b : ity) : ity := if basic_rank a <? basic_rank b then b else a.

Definition unop_str (op : unop) : string :=
  match op with UNeg => "-" | UCompl => "~" | ULNot => "!" | UPlus => "+" end.
Definition binop_str (op : binop) : string :=
  match op with
  | BAdd => "+" | BSub => "-" | BMul => "*" | BDiv => "/" | BMod => "%" | BShl => "<<" | BShr => ">>"
  | BAnd => "&" | BOr => "|" | BXor => "^" | BLt => "<" | BGt => ">" | BLe => "<=" | BGe => ">="
  | BEq => "==" | BNe => "!=" | BLAnd => "&&" | BLOr => "||"
  end.

(* The elaboration is written once over the two typing helpers:
     pr t     — the type CSemantics.promote coerces a promotable type t to
     cm a b   — CSemantics.get_common_type on integer types *)
Section Typing.
  Variable pr : ity -> ity.
  Variable cm : ity -> ity -> ity.

  (* promote: `if expr.typ.is_promotable: expr = self.coerce(expr, <int or unsigned int>)` *)
  Definition promote_g (e : cexpr) : cexpr :=
    if mem_ty (typ_of e) promotable_types then coerce e (pr (typ_of e)) else e.
  Definition pp_g (t : ity) : ity := if mem_ty t promotable_types then pr t else t.

  Fixpoint elab_g (e : expr) : cexpr :=
    match e with
    | ELit t v => NumLit v t                                   (* on_number: type from the suffix *)
    | ECast t a => CastE (elab_g a) t                          (* on_cast *)
    | EUn ULNot a => UnOp "!" (elab_g a) TInt                  (* check_condition keeps integer types *)
    | EUn UPlus a => promote_g (elab_g a)
    | EUn op a => let a' := promote_g (elab_g a) in UnOp (unop_str op) a' (typ_of a')
    | EBin op a b =>
        let a' := elab_g a in
        let b' := elab_g b in
        match op with
        | BLAnd | BLOr => BinOp a' (binop_str op) b' TInt
        | BShl | BShr =>
            let a2 := promote_g a' in
            let b2 := promote_g b' in
            BinOp a2 (binop_str op) (coerce b2 (typ_of a2)) (typ_of a2)
        | _ =>
            let a2 := promote_g a' in
            let b2 := promote_g b' in
            let t := cm (typ_of a2) (typ_of b2) in
            BinOp (coerce a2 t) (binop_str op) (coerce b2 t) (if is_int_result op then TInt else t)
        end
    | ECond c a b =>
        let a2 := promote_g (elab_g a) in
        let b2 := promote_g (elab_g b) in
        let t := cm (typ_of a2) (typ_of b2) in
        TernOp (elab_g c) (coerce a2 t) (coerce b2 t) t
    end.

  (* initializer of `T g = e;` : on_variable_initialization coerces to the declared type *)
  Definition elab_init_g (t : ity) (e : expr) : cexpr := coerce (elab_g e) t.

  (* where the helpers coincide with C's integer promotions / usual arithmetic conversions *)
  Fixpoint sema_agrees_g (dm : datamodel) (e : expr) : bool :=
    match e with
    | ELit _ _ => true
    | ECast _ a => sema_agrees_g dm a
    | EUn ULNot a => sema_agrees_g dm a
    | EUn _ a => sema_agrees_g dm a && ity_eqb (pp_g (type_of dm a)) (promote dm (type_of dm a))
    | EBin op a b =>
        sema_agrees_g dm a && sema_agrees_g dm b &&
        match op with
        | BLAnd | BLOr => true
        | BShl | BShr =>
            ity_eqb (pp_g (type_of dm a)) (promote dm (type_of dm a)) &&
            ity_eqb (pp_g (type_of dm b)) (promote dm (type_of dm b))
        | _ =>
            ity_eqb (pp_g (type_of dm a)) (promote dm (type_of dm a)) &&
            ity_eqb (pp_g (type_of dm b)) (promote dm (type_of dm b)) &&
            ity_eqb (cm (pp_g (type_of dm a)) (pp_g (type_of dm b)))
                    (uac dm (promote dm (type_of dm a)) (promote dm (type_of dm b)))
        end
    | ECond c a b =>
        sema_agrees_g dm c && sema_agrees_g dm a && sema_agrees_g dm b &&
        ity_eqb (pp_g (type_of dm a)) (promote dm (type_of dm a)) &&
        ity_eqb (pp_g (type_of dm b)) (promote dm (type_of dm b)) &&
        ity_eqb (cm (pp_g (type_of dm a)) (pp_g (type_of dm b)))
                (uac dm (promote dm (type_of dm a)) (promote dm (type_of dm b)))
    end.
End Typing.

(* ---- the current code (c83990b) ---- *)
(* promote: unsigned int when the unsigned source type is as wide as int, else int *)
Definition promote_t (c : cctx) (t : ity) : ity :=
  if negb (is_signed_m t) && (sizeof c t >=? sizeof c TInt) then TUInt else TInt.

(* get_type(["unsigned"] + signed_typ.type_id.split()) *)
Definition unsigned_of_m (t : ity) : ity :=
  match t with
  | TChar => TUChar | TShort => TUShort | TInt => TUInt | TLong => TULong | TLLong => TULLong
  | u => u
  end.

(* _get_common_integer_type *)
Definition common_type_c (c : cctx) (t1 t2 : ity) : ity :=
  let rank1 := basic_rank t1 / 10 in
  let rank2 := basic_rank t2 / 10 in
  if Bool.eqb (is_signed_m t1) (is_signed_m t2) then (if rank2 >? rank1 then t2 else t1)
  else
    let s := if is_signed_m t1 then t1 else t2 in
    let srank := if is_signed_m t1 then rank1 else rank2 in
    let u := if is_signed_m t1 then t2 else t1 in
    let urank := if is_signed_m t1 then rank2 else rank1 in
    if urank >=? srank then u
    else if sizeof c s >? sizeof c u then s
    else unsigned_of_m s.

Definition promote_m (c : cctx) := promote_g (promote_t c).
Definition elab (c : cctx) := elab_g (promote_t c) (common_type_c c).
Definition elab_init (c : cctx) := elab_init_g (promote_t c) (common_type_c c).
Definition sema_agrees (c : cctx) := sema_agrees_g (promote_t c) (common_type_c c).

(* ---- the helpers before c83990b: promote = always int, get_common_type = max rank ---- *)
Definition elab_old := elab_g (fun _ => TInt) common_type.
Definition sema_agrees_old := sema_agrees_g (fun _ => TInt) common_type.
Definition pp_t (t : ity) : ity := pp_g (fun _ => TInt) t.
