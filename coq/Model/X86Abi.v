(* Model/X86Abi.v — hand model (tie H) of the calling-convention logic of
   ppci/arch/x86_64/arch.py (class X86_64Arch, sysv branch: has_option("wincc") = False).
   Executable Gallina mirroring the Python function by function; NO proofs here.
   Register lists and slot sizes come from Gen/Tab_x86abi.v (regenerated from /repo on every run).
   What the instruction lists DO is abstracted to [mop] (Model/X86AbiTypes.v): only stack pointer
   arithmetic, pushes/pops and "argument i is moved to/from location l" are kept. *)
From PV Require Import Lib.Py Model.X86AbiTypes Gen.Tab_x86abi.
From Coq Require Import String.
Open Scope Z_scope.

(* ---- determine_arg_locations ---------------------------------------------------------- *)
(* arg_type in [ir.i8, ir.i64, ir.u8, ir.u64, ir.i16, ir.u16, ir.i32, ir.u32, ir.ptr] *)
Definition is_int_ty (t : ity) : bool := match t with F32 | F64 => false | _ => true end.
(* arg_type in [ir.i32, ir.u32] *)
Definition is_32_ty (t : ity) : bool := match t with I32 | U32 => true | _ => false end.

(* the loop "for arg_type in arg_types", with the loop state (int_regs, float_regs, offset) as
   arguments; int_slot / fp_slot are the two "arg_size = ..." expressions *)
Fixpoint arg_locs_go (int_slot : Z) (fp_slot : ity -> Z) (int_regs float_regs : list (reg * reg))
         (offset : Z) (tys : list ity) : list aloc :=
  match tys with
  | [] => []
  | t :: rest =>
      if is_int_ty t then
        match int_regs with
        | p :: int_regs' =>                                   (* int_regs.pop(0)[1] or [0] *)
            LReg (if is_32_ty t then snd p else fst p)
              :: arg_locs_go int_slot fp_slot int_regs' float_regs offset rest
        | [] =>
            LStack offset int_slot
              :: arg_locs_go int_slot fp_slot [] float_regs (offset + int_slot) rest
        end
      else
        match float_regs with
        | p :: float_regs' =>                                 (* f32: pop(0)[0], f64: pop(0)[1] *)
            LReg (match t with F32 => fst p | _ => snd p end)
              :: arg_locs_go int_slot fp_slot int_regs float_regs' offset rest
        | [] =>
            LStack offset (fp_slot t)
              :: arg_locs_go int_slot fp_slot int_regs [] (offset + fp_slot t) rest
        end
  end.

Definition determine_arg_locations (tys : list ity) : list aloc :=
  arg_locs_go tab_int_slot tab_fp_slot tab_int_regs tab_float_regs 16 tys.

(* ---- determine_rv_location ------------------------------------------------------------- *)
Definition determine_rv_location (t : ity) : reg :=
  match t with
  | I64 | U64 | PTR => mkreg "rax" 0 R64c
  | I32 | U32 => mkreg "eax" 0 R32c
  | I16 | U16 => mkreg "ax" 0 R16c
  | I8 | U8 => mkreg "al" 0 R8c
  | F64 => mkreg "xmm0" 0 XDc
  | F32 => mkreg "xmm0" 0 XSc
  end.

(* ---- helpers ---------------------------------------------------------------------------- *)
Fixpoint map_res {A B} (f : A -> result B) (l : list A) : result (list B) :=
  match l with
  | [] => Ok []
  | a :: r => b <- f a ;; bs <- map_res f r ;; Ok (b :: bs)
  end.

(* zip(arg_locs, args) with the argument index; the virtual register of an argument has the
   class arch.info.value_classes[type] *)
Definition arg_items (tys : list ity) : list (nat * (aloc * ity)) :=
  combine (seq 0 (List.length tys)) (combine (determine_arg_locations tys) tys).

(* ---- gen_call --------------------------------------------------------------------------- *)
Definition mem_args_of (items : list (nat * (aloc * ity))) : list (nat * rcls) :=
  flat_map (fun x => match fst (snd x) with
                     | LStack _ _ => [(fst x, tab_class_of_type (snd (snd x)))]
                     | LReg _ => [] end) items.
Definition reg_args_of (items : list (nat * (aloc * ity))) : list (reg * (nat * rcls)) :=
  flat_map (fun x => match fst (snd x) with
                     | LReg r => [(r, (fst x, tab_class_of_type (snd (snd x))))]
                     | LStack _ _ => [] end) items.

(* "Push arguments in reverse order": Register64 -> push; Register32 -> via rax; 8/16-bit and xmm
   virtual registers -> NotImplementedError unless the tree has the repairs (switches of the table,
   probed on every run from the witnesses ['f64']*9, ['i64']*6+['i8']) *)
Definition push_mem_arg (x : nat * rcls) : result mop :=
  match snd x with
  | R64c | R32c => Ok (MPushArg (fst x))
  | R8c | R16c =>            (* sign extended through al/ax into rax, push rax (when implemented) *)
      if tab_call_push_small then Ok (MPushArg (fst x)) else Internal NotImplemented
  | XSc | XDc =>             (* one eightbyte: sub rsp, 8 ; movsd/movss [rsp], reg (when implemented) *)
      if tab_call_push_fp then Ok (MPushArg (fst x)) else Internal NotImplemented
  end.

(* "Move register args to proper location" *)
Definition move_reg_arg (x : reg * (nat * rcls)) : result mop :=
  let r := fst x in
  match rclass r, snd (snd x) with
  | R64c, (R64c | R8c | R16c) => Ok (MArgToReg r (fst (snd x)))
  | R32c, R32c => Ok (MArgToReg r (fst (snd x)))
  | XDc, XDc => Ok (MArgToReg r (fst (snd x)))
  | XSc, XSc => Ok (MArgToReg r (fst (snd x)))
  | XDc, _ | XSc, _ => Internal AssertionError
  | _, _ => Internal NotImplemented
  end.

(* every register argument of mem_args is entered with size 8 *)
Definition call_stack_size (n_mem : Z) : Z := 8 * n_mem.
Definition call_padding (stack_size : Z) : Z := stack_size mod 16.   (* extra_padding *)

Definition gen_call (tys : list ity) (rv : option ity) : result (list mop) :=
  let items := arg_items tys in
  let mem_args := mem_args_of items in
  let reg_args := reg_args_of items in
  let stack_size := call_stack_size (len mem_args) in
  let padded := negb (stack_size mod 16 =? 0) in
  let stack_size' := if padded then stack_size + call_padding stack_size else stack_size in
  pushes <- map_res push_mem_arg (rev mem_args) ;;
  moves <- map_res move_reg_arg reg_args ;;
  Ok ((if padded then [MSub (call_padding stack_size)] else [])
      ++ pushes ++ moves ++ [MCall]
      ++ match rv with Some t => [MRvFrom (determine_rv_location t)] | None => [] end
      ++ (if stack_size' =? 0 then [] else [MAdd stack_size'])).

(* ---- gen_function_enter ----------------------------------------------------------------- *)
Fixpoint enter_go (stack_offset : Z) (items : list (nat * (aloc * ity))) : result (list mop) :=
  match items with
  | [] => Ok []
  | (i, (l, t)) :: rest =>
      let c := tab_class_of_type t in
      match l with
      | LReg r =>
          match rclass r, c with
          | R64c, (R64c | R8c | R16c | R32c) | R32c, R32c | XDc, XDc | XSc, XSc =>
              more <- enter_go stack_offset rest ;; Ok (MArgFromReg i r :: more)
          | _, _ => Internal NotImplemented
          end
      | LStack _ size =>
          match c with
          | R64c | R32c | XDc | XSc =>
              more <- enter_go (stack_offset + size) rest ;;
              Ok (MArgFromStack i (stack_offset + 16) (rcls_bits c) :: more)
          | R8c | R16c =>          (* loaded into rax, al/ax taken (when implemented) *)
              if tab_enter_small then
                more <- enter_go (stack_offset + size) rest ;;
                Ok (MArgFromStack i (stack_offset + 16) (rcls_bits c) :: more)
              else Internal NotImplemented
          end
      end
  end.
Definition gen_function_enter (tys : list ity) : result (list mop) := enter_go 0 (arg_items tys).

(* ---- get_callee_saved / gen_prologue / gen_epilogue -------------------------------------- *)
(* arch.info.alias[register] (exported for the callee_save / caller_save registers) *)
Definition alias_of (r : reg) : list reg :=
  match find (fun p => reg_eqb (fst p) r) tab_alias with Some p => snd p | None => [] end.
(* frame.is_used(register, alias) *)
Definition is_used (used : list reg) (r : reg) : bool :=
  existsb (fun a => existsb (reg_eqb a) used) (alias_of r).
Definition get_callee_saved (used : list reg) : list reg := filter (is_used used) tab_callee_save.

Definition saved_size_of (saved : list reg) : Z := sumZ (map (fun r => rcls_bits (rclass r) / 8) saved).
Definition round_up16 (s already_taken : Z) : Z := s + (16 - (s + already_taken) mod 16).

(* "Reserve stack space": Some n = SubImm(rsp, n) is emitted *)
Definition frame_adjust (stacksize saved_size : Z) : option Z :=
  if stacksize >? 0 then Some (round_up16 stacksize saved_size)
  else if negb (saved_size mod 16 =? 0) then Some (saved_size mod 16)
  else None.

Definition prologue_of (stacksize : Z) (saved : list reg) : list mop :=
  [MLabel; MPush tab_rbp; MMovFpSp]
  ++ match frame_adjust stacksize (saved_size_of saved) with Some n => [MSub n] | None => [] end
  ++ map MPush saved.
Definition epilogue_of (stacksize : Z) (saved : list reg) : list mop :=
  map MPop (rev saved)
  ++ match frame_adjust stacksize (saved_size_of saved) with Some n => [MAdd n] | None => [] end
  ++ [MPop tab_rbp; MRet].

Definition gen_prologue (stacksize : Z) (used : list reg) : list mop :=
  prologue_of stacksize (get_callee_saved used).
Definition gen_epilogue (stacksize : Z) (used : list reg) : list mop :=
  epilogue_of stacksize (get_callee_saved used).

(* ---- by-value aggregates (ir.BlobDataTyp) ------------------------------------------------- *)
(* determine_arg_locations:  elif isinstance(arg_type, ir.BlobDataTyp):
                                 reg = StackLocation(offset, arg_type.size); offset += arg_type.size
   A blob never takes a register and does not advance the register lists. (The C front-end passes
   every struct argument as such a blob and returns structs through a hidden first pointer
   parameter "return_value_address", whatever their size.) *)
Inductive xty := XT (t : ity) | XB (size : Z).

Fixpoint arg_locs_x (int_regs float_regs : list (reg * reg)) (offset : Z) (tys : list xty) : list aloc :=
  match tys with
  | [] => []
  | XB size :: rest => LStack offset size :: arg_locs_x int_regs float_regs (offset + size) rest
  | XT t :: rest =>
      if is_int_ty t then
        match int_regs with
        | p :: int_regs' =>
            LReg (if is_32_ty t then snd p else fst p) :: arg_locs_x int_regs' float_regs offset rest
        | [] => LStack offset tab_int_slot :: arg_locs_x [] float_regs (offset + tab_int_slot) rest
        end
      else
        match float_regs with
        | p :: float_regs' =>
            LReg (match t with F32 => fst p | _ => snd p end) :: arg_locs_x int_regs float_regs' offset rest
        | [] => LStack offset (tab_fp_slot t) :: arg_locs_x int_regs [] (offset + tab_fp_slot t) rest
        end
  end.
Definition determine_arg_locations_x (tys : list xty) : list aloc :=
  arg_locs_x tab_int_regs tab_float_regs 16 tys.

(* gen_call: stack_size = sum(p[1] for p in mem_args) with (arg, 8) for registers and (arg, arg.size)
   for blobs; "Pre align stack to 16 bytes" adds stack_size % 16 when that is non-zero. The result is
   what rsp has been lowered by at the call instruction. *)
Definition call_mem_sizes_x (tys : list xty) : list Z :=
  flat_map (fun x => match fst x, snd x with
                     | XB size, _ => [size]
                     | XT _, LStack _ _ => [8]
                     | XT _, LReg _ => []
                     end) (combine tys (determine_arg_locations_x tys)).
Definition call_rsp_drop (stack_size : Z) : Z :=
  if negb (stack_size mod 16 =? 0) then stack_size + call_padding stack_size else stack_size.
Definition call_rsp_drop_x (tys : list xty) : Z := call_rsp_drop (sumZ (call_mem_sizes_x tys)).
