(* Model/CEval.v — hand model (tie H) of ppci/lang/c/eval.py ConstantExpressionEvaluator (with the
   fixes fixes/C27-operators.diff and fixes/C27-convert.diff applied), CContext.pack and
   CCodeGenerator.gen_global_initialize_expression. Operator tables and helpers come from the
   regenerated Gen/ceval.v. NO proofs here. *)
From PV Require Import Lib.Py Lib.Val Spec.CIntSpec Gen.ceval.
From Coq Require Import String.
Open Scope Z_scope.

(* the typed AST ppci's parser + CSemantics build (integer fragment) *)
Inductive cexpr :=
  | NumLit (v : Z) (t : ity)                          (* NumericLiteral / CharLiteral *)
  | CastE (e : cexpr) (t : ity)                       (* Cast and ImplicitCast *)
  | UnOp (op : string) (a : cexpr) (t : ity)          (* UnaryOperator *)
  | BinOp (a : cexpr) (op : string) (b : cexpr) (t : ity)
  | TernOp (a b c : cexpr) (t : ity).

Definition typ_of (e : cexpr) : ity :=
  match e with
  | NumLit _ t | CastE _ t | UnOp _ _ t | BinOp _ _ _ t | TernOp _ _ _ t => t
  end.

(* CContext: type_size_map for the integer types (bytes); char = 1 and short = 2 are literals there *)
Record cctx := mkctx { int_size : Z; long_size : Z; llong_size : Z; little_endian : bool }.

Definition sizeof (c : cctx) (t : ity) : Z :=
  match t with
  | TChar | TUChar => 1 | TShort | TUShort => 2
  | TInt | TUInt => int_size c | TLong | TULong => long_size c
  | TLLong | TULLong => llong_size c
  end.

Definition mem_ty (t : ity) (l : list ity) : bool := existsb (ity_eqb t) l.
Definition is_signed_m (t : ity) : bool := mem_ty t signed_types.      (* typ.is_signed *)
Definition is_integer_m (t : ity) : bool := mem_ty t integer_types.    (* typ.is_integer *)

Fixpoint lookup {A} (k : string) (l : list (string * A)) : option A :=
  match l with
  | [] => None
  | (k', v) :: r => if String.eqb k k' then Some v else lookup k r
  end.

(* ConstantExpressionEvaluator.convert *)
Definition convert_m (c : cctx) (t : ity) (v : Z) : result Z :=
  if is_integer_m t then c_wrap v (8 * sizeof c t) (is_signed_m t) else Ok v.

Fixpoint eval_expr (c : cctx) (e : cexpr) : result Z :=
  match e with
  | NumLit v _ => Ok v
  | CastE a t => v <- eval_expr c a ;; convert_m c t v                   (* eval_cast *)
  | UnOp op a t =>                                                      (* eval_unop *)
      if String.eqb op "-" || String.eqb op "~" || String.eqb op "!" then
        v <- eval_expr c a ;;
        match lookup op unop_table with
        | None => Internal KeyError
        | Some f => r <- f v ;; convert_m c t r
        end
      else Internal NotImplemented
  | BinOp a op b t =>                                                   (* eval_binop *)
      if String.eqb op "&&" then
        va <- eval_expr c a ;;
        if va =? 0 then Ok 0 else vb <- eval_expr c b ;; Ok (Py.b2z (negb (vb =? 0)))
      else if String.eqb op "||" then
        va <- eval_expr c a ;;
        if negb (va =? 0) then Ok 1 else vb <- eval_expr c b ;; Ok (Py.b2z (negb (vb =? 0)))
      else
        lhs <- eval_expr c a ;;
        rhs <- eval_expr c b ;;
        match lookup op binop_table with
        | None => Internal KeyError
        | Some f => r <- f lhs rhs ;; convert_m c t r
        end
  | TernOp a b d _ =>                                                   (* eval_ternop *)
      va <- eval_expr c a ;;
      if negb (va =? 0) then eval_expr c b else eval_expr c d
  end.

(* struct.pack(byte_order + fmt, value) for an integer format of [n] bytes *)
Fixpoint le_bytes_m (n : nat) (v : Z) : list Z :=
  match n with O => [] | S n' => Z.land v 255 :: le_bytes_m n' (Z.shiftr v 8) end.

Definition pack_int (little : bool) (n : Z) (sgn : bool) (v : Z) : result (list Z) :=
  let lo := if sgn then - 2 ^ (8 * n - 1) else 0 in
  let hi := if sgn then 2 ^ (8 * n - 1) - 1 else 2 ^ (8 * n) - 1 in
  if (lo <=? v) && (v <=? hi) then
    let l := le_bytes_m (Z.to_nat n) v in Ok (if little then l else rev l)
  else Internal StructError.

(* CContext.pack for BasicType integer types: ctypes_names[t] has the size of t by construction
   (int_map[int_size] etc.; "q"/"Q" for long long), upper case = unsigned *)
Definition pack (c : cctx) (t : ity) (v : Z) : result (list Z) :=
  guard (sizeof c t =? (match t with TLLong | TULLong => 8 | _ => sizeof c t end)) (Internal AssertionError)
    (pack_int (little_endian c) (sizeof c t) (is_signed_m t) v).

(* gen_global_initialize_expression(typ, expr): expr is the initializer after CSemantics.coerce *)
Definition global_init (c : cctx) (t : ity) (e : cexpr) : result (list Z) :=
  v <- eval_expr c e ;; pack c t v.

(* rendering for correspondence case files *)
Definition ity_tag (t : ity) : Z :=
  match t with
  | TChar => 0 | TUChar => 1 | TShort => 2 | TUShort => 3 | TInt => 4 | TUInt => 5
  | TLong => 6 | TULong => 7 | TLLong => 8 | TULLong => 9
  end.
Fixpoint cexpr_val (e : cexpr) : val :=
  match e with
  | NumLit v t => VT [VS "lit"; VZ v; VZ (ity_tag t)]
  | CastE a t => VT [VS "cast"; cexpr_val a; VZ (ity_tag t)]
  | UnOp op a t => VT [VS "un"; VS op; cexpr_val a; VZ (ity_tag t)]
  | BinOp a op b t => VT [VS "bin"; cexpr_val a; VS op; cexpr_val b; VZ (ity_tag t)]
  | TernOp a b d t => VT [VS "tern"; cexpr_val a; cexpr_val b; cexpr_val d; VZ (ity_tag t)]
  end.
#[global] Instance ToVal_cexpr : ToVal cexpr := cexpr_val.
