(* Model/RvFrame.v — C05 (tie H): hand model of the riscv frame code and calling convention of
   ppci/arch/riscv/arch.py (RiscvArch without options): round_up, determine_arg_locations (integer / pointer
   arguments, blobs), determine_rv_location, gen_prologue / gen_epilogue as printed instructions, and the
   abstract frame operations they stand for.  No proofs. *)
From Coq Require Import ZArith List String Bool.
Import ListNotations.
Open Scope Z_scope.

Definition round_up (s : Z) : Z := s + (16 - s mod 16).

(* ---- argument locations: registers x12..x17 in order, then stack slots packed by size ---- *)
Inductive aloc := AReg (r : Z) | AStack (off size : Z).
(* an argument: (is_blob, size in bytes) *)
Fixpoint arg_locs (args : list (bool * Z)) (regs : list Z) (offset : Z) : list aloc :=
  match args with
  | [] => []
  | (true, sz) :: r => AStack offset sz :: arg_locs r regs (offset + sz)
  | (false, sz) :: r =>
      match regs with
      | x :: regs' => AReg x :: arg_locs r regs' offset
      | [] => AStack offset sz :: arg_locs r [] (offset + sz)
      end
  end.
Definition determine_arg_locations (args : list (bool * Z)) : list aloc := arg_locs args [12; 13; 14; 15; 16; 17] 0.
Definition rv_location : Z := 10.

(* ---- prologue / epilogue as printed instructions (mnemonic, operands in syntax order) ---- *)
Definition SPr : Z := 2.  Definition FPr : Z := 8.  Definition RAr : Z := 1.

Fixpoint slots (saved : list Z) (k rsize : Z) : list (Z * Z) :=      (* (register, offset from sp) *)
  match saved with
  | [] => []
  | r :: rs => (r, rsize - 4 * k) :: slots rs (k + 1) rsize
  end.

Definition prologue_items (stacksize : Z) (saved : list Z) (extras : Z) : list (string * list Z) :=
  let ssize := round_up (stacksize + 8) in
  let rsize := round_up (4 * Z.of_nat (List.length saved)) in
  [("addi", [SPr; SPr; - ssize]); ("sw", [RAr; 4; SPr]); ("sw", [FPr; 0; SPr]); ("addi", [FPr; SPr; 8]);
   ("addi", [SPr; SPr; - rsize])]%string ++
  map (fun p => ("sw"%string, [fst p; snd p; SPr])) (slots saved 1 rsize) ++
  (if extras =? 0 then [] else [("addi"%string, [SPr; SPr; - round_up extras])]).

Definition epilogue_items (stacksize : Z) (saved : list Z) (extras : Z) : list (string * list Z) :=
  let ssize := round_up (stacksize + 8) in
  let rsize := round_up (4 * Z.of_nat (List.length saved)) in
  (if extras =? 0 then [] else [("addi"%string, [SPr; SPr; round_up extras])]) ++
  map (fun p => ("lw"%string, [fst p; snd p; SPr])) (slots saved 1 rsize) ++
  [("addi", [SPr; SPr; rsize]); ("lw", [RAr; 4; SPr]); ("lw", [FPr; 0; SPr]); ("addi", [SPr; SPr; ssize]);
   ("jalr", [0; RAr; 0])]%string.

(* ---- the abstract frame machine: word slots addressed by byte address, registers ---- *)
Inductive fop := FAddSp (k : Z) | FSave (r off : Z) | FRestore (r off : Z) | FSetFp (off : Z) | FRet.
Record fstate := mkF { f_regs : Z -> Z; f_mem : Z -> Z }.

Definition fop_of (it : string * list Z) : option fop :=
  match it with
  | (mn, [a; b; c]) =>
      if String.eqb mn "addi" then
        if (a =? SPr) && (b =? SPr) then Some (FAddSp c)
        else if (a =? FPr) && (b =? SPr) then Some (FSetFp c) else None
      else if String.eqb mn "sw" then (if c =? SPr then Some (FSave a b) else None)
      else if String.eqb mn "lw" then (if c =? SPr then Some (FRestore a b) else None)
      else if String.eqb mn "jalr" then (if (a =? 0) && (b =? RAr) && (c =? 0) then Some FRet else None)
      else None
  | _ => None
  end.

Fixpoint fops_of (l : list (string * list Z)) : option (list fop) :=
  match l with
  | [] => Some []
  | it :: r => match fop_of it, fops_of r with Some o, Some os => Some (o :: os) | _, _ => None end
  end.

Definition upd (f : Z -> Z) (k v : Z) : Z -> Z := fun x => if x =? k then v else f x.

Definition fexec (o : fop) (s : fstate) : fstate :=
  match o with
  | FAddSp k => mkF (upd (f_regs s) SPr (f_regs s SPr + k)) (f_mem s)
  | FSave r off => mkF (f_regs s) (upd (f_mem s) (f_regs s SPr + off) (f_regs s r))
  | FRestore r off => mkF (upd (f_regs s) r (f_mem s (f_regs s SPr + off))) (f_mem s)
  | FSetFp off => mkF (upd (f_regs s) FPr (f_regs s SPr + off)) (f_mem s)
  | FRet => s
  end.
Fixpoint frun (l : list fop) (s : fstate) : fstate :=
  match l with [] => s | o :: r => frun r (fexec o s) end.

Definition prologue_ops (stacksize : Z) (saved : list Z) (extras : Z) : list fop :=
  let ssize := round_up (stacksize + 8) in
  let rsize := round_up (4 * Z.of_nat (List.length saved)) in
  [FAddSp (- ssize); FSave RAr 4; FSave FPr 0; FSetFp 8; FAddSp (- rsize)] ++
  map (fun p => FSave (fst p) (snd p)) (slots saved 1 rsize) ++
  (if extras =? 0 then [] else [FAddSp (- round_up extras)]).

Definition epilogue_ops (stacksize : Z) (saved : list Z) (extras : Z) : list fop :=
  let ssize := round_up (stacksize + 8) in
  let rsize := round_up (4 * Z.of_nat (List.length saved)) in
  (if extras =? 0 then [] else [FAddSp (round_up extras)]) ++
  map (fun p => FRestore (fst p) (snd p)) (slots saved 1 rsize) ++
  [FAddSp rsize; FRestore RAr 4; FRestore FPr 0; FAddSp ssize; FRet].
