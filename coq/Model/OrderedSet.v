(* Model/OrderedSet.v — hand model (tie H) of ppci/utils/collections.py : class OrderedSet(MutableSet),
   method by method, including the mixin methods it inherits from collections.abc.MutableSet / Set
   (CPython Lib/_collections_abc.py).  No proofs here.  Checked against the real class on random
   operation histories by tools/props/c30.py on every run.

   Representation.  The object is  self._map : key -> [key, prev, next]  plus the circular doubly
   linked list hanging off the sentinel  self._end.  The model state is the list of keys met when
   following the `next` links from the sentinel ( = what __iter__ yields), of type [list Z].
   An element is modelled by the integer that identifies its equality class (Python `==` / `hash`
   agree on it); the hash value itself does not occur in the model because the class never uses it
   other than through  `key in self._map` / `self._map[key]` / `self._map.pop(key)`.

     add      : `if value not in self._map:` link a new node before the sentinel  = append at the end
     discard  : `if value in self._map:` unlink the node stored in the map         = remove that key
     __iter__ : follow `next` from the sentinel                                     = the list
     __reversed__ : starts at end[2] (the FIRST node, not end[1]) and follows `prev`, so it yields
                the first key only and stops at the sentinel — modelled as it is ([firstn 1]).
     __getitem__ : linear scan with enumerate; falls off the end and returns None for an index that
                is negative or >= len (no IndexError)                              = option
   Mixins (Lib/_collections_abc.py):
     remove(x)  : KeyError when absent, else discard
     pop()      : value = next(iter(self)) (KeyError when empty); discard(value); return value  -> FIRST key
     clear()    : pop() until KeyError
     s |= it    : for value in it: self.add(value)
     s -= it    : if it is self: clear() else: for value in it: self.discard(value)
     s &= it    : for value in (self - it): self.discard(value)
     s | other  : _from_iterable(e for s in (self, other) for e in s)   ( = OrderedSet(iterable): self |= iterable )
     s & other  : _from_iterable(value for value in other if value in self)     (order of OTHER)
     s - other  : _from_iterable(value for value in self if value not in other) (order of SELF)
     s ^ other  : (self - other) | (other - self)
     s == other : len(self) == len(other) and all(e in other for e in self)
   Arguments called `it` / `other` are modelled by the list their iteration yields ([list Z]);
   for a builtin set argument that list is some enumeration of the set — theorems quantify over it. *)
From PV Require Import Lib.Py.
Open Scope Z_scope.

Definition oset := list Z.

Definition os_new : oset := [].

(* key in self._map *)
Fixpoint mem (x : Z) (l : list Z) : bool :=
  match l with [] => false | y :: r => (x =? y) || mem x r end.
Definition os_contains (s : oset) (x : Z) : bool := mem x s.

Definition os_len (s : oset) : Z := len s.

(* unlink the (single) node of key x *)
Fixpoint unlink (x : Z) (l : list Z) : list Z :=
  match l with
  | [] => []
  | y :: r => if x =? y then r else y :: unlink x r
  end.

Definition os_add (s : oset) (x : Z) : oset := if mem x s then s else s ++ [x].
Definition os_discard (s : oset) (x : Z) : oset := if mem x s then unlink x s else s.

Definition os_iter (s : oset) : list Z := s.
Definition os_reversed (s : oset) : list Z := firstn 1 s.     (* as implemented: first key only *)

Definition os_getitem (s : oset) (i : Z) : option Z :=
  if i <? 0 then None else nth_error s (Z.to_nat i).

(* ---- MutableSet mixins ---- *)
Definition os_remove (s : oset) (x : Z) : result oset :=
  if mem x s then Ok (os_discard s x) else Internal KeyError.

Definition os_pop (s : oset) : result (Z * oset) :=
  match s with
  | [] => Internal KeyError
  | x :: _ => Ok (x, os_discard s x)
  end.

(* clear(): pop() until KeyError; fuel = number of pops allowed *)
Fixpoint os_clear_loop (fuel : nat) (s : oset) : result oset :=
  match os_pop s with
  | Internal _ => Ok s
  | Ok (_, s') => match fuel with O => OutOfFuel | S f => os_clear_loop f s' end
  | Diag c => Diag c
  | OutOfFuel => OutOfFuel
  end.
Definition os_clear (s : oset) : oset :=
  match os_clear_loop (length s) s with Ok r => r | _ => s end.

Definition os_ior (s : oset) (it : list Z) : oset := fold_left os_add it s.
Definition os_init (it : list Z) : oset := os_ior os_new it.          (* OrderedSet(iterable) *)
Definition os_isub (s : oset) (it : list Z) : oset := fold_left os_discard it s.   (* it is not self *)

Definition os_or (s : oset) (other : list Z) : oset := os_init (s ++ other).
Definition os_and (s : oset) (other : list Z) : oset := os_init (filter (fun v => mem v s) other).
Definition os_sub (s : oset) (other : list Z) : oset := os_init (filter (fun v => negb (mem v other)) s).
Definition os_xor (s : oset) (other : list Z) : oset :=
  (* other is first turned into an OrderedSet when it is not a Set; for a Set argument other - self
     is computed by other's own __sub__, whose iteration order is the list [other] *)
  os_or (os_sub s other) (filter (fun v => negb (mem v s)) other).
Definition os_iand (s : oset) (it : list Z) : oset := fold_left os_discard (os_sub s it) s.

Definition os_eq (s : oset) (other : list Z) : bool :=
  (os_len s =? len other) && forallb (fun e => mem e other) s.

(* ---- operation histories on one object ---- *)
Inductive op :=
  | OAdd (x : Z) | ODiscard (x : Z) | ORemove (x : Z) | OPop | OClear
  | OIor (it : list Z) | OIsub (it : list Z) | OIand (it : list Z).

(* what the caller observes from one operation *)
Inductive outcome := ONone | OVal (x : Z) | OKeyError.

Definition step (s : oset) (o : op) : oset * outcome :=
  match o with
  | OAdd x => (os_add s x, ONone)
  | ODiscard x => (os_discard s x, ONone)
  | ORemove x => match os_remove s x with Ok s' => (s', ONone) | _ => (s, OKeyError) end
  | OPop => match os_pop s with Ok (x, s') => (s', OVal x) | _ => (s, OKeyError) end
  | OClear => (os_clear s, ONone)
  | OIor it => (os_ior s it, ONone)
  | OIsub it => (os_isub s it, ONone)
  | OIand it => (os_iand s it, ONone)
  end.

Fixpoint run_from (s : oset) (ops : list op) : oset * list outcome :=
  match ops with
  | [] => (s, [])
  | o :: r => let '(s1, out) := step s o in
              let '(s2, outs) := run_from s1 r in (s2, out :: outs)
  end.
Definition run (ops : list op) : oset * list outcome := run_from os_new ops.

(* encoding of outcomes for the correspondence harness *)
Definition outcome_z (o : outcome) : Z * Z :=
  match o with ONone => (0, 0) | OVal x => (1, x) | OKeyError => (2, 0) end.

(* __reversed__ as repaired (fixes/C30-orderedset-reversed.diff): start at end[1] (the LAST node) and
   follow `prev` until the sentinel *)
Definition os_reversed_fixed (s : oset) : list Z := rev s.
