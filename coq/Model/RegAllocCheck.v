(* Model/RegAllocCheck.v — C06: the verified validator (certificate checker), executable, no proofs.
   Input: the virtual-register program handed to the colouring phase, a supplied table of
   per-instruction live-out sets (certificate), the final colouring, the target's alias relation,
   the set of deleted instructions, the precoloured registers and the program as rewritten. *)
From Coq Require Import ZArith List Bool Arith.
From PV Require Import Spec.RegAllocSpec.
Import ListNotations.
Open Scope Z_scope.

Definition memz (r : reg) (l : list reg) : bool := existsb (Z.eqb r) l.
Definition subset (a b : list reg) : bool := forallb (fun r => memz r b) a.

Definition live_out_of (live : list (list reg)) (pc : nat) : list reg := nth pc live [].
Definition live_in_of (prog : list instr) (live : list (list reg)) (pc : nat) : list reg :=
  match nth_error prog pc with
  | Some i => i_uses i ++ filter (fun r => negb (memz r (i_defs i))) (live_out_of live pc)
  | None => []
  end.

(* (1) the supplied sets are a post-fixpoint of the liveness equations *)
Definition check_live (prog : list instr) (live : list (list reg)) : bool :=
  forallb (fun pc => forallb (fun s => subset (live_in_of prog live s) (live_out_of live pc))
                             (succs prog pc))
          (seq 0 (length prog)).

Definition conflict (alias : reg -> reg -> bool) (p q : reg) : bool :=
  (p =? q) || alias p q || alias q p.

(* a plain copy d <- s *)
Definition move_shape (i : instr) : option (reg * reg) :=
  match i_move i, i_uses i, i_defs i, i_clob i with
  | true, [s], [d], [] => Some (d, s)
  | _, _, _, _ => None
  end.

Definition exempt (color : reg -> reg) (i : instr) (d v : reg) : bool :=
  match move_shape i with
  | Some (d', s) => (d =? d') && (v =? s) && (color d' =? color s)
  | None => false
  end.

(* (2) whatever an instruction writes does not share or alias the register of a value live across it *)
Definition isphys (physl : list reg) (r : reg) : bool := memz r physl.

(* pairs of two physical registers are the virtual program's own business (hardware aliasing,
   identical in both programs) unless the instruction is deleted; every other pair must not
   share or alias *)
Definition check_interf (color : reg -> reg) (alias : reg -> reg -> bool) (physl : list reg)
  (rm : bool) (i : instr) (lo : list reg) : bool :=
  forallb (fun d => forallb (fun v => (v =? d) || (negb rm && isphys physl d && isphys physl v)
                                       || negb (conflict alias (color d) (color v))
                                       || exempt color i d v) lo)
          (i_defs i ++ i_clob i).

(* a deleted instruction must be a copy whose two sides received the same colour *)
Definition removable (color : reg -> reg) (i : instr) : bool :=
  match move_shape i, i_jumps i with
  | Some (d, s), [] => color d =? color s
  | _, _ => false
  end.

Definition check_entry (color : reg -> reg) (alias : reg -> reg -> bool) (physl : list reg)
  (l : list reg) : bool :=
  forallb (fun a => forallb (fun b => (a =? b) || (isphys physl a && isphys physl b)
                                       || negb (conflict alias (color a) (color b))) l) l.

Definition check_alloc (prog : list instr) (live : list (list reg)) (color : reg -> reg)
  (alias : reg -> reg -> bool) (physl : list reg) (removed : list bool) : bool :=
  check_live prog live
  && forallb (fun pc => match nth_error prog pc with
                        | Some i => check_interf color alias physl (nth pc removed false) i (live_out_of live pc)
                                    && (if nth pc removed false then removable color i else true)
                        | None => true
                        end) (seq 0 (length prog))
  && check_entry color alias physl (live_in_of prog live 0)
  && forallb (fun v => color v =? v) physl.      (* physical registers are their own colour *)

(* (3) precoloured registers keep their colour *)
Definition check_precoloured (color : reg -> reg) (pre : list (reg * reg)) : bool :=
  forallb (fun vp => color (fst vp) =? snd vp) pre.

(* (4) the rewritten program is the renamed program without the deleted instructions
       (jump targets renumbered accordingly) *)
Fixpoint list_eqb {A} (e : A -> A -> bool) (a b : list A) : bool :=
  match a, b with
  | [], [] => true
  | x :: a', y :: b' => e x y && list_eqb e a' b'
  | _, _ => false
  end.
Definition instr_eqb (a b : instr) : bool :=
  list_eqb Z.eqb (i_uses a) (i_uses b) && list_eqb Z.eqb (i_defs a) (i_defs b)
  && list_eqb Z.eqb (i_clob a) (i_clob b) && Bool.eqb (i_move a) (i_move b)
  && list_eqb Nat.eqb (i_jumps a) (i_jumps b).

(* new index of old index k = number of kept entries before k *)
Fixpoint new_index (removed : list bool) (k : nat) : nat :=
  match k with
  | O => O
  | S k' => match removed with
            | [] => k
            | b :: r => (if b then 0 else 1) + new_index r k'
            end
  end%nat.

Fixpoint compact (removed : list bool) (tp : list (option instr)) : list instr :=
  match tp with
  | [] => []
  | None :: t => compact removed t
  | Some i :: t => mkInstr (i_uses i) (i_defs i) (i_clob i) (i_move i)
                           (map (new_index removed) (i_jumps i)) :: compact removed t
  end.

Definition check_rewritten (prog : list instr) (color : reg -> reg) (removed : list bool)
  (after : list instr) : bool :=
  list_eqb instr_eqb (compact removed (target color prog removed)) after.

(* ---- literals: colouring and alias relation as association lists *)
Fixpoint assoc {B} (k : Z) (l : list (Z * B)) : option B :=
  match l with
  | [] => None
  | (k', b) :: t => if k =? k' then Some b else assoc k t
  end.
(* registers that do not occur in the table keep their own name *)
Definition color_of (tbl : list (reg * reg)) (r : reg) : reg :=
  match assoc r tbl with Some p => p | None => r end.
Definition alias_of (tbl : list (reg * list reg)) (p q : reg) : bool :=
  match assoc p tbl with Some l => memz q l | None => false end.

(* ---- liveness computed inside Coq (untrusted: its result is validated by [check_live]) *)
Definition add_set (acc : list reg) (r : reg) : list reg := if memz r acc then acc else r :: acc.
Definition union (a b : list reg) : list reg := fold_left add_set b a.

(* one backward pass; [old] = table of the previous pass, [tail] = new sets of the points after pc *)
Fixpoint pass_aux (prog : list instr) (old : list (list reg)) (pcs : list nat)
  (tail : list (list reg)) : list (list reg) :=
  match pcs with
  | [] => tail
  | pc :: rest =>
      let lo_of s := if (pc <? s)%nat then nth (s - pc - 1)%nat tail [] else nth s old [] in
      let lin s := match nth_error prog s with
                   | Some i => union (i_uses i)
                                 (filter (fun r => negb (memz r (i_defs i))) (lo_of s))
                   | None => []
                   end in
      let lo := fold_left (fun acc s => union acc (lin s)) (succs prog pc) [] in
      pass_aux prog old rest (lo :: tail)
  end.
Definition pass (prog : list instr) (old : list (list reg)) : list (list reg) :=
  pass_aux prog old (rev (seq 0 (length prog))) [].
Definition table_size (t : list (list reg)) : nat := fold_left (fun a l => (a + length l)%nat) t 0%nat.
Fixpoint iterate_live (prog : list instr) (fuel : nat) (t : list (list reg)) : list (list reg) :=
  match fuel with
  | O => t
  | S f => let t' := pass prog t in
           if (table_size t' =? table_size t)%nat then t' else iterate_live prog f t'
  end.
Definition compute_live (prog : list instr) (fuel : nat) : list (list reg) :=
  iterate_live prog fuel (map (fun _ => []) prog).

Definition removed_flags (idx : list nat) (n : nat) : list bool :=
  map (fun k => existsb (Nat.eqb k) idx) (seq 0 n).

(* (5) nothing but the allowed registers (physical registers, plus whatever the allocator's INPUT
       program already read undefined) is live at function entry: a virtual register live at entry
       is read before any write on some path *)
Definition check_entry_live (prog : list instr) (live : list (list reg)) (allowed : list reg) : bool :=
  subset (live_in_of prog live 0) allowed.

(* the per-frame entry point used by the check: certificate supplied ... *)
Definition check_frame_cert (prog : list instr) (live : list (list reg)) (ctbl : list (reg * reg))
  (atbl : list (reg * list reg)) (physl : list reg) (entry_extra : list reg) (removed : list bool)
  (pre : list (reg * reg)) (after : list instr) : bool :=
  check_alloc prog live (color_of ctbl) (alias_of atbl) physl removed
  && check_entry_live prog live (physl ++ entry_extra)
  && check_precoloured (color_of ctbl) pre
  && check_rewritten prog (color_of ctbl) removed after.

(* ... or computed here (and validated like a supplied one) *)
Definition check_frame (prog : list instr) (fuel : nat) (ctbl : list (reg * reg))
  (atbl : list (reg * list reg)) (physl : list reg) (entry_extra : list reg) (removed_idx : list nat)
  (pre : list (reg * reg)) (after : list instr) : bool :=
  check_frame_cert prog (compute_live prog fuel) ctbl atbl physl entry_extra
                   (removed_flags removed_idx (length prog)) pre after.
