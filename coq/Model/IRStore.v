(* Model/IRStore.v — hand model (tie H) of the STORED def-use / predecessor bookkeeping of
   ppci/ir.py and of the primitive mutators that maintain it (property C03).

   Objects are identified by numbers (oid): a LocalValue is one object that is both a value
   (has used_by) and an instruction (has uses).  State:
     i_vars    Instruction._var_map      (dict, insertion order: slot name -> value)
     i_args    FunctionCall/ProcedureCall.arguments   (list)
     i_inputs  Phi.inputs                (dict: block -> value)
     i_bmap    JumpBase._block_map       (dict: target name -> block)
     i_uses    Instruction.uses          (OrderedSet = list without duplicates)
     i_block   Instruction.block
     st_used_by   Value.used_by (OrderedSet),  st_refs  Block.references (OrderedSet),
     st_blocks    Block.instructions
   Mutators mirror ir.py line by line; KeyError / AssertionError / ValueError(list.remove) are
   [Internal].  The record [fixes] switches each repaired method between the code as found in
   /repo (false) and the code after /verif/fixes/C03-*.diff (true); the check probes the tree
   to select the configuration for the correspondence.  NO proofs here. *)
From PV Require Import Lib.Py Lib.Val.
From Coq Require Import String.
Open Scope nat_scope.

Definition oid := nat.

Record fixes := mk_fixes {
  fx_replace_use : bool;    (* C03-replace-use-double *)
  fx_call : bool;           (* C03-call-replace-use-repeated-args *)
  fx_phi_replace : bool;    (* C03-phi-replace-use-repeated *)
  fx_phi_incoming : bool;   (* C03-phi-incoming-shared-value *)
  fx_jump_delete : bool;    (* C03-jump-delete *)
  fx_setter : bool;         (* C03-value-use-setter *)
  fx_rfb : bool             (* C03-jump-remove-from-block *)
}.
Definition as_found := mk_fixes false false false false false false false.
Definition all_fixed := mk_fixes true true true true true true true.

Inductive ikind := KPlain | KCall | KPhi | KJump.
Record inst := mk_inst {
  i_kind : ikind;
  i_vars : list (string * oid);
  i_args : list oid;
  i_inputs : list (oid * oid);
  i_bmap : list (string * oid);
  i_uses : list oid;
  i_block : option oid }.
Record store := mk_store {
  st_ins : list (oid * inst);
  st_used_by : list (oid * list oid);
  st_refs : list (oid * list oid);
  st_blocks : list (oid * list oid) }.
Definition empty_store := mk_store [] [] [] [].

(* ------------------------------------------------------------------ containers *)
Fixpoint memn (x : nat) (l : list nat) : bool :=
  match l with [] => false | y :: r => Nat.eqb x y || memn x r end.
Fixpoint removen (x : nat) (l : list nat) : list nat :=
  match l with [] => [] | y :: r => if Nat.eqb x y then removen x r else y :: removen x r end.
(* list.remove: first occurrence *)
Fixpoint remove1 (x : nat) (l : list nat) : list nat :=
  match l with [] => [] | y :: r => if Nat.eqb x y then r else y :: remove1 x r end.
(* OrderedSet.add / remove (MutableSet.remove raises KeyError) / discard *)
Definition os_add (x : nat) (l : list nat) : list nat := if memn x l then l else l ++ [x].
Definition os_remove (x : nat) (l : list nat) : result (list nat) :=
  if memn x l then Ok (removen x l) else Internal KeyError.
Definition os_discard (x : nat) (l : list nat) : list nat := removen x l.

Fixpoint nget {A} (k : nat) (l : list (nat * A)) : option A :=
  match l with [] => None | (k', v) :: r => if Nat.eqb k k' then Some v else nget k r end.
(* dict[k] = v: in place when present, else appended (insertion order) *)
Fixpoint nset {A} (k : nat) (v : A) (l : list (nat * A)) : list (nat * A) :=
  match l with
  | [] => [(k, v)]
  | (k', v') :: r => if Nat.eqb k k' then (k, v) :: r else (k', v') :: nset k v r
  end.
Fixpoint ndel {A} (k : nat) (l : list (nat * A)) : list (nat * A) :=
  match l with [] => [] | (k', v) :: r => if Nat.eqb k k' then r else (k', v) :: ndel k r end.
Fixpoint sget {A} (k : string) (l : list (string * A)) : option A :=
  match l with [] => None | (k', v) :: r => if String.eqb k k' then Some v else sget k r end.
Fixpoint sset {A} (k : string) (v : A) (l : list (string * A)) : list (string * A) :=
  match l with
  | [] => [(k, v)]
  | (k', v') :: r => if String.eqb k k' then (k, v) :: r else (k', v') :: sset k v r
  end.
Definition count_n (x : nat) (l : list nat) : nat := List.length (filter (Nat.eqb x) l).
Fixpoint index_n (x : nat) (l : list nat) : nat :=
  match l with [] => 0 | y :: r => if Nat.eqb x y then 0 else S (index_n x r) end.
Fixpoint set_nth (k : nat) (v : nat) (l : list nat) : list nat :=
  match l, k with
  | [], _ => []
  | _ :: r, O => v :: r
  | y :: r, S k' => y :: set_nth k' v r
  end.
Definition subst_n (old new : nat) (v : nat) : nat := if Nat.eqb v old then new else v.

(* ------------------------------------------------------------------ state access *)
Definition get_ub (s : store) (v : oid) : list oid :=
  match nget v (st_used_by s) with Some l => l | None => [] end.
Definition get_refs (s : store) (b : oid) : list oid :=
  match nget b (st_refs s) with Some l => l | None => [] end.
Definition get_blk (s : store) (b : oid) : list oid :=
  match nget b (st_blocks s) with Some l => l | None => [] end.
Definition get_i (s : store) (i : oid) : result inst :=
  match nget i (st_ins s) with Some x => Ok x | None => Internal (OtherI 1) end.
Definition put_i (s : store) (i : oid) (x : inst) : store :=
  mk_store (nset i x (st_ins s)) (st_used_by s) (st_refs s) (st_blocks s).
Definition put_ub (s : store) (v : oid) (l : list oid) : store :=
  mk_store (st_ins s) (nset v l (st_used_by s)) (st_refs s) (st_blocks s).
Definition put_refs (s : store) (b : oid) (l : list oid) : store :=
  mk_store (st_ins s) (st_used_by s) (nset b l (st_refs s)) (st_blocks s).
Definition put_blk (s : store) (b : oid) (l : list oid) : store :=
  mk_store (st_ins s) (st_used_by s) (st_refs s) (nset b l (st_blocks s)).

Definition with_uses (x : inst) (u : list oid) : inst :=
  mk_inst (i_kind x) (i_vars x) (i_args x) (i_inputs x) (i_bmap x) u (i_block x).
Definition with_vars (x : inst) (v : list (string * oid)) : inst :=
  mk_inst (i_kind x) v (i_args x) (i_inputs x) (i_bmap x) (i_uses x) (i_block x).
Definition with_args (x : inst) (a : list oid) : inst :=
  mk_inst (i_kind x) (i_vars x) a (i_inputs x) (i_bmap x) (i_uses x) (i_block x).
Definition with_inputs (x : inst) (p : list (oid * oid)) : inst :=
  mk_inst (i_kind x) (i_vars x) (i_args x) p (i_bmap x) (i_uses x) (i_block x).
Definition with_bmap (x : inst) (b : list (string * oid)) : inst :=
  mk_inst (i_kind x) (i_vars x) (i_args x) (i_inputs x) b (i_uses x) (i_block x).
Definition with_block (x : inst) (b : option oid) : inst :=
  mk_inst (i_kind x) (i_vars x) (i_args x) (i_inputs x) (i_bmap x) (i_uses x) b.

(* the values an instruction really refers to *)
Definition operands (x : inst) : list oid :=
  map snd (i_vars x) ++ i_args x ++ map snd (i_inputs x).

Section M.
Variable fx : fixes.

(* Instruction.add_use / del_use (with Value.add_user / del_user) *)
Definition add_use (s : store) (i v : oid) : result store :=
  x <- get_i s i ;;
  let s1 := put_i s i (with_uses x (os_add v (i_uses x))) in
  Ok (put_ub s1 v (os_add i (get_ub s1 v))).
Definition del_use (s : store) (i v : oid) : result store :=
  x <- get_i s i ;;
  u <- os_remove v (i_uses x) ;;
  let s1 := put_i s i (with_uses x u) in
  ub <- os_remove i (get_ub s1 v) ;;
  Ok (put_ub s1 v ub).

(* value_use setter:  instruction.<name> = v *)
Definition set_var (s : store) (i : oid) (name : string) (v : oid) : result store :=
  x <- get_i s i ;;
  if fx_setter fx then
    (* repaired: store first, release the old value only if no other slot still holds it *)
    let x1 := with_vars x (sset name v (i_vars x)) in
    let s1 := put_i s i x1 in
    s2 <- match sget name (i_vars x) with
          | Some o => if memn o (map snd (i_vars x1)) then Ok s1 else del_use s1 i o
          | None => Ok s1
          end ;;
    add_use s2 i v
  else
    s1 <- match sget name (i_vars x) with Some o => del_use s i o | None => Ok s end ;;
    x1 <- get_i s1 i ;;
    add_use (put_i s1 i (with_vars x1 (sset name v (i_vars x1)))) i v.

(* Instruction.replace_use, as found: per matching slot del_use / store / add_use *)
Fixpoint ru_loop (s : store) (i old new : oid) (names : list string) : result store :=
  match names with
  | [] => Ok s
  | n :: r =>
      x <- get_i s i ;;
      match sget n (i_vars x) with
      | Some v =>
          if Nat.eqb v old then
            s1 <- del_use s i old ;;
            x1 <- get_i s1 i ;;
            s2 <- add_use (put_i s1 i (with_vars x1 (sset n new (i_vars x1)))) i new ;;
            ru_loop s2 i old new r
          else ru_loop s i old new r
      | None => Internal KeyError
      end
  end.
Definition replace_use_base (s : store) (i old new : oid) : result store :=
  x <- get_i s i ;;
  if fx_replace_use fx then
    if memn old (map snd (i_vars x)) then
      let s1 := put_i s i (with_vars x (map (fun p => (fst p, subst_n old new (snd p))) (i_vars x))) in
      s2 <- del_use s1 i old ;;
      add_use s2 i new
    else Ok s
  else ru_loop s i old new (map fst (i_vars x)).

(* FunctionCall / ProcedureCall.replace_use *)
Definition replace_use_call (s : store) (i old new : oid) : result store :=
  s1 <- replace_use_base s i old new ;;
  x <- get_i s1 i ;;
  if memn old (i_args x) then
    if fx_call fx then
      let s2 := put_i s1 i (with_args x (map (subst_n old new) (i_args x))) in
      s3 <- (if memn old (i_uses x) then del_use s2 i old else Ok s2) ;;
      add_use s3 i new
    else
      s2 <- del_use s1 i old ;;
      x2 <- get_i s2 i ;;
      add_use (put_i s2 i (with_args x2 (set_nth (index_n old (i_args x2)) new (i_args x2)))) i new
  else Ok s1.

(* Phi.replace_use *)
Fixpoint phi_ru_loop (s : store) (i old new : oid) (keys : list oid) : result store :=
  match keys with
  | [] => Ok s
  | k :: r =>
      x <- get_i s i ;;
      match nget k (i_inputs x) with
      | Some v =>
          if Nat.eqb v old then
            s1 <- del_use s i old ;;
            x1 <- get_i s1 i ;;
            s2 <- add_use (put_i s1 i (with_inputs x1 (nset k new (i_inputs x1)))) i new ;;
            phi_ru_loop s2 i old new r
          else phi_ru_loop s i old new r
      | None => Internal KeyError
      end
  end.
Definition replace_use_phi (s : store) (i old new : oid) : result store :=
  x <- get_i s i ;;
  if memn old (map snd (i_inputs x)) then
    if fx_phi_replace fx then
      let s1 := put_i s i (with_inputs x (map (fun p => (fst p, subst_n old new (snd p)))
                                              (i_inputs x))) in
      s2 <- del_use s1 i old ;;
      add_use s2 i new
    else phi_ru_loop s i old new (map fst (i_inputs x))
  else Internal AssertionError.

Definition replace_use (s : store) (i old new : oid) : result store :=
  x <- get_i s i ;;
  match i_kind x with
  | KCall => replace_use_call s i old new
  | KPhi => replace_use_phi s i old new
  | _ => replace_use_base s i old new
  end.

(* Value.replace_by:  for use in list(self.used_by): use.replace_use(self, value) *)
Fixpoint replace_by_loop (s : store) (v new : oid) (users : list oid) : result store :=
  match users with
  | [] => Ok s
  | u :: r => s1 <- replace_use s u v new ;; replace_by_loop s1 v new r
  end.
Definition replace_by (s : store) (v new : oid) : result store :=
  replace_by_loop s v new (get_ub s v).

(* Phi.set_incoming / del_incoming (type check omitted: all model values have one type) *)
Definition set_incoming (s : store) (i b v : oid) : result store :=
  x <- get_i s i ;;
  if fx_phi_incoming fx then
    let old := nget b (i_inputs x) in
    let x1 := with_inputs x (nset b v (i_inputs x)) in
    let s1 := put_i s i x1 in
    s2 <- match old with
          | Some o => if memn o (map snd (i_inputs x1)) then Ok s1 else del_use s1 i o
          | None => Ok s1
          end ;;
    add_use s2 i v
  else
    s1 <- match nget b (i_inputs x) with Some o => del_use s i o | None => Ok s end ;;
    x1 <- get_i s1 i ;;
    add_use (put_i s1 i (with_inputs x1 (nset b v (i_inputs x1)))) i v.
Definition del_incoming (s : store) (i b : oid) : result store :=
  x <- get_i s i ;;
  match nget b (i_inputs x) with
  | None => Internal KeyError
  | Some v =>
      let x1 := with_inputs x (ndel b (i_inputs x)) in
      let s1 := put_i s i x1 in
      if fx_phi_incoming fx && memn v (map snd (i_inputs x1)) then Ok s1 else del_use s1 i v
  end.

(* Block.replace_incoming(block, new_blocks) on the phis of block [blk] *)
Fixpoint set_incoming_all (s : store) (i v : oid) (bs : list oid) : result store :=
  match bs with
  | [] => Ok s
  | b :: r => s1 <- set_incoming s i b v ;; set_incoming_all s1 i v r
  end.
Fixpoint replace_incoming_loop (s : store) (b : oid) (news : list oid) (phis : list oid)
  : result store :=
  match phis with
  | [] => Ok s
  | p :: r =>
      x <- get_i s p ;;
      match nget b (i_inputs x) with
      | None => Internal KeyError
      | Some v =>
          s1 <- del_incoming s p b ;;
          s2 <- set_incoming_all s1 p v news ;;
          replace_incoming_loop s2 b news r
      end
  end.
Definition is_kind (s : store) (k : ikind) (i : oid) : bool :=
  match nget i (st_ins s) with
  | Some x => match i_kind x, k with
              | KPhi, KPhi | KCall, KCall | KJump, KJump | KPlain, KPlain => true
              | _, _ => false
              end
  | None => false
  end.
Definition replace_incoming (s : store) (blk b : oid) (news : list oid) : result store :=
  replace_incoming_loop s b news (filter (is_kind s KPhi) (get_blk s blk)).

(* JumpBase.set_target_block / change_target *)
Definition set_target_block (s : store) (i : oid) (name : string) (b : oid) : result store :=
  x <- get_i s i ;;
  s1 <- match sget name (i_bmap x) with
        | Some old =>
            if Nat.eqb (count_n old (map snd (i_bmap x))) 1 then
              r <- os_remove i (get_refs s old) ;; Ok (put_refs s old r)
            else Ok s
        | None => Ok s
        end ;;
  let s2 := put_i s1 i (with_bmap x (sset name b (i_bmap x))) in
  Ok (put_refs s2 b (os_add i (get_refs s2 b))).
Fixpoint change_target_loop (s : store) (i old new : oid) (names : list string) : result store :=
  match names with
  | [] => Ok s
  | n :: r =>
      x <- get_i s i ;;
      match sget n (i_bmap x) with
      | Some b => if Nat.eqb b old
                  then s1 <- set_target_block s i n new ;; change_target_loop s1 i old new r
                  else change_target_loop s i old new r
      | None => Internal KeyError
      end
  end.
Definition change_target (s : store) (i old new : oid) : result store :=
  x <- get_i s i ;; change_target_loop s i old new (map fst (i_bmap x)).

(* Instruction.delete / JumpBase.delete *)
Fixpoint del_uses (s : store) (i : oid) (vs : list oid) : result store :=
  match vs with
  | [] => Ok s
  | v :: r => s1 <- del_use s i v ;; del_uses s1 i r
  end.
Definition delete_base (s : store) (i : oid) : result store :=
  x <- get_i s i ;; del_uses s i (i_uses x).
(* while self._block_map: _, block = popitem(); block.references.remove(self) *)
Fixpoint pop_targets (s : store) (i : oid) (rev_blocks : list oid) : result store :=
  match rev_blocks with
  | [] => Ok s
  | b :: r =>
      if fx_jump_delete fx then pop_targets (put_refs s b (os_discard i (get_refs s b))) i r
      else l <- os_remove i (get_refs s b) ;; pop_targets (put_refs s b l) i r
  end.
Definition delete (s : store) (i : oid) : result store :=
  x <- get_i s i ;;
  match i_kind x with
  | KJump =>
      s1 <- pop_targets s i (rev (map snd (i_bmap x))) ;;
      x1 <- get_i s1 i ;;
      let s2 := put_i s1 i (with_bmap x1 []) in
      if fx_jump_delete fx then delete_base s2 i else Ok s2
  | _ => delete_base s i
  end.

(* Block.remove_instruction / Instruction.remove_from_block *)
Definition remove_instruction (s : store) (i : oid) : result store :=
  x <- get_i s i ;;
  match i_block x with
  | None => Internal (OtherI 2)
  | Some b =>
      if memn i (get_blk s b)
      then Ok (put_blk (put_i s i (with_block x None)) b (remove1 i (get_blk s b)))
      else Internal ValueErrorI
  end.
(* repaired JumpBase.remove_from_block: pop all targets, discard the jump from their references *)
Fixpoint discard_targets (s : store) (i : oid) (blocks : list oid) : store :=
  match blocks with
  | [] => s
  | b :: r => discard_targets (put_refs s b (os_discard i (get_refs s b))) i r
  end.
Definition remove_from_block (s : store) (i : oid) : result store :=
  x0 <- get_i s i ;;
  let s0 := match i_kind x0 with
            | KJump => if fx_rfb fx
                       then put_i (discard_targets s i (rev (map snd (i_bmap x0)))) i (with_bmap x0 [])
                       else s
            | _ => s
            end in
  x <- get_i s0 i ;;
  s1 <- del_uses s0 i (i_uses x) ;;
  x1 <- get_i s1 i ;;
  match i_block x1 with
  | None => Internal (OtherI 2)
  | Some b =>
      if memn i (get_blk s1 b)
      then Ok (put_blk (put_i s1 i (with_block x1 None)) b (remove1 i (get_blk s1 b)))
      else Internal ValueErrorI
  end.
(* the idiom of CJumpPass / CleanPass.glue_blocks:  block.remove_instruction(j); j.delete() *)
Definition detach_delete (s : store) (i : oid) : result store :=
  s1 <- remove_instruction s i ;; delete s1 i.

(* ------------------------------------------------------------------ construction (constructors) *)
Inductive ispec :=
  | SPlain (vars : list (string * oid))
  | SCall (callee : oid) (args : list oid)
  | SPhi (ins : list (oid * oid))
  | SJump (vars : list (string * oid)) (targets : list (string * oid)).

Fixpoint set_vars (s : store) (i : oid) (vars : list (string * oid)) : result store :=
  match vars with
  | [] => Ok s
  | (n, v) :: r => s1 <- set_var s i n v ;; set_vars s1 i r
  end.
Fixpoint add_uses (s : store) (i : oid) (vs : list oid) : result store :=
  match vs with
  | [] => Ok s
  | v :: r => s1 <- add_use s i v ;; add_uses s1 i r
  end.
Fixpoint set_inputs (s : store) (i : oid) (ins : list (oid * oid)) : result store :=
  match ins with
  | [] => Ok s
  | (b, v) :: r => s1 <- set_incoming s i b v ;; set_inputs s1 i r
  end.
Fixpoint set_targets (s : store) (i : oid) (ts : list (string * oid)) : result store :=
  match ts with
  | [] => Ok s
  | (n, b) :: r => s1 <- set_target_block s i n b ;; set_targets s1 i r
  end.
(* construct the object and append it to block [blk] *)
Definition new_inst (s : store) (blk i : oid) (sp : ispec) : result store :=
  let fresh k := put_i s i (mk_inst k [] [] [] [] [] None) in
  s1 <- match sp with
        | SPlain vars => set_vars (fresh KPlain) i vars
        | SCall c args =>
            s0 <- set_var (fresh KCall) i "callee" c ;;
            x <- get_i s0 i ;;
            add_uses (put_i s0 i (with_args x args)) i args
        | SPhi ins => set_inputs (fresh KPhi) i ins
        | SJump vars ts => s0 <- set_vars (fresh KJump) i vars ;; set_targets s0 i ts
        end ;;
  x <- get_i s1 i ;;
  Ok (put_blk (put_i s1 i (with_block x (Some blk))) blk (get_blk s1 blk ++ [i])).
Fixpoint build (s : store) (blk : oid) (specs : list (oid * ispec)) : result store :=
  match specs with
  | [] => Ok s
  | (i, sp) :: r => s1 <- new_inst s blk i sp ;; build s1 blk r
  end.

(* ------------------------------------------------------------------ operations of a scenario *)
Inductive op :=
  | OReplaceUse (i old new : oid)
  | OReplaceBy (v new : oid)
  | OSetVar (i : oid) (name : string) (v : oid)
  | OSetIncoming (i b v : oid)
  | ODelIncoming (i b : oid)
  | OReplaceIncoming (blk b : oid) (news : list oid)
  | OSetTarget (i : oid) (name : string) (b : oid)
  | OChangeTarget (i old new : oid)
  | ODetachDelete (i : oid)
  | ORemoveFromBlock (i : oid).
Definition run_op (s : store) (o : op) : result store :=
  match o with
  | OReplaceUse i old new => replace_use s i old new
  | OReplaceBy v new => replace_by s v new
  | OSetVar i n v => set_var s i n v
  | OSetIncoming i b v => set_incoming s i b v
  | ODelIncoming i b => del_incoming s i b
  | OReplaceIncoming blk b news => replace_incoming s blk b news
  | OSetTarget i n b => set_target_block s i n b
  | OChangeTarget i old new => change_target s i old new
  | ODetachDelete i => detach_delete s i
  | ORemoveFromBlock i => remove_from_block s i
  end.
End M.

(* ------------------------------------------------------------------ derived sets, consistency *)
Definition attached (s : store) (i : oid) : bool :=
  match nget i (st_ins s) with
  | Some x => match i_block x with Some b => memn i (get_blk s b) | None => false end
  | None => false
  end.
Definition subset_b (a b : list nat) : bool := forallb (fun x => memn x b) a.
Definition set_eqb (a b : list nat) : bool := subset_b a b && subset_b b a.
Fixpoint nodup_b (l : list nat) : bool :=
  match l with [] => true | x :: r => negb (memn x r) && nodup_b r end.
(* users / jumping instructions re-derived from the operands of the attached instructions *)
Definition derived_used_by (s : store) (v : oid) : list oid :=
  map fst (filter (fun p => attached s (fst p) && memn v (operands (snd p))) (st_ins s)).
Definition derived_refs (s : store) (b : oid) : list oid :=
  map fst (filter (fun p => attached s (fst p) && memn b (map snd (i_bmap (snd p)))) (st_ins s)).
Definition all_values (s : store) : list oid :=
  map fst (st_used_by s) ++ flat_map (fun p => operands (snd p)) (st_ins s).
Definition all_blocks (s : store) : list oid :=
  map fst (st_refs s) ++ flat_map (fun p => map snd (i_bmap (snd p))) (st_ins s).
(* stored sets = derived sets; a detached instruction is released (no uses, no targets) *)
Definition consistent_b (s : store) : bool :=
  forallb (fun p => if attached s (fst p)
                    then nodup_b (i_uses (snd p)) && set_eqb (i_uses (snd p)) (operands (snd p))
                         && forallb (fun v => match nget v (st_ins s) with
                                              | Some _ => attached s v   (* no dangling operand *)
                                              | None => true
                                              end) (operands (snd p))
                    else match i_uses (snd p), i_bmap (snd p) with [], [] => true | _, _ => false end)
          (st_ins s)
  && forallb (fun v => nodup_b (get_ub s v) && set_eqb (get_ub s v) (derived_used_by s v))
             (all_values s)
  && forallb (fun b => nodup_b (get_refs s b) && set_eqb (get_refs s b) (derived_refs s b))
             (all_blocks s).

(* ------------------------------------------------------------------ observation (correspondence) *)
Definition obs_inst (s : store) (i : oid) :=
  match nget i (st_ins s) with
  | Some x => (map snd (i_vars x), i_args x, i_inputs x, map snd (i_bmap x), i_uses x,
               match i_block x with Some _ => true | None => false end)
  | None => ([], [], [], [], [], false)
  end.
Definition observe (s : store) (vals blks : list oid) :=
  (map (fun p => obs_inst s (fst p)) (st_ins s),
   map (get_ub s) vals, map (get_refs s) blks, map (get_blk s) blks).
Definition run_scenario (fx : fixes) (specs : list (oid * ispec)) (o : op) (vals blks : list oid) :=
  s <- build fx empty_store 0 specs ;;
  s1 <- run_op fx s o ;;
  Ok (observe s1 vals blks, consistent_b s1).
