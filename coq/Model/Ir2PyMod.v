(* Model/Ir2PyMod.v — hand model (tie H) of ir2py for whole MODULES: the functions of
   Model.Ir2PyFunc plus calls (generate_instruction, ir.FunctionCall / ir.ProcedureCall):
     x = callee(a, b)                       callee = a function of the same module
     x = rt.externals['name'](a, b)         callee = an external function
     rt.externals['name'](a, b)             callee = an external procedure
   [compile_modul] maps a Spec.IRSyntax.modul to the list of emitted functions, [show_mfunc] prints
   the exact emitted text, [run_mod] is the CPython meaning: a call evaluates the argument names,
   runs the callee's own `while True` dispatcher in a fresh local environment and binds the result.
   External functions are an ORACLE parameter: [oracle name args] is the value the registered Python
   callable returns; every external call is recorded in a trace (newest first), as Spec.IRSem does.
   FRAGMENT (compile_modul <> None): every function consists of integer constants in range, + - * / %
   | & ^ << >>, unary - ~, int->int casts, integer phis, jump, cjump, return of a value of the declared
   return type, calls of module FUNCTIONS and of external functions/procedures with integer arguments
   of the declared parameter types.  EXCLUDED, precisely: floats (f32/f64 constants, arithmetic, casts),
   ptr-typed values, memory (Alloc, AddressOf, Load, Store, CopyBlob, LiteralData, global variable
   references: the runtime's address space - stack bytearray from 0, heap from 0x10000000, 4-byte signed
   ptr - differs from Spec.IRSem's, a simulation needs a memory injection), Undefined, rol/ror,
   module Procedures and Exit, indirect calls, out-of-range constants.  No proofs here. *)
From PV Require Import Lib.Py Spec.IRSyntax Spec.IRSemArith Gen.ir2py_runtime Model.Ir2Py Model.Ir2PyFunc.
From Coq Require Import String.
Open Scope Z_scope.

Inductive mitem :=
  | MI (i : pitem)
  | MCall (res : option string) (ext : bool) (callee : string) (args : list string).
Record mfunc := mk_mfunc { mf_name : string; mf_params : list string; mf_entry : string;
                           mf_blocks : list (string * list mitem) }.
Definition ptrace := list (string * list Z).

Section Run.
  Variable oracle : string -> list Z -> Z.
  (* how a module-level function is called (instantiated by [run_mod] one call level down) *)
  Variable call : string -> list pyval -> ptrace -> result (pyval * ptrace).

  Fixpoint ints_of (vs : list pyval) : result (list Z) :=
    match vs with [] => Ok [] | v :: r => z <- as_int v ;; zs <- ints_of r ;; Ok (z :: zs) end.
  Definition ext_call (name : string) (vs : list pyval) (tr : ptrace) : result (pyval * ptrace) :=
    zs <- ints_of vs ;; Ok (PInt (oracle name zs), (name, zs) :: tr).

  Fixpoint run_mitems (l : list mitem) (cur : string) (en : pyenv) (tr : ptrace) : result (pctl * ptrace) :=
    match l with
    | [] => Ok (PNext cur en, tr)
    | MI i :: r =>
        c <- run_items [i] cur en ;;
        match c with PNext cur' en' => run_mitems r cur' en' tr | PReturn v => Ok (PReturn v, tr) end
    | MCall res ext callee args :: r =>
        vs <- read_vars en args ;;
        '(v, tr') <- (if ext then ext_call callee vs tr else call callee vs tr) ;;
        run_mitems r cur (match res with Some x => (x, v) :: en | None => en end) tr'
    end.

  Fixpoint scan_m (k : string -> pyenv -> ptrace -> result (pyval * ptrace))
           (rest : list (string * list mitem)) (cur : string) (en : pyenv) (tr : ptrace) : result (pyval * ptrace) :=
    match rest with
    | [] => k cur en tr
    | (name, items) :: r =>
        if String.eqb cur name then
          '(c, tr') <- run_mitems items cur en tr ;;
          match c with PNext cur' en' => scan_m k r cur' en' tr' | PReturn v => Ok (v, tr') end
        else scan_m k r cur en tr
    end.
  Fixpoint iter_m (all : list (string * list mitem)) (fuel : nat) (cur : string) (en : pyenv) (tr : ptrace)
    : result (pyval * ptrace) :=
    match fuel with
    | O => OutOfFuel
    | S f => scan_m (iter_m all f) all cur en tr
    end.
End Run.

Fixpoint find_mfunc (name : string) (l : list mfunc) : option mfunc :=
  match l with [] => None | g :: r => if String.eqb (mf_name g) name then Some g else find_mfunc name r end.

(* one fuel for the call depth and for the loop iterations of every activation *)
Fixpoint run_mod (oracle : string -> list Z -> Z) (fs : list mfunc) (fuel : nat)
         (name : string) (args : list pyval) (tr : ptrace) : result (pyval * ptrace) :=
  match fuel with
  | O => OutOfFuel
  | S k =>
      match find_mfunc name fs with
      | None => Internal (OtherI 3)
      | Some g =>
          if negb (Nat.eqb (List.length args) (List.length (mf_params g))) then Internal TypeError
          else iter_m oracle (run_mod oracle fs k) (mf_blocks g) k (mf_entry g)
                      (combine (mf_params g) args) tr
      end
  end.
Definition run_mod_int (oracle : string -> list Z -> Z) (fs : list mfunc) (fuel : nat)
           (name : string) (args : list Z) : result (Z * ptrace) :=
  '(v, tr) <- run_mod oracle fs fuel name (map PInt args) [] ;; z <- as_int v ;; Ok (z, rev tr).

(* ------------------------------------------------------------------ printing *)
Definition show_mitem (st : free_style) (i : mitem) : list string :=
  match i with
  | MI p => show_item st p
  | MCall res ext callee args =>
      [ind 3 ((match res with Some x => x ++ " = " | None => "" end)
              ++ (if ext then "rt.externals['" ++ callee ++ "']" else callee)
              ++ "(" ++ join ", " args ++ ")")%string]
  end.
Definition show_mfunc (st : free_style) (g : mfunc) : list string :=
  [("def " ++ mf_name g ++ "(" ++ join "," (mf_params g) ++ "):")%string]
  ++ (match st with FreeMark => [ind 1 "_irpy_stack_mark = len(rt.stack)"] | FreeStatic => [] end)
  ++ [ind 1 "_irpy_prev_block = None";
      ind 1 ("_irpy_current_block = '" ++ mf_entry g ++ "'")%string;
      ind 1 "while True:"]
  ++ flat_map (fun b => ind 2 ("if _irpy_current_block == """ ++ fst b ++ """:")%string
                        :: flat_map (show_mitem st) (snd b)) (mf_blocks g).

(* ------------------------------------------------------------------ the generator *)
Fixpoint typed_refs (f : func) (rs : list vref) (ts : list ty) : option (list string) :=
  match rs, ts with
  | [], [] => Some []
  | r :: rs', t :: ts' =>
      match ity_of t, typed_ref f r t, typed_refs f rs' ts' with
      | Some _, Some n, Some ns => Some (n :: ns)
      | _, _, _ => None
      end
  | _, _ => None
  end.

Definition compile_minstr (m : modul) (f : func) (b : bid) (i : instr) : option (list mitem) :=
  match i with
  | ICallF _ n t (Glob name) args =>
      match ity_of t with
      | None => None
      | Some _ =>
          match find_func m name with
          | Some g =>
              match f_ret g with
              | Some rt => if ty_eqb rt t then
                             match typed_refs f args (map snd (f_params g)) with
                             | Some ns => Some [MCall (Some n) false name ns]
                             | None => None
                             end
                           else None
              | None => None
              end
          | None =>
              match find_ext m name with
              | Some (EFunc _ tys rt) =>
                  if ty_eqb rt t then
                    match typed_refs f args tys with
                    | Some ns => Some [MCall (Some n) true name ns]
                    | None => None
                    end
                  else None
              | _ => None
              end
          end
      end
  | ICallP (Glob name) args =>
      match find_func m name, find_ext m name with
      | None, Some (EProc _ tys) =>
          match typed_refs f args tys with
          | Some ns => Some [MCall None true name ns]
          | None => None
          end
      | _, _ => None
      end
  | ICallF _ _ _ _ _ | ICallP _ _ => None
  | IReturn x =>
      match f_ret f with
      | Some rt => match ity_of rt, typed_ref f x rt with
                   | Some _, Some nx => Some [MI (PRet 0 nx)]
                   | _, _ => None
                   end
      | None => None
      end
  | _ => match compile_instr f b i with Some l => Some (map MI l) | None => None end
  end.
Fixpoint compile_minstrs (m : modul) (f : func) (b : bid) (l : list instr) : option (list mitem) :=
  match l with
  | [] => Some []
  | i :: r => if is_terminator i && negb (match r with [] => true | _ => false end) then None
              else match compile_minstr m f b i, compile_minstrs m f b r with
                   | Some a, Some c => Some (a ++ c)
                   | _, _ => None
                   end
  end.
Fixpoint compile_mblocks (m : modul) (f : func) (l : list block) : option (list (string * list mitem)) :=
  match l with
  | [] => Some []
  | k :: r => match compile_minstrs m f (b_id k) (b_ins k), compile_mblocks m f r with
              | Some items, Some rest => Some ((b_name k, items) :: rest)
              | _, _ => None
              end
  end.
Definition compile_mfunc (m : modul) (f : func) : option mfunc :=
  match f_blocks f, compile_mblocks m f (f_blocks f) with
  | k :: _, Some bs =>
      if params_int f then Some (mk_mfunc (f_name f) (map fst (f_params f)) (b_name k) bs) else None
  | _, _ => None
  end.
Fixpoint compile_mfuncs (m : modul) (l : list func) : option (list mfunc) :=
  match l with
  | [] => Some []
  | f :: r => match compile_mfunc m f, compile_mfuncs m r with
              | Some g, Some gs => Some (g :: gs)
              | _, _ => None
              end
  end.
(* the fragment predicate of c24_module_simulates *)
Definition compile_modul (m : modul) : option (list mfunc) := compile_mfuncs m (m_funcs m).

Definition show_mcompiled (st : free_style) (m : modul) (name : string) : option (list string) :=
  match compile_modul m with
  | Some fs => match find_mfunc name fs with Some g => Some (show_mfunc st g) | None => None end
  | None => None
  end.
Definition run_mcompiled (fuel : nat) (m : modul) (name : string) (args : list Z) : option (result (Z * ptrace)) :=
  match compile_modul m with
  | Some fs => Some (run_mod_int (fun _ _ => 0) fs fuel name args)
  | None => None
  end.
