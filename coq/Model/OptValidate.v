(* Model/OptValidate.v — a validator for block-local optimizer passes (C02, layer B).

   [check_block c f f' rho l l' outs] decides, for two straight-line instruction lists (the
   instructions of one block before / after a pass, terminator excluded, no calls), whether the
   second refines the first.  It evaluates both lists symbolically over ONE leaf space (the values
   of the "before" function that are defined outside the block, parameters, globals):
     - pure instructions (const, binop, unop, cast, addressof, undefined) are absorbed into a
       symbolic environment; the "after" side may add, drop, duplicate and reorder them freely,
       but every pure term it evaluates must be (up to normalisation) a term the "before" side
       evaluated, or a well-formed constant — so it cannot introduce a new failure;
     - memory instructions (load, store, alloc, literal, copyblob) must correspond one to one, in
       order, with normalisation-equal operands;
     - [outs] lists pairs (reference before, reference after) that must denote equal values at
       the end (terminator operands, values defined in both versions of the block).
   Normalisation applies the rewrite rules of Proofs/C02_rules.v: constants are wrapped, an
   operation / a cast on constants is evaluated with IRSem.eval_binop / wrap_ty, x+0, 0+x, x*1 on
   a value of the same integer type is x, (y+c1)+c2 = y+(c1+c2), (y-c1)-c2 = y-(c1+c2).
   [tl] = trust the declared types of leaves in the x+0 / x*1 rules (hypothesis env_typed).
   [rho] maps "after" vids of values defined outside the block to "before" vids (an untrusted
   hint: the soundness theorem assumes the two initial environments agree along rho).
   Executable definitions only; the soundness theorem is in Proofs/C02_validate.v. *)
From PV Require Import Lib.Py Lib.Val Spec.IRSyntax Spec.IRSem.
From Coq Require Import String.
Open Scope Z_scope.

Inductive sexp :=
  | SLeaf (r : vref)
  | SRes (k : nat)
  | SConst (t : ty) (k : cst)
  | SBin (t : ty) (o : binop) (a b : sexp)
  | SUn (t : ty) (o : unop) (a : sexp)
  | SCast (t : ty) (a : sexp)
  | SAddr (a : sexp)
  | SUndef.

Definition sexp_eq_dec (a b : sexp) : {a = b} + {a <> b}.
Proof.
  decide equality; try apply ty_eq_dec; try apply vref_eq_dec; try apply cst_eq_dec;
    try apply binop_eq_dec; try apply unop_eq_dec; apply Nat.eq_dec.
Defined.
Definition sexp_eqb := dec2b sexp_eq_dec.

(* straight-line execution = fold of IRSem.step_simple *)
Fixpoint run_simple (c : cfg) (m : modul) (ge : list (string * Z)) (f : func) (args : list value)
         (l : list instr) (e : env) (s : st) : outcome (env * st) :=
  match l with
  | [] => ODone (e, s)
  | i :: r => '(e1, s1) <~ step_simple c m ge f args e s i ;; run_simple c m ge f args r e1 s1
  end.

Section Den.
  Variable c : cfg.
  Variable m : modul.
  Variable ge : list (string * Z).
  Variable e0 : env.
  Variable args : list value.

  Definition as_int (o : outcome value) : outcome Z :=
    v <~ o ;; match v with Vint z => ODone z | Vflt _ => OUnsupported | _ => OStuck end.

  (* the value an operand read of the term yields (reads of Undefined are UB) *)
  Fixpoint den (res : list value) (x : sexp) : outcome value :=
    match x with
    | SLeaf r => eval_ref m ge false e0 args r
    | SRes k => match nth_error res k with
                | Some Vundef => OUB UBUndefRead
                | Some v => ODone v
                | None => OStuck
                end
    | SConst t k => eval_const c t k
    | SBin t o a b => x <~ as_int (den res a) ;; y <~ as_int (den res b) ;;
                      z <~ eval_binop c t o x y ;; ODone (Vint z)
    | SUn t o a => x <~ as_int (den res a) ;; z <~ eval_unop c t o x ;; ODone (Vint z)
    | SCast t a => x <~ den res a ;; eval_cast c t x
    | SAddr a => x <~ den res a ;; match x with Vblob p _ => ODone (Vint p) | _ => OStuck end
    | SUndef => OUB UBUndefRead
    end.
End Den.

Section Check.
  Variable c : cfg.
  Variable f : func.      (* the "before" function: types of the leaves *)
  Variable tl : bool.     (* trust the declared types of leaves (needs hypothesis env_typed) *)

  (* ---- normalisation *)
  Definition cval (x : sexp) : option Z :=
    match x with SConst t (CInt z) => wrap_ty c t z | _ => None end.

  (* x certainly evaluates to an in-range integer of type t (or fails) *)
  Definition typed_head (x : sexp) (t : ty) : bool :=
    match x with
    | SBin t' _ _ _ | SUn t' _ _ | SCast t' _ | SConst t' (CInt _) => ty_eqb t' t
    | SLeaf r => tl && match ref_ty f r with Some t' => ty_eqb t' t | None => false end
    | _ => false
    end.
  Definition is_shape (t : ty) : bool := match int_shape c t with Some _ => true | None => false end.
  Definition zeqb (o : option Z) (z : Z) : bool := match o with Some y => y =? z | None => false end.

  (* (y o c1) o c2 = y o (c1 + c2) for o = Add, Sub *)
  Definition chain_bin (t : ty) (o : binop) (a b : sexp) : sexp :=
    match a, cval b with
    | SBin t1 o1 y c1, Some k2 =>
        match cval c1, wrap_ty c t (match cval c1 with Some k1 => k1 + k2 | None => 0 end) with
        | Some k1, Some k =>
            if ty_eqb t1 t && dec2b binop_eq_dec o1 o && (dec2b binop_eq_dec o Add || dec2b binop_eq_dec o Sub)
            then SBin t o y (SConst t (CInt k)) else SBin t o a b
        | _, _ => SBin t o a b
        end
    | _, _ => SBin t o a b
    end.

  Definition simp_bin (t : ty) (o : binop) (a b : sexp) : sexp :=
    match cval a, cval b with
    | Some x, Some y => match eval_binop c t o x y with
                        | ODone z => SConst t (CInt z)
                        | _ => SBin t o a b
                        end
    | _, _ =>
      match o with
      | Add =>
          if zeqb (cval b) 0 && typed_head a t && is_shape t then a
          else if zeqb (cval a) 0 && typed_head b t && is_shape t then b
          else chain_bin t Add a b
      | Sub => chain_bin t Sub a b
      | Mul => if zeqb (cval b) 1 && typed_head a t && is_shape t then a else SBin t o a b
      | _ => SBin t o a b
      end
    end.

  Fixpoint norm (x : sexp) : sexp :=
    match x with
    | SConst t (CInt z) => match wrap_ty c t z with Some r => SConst t (CInt r) | None => x end
    | SBin t o a b => simp_bin t o (norm a) (norm b)
    | SUn t o a => SUn t o (norm a)
    | SCast t a => let a' := norm a in
                   match cval a' with
                   | Some z => match wrap_ty c t z with
                               | Some r => SConst t (CInt r)
                               | None => SCast t a'
                               end
                   | None => SCast t a'
                   end
    | SAddr a => SAddr (norm a)
    | _ => x
    end.
  Definition teq (x y : sexp) : bool := sexp_eqb (norm x) (norm y).

  (* ---- symbolic environments *)
  Definition senv := list (vid * sexp).
  Fixpoint sget (s : senv) (v : vid) : option sexp :=
    match s with [] => None | (k, x) :: r => if Pos.eqb k v then Some x else sget r v end.
  Fixpoint rget (rho : list (vid * vid)) (v : vid) : option vid :=
    match rho with [] => None | (k, x) :: r => if Pos.eqb k v then Some x else rget r v end.

  Definition sym (s : senv) (r : vref) : sexp :=
    match r with
    | Loc v => match sget s v with Some x => x | None => SLeaf r end
    | _ => SLeaf r
    end.
  Definition sym' (rho : list (vid * vid)) (s : senv) (r : vref) : option sexp :=
    match r with
    | Loc v => match sget s v with
               | Some x => Some x
               | None => match rget rho v with Some w => Some (SLeaf (Loc w)) | None => None end
               end
    | Param _ | Glob _ => Some (SLeaf r)
    | Unres _ => None
    end.

  (* pure instructions as (vid, term); IPhi is a no-op of step_simple *)
  Definition sym_pure (s : senv) (i : instr) : option (vid * sexp) :=
    match i with
    | IConst v _ t k => Some (v, SConst t k)
    | IBinop v _ t o a b => Some (v, SBin t o (sym s a) (sym s b))
    | IUnop v _ t o a => Some (v, SUn t o (sym s a))
    | ICast v _ t a => Some (v, SCast t (sym s a))
    | IAddrOf v _ a => Some (v, SAddr (sym s a))
    | IUndef v _ _ => Some (v, SUndef)
    | _ => None
    end.
  Definition sym_pure' (rho : list (vid * vid)) (s : senv) (i : instr) : option (option (vid * sexp)) :=
    match i with
    | IConst v _ t k => Some (Some (v, SConst t k))
    | IBinop v _ t o a b => match sym' rho s a, sym' rho s b with
                            | Some x, Some y => Some (Some (v, SBin t o x y))
                            | _, _ => Some None
                            end
    | IUnop v _ t o a => match sym' rho s a with Some x => Some (Some (v, SUn t o x)) | None => Some None end
    | ICast v _ t a => match sym' rho s a with Some x => Some (Some (v, SCast t x)) | None => Some None end
    | IAddrOf v _ a => match sym' rho s a with Some x => Some (Some (v, SAddr x)) | None => Some None end
    | IUndef v _ _ => Some (Some (v, SUndef))
    | _ => None
    end.
  Definition is_phi_i (i : instr) : bool := match i with IPhi _ _ _ _ => true | _ => false end.

  (* before side: absorb the leading pure instructions; D collects the normal forms of the terms
     that were evaluated successfully *)
  Fixpoint absorb (s : senv) (D : list sexp) (l : list instr) : senv * list sexp * list instr :=
    match l with
    | [] => (s, D, [])
    | i :: r =>
        if is_phi_i i then absorb s D r
        else match sym_pure s i with
             | Some (v, SUndef) => absorb ((v, SUndef) :: s) D r
             | Some (v, x) => absorb ((v, x) :: s) (norm x :: D) r
             | None => (s, D, l)
             end
    end.

  Definition const_ok (x : sexp) : bool :=
    match x with
    | SConst t k => match eval_const c t k with ODone _ => true | _ => false end
    | _ => false
    end.
  Definition defined_in (D : list sexp) (x : sexp) : bool :=
    const_ok x || existsb (sexp_eqb (norm x)) D.

  (* after side: every pure term must be known to be defined *)
  Fixpoint absorb' (rho : list (vid * vid)) (D : list sexp) (s : senv) (l : list instr)
    : option (senv * list instr) :=
    match l with
    | [] => Some (s, [])
    | i :: r =>
        if is_phi_i i then absorb' rho D s r
        else match sym_pure' rho s i with
             | Some (Some (v, SUndef)) => absorb' rho D ((v, SUndef) :: s) r
             | Some (Some (v, x)) => if defined_in D x then absorb' rho D ((v, x) :: s) r else None
             | Some None => None
             | None => Some (s, l)
             end
    end.

  Variable f' : func.     (* the "after" function (types of stored values) *)

  Definition opt_ty_eqb (a b : option ty) : bool :=
    match a, b with Some x, Some y => ty_eqb x y | _, _ => false end.
  Definition teq' (rho : list (vid * vid)) (s s' : senv) (r r' : vref) : bool :=
    match sym' rho s' r' with Some y => teq (sym s r) y | None => false end.

  (* one memory instruction against its counterpart; result: the pair of defined vids, if any *)
  Definition match_effect (rho : list (vid * vid)) (s s' : senv) (i i' : instr)
    : option (option (vid * vid)) :=
    match i, i' with
    | ILoad v _ t a _, ILoad v' _ t' a' _ =>
        if ty_eqb t t' && teq' rho s s' a a' then Some (Some (v, v')) else None
    | IStore x a _, IStore x' a' _ =>
        if opt_ty_eqb (ref_ty f x) (ref_ty f' x') && teq' rho s s' x x' && teq' rho s s' a a'
        then Some None else None
    | IAlloc v _ sz al, IAlloc v' _ sz' al' =>
        if (sz =? sz') && (al =? al') then Some (Some (v, v')) else None
    | ILit v _ d, ILit v' _ d' =>
        if dec2b (list_eq_dec Z.eq_dec) d d' then Some (Some (v, v')) else None
    | ICopyBlob d sr n, ICopyBlob d' sr' n' =>
        if (n =? n') && teq' rho s s' d d' && teq' rho s s' sr sr' then Some None else None
    | _, _ => None
    end.

  Fixpoint check (fuel : nat) (rho : list (vid * vid)) (s s' : senv) (D : list sexp) (k : nat)
           (l l' : list instr) (outs : list (vref * vref)) : bool :=
    match fuel with
    | O => false
    | S n =>
        let '(s1, D1, r) := absorb s D l in
        match absorb' rho D1 s' l' with
        | None => false
        | Some (s1', r') =>
            match r, r' with
            | [], [] => forallb (fun p => teq' rho s1 s1' (fst p) (snd p)) outs
            | i :: rr, i' :: rr' =>
                match match_effect rho s1 s1' i i' with
                | Some (Some (v, v')) =>
                    check n rho ((v, SRes k) :: s1) ((v', SRes k) :: s1') D1 (S k) rr rr' outs
                | Some None => check n rho s1 s1' D1 k rr rr' outs
                | None => false
                end
            | _, _ => false
            end
        end
    end.

  Definition check_block (rho : list (vid * vid)) (l l' : list instr) (outs : list (vref * vref)) : bool :=
    check (S (List.length l + List.length l')) rho [] [] [] O l l' outs.
End Check.

(* the instructions of a block without its terminator; one validation request per block pair *)
Definition body_of (f : func) (b : bid) : list instr :=
  match find_block f b with Some k => removelast (b_ins k) | None => [] end.
Definition check_spec (c : cfg) (f f' : func)
           (sp : bid * bid * list (vid * vid) * list (vref * vref)) : bool :=
  let '(b, b', rho, outs) := sp in
  check_block c f true f' rho (body_of f b) (body_of f' b') outs.

(* ------------------------------------------------------------------ sanity *)
Local Open Scope string_scope.
Definition vf : func := mk_func "f" BGlobal (Some I32) [("x", I32)] [].
(* y = x + 0; z = y * 2   ~~>   y = x + 0; z = x * 2 *)
Example check_addzero :
  check_block default_cfg vf true vf []
    [IConst 1 "z" I32 (CInt 0); IBinop 2 "y" I32 Add (Param 0) (Loc 1); IConst 3 "two" I32 (CInt 2);
     IBinop 4 "r" I32 Mul (Loc 2) (Loc 3)]
    [IConst 1 "z" I32 (CInt 0); IBinop 2 "y" I32 Add (Param 0) (Loc 1); IConst 3 "two" I32 (CInt 2);
     IBinop 4 "r" I32 Mul (Param 0) (Loc 3)]
    [(Loc 4, Loc 4)]%positive = true.
Proof. vm_compute. reflexivity. Qed.
(* -7 % 2 folded to 1 is rejected, folded to -1 is accepted *)
Example check_rem_floor_rejected :
  check_block default_cfg vf true vf []
    [IConst 1 "a" I32 (CInt (-7)); IConst 2 "b" I32 (CInt 2); IBinop 3 "c" I32 Rem (Loc 1) (Loc 2)]
    [IConst 1 "a" I32 (CInt (-7)); IConst 2 "b" I32 (CInt 2); IConst 3 "new_fold" I32 (CInt 1)]
    [(Loc 3, Loc 3)]%positive = false.
Proof. vm_compute. reflexivity. Qed.
Example check_rem_trunc_accepted :
  check_block default_cfg vf true vf []
    [IConst 1 "a" I32 (CInt (-7)); IConst 2 "b" I32 (CInt 2); IBinop 3 "c" I32 Rem (Loc 1) (Loc 2)]
    [IConst 1 "a" I32 (CInt (-7)); IConst 2 "b" I32 (CInt 2); IConst 3 "new_fold" I32 (CInt (-1))]
    [(Loc 3, Loc 3)]%positive = true.
Proof. vm_compute. reflexivity. Qed.
(* a store may not disappear *)
Example check_store_dropped_rejected :
  check_block default_cfg vf true vf [] [IStore (Param 0) (Glob "g") false] [] [] = false.
Proof. vm_compute. reflexivity. Qed.
