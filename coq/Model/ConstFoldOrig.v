(* Model/ConstFoldOrig.v — FROZEN hand model of ppci/opt/constantfolding.py as it was found
   (ppci snapshot 722bf2e; constantfolding.py was unchanged until the C38 repairs).  Self-contained on purpose: it does not depend
   on the regenerated Gen files, so the [..._refuted] theorems of C38 keep compiling after the
   repairs are applied.  It is tied to the implementation only through the replay of the witnesses
   (tools/props/c38.py re-executes each of them on the real pass on every run).  No proofs here. *)
From PV Require Import Lib.Py.
Open Scope Z_scope.

Module Orig.

Record typ := Typ { t_ptr : bool; t_int : bool; t_float : bool; t_bits : Z; t_signed : bool }.
Definition typ_eqb (x y : typ) : bool :=
  Bool.eqb (t_ptr x) (t_ptr y) && Bool.eqb (t_int x) (t_int y) && Bool.eqb (t_float x) (t_float y)
  && (t_bits x =? t_bits y) && Bool.eqb (t_signed x) (t_signed y).

Inductive value :=
  | VConst (v : Z) (ty : typ)
  | VBinop (a : value) (op : Z) (b : value) (ty : typ)   (* op = index in ir.Binop.ops *)
  | VCast (src : value) (ty : typ)
  | VOther (ty : typ).
Definition ty_of (v : value) : typ :=
  match v with VConst _ t | VBinop _ _ _ t | VCast _ t | VOther t => t end.

(* ir.Binop.ops = ["+", "-", "*", "/", "%", "|", "&", "^", "<<", ">>", "rol", "ror"] *)
Definition ADD := 0. Definition SUB := 1. Definition MUL := 2. Definition DIV := 3.
Definition MOD := 4. Definition SHL := 8. Definition SHR := 9.

(* def correct(value, ty) *)
Definition correct (value : Z) (ty : typ) : result Z :=
  let bits := t_bits ty in
  guard (0 <=? bits) (Internal ValueErrorI) (
  let base := Z.shiftl 1 bits in
  guard (negb (base =? 0)) (Internal ZeroDiv) (
  let value := value mod base in
  Ok (if t_signed ty && (bit_length value =? bits) then value - base else value))).

(* def cast(value, ty) *)
Definition cast (value : Z) (ty : typ) : result Z :=
  if t_ptr ty then Ok value
  else if t_int ty then correct value ty
  else guard (t_float ty) (Internal AssertionError) (Ok value).

(* self.ops = {"+": enhance(operator.add), "-": sub, "*": mul, "%": operator.mod,
               "<<": operator.lshift, ">>": operator.rshift} *)
Definition ops (op : Z) : option (Z -> Z -> result Z) :=
  if op =? ADD then Some (fun a b => Ok (a + b))
  else if op =? SUB then Some (fun a b => Ok (a - b))
  else if op =? MUL then Some (fun a b => Ok (a * b))
  else if op =? MOD then Some (fun a b => if b =? 0 then Internal ZeroDiv else Ok (a mod b))
  else if op =? SHL then Some (fun a b => if b <? 0 then Internal ValueErrorI else Ok (Z.shiftl a b))
  else if op =? SHR then Some (fun a b => if b <? 0 then Internal ValueErrorI else Ok (Z.shiftr a b))
  else None.

Definition apply_op (op : Z) (ty : typ) (a b : Z) : result Z :=
  match ops op with
  | None => Internal KeyError
  | Some f => r <- f a b ;; correct r ty
  end.

Fixpoint is_const (v : value) : bool :=
  match v with
  | VConst _ _ => true
  | VCast src _ => is_const src
  | VBinop a op b ty =>
      match ops op with Some _ => true | None => false end && t_int ty && is_const a && is_const b
  | VOther _ => false
  end.

Fixpoint eval_const (v : value) : result (Z * typ) :=
  match v with
  | VConst c ty => Ok (c, ty)
  | VBinop a op b ty =>
      ' (av, aty) <- eval_const a ;;
      ' (bv, bty) <- eval_const b ;;
      guard (typ_eqb aty bty) (Internal AssertionError) (
      guard (typ_eqb aty ty) (Internal AssertionError) (
      r <- apply_op op ty av bv ;;
      Ok (r, aty)))
  | VCast src ty =>
      ' (cv, _) <- eval_const src ;;
      n <- cast cv ty ;;
      Ok (n, ty)
  | VOther _ => Internal NotImplemented
  end.

Inductive outcome :=
  | Unchanged
  | Folded (v : Z) (ty : typ)
  | Rechained (y : value) (op : Z) (c : Z) (cty : typ).

Definition chain_cond (code : Z) (ins : value) : bool :=
  match ins with
  | VBinop (VBinop y opa c1 _) op c2 ty =>
      (opa =? code) && is_const c1 && (op =? code) && is_const c2
  | _ => false
  end.

(* cn = ir.Const(a.value + b.value, "new_fold", a.ty) — no correction *)
Definition chain_apply (ins : value) : result outcome :=
  match ins with
  | VBinop (VBinop y _ c1 _) op c2 ty =>
      ' (av, aty) <- eval_const c1 ;;
      ' (bv, bty) <- eval_const c2 ;;
      guard (typ_eqb aty bty) (Internal AssertionError) (
      guard (typ_eqb ty aty) (Internal AssertionError) (
      guard (typ_eqb ty (ty_of y)) (Internal AssertionError) (
      Ok (Rechained y op (av + bv) aty))))
  | _ => Internal AssertionError
  end.

Definition on_instruction (ins : value) : result outcome :=
  match ins with
  | VConst _ _ => Ok Unchanged
  | _ =>
      if is_const ins then ' (v, ty) <- eval_const ins ;; Ok (Folded v ty)
      else if chain_cond ADD ins then chain_apply ins
      else if chain_cond SUB ins then chain_apply ins
      else Ok Unchanged
  end.

End Orig.

(* ToVal rendering (same layout as Model.ConstFold) for the witness correspondence on an unrepaired tree *)
From PV Require Import Lib.Val.
#[global] Instance ToVal_orig_outcome : ToVal Orig.outcome := fun o =>
  match o with
  | Orig.Unchanged => VT [VZ 0]
  | Orig.Folded v ty => VT [VZ 1; VZ v; VZ (Orig.t_bits ty); VB (Orig.t_signed ty); VB (Orig.t_int ty)]
  | Orig.Rechained y op c cty =>
      VT [VZ 2; VZ (match y with Orig.VOther _ => 1 | Orig.VConst _ _ => 2 | Orig.VBinop _ _ _ _ => 3 | Orig.VCast _ _ => 4 end);
          VZ op; VZ c; VZ (Orig.t_bits cty); VB (Orig.t_signed cty); VB (Orig.t_int cty)]
  end.
