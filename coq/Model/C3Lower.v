(* Model/C3Lower.v -- hand model (tie H) of the C3 front-end's expression path, restricted to
   the types int / byte / bool.  NO proofs here.

   typechecker.check_expr / check_condition / check_binop / check_unop / check_type_cast,
   context.get_common_type and typechecker.do_coerce decide the types and insert TypeCast nodes;
   codegenerator.gen_expr_code / gen_binop / gen_unop / gen_literal_expr / gen_type_cast /
   gen_bool_expr / gen_cond_code emit IR.  [lower] does both passes at once and returns, for an
   expression, (its C3 type, the IR value tree, the condition code as a function of the true and
   false targets).  None = rejected by the front-end (SemanticError) or outside this model.
   The IR of a value is a tree ([ltree]); of a condition a decision tree of CJumps ([ktree]);
   a boolean expression used as a value ([LBoolVal]) is gen_bool_expr's diamond with the phi of
   Const 1 / Const 0.  [w] = bits of the target's int (context.get_type("int").byte_size * 8). *)
From PV Require Import Lib.Py Lib.Val Spec.IRSyntax Spec.IRSem Spec.C3Spec.
From Coq Require Import String.
Open Scope Z_scope.

(* get_ir_type / get_ir_int; bool is stored as the int type *)
Definition ir_int (w : Z) : option ty :=
  if w =? 8 then Some I8 else if w =? 16 then Some I16 else if w =? 32 then Some I32
  else if w =? 64 then Some I64 else None.
Definition ir_ty (w : Z) (t : cty) : option ty :=
  match t with CByte => Some U8 | CInt | CBool => ir_int w end.

(* the type classes of astnodes: byte = UnsignedIntegerType(8), int = SignedIntegerType(w),
   bool = BaseType *)
Inductive tclass := KUnsigned | KSigned | KBase.
Definition tclass_of (t : cty) : tclass :=
  match t with CByte => KUnsigned | CInt => KSigned | CBool => KBase end.
Definition prio (k : tclass) : option Z :=
  match k with KUnsigned => Some 1 | KSigned => Some 2 | KBase => None end.

(* context.get_common_type on these types: equal types -> that type; both integer classes ->
   (class of the larger priority, larger bit count) looked up among intN_t / uintN_t *)
Definition get_common_type (w : Z) (a b : cty) : option cty :=
  if cty_eqb a b then Some a
  else match prio (tclass_of a), prio (tclass_of b) with
       | Some pa, Some pb =>
           let signed := 2 <=? Z.max pa pb in
           let bits := Z.max (bits_of w a) (bits_of w b) in
           if signed && (bits =? w) then Some CInt
           else if negb signed && (bits =? 8) then Some CByte
           else None
       | _, _ => None
       end.

Inductive ltree :=
  | LConst (t : ty) (z : Z)
  | LVar (t : ty) (n : nat)                 (* Load t from the variable's slot / parameter *)
  | LBin (t : ty) (o : binop) (a b : ltree)
  | LNeg (t : ty) (a : ltree)
  | LCast (t : ty) (a : ltree)
  | LBoolVal (t : ty) (k : ktree)
with ktree :=
  | KYes | KNo
  | KCJ (c : cond) (a b : ltree) (yes no : ktree).

(* typechecker.do_coerce from -> to: Some false = equal types, no node; Some true = TypeCast
   inserted; None = SemanticError.  unsigned -> signed needs from.bits < to.bits - 1;
   signed -> unsigned is allowed (the "TODO: remove this branch" case); bool converts to nothing *)
Definition do_coerce (w : Z) (from to : cty) : option bool :=
  if cty_eqb from to then Some false
  else match tclass_of from, tclass_of to with
       | KUnsigned, KSigned => if bits_of w from <? bits_of w to - 1 then Some true else None
       | KSigned, KUnsigned => Some true
       | _, _ => None
       end.
Definition coerce_tree (w : Z) (from to : cty) (tr : ltree) : option ltree :=
  match do_coerce w from to, ir_ty w to with
  | Some false, _ => Some tr
  | Some true, Some t => Some (LCast t tr)        (* gen_type_cast: numeric cast *)
  | _, _ => None
  end.

Definition binop_of (o : cbin) : binop :=
  match o with
  | BAdd => Add | BSub => Sub | BMul => Mul | BDiv => Div | BRem => Rem | BShl => Shl
  | BShr => Shr | BAnd => And | BOr => Or | BXor => Xor
  end.
Definition cond_of (o : ccmp) : cond :=
  match o with KEq => Ceq | KNe => Cne | KLt => Clt | KLe => Cle | KGt => Cgt | KGe => Cge end.

Definition kbuilder := ktree -> ktree -> ktree.
(* gen_cond_code's last case: value == Const 1 *)
Definition k_of_value (it : ty) (v : ltree) : kbuilder := fun y n => KCJ Ceq v (LConst it 1) y n.

Fixpoint lower (w : Z) (e : cexpr) : option (cty * ltree * kbuilder) :=
  match ir_int w with
  | None => None
  | Some it =>
    let boolval (k : kbuilder) := Some (CBool, LBoolVal it (k KYes KNo), k) in
    match e with
    | ELit z => Some (CInt, LConst it z, fun _ _ => KNo)
    | EBool b => Some (CBool, LConst it (if b then 1 else 0), fun y n => if b then y else n)
    | EVar t n => match ir_ty w t with
                  | Some vt => Some (t, LVar vt n, k_of_value it (LVar vt n))
                  | None => None
                  end
    | EBin o a b =>
        match lower w a, lower w b with
        | Some (ta, va, _), Some (tb, vb, _) =>
            match get_common_type w ta tb with
            | Some ct =>
                match coerce_tree w ta ct va, coerce_tree w tb ct vb, ir_ty w ct with
                | Some ca, Some cb, Some rt =>
                    let v := LBin rt (binop_of o) ca cb in Some (ct, v, k_of_value it v)
                | _, _, _ => None
                end
            | None => None
            end
        | _, _ => None
        end
    | ENeg a =>
        match lower w a with
        | Some (ta, va, _) =>
            match ir_ty w ta with
            | Some rt => let v := LNeg rt va in Some (ta, v, k_of_value it v)
            | None => None
            end
        | None => None
        end
    | ECast t a =>
        match lower w a with
        | Some (ta, va, _) =>
            if numeric ta && numeric t then
              match ir_ty w t with
              | Some rt => let v := LCast rt va in Some (t, v, k_of_value it v)
              | None => None
              end
            else None
        | None => None
        end
    | ECmp o a b =>
        match lower w a, lower w b with
        | Some (ta, va, _), Some (tb, vb, _) =>
            match get_common_type w ta tb with
            | Some ct =>
                match coerce_tree w ta ct va, coerce_tree w tb ct vb with
                | Some ca, Some cb => boolval (fun y n => KCJ (cond_of o) ca cb y n)
                | _, _ => None
                end
            | None => None
            end
        | _, _ => None
        end
    | EAnd a b =>
        match lower w a, lower w b with
        | Some (CBool, _, ka), Some (CBool, _, kb) => boolval (fun y n => ka (kb y n) n)
        | _, _ => None
        end
    | EOr a b =>
        match lower w a, lower w b with
        | Some (CBool, _, ka), Some (CBool, _, kb) => boolval (fun y n => ka y (kb y n))
        | _, _ => None
        end
    | ENot a =>
        match lower w a with
        | Some (CBool, _, ka) => boolval (fun y n => ka n y)
        | _ => None
        end
    end
  end.

Definition c3cfg := default_cfg.
Fixpoint eval_l (env : list Z) (t : ltree) : outcome Z :=
  match t with
  | LConst ty z => of_opt (wrap_ty c3cfg ty z) OStuck
  | LVar ty n => of_opt (nth_error env n) OStuck
  | LBin ty o a b => x <~ eval_l env a ;; y <~ eval_l env b ;; eval_binop c3cfg ty o x y
  | LNeg ty a => x <~ eval_l env a ;; eval_unop c3cfg ty Neg x
  | LCast ty a => x <~ eval_l env a ;; of_opt (wrap_ty c3cfg ty x) OStuck
  | LBoolVal ty k => b <~ eval_k env k ;; ODone (if b then 1 else 0)
  end
with eval_k (env : list Z) (k : ktree) : outcome bool :=
  match k with
  | KYes => ODone true
  | KNo => ODone false
  | KCJ c a b yes no =>
      x <~ eval_l env a ;; y <~ eval_l env b ;;
      if eval_cond c x y then eval_k env yes else eval_k env no
  end.

(* rendering for the correspondence *)
Definition cty_name (t : cty) : string :=
  match t with CInt => "int" | CByte => "byte" | CBool => "bool" end%string.
Definition lower_outcome (w : Z) (env : list Z) (e : cexpr) : val :=
  match lower w e with
  | None => VDiag
  | Some (t, v, _) => VT [VS (cty_name t); toval (eval_l env v)]
  end.
Definition cond_outcome (w : Z) (env : list Z) (e : cexpr) : val :=
  match lower w e with
  | Some (CBool, _, k) => toval (eval_k env (k KYes KNo))
  | _ => VDiag
  end.
