(* Proofs/C10_fields.v — C10: range checks of wrap_negative/inrange (Gen.bitfun), Token.__setitem__ and the
   bit_range / bit_concat field setters (Model.TokenField), and the exported table of real fields (Gen.Tab_fields). *)
From PV Require Import Lib.Py Lib.Tac Spec.FieldSpec Gen.bitfun Model.TokenField Gen.Tab_fields.
From Coq Require Import String.
Open Scope Z_scope.

(* ---------------------------------------------------------------- wrap_negative / inrange *)
Lemma wrap_negative_ok value bits : 1 <= bits -> - 2 ^ (bits - 1) <= value < 2 ^ bits ->
  wrap_negative value bits = Ok (value mod 2 ^ bits).
Proof.
  intros Hb Hv. unfold wrap_negative. guards_ok. rewrite ?guard_true.
  rewrite !shiftl1_pow by lia.
  replace (negb ((- 2 ^ (bits - 1) <=? value) && (value <? 2 ^ bits - 1 + 1))) with false by lia.
  rewrite land_ones_mod by lia.
  assert (P : 0 < 2 ^ bits) by (apply Z.pow_pos_nonneg; lia).
  pose proof (Z.mod_pos_bound value (2 ^ bits) P).
  replace (value mod 2 ^ bits >=? 0) with true by lia. reflexivity.
Qed.

Lemma wrap_negative_rejects value bits : 1 <= bits -> ~ (- 2 ^ (bits - 1) <= value < 2 ^ bits) ->
  wrap_negative value bits = Diag 1.
Proof.
  intros Hb Hv. unfold wrap_negative. guards_ok. rewrite ?guard_true.
  rewrite !shiftl1_pow by lia.
  replace (negb ((- 2 ^ (bits - 1) <=? value) && (value <? 2 ^ bits - 1 + 1))) with true by lia.
  reflexivity.
Qed.

Lemma wrap_negative_accepts value bits : 1 <= bits ->
  ((exists t, wrap_negative value bits = Ok t) <-> - 2 ^ (bits - 1) <= value < 2 ^ bits).
Proof.
  intros Hb. split.
  - intros [t E]. destruct (Z.le_gt_cases (- 2 ^ (bits - 1)) value); destruct (Z.lt_ge_cases value (2 ^ bits));
      try lia; rewrite wrap_negative_rejects in E by lia; discriminate.
  - intros H. rewrite wrap_negative_ok by assumption. eauto.
Qed.

Lemma inrange_exact value bits : 1 <= bits -> inrange value bits = Ok (fitsb true bits value).
Proof.
  intros Hb. unfold inrange. guards_ok. rewrite ?guard_true. rewrite !shiftl1_pow by lia. reflexivity.
Qed.

(* ---------------------------------------------------------------- Token.__setitem__ / __getitem__ *)
Section SetItem.
Variables size bv b e : Z.
Hypothesis Hb : 0 <= b.
Hypothesis Hw : 0 < e - b.
Let w := e - b.

Lemma setitem_ok v : - 2 ^ w <= v < 2 ^ w ->
  tok_setitem size bv b e v =
  Ok (Z.lor (Z.land bv (Z.lxor (Z.shiftl 1 size - 1) (Z.shiftl (2 ^ w - 1) b))) (Z.shiftl (v mod 2 ^ w) b)).
Proof.
  intros Hv. unfold tok_setitem. fold w. guard_ok. rewrite shiftl1_pow by lia.
  assert (P : 0 < 2 ^ w) by (apply Z.pow_pos_nonneg; lia).
  replace (v >=? 2 ^ w) with false by lia.
  assert (E : (if v <? 0 then 2 ^ w + v else v) = v mod 2 ^ w).
  { destruct (Z.ltb_spec v 0).
    - apply (Z.mod_unique_pos v (2 ^ w) (-1)); lia.
    - symmetry. apply Z.mod_small; lia. }
  rewrite E. pose proof (Z.mod_pos_bound v (2 ^ w) P).
  guard_ok. guard_ok. reflexivity.
Qed.

Lemma setitem_too_big v : 2 ^ w <= v -> tok_setitem size bv b e v = Diag 1.
Proof.
  intros Hv. unfold tok_setitem. fold w. guard_ok. rewrite shiftl1_pow by lia.
  replace (v >=? 2 ^ w) with true by lia. reflexivity.
Qed.

Lemma setitem_too_small v : v < - 2 ^ w -> tok_setitem size bv b e v = Internal AssertionError.
Proof.
  intros Hv. unfold tok_setitem. fold w. guard_ok. rewrite shiftl1_pow by lia.
  assert (P : 0 < 2 ^ w) by (apply Z.pow_pos_nonneg; lia).
  replace (v >=? 2 ^ w) with false by lia.
  replace (v <? 0) with true by lia.
  replace ((2 ^ w + v >=? 0) && (2 ^ w + v <? 2 ^ w)) with false by lia. reflexivity.
Qed.

Lemma setitem_accepts v : (exists t, tok_setitem size bv b e v = Ok t) <-> - 2 ^ w <= v < 2 ^ w.
Proof.
  split.
  - intros [t E]. destruct (Z.lt_ge_cases v (- 2 ^ w)).
    + rewrite setitem_too_small in E by lia. discriminate.
    + destruct (Z.lt_ge_cases v (2 ^ w)); [lia|]. rewrite setitem_too_big in E by lia. discriminate.
  - intros H. rewrite setitem_ok by assumption. eauto.
Qed.

(* bit-level description of the new token value, for a slice inside the token *)
Lemma setitem_bits v bv' i : e <= size -> tok_setitem size bv b e v = Ok bv' -> 0 <= i ->
  Z.testbit bv' i = if (b <=? i) && (i <? e) then Z.testbit (v mod 2 ^ w) (i - b)
                    else Z.testbit bv i && (i <? size).
Proof.
  intros He E Hi.
  assert (Hv : - 2 ^ w <= v < 2 ^ w) by (apply setitem_accepts; eauto).
  rewrite setitem_ok in E by assumption. injection E as <-.
  assert (P : 0 < 2 ^ w) by (apply Z.pow_pos_nonneg; lia).
  pose proof (Z.mod_pos_bound v (2 ^ w) P) as B.
  rewrite Z.lor_spec, Z.land_spec, Z.lxor_spec, !Z.shiftl_spec by lia.
  rewrite shiftl1_pow by lia. rewrite !testbit_ones_full by lia.
  destruct ((b <=? i) && (i <? e)) eqn:In.
  - replace ((0 <=? i) && (i <? size)) with true by lia.
    replace ((0 <=? i - b) && (i - b <? w)) with true by lia. cbn [xorb].
    now rewrite andb_false_r.
  - assert (T : Z.testbit (v mod 2 ^ w) (i - b) = false).
    { destruct (Z.lt_ge_cases i b); [apply Z.testbit_neg_r; lia|]. apply (testbit_small _ w); lia. }
    rewrite T, orb_false_r.
    replace ((0 <=? i - b) && (i - b <? w)) with false by lia. rewrite xorb_false_r.
    replace (0 <=? i) with true by lia. reflexivity.
Qed.

Lemma getitem_bits x j : 0 <= j ->
  exists t, tok_getitem x b e = Ok t /\ Z.testbit t j = Z.testbit x (j + b) && (j <? w).
Proof.
  intros Hj. unfold tok_getitem. fold w. guard_ok. guard_ok. eexists. split; [reflexivity|].
  rewrite shiftl1_pow by lia.
  rewrite Z.shiftr_spec, Z.land_spec, Z.shiftl_spec by lia. rewrite testbit_ones_full by lia.
  replace (j + b - b) with j by lia. replace (0 <=? j) with true by lia. reflexivity.
Qed.

(* write then read gives back v mod 2^w *)
Lemma set_get v bv' : e <= size -> tok_setitem size bv b e v = Ok bv' ->
  tok_getitem bv' b e = Ok (v mod 2 ^ w).
Proof.
  intros He E.
  assert (P : 0 < 2 ^ w) by (apply Z.pow_pos_nonneg; lia).
  pose proof (Z.mod_pos_bound v (2 ^ w) P) as B.
  destruct (getitem_bits bv' 0 ltac:(lia)) as [t [G _]]. rewrite G. f_equal.
  apply Z.bits_inj'. intros j Hj.
  destruct (getitem_bits bv' j Hj) as [t' [G' T]]. rewrite G in G'. injection G' as <-.
  rewrite T. rewrite (setitem_bits v bv' (j + b) He E) by lia.
  destruct (Z.ltb_spec j w).
  - replace ((b <=? j + b) && (j + b <? e)) with true by lia.
    replace (j + b - b) with j by lia. apply andb_true_r.
  - rewrite andb_false_r. symmetry. apply (testbit_small _ w); lia.
Qed.
End SetItem.

(* decoding the stored bits of an in-range value gives the value *)
Lemma decode_mod s w v : 1 <= w -> fits s w v -> decode s w (v mod 2 ^ w) = v.
Proof.
  intros Hw F. unfold decode, fits in *. destruct s.
  - unfold decode_signed. rewrite Zplus_mod_idemp_l.
    assert (E : 2 ^ w = 2 * 2 ^ (w - 1)).
    { replace w with (1 + (w - 1)) at 1 by lia. rewrite Z.pow_add_r by lia. reflexivity. }
    rewrite Z.mod_small by lia. lia.
  - unfold decode_unsigned. rewrite Z.mod_mod by lia. apply Z.mod_small. lia.
Qed.

(* ---- bit_range fields: full-strength positive theorems inside the declared range, and the
   rejection envelope *)
Lemma range_field_exact size bv b e s v :
  0 <= b -> b < e -> e <= size -> fits s (e - b) v ->
  exists bv' t, field_set size bv (FRange (Part b e s)) v = Ok bv' /\
    field_get bv' (FRange (Part b e s)) = Ok t /\ decode s (e - b) t = v /\
    (forall i, 0 <= i < size -> ~ (b <= i < e) -> Z.testbit bv' i = Z.testbit bv i).
Proof.
  intros Hb Hbe He F. cbn [field_set field_get part_set part_get].
  assert (P : 0 < 2 ^ (e - b - 1)) by (apply Z.pow_pos_nonneg; lia).
  assert (E2 : 2 ^ (e - b) = 2 * 2 ^ (e - b - 1)).
  { replace (e - b) with (1 + (e - b - 1)) at 1 by lia. rewrite Z.pow_add_r by lia. reflexivity. }
  assert (Hv : - 2 ^ (e - b) <= v < 2 ^ (e - b)) by (unfold fits in F; destruct s; lia).
  destruct (proj2 (setitem_accepts size bv b e Hb ltac:(lia) v) Hv) as [bv' E].
  exists bv', (v mod 2 ^ (e - b)). split; [exact E|]. split.
  - apply (set_get size bv b e Hb ltac:(lia) v bv' He E).
  - split; [apply decode_mod; [lia|exact F]|].
    intros i Hi Hn. rewrite (setitem_bits size bv b e Hb ltac:(lia) v bv' i He E) by lia.
    replace ((b <=? i) && (i <? e)) with false by lia.
    replace (i <? size) with true by lia. apply andb_true_r.
Qed.

Lemma range_field_rejects size bv b e s v :
  0 <= b -> b < e -> ~ (- 2 ^ (e - b) <= v < 2 ^ (e - b)) ->
  field_set size bv (FRange (Part b e s)) v = Diag 1 \/
  field_set size bv (FRange (Part b e s)) v = Internal AssertionError.
Proof.
  intros Hb Hbe Hv. cbn [field_set part_set].
  destruct (Z.lt_ge_cases v (- 2 ^ (e - b))).
  - right. apply setitem_too_small; lia.
  - left. apply setitem_too_big; lia.
Qed.

(* what is accepted: exactly [-2^w, 2^w), whatever the declared signedness *)
Lemma range_field_accepts size bv b e s v :
  0 <= b -> b < e ->
  ((exists t, field_set size bv (FRange (Part b e s)) v = Ok t) <-> - 2 ^ (e - b) <= v < 2 ^ (e - b)).
Proof. intros Hb Hbe. cbn [field_set part_set]. apply setitem_accepts; lia. Qed.

(* ---- bit_concat fields never reject anything *)
Lemma pmask_land_range p x : 0 < psize p -> 0 <= Z.land x (pmask p) < 2 ^ psize p.
Proof.
  intros H. unfold pmask. rewrite shiftl1_pow by lia. rewrite land_ones_mod by lia.
  apply Z.mod_pos_bound. apply Z.pow_pos_nonneg; lia.
Qed.

Definition part_wf (p : part) : Prop := let 'Part b e _ := p in 0 <= b /\ b < e.

Lemma concat_never_rejects size ps : Forall part_wf ps -> forall bv v,
  exists bv', concat_set size bv ps v = Ok bv'.
Proof.
  induction 1 as [|p r Hp Hr IH]; intros bv v; cbn [concat_set]; [eauto|].
  destruct (IH bv v) as [bv1 E]. rewrite E. cbn [bind].
  destruct p as [b e s]. cbn [part_set]. cbn [part_wf] in Hp.
  apply setitem_accepts; [lia|lia|].
  pose proof (pmask_land_range (Part b e s) (Z.shiftr v (widths r)) ltac:(cbn; lia)) as R.
  cbn [psize] in R. lia.
Qed.

(* ================================================================ the exported table of real fields *)
Definition part_wfb (size : Z) (p : part) : bool :=
  let 'Part b e _ := p in (0 <=? b) && (b <? e) && (e <=? size).
Definition disjointb (p q : part) : bool :=
  let 'Part b e _ := p in let 'Part b' e' _ := q in (e <=? b') || (e' <=? b).
Fixpoint parts_disjointb (ps : list part) : bool :=
  match ps with [] => true | p :: r => forallb (disjointb p) r && parts_disjointb r end.
Definition field_wfb (size : Z) (f : field) : bool :=
  match f with
  | FRange p => part_wfb size p
  | FConcat ps => forallb (part_wfb size) ps && parts_disjointb ps
  end.

Definition row := (string * string * Z * field)%type.
Definition row_size (r : row) : Z := let '(_, _, size, _) := r in size.
Definition row_field (r : row) : field := let '(_, _, _, f) := r in f.

Lemma table_wellformed : forallb (fun r => field_wfb (row_size r) (row_field r)) fields_table = true.
Proof. vm_compute. reflexivity. Qed.

Lemma table_wellformed_all r : In r fields_table -> field_wfb (row_size r) (row_field r) = true.
Proof. intros H. exact (proj1 (forallb_forall _ _) table_wellformed r H). Qed.

(* write v into an all-zero token, read the field back, decode with the declared signedness *)
Definition roundtrip (size : Z) (f : field) (v : Z) : option Z :=
  match field_set size 0 f v with
  | Ok bv => match field_get bv f with Ok t => Some (decode (fsigned f) (fwidth f) t) | _ => None end
  | _ => None
  end.
Definition exact_on (size : Z) (f : field) (v : Z) : bool :=
  match roundtrip size f v with Some x => x =? v | None => false end.

Definition bvals (w : Z) : list Z :=
  let h := 2 ^ (w - 1) in let f := 2 ^ w in
  [0; -1; 1; h; - h; h - 1; h + 1; - h - 1; - h + 1; f; - f; f - 1; f + 1; - f - 1; - f + 1].
Definition in_range_vals (f : field) (l : list Z) : list Z := filter (fitsb (fsigned f) (fwidth f)) l.

(* every exported field (bit_range and bit_concat): the in-range boundary values are stored exactly *)
Lemma table_boundary_exact :
  forallb (fun r => forallb (exact_on (row_size r) (row_field r))
                            (in_range_vals (row_field r) (bvals (fwidth (row_field r))))) fields_table = true.
Proof. vm_compute. reflexivity. Qed.

(* every exported bit_concat field of width <= 16: ALL in-range values are stored exactly *)
Definition is_concat (f : field) : bool := match f with FConcat _ => true | _ => false end.
Definition full_range (f : field) : list Z :=
  if fsigned f then rangeZ (- 2 ^ (fwidth f - 1)) (2 ^ (fwidth f - 1)) else rangeZ 0 (2 ^ fwidth f).
Lemma table_concat_exact :
  forallb (fun r => if is_concat (row_field r) && (fwidth (row_field r) <=? 16)
                    then forallb (exact_on (row_size r) (row_field r)) (full_range (row_field r))
                    else true)
          fields_table = true.
Proof. vm_compute. reflexivity. Qed.

Lemma concat_exact_table r v :
  In r fields_table -> is_concat (row_field r) = true -> fwidth (row_field r) <= 16 ->
  fits (fsigned (row_field r)) (fwidth (row_field r)) v ->
  roundtrip (row_size r) (row_field r) v = Some v.
Proof.
  intros Hr Hc Hw F.
  pose proof (proj1 (forallb_forall _ _) table_concat_exact r Hr) as H. cbv beta in H.
  rewrite Hc in H. replace (fwidth (row_field r) <=? 16) with true in H by lia. cbn [andb] in H.
  assert (Hin : In v (full_range (row_field r))).
  { unfold full_range, fits in *. destruct (fsigned (row_field r)); apply rangeZ_In; lia. }
  pose proof (proj1 (forallb_forall _ _) H v Hin) as E. unfold exact_on in E.
  destruct (roundtrip (row_size r) (row_field r) v) as [x|]; [|discriminate].
  f_equal. lia.
Qed.

(* ---- the laxness, witnessed in real exported classes *)
Definition accepts (size : Z) (f : field) (v : Z) : bool :=
  match field_set size 0 f v with Ok _ => true | _ => false end.
Definition is_range (f : field) : bool := match f with FRange _ => true | _ => false end.

(* some real unsigned bit_range field accepts -1 and -2^w *)
Lemma table_unsigned_accepts_negative :
  existsb (fun r => let f := row_field r in
     is_range f && negb (fsigned f) && accepts (row_size r) f (-1) && accepts (row_size r) f (- 2 ^ fwidth f))
     fields_table = true.
Proof. vm_compute. reflexivity. Qed.

(* some real signed bit_range field accepts 2^w - 1, which reads back as -1 *)
Lemma table_signed_accepts_large_positive :
  existsb (fun r => let f := row_field r in
     is_range f && fsigned f && negb (fitsb true (fwidth f) (2 ^ fwidth f - 1)) &&
     match roundtrip (row_size r) f (2 ^ fwidth f - 1) with Some x => x =? -1 | None => false end)
     fields_table = true.
Proof. vm_compute. reflexivity. Qed.

(* some real bit_concat field accepts 2^w + 1 and stores 1 *)
Lemma table_concat_truncates :
  existsb (fun r => let f := row_field r in
     is_concat f && negb (fsigned f) &&
     match roundtrip (row_size r) f (2 ^ fwidth f + 1) with Some x => x =? 1 | None => false end)
     fields_table = true.
Proof. vm_compute. reflexivity. Qed.

Lemma exists_row (P : row -> bool) : existsb P fields_table = true -> exists r, In r fields_table /\ P r = true.
Proof. intros H. apply existsb_exists in H. exact H. Qed.

(* ---- generic refutations of the full-strength statements (no table needed) *)
Lemma field_rejects_refuted :
  exists size bv f v bv', ~ fits (fsigned f) (fwidth f) v /\ field_set size bv f v = Ok bv'.
Proof.
  exists 32, 0, (FRange (Part 20 32 false)), (-1), 4293918720. split; [|vm_compute; reflexivity].
  unfold fits. cbn. lia.
Qed.

Lemma field_exact_refuted :
  exists size bv f v bv' t, field_set size bv f v = Ok bv' /\ field_get bv' f = Ok t /\
    decode (fsigned f) (fwidth f) t <> v.
Proof.
  exists 8, 0, (FRange (Part 0 8 true)), 200, 200, 200. split; [vm_compute; reflexivity|].
  split; [vm_compute; reflexivity|]. vm_compute. discriminate.
Qed.

Lemma concat_truncates_refuted :
  exists size bv f v bv' t, ~ fits (fsigned f) (fwidth f) v /\ field_set size bv f v = Ok bv' /\
    field_get bv' f = Ok t /\ decode (fsigned f) (fwidth f) t <> v.
Proof.
  exists 32, 0, (FConcat [Part 25 32 false; Part 7 12 false]), 5000, 939525120, 904.
  split; [unfold fits; cbn; lia|]. split; [vm_compute; reflexivity|].
  split; [vm_compute; reflexivity|]. vm_compute. discriminate.
Qed.

Lemma wrap_negative_signed_refuted :
  exists w v t, wrap_negative v w = Ok t /\ ~ fits true w v /\ decode_signed w t <> v.
Proof.
  exists 8, 200, 200. split; [vm_compute; reflexivity|]. split; [unfold fits; cbn; lia|].
  vm_compute. discriminate.
Qed.

(* the riscv branch case of DESIGN §6 item 23: (4100/2) passes wrap_negative 12 and reads back as -2046 = -4092/2 *)
Lemma wrap_negative_beq_4100 :
  wrap_negative (4100 / 2) 12 = Ok 2050 /\ decode_signed 12 2050 * 2 = -4092.
Proof. vm_compute. split; reflexivity. Qed.
